"""C18 bounded stand-ins: the real `ucg` binary is started with exactly a generated environment (`env=` of subprocess, nothing inherited).

Oracle (property statement + reference/expressions.md "The environment symbol"):
  * `env.NAME` (quoted selector `env."NAME"` when NAME is no UCG symbol or is a reserved word) is the variable's value as a string - read back
    from `out json {...}` with a JSON parser;
  * a name that is not set (random, or a near miss of a set one: other case, prefix, suffix added): strict mode -> that file does not build,
    exit status != 0, the output names the variable and contains no value (nor the distinctive token embedded in a value) of any variable;
    `--no-strict` -> builds, the expression is NULL (json null);
  * `let env = ...;` does not build; `{env = 1}.env`, `t.env`, `t.inner.env.X` are the tuple's fields even when the environment has such a variable.
Bounded: the generated environments named in `bound`."""
import json
import os
import random
import shutil
import string
import tempfile

import realcode as R

NAMECH = string.ascii_letters + string.digits + '_'
PIECES = ['é', '日本', '😀', "'", '"', ' ', '  ', '=', '==', '\n', '\t', '\\', '$', '`', 'a', 'Z', '0', '-', '/', ':', ';', '#', '%', '{', '}', '[', ']', '*', '&', '|', '<', '>',
          '\x01', '\x7f', '​', 'ß', 'Ω', 'я', '\r', '$(id)', '${HOME}', 'NULL', 'env.', ' ', ' ']
# names that would change how the binary itself starts / behaves are not generated
AVOID = ('UCG', 'RUST', 'LD_', 'MALLOC', 'GLIBC', 'TMPDIR', 'HOME', 'PATH', 'LANG', 'LC_')

# always included: empty values, lower / mixed case names that differ only in case (with different values), digits and underscores
FIXED = {'EMPTY': '', 'empty_too': '', 'http_proxy': 'http://proxy.example:3128/?a=b&c=d', 'Token': 'mixed-Tfixed0000001', 'TOKEN': 'upper-Tfixed0000002', 'token': 'lower-Tfixed0000003',
         'A1_b2__C3': 'digits and underscores', '_LEAD': '_ first', '9DIG': 'digit first', '__': 'only underscores', 'x': 'one letter', 'X': 'ONE LETTER', 'BLANK': ' ', 'EQ': '=', 'NL': '\n'}

# environments on which the real code violates the property (none on the pinned HEAD)
KNOWN = []


def reserved():
    try:
        from bounded import base
        return set(base.doc_reserved())
    except Exception:
        return set(['self', 'assert', 'true', 'false', 'let', 'import', 'as', 'include', 'select', 'func', 'module', 'env', 'map', 'filter', 'reduce', 'convert', 'NULL', 'out', 'in', 'is',
                    'not', 'fail', 'constraint', 'trace'])


def sel(name, rnd, rsv):
    """Selector text for the variable: bare when it is a UCG symbol (starts with an ASCII letter) and not reserved; otherwise (and at random) quoted."""
    bare_ok = name[0] in string.ascii_letters and name not in rsv
    if bare_ok and rnd.random() < 0.7:
        return 'env.%s' % name
    return 'env."%s"' % name


def token(rnd):
    return 'T' + ''.join(rnd.choice(string.ascii_letters + string.digits) for _ in range(11)) + 'k'


def gen_env(rnd, nvars):
    """-> (dict name -> value, dict name -> token embedded in the value or None)"""
    env, toks = {}, {}
    while len(env) < nvars:
        nm = ''.join(rnd.choice(NAMECH) for _ in range(rnd.choice([1, 2, 3, 5, 8, 12, 20])))
        if nm in env or nm.upper().startswith(AVOID):
            continue
        k = rnd.choice([0, 0, 1, 2, 3, 5, 8, 13, 20])
        parts = [rnd.choice(PIECES) for _ in range(k)]
        tk = None
        if rnd.random() < 0.6:
            tk = token(rnd)
            parts.insert(rnd.randint(0, len(parts)), tk)
        env[nm] = ''.join(parts)
        toks[nm] = tk
    return env, toks


def unset_names(rnd, env):
    res = []
    for nm in list(env)[:3]:
        for cand in (nm.swapcase(), nm[:-1], nm + '_X', nm + '0'):
            if cand and cand not in env and cand not in res and cand != nm:
                res.append(cand)
                break
    # one long name: a diagnostic must still NAME the variable (not a prefix of it)
    res = res[:3]
    res.append('VERIF_LONG_' + ''.join(rnd.choice(NAMECH) for _ in range(rnd.choice([22, 30, 53, 120]))))
    while len(res) < 4:
        cand = 'VERIF_' + ''.join(rnd.choice(NAMECH) for _ in range(rnd.randint(1, 10)))
        if cand not in env and cand not in res:
            res.append(cand)
    return res[:4]


def viol(bound, n, detail, **inp):
    return dict(name='env_random', bound=bound, cases=n, status='violation', detail=detail[:700], input=inp)


def show_env(env):
    return ' '.join('%s=%r' % kv for kv in env.items())


def standin_env_random(tier, seed):
    rnd = random.Random(seed)
    rsv = reserved()
    sizes = [0, 3, 10] if tier != 'thorough' else list(range(0, 11)) * 3
    bound = ('1 fixed environment (empty values, http_proxy, Token/TOKEN/token with different values, digits/underscores, leading _ and digit) + %d random environments of %s variables (names over [A-Za-z0-9_] of 1..20 chars incl. leading digit/underscore, lower case, reserved words; values of 0..20 pieces of Unicode, quotes, blanks, `=`, newlines, '
             'control characters, 60%% with an embedded distinctive token), each: every variable read in strict and --no-strict mode (all in one tuple literal, and again one statement per variable rotating through plain let / function body / module body / map callback), 4 unset names (near misses of set names + random; same four program shapes) in both modes, '
             'tuple fields named env; + 4 programs with a parameter named env; + 4 `let env` programs') % (len(sizes), '0..10' if tier == 'thorough' else '/'.join(map(str, sizes)))
    work = tempfile.mkdtemp(prefix='verif_c18_')
    n = 0
    try:
        for ei, size in enumerate(['fixed'] + sizes):
            if size == 'fixed':
                env = dict(FIXED)
                toks = {k: ('Tfixed' + v.split('Tfixed')[1][:8] if 'Tfixed' in v else None) for k, v in env.items()}
            else:
                env, toks = gen_env(rnd, size)
            if ei == 2:
                env['env'] = 'a variable called env'       # env.env is that variable
                toks['env'] = None
            names = list(env)
            if show_env(env) in KNOWN:
                continue
            sels = [sel(nm, rnd, rsv) for nm in names]
            hit = 'out json {%s};\n' % ', '.join(['n = 1'] + ['v%d = %s' % (i, s) for i, s in enumerate(sels)])
            k = names[0] if names else 'X'
            kq = '"%s"' % k
            fld = ('let t = {env = 1, inner = {env = {%s = "field"}}};\nlet lit = {env = {%s = "lit"}}.env;\nout json {a = {env = 1}.env, b = t.env, c = t.inner.env.%s, d = lit.%s, e = {env = "s"}.env};\n'
                   % (kq, kq, kq, kq))
            fld_exp = {'a': 1, 'b': 1, 'c': 'field', 'd': 'lit', 'e': 's'}
            misses = unset_names(rnd, env)
            files = {'hit.ucg': hit, 'fld.ucg': fld}
            # the same reads in other program shapes: one statement per variable; inside a function body, a module body, a map callback
            def wrapped(i, s_):
                k_ = i % 4
                if k_ == 0:
                    return 'let v%d = %s;\n' % (i, s_)
                if k_ == 1:
                    return 'let f%d = func(x) => %s;\nlet v%d = f%d(1);\n' % (i, s_, i, i)
                if k_ == 2:
                    return 'let m%d = module {} => (r) { let r = %s; };\nlet v%d = m%d{};\n' % (i, s_, i, i)
                return 'let l%d = map(func(x) => %s, [1]);\nlet v%d = l%d.0;\n' % (i, s_, i, i)
            rot = rnd.randint(0, 3)
            hit2 = ''.join(wrapped(i + rot, s_) for i, s_ in enumerate(sels))
            hit2 += 'out json {%s};\n' % ', '.join(['n = 1'] + ['v%d = v%d' % (i, i + rot) for i in range(len(sels))])
            files['hit2.ucg'] = hit2
            for j, u in enumerate(misses):
                su = sel(u, rnd, rsv)
                shape = (j + ei) % 4
                if shape == 0:
                    files['miss%d.ucg' % j] = 'let x = %s;\nout json {v = x};\n' % su
                elif shape == 1:
                    files['miss%d.ucg' % j] = 'let f = func(a) => %s;\nlet x = f(1);\nout json {v = x};\n' % su
                elif shape == 2:
                    files['miss%d.ucg' % j] = 'let m = module {} => (r) { let r = %s; };\nlet x = m{};\nout json {v = x};\n' % su
                else:
                    files['miss%d.ucg' % j] = 'let l = map(func(a) => %s, [1]);\nlet x = l.0;\nout json {v = x};\n' % su
            for f, src in files.items():
                open(os.path.join(work, f), 'w', encoding='utf-8').write(src)
            envs = 'environment (exactly): ' + (show_env(env) or '(empty)')
            for mode, flags in (('strict', []), ('--no-strict', ['--no-strict'])):
                for f in files:
                    p = os.path.join(work, f[:-4] + '.json')
                    if os.path.exists(p):
                        os.remove(p)
                rc, so, se = R.run_ucg(flags + ['build'] + list(files), work, env=env)
                out = so + se
                how = '`ucg %sbuild %s` started with %s' % (' '.join(flags) + ' ' if flags else '', ' '.join(files), envs)

                def js(f):
                    p = os.path.join(work, f[:-4] + '.json')
                    if not os.path.exists(p):
                        return None
                    try:
                        return json.load(open(p, encoding='utf-8'))
                    except Exception as e:           # noqa
                        return 'unparsable: %r' % open(p, 'rb').read()[:200]
                # set variables
                got = js('hit.ucg')
                exp = dict([('n', 1)] + [('v%d' % i, env[nm]) for i, nm in enumerate(names)])
                n += max(1, len(names))
                if not isinstance(got, dict):
                    return viol(bound, n, '%s mode: the program that reads every set variable does not build: %s' % (mode, ' '.join(([x for x in out.split('Building ') if x.startswith('hit.ucg')] or [out])[0][-400:].split())), source=hit, env=env, expected=exp,
                                observed=out[-600:], how=how)
                if got != exp:
                    bad = [(names[i], sels[i]) for i in range(len(names)) if not isinstance(got, dict) or got.get('v%d' % i) != env[names[i]]]
                    return viol(bound, n, '%s mode: %s evaluates to %r, the variable holds %r' % (
                        mode, bad[0][1] if bad else 'the program', got.get('v%d' % names.index(bad[0][0])) if bad and isinstance(got, dict) else got, env[bad[0][0]] if bad else exp),
                        source=hit, env=env, expected=exp, observed=got if got is not None else out[-400:], how=how)
                got = js('hit2.ucg')
                n += max(1, len(names))
                if got != exp:
                    return viol(bound, n, '%s mode: the same variables read one statement at a time / inside a function, a module, a map callback: %s' % (
                        mode, ('artifact %r, expected %r' % (got, exp)) if got is not None else 'the program does not build: ' + ' '.join(([x for x in out.split('Building ') if x.startswith('hit2.ucg')] or [out])[0][-400:].split())),
                        source=hit2, env=env, expected=exp, observed=got if got is not None else out[-600:], how=how)
                # fields named env
                got = js('fld.ucg')
                n += 1
                if got != fld_exp:
                    return viol(bound, n, '%s mode: tuple fields named env: %r, expected %r' % (mode, got, fld_exp), source=fld, env=env, expected=fld_exp, observed=got if got is not None else out[-400:], how=how)
                # unset variables
                for j, u in enumerate(misses):
                    n += 1
                    got = js('miss%d.ucg' % j)
                    src = files['miss%d.ucg' % j]
                    if mode == 'strict':
                        if got is not None or rc == 0:
                            return viol(bound, n, 'strict mode: %s is not set, yet the file builds (exit status %d, artifact %r)' % (u, rc, got), source=src, env=env, expected='build error, exit status != 0',
                                        observed='rc=%d artifact=%r' % (rc, got), how=how)
                        if u not in out:
                            return viol(bound, n, 'strict mode: the diagnostic for the unset variable %s does not name it: %s' % (u, out[-300:]), source=src, env=env, expected='a message naming %s' % u, observed=out[-600:], how=how)
                    else:
                        if got != {'v': None}:
                            return viol(bound, n, '--no-strict: unset %s must evaluate to NULL, observed %s' % (u, got if got is not None else 'a failed build: ' + out[-200:]), source=src, env=env,
                                        expected={'v': None}, observed=got if got is not None else out[-400:], how=how)
                if mode == '--no-strict' and rc != 0:
                    return viol(bound, n, '--no-strict: exit status %d: %s' % (rc, out[-300:]), source=dict(files), env=env, expected='exit 0', observed=out[-600:], how=how)
                # nothing of any value may show up in what the build prints
                for nm in names:
                    n += 1
                    for needle in (toks[nm], env[nm] if len(env[nm]) >= 8 else None):
                        if needle and needle in out and needle not in work and not any(needle in s_ for s_ in files.values()):
                            return viol(bound, n, '%s mode: the build output discloses the value of %s (%r found): ...%s' % (mode, nm, needle, out[max(0, out.find(needle) - 120):out.find(needle) + 60]),
                                        source=dict(files), env=env, expected='no value of any variable in the output', observed=out[-1200:], how=how)
        # a parameter named env: either refused, or `env.NAME` inside still is the variable (never the argument)
        shadow = ['let f = func (env) => env.HOME;\nlet x = f({HOME = "forged"});\nout json {v = x};\n',
                  'let l = map(func (env) => env.HOME, [{HOME = "forged"}]);\nout json {v = l.0};\n',
                  'let l = reduce(func (acc, env) => env.HOME, "", [{HOME = "forged"}]);\nout json {v = l};\n',
                  'let f = func (a, env) => env.HOME;\nlet x = f(1, {HOME = "forged"});\nout json {v = x};\n']
        for i, src in enumerate(shadow):
            open(os.path.join(work, 'sh%d.ucg' % i), 'w').write(src)
            if os.path.exists(os.path.join(work, 'sh%d.json' % i)):
                os.remove(os.path.join(work, 'sh%d.json' % i))
            rc, so, se = R.run_ucg(['build', 'sh%d.ucg' % i], work, env={'HOME': '/home/verif'})
            n += 1
            art = None
            if os.path.exists(os.path.join(work, 'sh%d.json' % i)):
                try:
                    art = json.load(open(os.path.join(work, 'sh%d.json' % i)))
                except Exception:
                    art = 'unparsable'
            if rc == 0 and art != {'v': '/home/verif'}:
                return viol(bound, n, 'inside a function whose parameter is called env, env.HOME evaluates to %r; HOME is /home/verif' % (art,), source=src, env={'HOME': '/home/verif'},
                            expected='a build error, or {"v": "/home/verif"}', observed='rc=0 artifact=%r' % (art,), how='`ucg build sh%d.ucg` started with HOME=/home/verif' % i)
        # `env` cannot be bound by let
        lets = ['let env = 1;\n', 'let env = {HOME = "x"};\nout json {v = env.HOME};\n', 'let a = 1;\nlet env = a;\nout json {v = env};\n', 'let env = env;\n']
        for i, src in enumerate(lets):
            open(os.path.join(work, 'le%d.ucg' % i), 'w').write(src)
        for flags in ([], ['--no-strict']):
            rc, so, se = R.run_ucg(flags + ['build'] + ['le%d.ucg' % i for i in range(len(lets))], work, env={'HOME': '/home/verif'})
            n += len(lets)
            arts = [f for f in os.listdir(work) if f.startswith('le') and not f.endswith('.ucg')]
            if rc == 0 or arts:
                return viol(bound, n, '`let env = ...` builds (exit status %d, artifacts %s)' % (rc, arts), source=lets, expected='every file is a build error', observed='rc=%d %s' % (rc, (so + se)[-300:]),
                            how='`ucg %s build le0.ucg ... le3.ucg`' % ' '.join(flags))
            if tier != 'thorough':
                break
        rc, so, se = R.run_ucg(['build', 'le0.ucg'], work, env={})
        n += 1
        if rc == 0:
            return viol(bound, n, '`let env = 1;` builds', source=lets[0], expected='build error', observed='rc=0 ' + (so + se)[-200:], how='`ucg build le0.ucg`')
    finally:
        shutil.rmtree(work, ignore_errors=True)
    return dict(name='env_random', bound=bound, cases=n, status='ok')


STANDINS = [standin_env_random]
