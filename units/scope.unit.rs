//@ unit scope
//@ serves C10 C18
//@ must_verify VM::op_func VM::to_new_pointer VM::with_import_stack VM::with_pointer VM::op_new_scope VM::fcall_impl VM::op_func VM::push Stack::new Stack::get Stack::is_bound Stack::add Stack::snapshot Stack::remove_symbol VM::binding_push VM::op_bind VM::clean_copy VM::to_scoped VM::pop
//@ include prelude/head.rs
use std::rc::Rc;

verus! {
//@ include prelude/core.rs
//@ opaque Position VPathBuf OpPointer Builtins Module ConstraintVal VEnvCell
//@ clone_spec Position VPathBuf OpPointer Builtins Stack

#[verifier::external_body]
pub struct Error { _p: u8 }
impl Error {
    #[verifier::external_body]
    pub fn new(msg: String, pos: Position) -> Self { unimplemented!() }
}
//@ extract src/build/opcode/mod.rs :: enum Primitive
//@   rule R0
//@ end
//@ extract src/build/opcode/mod.rs :: enum Composite
//@   rule R0
//@ end
//@ extract src/build/opcode/mod.rs :: enum Value
//@   rule R0
//@ end
//@ extract src/build/opcode/mod.rs :: struct Func
//@   rule R0 RV
//@ end
use Primitive::{Bool, Empty, Float, Int, Str};
use Composite::{List, Tuple};
use Value::{C, F, K, M, P, S, T};

//@ include prelude/vmap.rs

// ---------- the symbol table ----------
//@ extract src/build/opcode/scope.rs :: struct Stack
//@   rule R0 RV
//@   subst "curr: BTreeMap<Rc<str>, (Rc<Value>, Position)>" => "curr: VMap"
//@ end

//@ extract src/build/opcode/scope.rs :: impl Stack :: fn new
//@   subst "BTreeMap::new()" => "VMap::new()"
//@   ret r
//@   sig <<<
        ensures r.curr@ == Map::<Seq<char>, (Rc<Value>, Position)>::empty()
//@   >>>
//@ end
//@ extract src/build/opcode/scope.rs :: impl Stack :: fn get
//@   subst "self.curr.get(name).cloned()" => "self.curr.get_cloned(name)"
//@   ret r
//@   sig <<<
        ensures
            self.curr@.contains_key(name@) ==> r == Some(self.curr@[name@]),
            !self.curr@.contains_key(name@) ==> r is None,
//@   >>>
//@ end
//@ extract src/build/opcode/scope.rs :: impl Stack :: fn is_bound
//@   ret r
//@   sig <<<
        ensures r == self.curr@.contains_key(name@)
//@   >>>
//@   mutant is_bound_never "self.curr.contains_key(name)" => "false && self.curr.contains_key(name)" expect is_bound
//@ end
//@ extract src/build/opcode/scope.rs :: impl Stack :: fn add
//@   sig <<<
        ensures final(self).curr@ == old(self).curr@.insert(name@, (val, pos))
//@   >>>
//@ end
//@ extract src/build/opcode/scope.rs :: impl Stack :: fn remove_symbol
//@   ret r
//@   sig <<<
        ensures final(self).curr@ == old(self).curr@.remove(name@)
//@   >>>
//@ end
//@ extract src/build/opcode/scope.rs :: impl Stack :: fn snapshot
//@   ret r
//@   sig <<<
        // a copy: later changes of `self` cannot reach it (it owns its own map)
        ensures r.curr@ == self.curr@
//@   >>>
//@ end

// ---------- reserved words ----------
//@ hook reserved_words

// `true`, `false` and `env` never reach the evaluator as a binding name: the first two are boolean
// literals for the tokenizer, `env` is refused by the parser (src/parse/mod.rs). Checked on the real
// binary by the bounded stand-in `reserved_let` (thorough tier). Every other published reserved word
// must be refused by the evaluator.
pub open spec fn must_refuse(s: Seq<char>) -> bool {
    doc_reserved(s) && s != "true"@ && s != "false"@ && s != "env"@
}

// the &'static BTreeSet built by reserved_words(): contains exactly the literal list (generated above)
#[verifier::external_body]
pub struct ReservedWords { _p: u8 }
impl ReservedWords {
    #[verifier::external_body]
    pub fn contains(&self, s: &str) -> (r: bool)
        ensures r == src_reserved(s@)
    { unimplemented!() }
}
impl Clone for ReservedWords {
    #[verifier::external_body]
    fn clone(&self) -> (r: Self) ensures r == *self { unimplemented!() }
}
impl Copy for ReservedWords {}

//@ extract src/build/opcode/vm.rs :: struct VM
//@   rule R0 RV
//@   subst "working_dir: PathBuf" => "working_dir: VPathBuf"
//@   subst "runtime: runtime::Builtins" => "runtime: Builtins"
//@   subst "reserved_words: &'static BTreeSet<&'static str>" => "reserved_words: ReservedWords"
//@ end

pub open spec fn scope_of(vm: VM) -> Map<Seq<char>, (Rc<Value>, Position)> { vm.symbols.curr@ }

pub open spec fn others_unchanged(a: VM, b: VM) -> bool {
    a.stack == b.stack && a.self_stack == b.self_stack && a.ops == b.ops && a.import_stack == b.import_stack
    && a.working_dir == b.working_dir && a.runtime == b.runtime && a.reserved_words == b.reserved_words && a.last == b.last
}

//@ extract src/build/opcode/vm.rs :: impl VM :: fn binding_push
//@   rule R1
//@   ret r
//@   sig <<<
        ensures
            others_unchanged(*old(self), *final(self)),
            // a reserved word can never be bound
            must_refuse(name@) ==> r is Err,
            // an existing binding is never changed by a strict bind (immutability)
            (strict && scope_of(*old(self)).contains_key(name@)) ==> r is Err,
            r is Err ==> scope_of(*final(self)) == scope_of(*old(self)),
            // otherwise exactly this one name is (re)bound; every other binding is untouched
            r is Ok ==> scope_of(*final(self)) == scope_of(*old(self)).insert(name@, (val, *pos)),
            r is Ok <==> !src_reserved(name@) && !(strict && scope_of(*old(self)).contains_key(name@)),
//@   >>>
//@   mutant bind_nonstrict "self.symbols.is_bound(&name) && strict" => "self.symbols.is_bound(&name) && !strict" expect binding_push
//@   mutant bind_no_reserved "if self.reserved_words.contains(name.as_ref()) {" => "if false && self.reserved_words.contains(name.as_ref()) {" expect binding_push
//@ end

//@ extract src/build/opcode/vm.rs :: impl VM :: fn pop
//@   subst "Some(v.clone())" => "Some((v.0.clone(), v.1.clone()))"
//@   ret r
//@   sig <<<
        requires old(self).stack@.len() > 0
        ensures r is Ok, r->Ok_0 == old(self).stack@.last(), final(self).stack@ == old(self).stack@.drop_last(),
            final(self).symbols == old(self).symbols, final(self).reserved_words == old(self).reserved_words,
//@   >>>
//@ end

//@ extract src/build/opcode/vm.rs :: impl VM :: fn op_bind
//@   ret r
//@   sig <<<
        // translator invariant (caller obligation): a symbol and a value were pushed
        requires old(self).stack@.len() >= 2, *old(self).stack@[old(self).stack@.len() - 2].0 is S
        ensures ({
            let n = old(self).stack@.len() as int;
            let name = (*old(self).stack@[n - 2].0)->S_0@; let val = old(self).stack@[n - 1];
            &&& (must_refuse(name) ==> r is Err)
            &&& ((strict && scope_of(*old(self)).contains_key(name)) ==> r is Err)
            &&& (r is Err ==> scope_of(*final(self)) == scope_of(*old(self)))
            &&& (r is Ok ==> scope_of(*final(self)) == scope_of(*old(self)).insert(name, (val.0, val.1)))
        })
//@   >>>
//@   mutant op_bind_swapped "self.binding_push(name.clone(), val, strict, &val_pos, &name_pos)" => "self.binding_push(name.clone(), val, !strict, &val_pos, &name_pos)" expect op_bind
//@ end

//@ extract src/build/opcode/vm.rs :: impl VM :: fn clean_copy
//@   ret r
//@   sig <<<
        // module isolation: a clean VM sees none of the surrounding bindings
        ensures scope_of(r) == Map::<Seq<char>, (Rc<Value>, Position)>::empty(), r.stack@.len() == 0,
//@   >>>
//@   mutant clean_copy_leaks "symbols: Stack::new()," => "symbols: self.symbols.snapshot()," expect clean_copy
//@ end
//@ extract src/build/opcode/vm.rs :: impl VM :: fn to_scoped
//@   rule R4
//@   ret r
//@   sig <<<
        ensures scope_of(r) == symbols.curr@, r.stack == self.stack,
//@   >>>
//@ end


// ---------- scopes of functions and nested scopes ----------
// slice::to_vec: only the import stack is copied with it; its content is irrelevant here
pub assume_specification<T: Clone> [<[T]>::to_vec] (s: &[T]) -> (r: Vec<T>);
// slice::reverse (std): reverses in place
pub assume_specification<T> [<[T]>::reverse] (s: &mut [T])
    ensures final(s)@ == old(s)@.reverse();

impl Builtins {
    #[verifier::external_body]
    pub fn new(strict: bool) -> Self { unimplemented!() }
}
#[verifier::external_body]
fn reserved_words() -> ReservedWords { unimplemented!() }
// std::env::current_dir() (R8: outside the unit)
#[verifier::external_body]
fn verif_current_dir() -> Result<VPathBuf, Error> { unimplemented!() }
impl OpPointer {
    // OpPointer::jump is proved in unit vm_ctrl; only its effect-freedom on other state matters here
    #[verifier::external_body]
    pub fn jump(&mut self, ptr: usize) -> Result<(), Error> { unimplemented!() }
}

impl VM {
    // VM::run (R8: the whole interpreter loop) - ASSUMED: on success the evaluated scope left its
    // result on the stack (translator invariant). Nothing is assumed about what it does to the child VM.
    #[verifier::external_body]
    pub fn run(&mut self, env: &VEnvCell) -> (r: Result<(), Error>)
        ensures r is Ok ==> final(self).stack@.len() > 0
    { unimplemented!() }

    // proved in unit vm_ctrl; here only: it touches nothing but the instruction pointer
    #[verifier::external_body]
    fn op_jump(&mut self, jp: i32) -> (r: Result<(), Error>)
        ensures final(self).symbols == old(self).symbols, final(self).stack == old(self).stack,
    { unimplemented!() }
}

//@ extract src/build/opcode/vm.rs :: impl VM :: fn push
//@   ret r
//@   sig <<<
        ensures r is Ok, final(self).stack@ == old(self).stack@.push((val, pos)),
            final(self).symbols == old(self).symbols,
//@   >>>
//@ end
//@ extract src/build/opcode/vm.rs :: impl VM :: fn to_new_pointer
//@   rule R4
//@   ret r
//@   sig <<<
        ensures r.symbols == self.symbols, r.stack == self.stack,
//@   >>>
//@ end
//@ extract src/build/opcode/vm.rs :: impl VM :: fn with_import_stack
//@   rule R4
//@   ret r
//@   sig <<<
        ensures r.symbols == self.symbols, r.stack == self.stack,
//@   >>>
//@ end
//@ extract src/build/opcode/vm.rs :: impl VM :: fn with_pointer
//@   subst "with_pointer<P: Into<PathBuf>>(strict: bool, ops: OpPointer, working_dir: P)" => "with_pointer(strict: bool, ops: OpPointer, working_dir: VPathBuf)"
//@   subst "working_dir: working_dir.into()," => "working_dir: working_dir,"
//@   subst "runtime::Builtins::new(strict)" => "Builtins::new(strict)"
//@   ret r
//@   sig <<<
        ensures scope_of(r) == Map::<Seq<char>, (Rc<Value>, Position)>::empty(), r.stack@.len() == 0,
//@   >>>
//@ end

//@ extract src/build/opcode/vm.rs :: impl VM :: fn op_new_scope
//@   subst "fn op_new_scope<O, E>(" => "fn op_new_scope("
//@   subst "env: &RefCell<Environment<O, E>>," => "env: &VEnvCell,"
//@   subst "where O: std::io::Write + Clone, E: std::io::Write + Clone," => ""
//@   ret r
//@   sig <<<
        // whatever happens inside the nested scope (e.g. a format string binding `item`),
        // the enclosing scope's bindings are exactly what they were
        ensures scope_of(*final(self)) == scope_of(*old(self)),
//@   >>>
//@   before "vm.run(env)?;" <<<
        // the nested scope starts from a copy of the enclosing bindings
        assert(scope_of(vm) == scope_of(*old(self)));
//@   >>>
//@   mutant new_scope_clean ".to_scoped(scope_snapshot)" => ".to_scoped(Stack::new())" expect op_new_scope
//@ end

// the first k parameters bound, in order, on top of the captured snapshot; parameter j takes the
// j-th value from the top of the caller's value stack `st`
pub open spec fn bind_args(base: Map<Seq<char>, (Rc<Value>, Position)>, names: Seq<Rc<str>>, st: Seq<(Rc<Value>, Position)>, k: int) -> Map<Seq<char>, (Rc<Value>, Position)>
    decreases k
{
    if k <= 0 { base } else { bind_args(base, names, st, k - 1).insert(names[k - 1]@, (st[st.len() - k].0, st[st.len() - k].1)) }
}

//@ extract src/build/opcode/vm.rs :: impl VM :: fn fcall_impl
//@   rule R1
//@   subst "pub fn fcall_impl<O, E>(" => "pub fn fcall_impl("
//@   subst "env: &RefCell<Environment<O, E>>," => "env: &VEnvCell,"
//@   subst "where O: std::io::Write + Clone, E: std::io::Write + Clone," => ""
//@   subst "std::env::current_dir()?" => "verif_current_dir()?"
//@   subst "let Func { ptr, bindings, snapshot, } = f;" => "let ptr = &f.ptr; let bindings = &f.bindings; let snapshot = &f.snapshot;"
//@   ret r
//@   sig <<<
        requires
            // translator invariant (caller obligation): one value per parameter is on the stack
            old(stack)@.len() >= f.bindings@.len(),
            // parameter names are not reserved words (the parser guarantees it)
            forall|j: int| 0 <= j < f.bindings@.len() ==> !src_reserved(#[trigger] f.bindings@[j]@),
//@   >>>
//@   loop 1 iter it <<<
            invariant
                it.seq().len() == bindings@.len(),
                forall|j: int| 0 <= j < bindings@.len() ==> *it.seq()[j] == bindings@[j],
                bindings@ == f.bindings@,
                forall|j: int| 0 <= j < f.bindings@.len() ==> !src_reserved(#[trigger] f.bindings@[j]@),
                stack@.len() + it.index@ == old(stack)@.len(), old(stack)@.len() >= f.bindings@.len(),
                stack@ =~= old(stack)@.subrange(0, stack@.len() as int),
                // the callee's scope = definition-time snapshot + the arguments bound so far (last pushed = first parameter)
                scope_of(vm) == bind_args(f.snapshot.curr@, f.bindings@, old(stack)@, it.index@),
//@   >>>
//@   before "vm.run(env)?;" <<<
        // A function body starts with exactly: the bindings that existed where it was defined, plus its arguments.
        // Nothing of the caller's scope is reachable: fcall_impl receives the caller's value stack only.
        assert(scope_of(vm) == bind_args(f.snapshot.curr@, f.bindings@, old(stack)@, f.bindings@.len() as int));
//@   >>>
//@   mutant fcall_fresh_scope ".to_scoped(snapshot.clone())" => ".to_scoped(Stack::new())" expect fcall_impl
//@ end


//@ extract src/build/opcode/vm.rs :: impl VM :: fn op_func
//@   rule R1 R3
//@   subst "\"Fault!!! Bad Argument List\".into()" => "verif_msg()"
//@   subst "let mut bindings = Vec::new();" => "let mut bindings: Vec<Rc<str>> = Vec::new();"
//@   ret r
//@   sig <<<
        requires old(self).stack@.len() >= 1
        ensures
            // defining a function does not change the scope it is defined in ...
            scope_of(*final(self)) == scope_of(*old(self)),
            // ... and the function value captures a copy of exactly the bindings that exist at its definition
            r is Ok ==> final(self).stack@.len() >= 1
                && (*final(self).stack@.last().0 matches F(func) && func.snapshot.curr@ == scope_of(*old(self))),
//@   >>>
//@   loop 1 iter it <<<
                invariant scope_snapshot.curr@ == scope_of(*old(self)), self.symbols == old(self).symbols,
//@   >>>
//@   mutant func_empty_snapshot "let scope_snapshot = self.symbols.snapshot();" => "let scope_snapshot = Stack::new();" expect op_func
//@ end

} // verus!

fn main() {}
