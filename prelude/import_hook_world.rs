// ---- prelude/import_hook_world.rs: the outside world of the `import` hook (R12), std stand-ins (R7/R8) and the
// neighbours of the hook (R5/R8). Everything in this file is a TRUSTED MODEL of std / of code outside the unit,
// except `verif_any`, which is verified. ----
// needs: `use std::rc::Rc;` before verus!, prelude/core.rs, the VM value types (Value, Position, Error ...)

// ---------- paths ----------
// A path is its text. `Path` (unsized in std) only ever occurs behind `&`. NOTHING about std's path algebra is
// modelled: normalisation, `parent`, are UNINTERPRETED functions of the text (they are functions: same text in,
// same text out - that is all the contract uses).
pub struct Path { pub text: Ghost<Seq<char>> }
pub struct PathBuf { pub text: Ghost<Seq<char>> }
impl View for Path { type V = Seq<char>; open spec fn view(&self) -> Seq<char> { self.text@ } }
impl View for PathBuf { type V = Seq<char>; open spec fn view(&self) -> Seq<char> { self.text@ } }

// src/path.rs `normalize` (fold over std's `components()`: `.` dropped, `..` pops): uninterpreted.
pub uninterp spec fn spec_normalize(p: Seq<char>) -> Seq<char>;
// std `Path::parent`: uninterpreted (None: the path has no parent, e.g. `/` or the empty path).
pub uninterp spec fn spec_parent(p: Seq<char>) -> Option<Seq<char>>;

impl PathBuf {
    // `PathBuf::from(&str)` (std `impl From<&str> for PathBuf`): the same text.
    #[verifier::external_body]
    pub fn from(s: &str) -> (r: PathBuf) ensures r@ == s@ { unimplemented!() }
    // std `Path::parent` (through Deref)
    #[verifier::external_body]
    pub fn parent(&self) -> (r: Option<&Path>)
        ensures match r { Some(p) => spec_parent(self@) == Some(p@), None => spec_parent(self@) is None }
    { unimplemented!() }
}
// `p.to_string_lossy().into()` as one step (Cow<str> -> Rc<str>). ASSUMED lossless: every path the hook sees
// was made from a UCG string, hence is valid Unicode.
#[verifier::external_body]
pub fn verif_path_to_rcstr(p: &PathBuf) -> (r: Rc<str>)
    ensures r@ == p@
{ unimplemented!() }

pub mod path {
    use super::*;
    // src/path.rs :: normalize - outside the unit (std::path::Component algebra), a function of the text.
    #[verifier::external_body]
    pub fn normalize(p: PathBuf) -> (r: PathBuf) ensures r@ == spec_normalize(p@) { unimplemented!() }
}

// R7: `P: Into<PathBuf>` of VM::with_pointer - a local trait with the one instance the hook uses (`&Path`).
pub mod vinto {
    use super::*;
    pub trait VIntoPathBuf: Sized {
        spec fn pview(&self) -> Seq<char>;
        fn into(self) -> (r: PathBuf) ensures r@ == self.pview();
    }
    impl VIntoPathBuf for &Path {
        open spec fn pview(&self) -> Seq<char> { (**self)@ }
        #[verifier::external_body]
        fn into(self) -> (r: PathBuf) { unimplemented!() }
    }
}

// ---------- BTreeMap<Rc<str>, Rc<Value>>: the value cache - a finite map from path TEXT to value ----------
// (Rc<str> keys are ordered and compared by their text: std `impl Ord for Rc<T>` delegates to T.)
#[verifier::external_body]
#[verifier::accept_recursive_types(K)]
#[verifier::accept_recursive_types(V)]
pub struct BTreeMap<K, V> { _k: core::marker::PhantomData<(K, V)> }
#[verifier::external_body]
#[verifier::accept_recursive_types(T)]
pub struct BTreeSet<T> { _t: core::marker::PhantomData<T> }
#[verifier::external_body]
#[verifier::accept_recursive_types(T)]
pub struct RefCell<T> { _t: core::marker::PhantomData<T> }

impl View for BTreeMap<Rc<str>, Rc<Value>> {
    type V = Map<Seq<char>, Rc<Value>>;
    uninterp spec fn view(&self) -> Map<Seq<char>, Rc<Value>>;
}
impl BTreeMap<Rc<str>, Rc<Value>> {
    #[verifier::external_body]
    pub fn get(&self, k: &Rc<str>) -> (r: Option<&Rc<Value>>)
        ensures match r {
            Some(v) => self@.contains_key(k@) && *v == self@[k@],
            None => !self@.contains_key(k@),
        }
    { unimplemented!() }
    #[verifier::external_body]
    pub fn insert(&mut self, k: Rc<str>, v: Rc<Value>) -> (r: Option<Rc<Value>>)
        ensures final(self)@ == old(self)@.insert(k@, v)
    { unimplemented!() }
}

// ---------- the world (R12): the evaluations of imported files this hook starts ----------
// One record per call of VM::run the hook makes: which compiled file (`ops`), in which working directory, with
// which import stack (as path texts). What the evaluated file itself imports happens INSIDE that run.
pub struct RunRec {
    pub ops: OpPointer,
    pub working_dir: Seq<char>,
    pub import_stack: Seq<Seq<char>>,
}
pub struct World {
    pub runs: Ghost<Seq<RunRec>>,
}

pub open spec fn texts(s: Seq<Rc<str>>) -> Seq<Seq<char>> {
    Seq::new(s.len(), |k: int| s[k]@)
}

// R9': std `slice.iter().any(f)` behaves as this loop (short-circuit, left to right). The model is VERIFIED;
// the assumption is only that std's `any` behaves like it.
pub fn verif_any<T, F: Fn(&T) -> bool>(s: &[T], f: F) -> (r: bool)
    requires forall|k: int| 0 <= k < s@.len() ==> f.requires((&#[trigger] s@[k],)),
    ensures
        r ==> exists|k: int| 0 <= k < s@.len() && f.ensures((&#[trigger] s@[k],), true),
        !r ==> forall|k: int| 0 <= k < s@.len() ==> f.ensures((&#[trigger] s@[k],), false),
{
    let mut i: usize = 0;
    while i < s.len()
        invariant
            i <= s@.len(),
            forall|k: int| 0 <= k < s@.len() ==> f.requires((&#[trigger] s@[k],)),
            forall|k: int| 0 <= k < i ==> f.ensures((&#[trigger] s@[k],), false),
        decreases s@.len() - i
    {
        if f(&s[i]) { return true; }
        i += 1;
    }
    false
}

// `a.as_ref() == b.as_ref()` on two `Rc<str>`: std string equality is equality of the texts.
#[verifier::external_body]
pub fn verif_rcstr_eq(a: &Rc<str>, b: &Rc<str>) -> (r: bool)
    ensures r == (a@ == b@)
{ a.as_ref() == b.as_ref() }

// std: cloning an Rc is a pointer copy. vstd states `Option<&T>::cloned` and `Vec::clone` through `cloned(a, b)`
// per element; these axioms say what `cloned` is for the two Rc types the hook clones. Used function-locally
// (`broadcast use` in the body) only.
pub mod clax {
    use super::*;
    pub broadcast axiom fn axiom_cloned_rc_value(a: Rc<Value>, b: Rc<Value>)
        ensures #[trigger] cloned::<Rc<Value>>(a, b) ==> a == b;
    pub broadcast axiom fn axiom_cloned_rcstr(a: Rc<str>, b: Rc<str>)
        ensures #[trigger] cloned::<Rc<str>>(a, b) ==> a == b;
    pub broadcast group group_clone_axioms { axiom_cloned_rc_value, axiom_cloned_rcstr, }
}
