// ---- prelude/constraint_rt_ir.rs: the IR value / constraint types (extracted verbatim, R0) and the
// ---- oracle of the run-time constraint check (C06), shared by units constraint_rt and constraint_vm ----

// error::BuildError is only constructed and propagated (R5); message text dropped (R1).
pub mod error {
    use super::*;
    #[verifier::external_body]
    pub struct BuildError { _p: u8 }
    pub enum ErrorType { TypeFail }
    impl BuildError {
        #[verifier::external_body]
        pub fn new(msg: String, t: ErrorType) -> Self { unimplemented!() }
    }
}

//@ extract src/build/ir.rs :: enum ConstraintBound
//@   rule R0
//@ end
//@ extract src/build/ir.rs :: enum ConstraintValArm
//@   rule R0
//@ end
//@ extract src/build/ir.rs :: struct ConstraintVal
//@   rule R0
//@ end
//@ extract src/build/ir.rs :: enum Val
//@   rule R0
//@ end

// R0: `#[derive(PartialEq)]` on ConstraintVal is not visible to Verus; `==` on two constraints is an
// uninterpreted function of the two (only used by Val::equal on two constraint VALUES, outside C06's scope).
pub uninterp spec fn constraint_same(a: ConstraintVal, b: ConstraintVal) -> bool;
impl PartialEqSpecImpl for ConstraintVal {
    open spec fn obeys_eq_spec() -> bool { true }
    open spec fn eq_spec(&self, other: &ConstraintVal) -> bool { constraint_same(*self, *other) }
}
impl PartialEq for ConstraintVal {
    #[verifier::external_body]
    fn eq(&self, other: &ConstraintVal) -> bool { unimplemented!() }
}

// ---------- oracle (reference: typechecking.md "Range Constraints", "Alternation Constraints") ----------

// "alternation constraints restrict a value to one of several specific values": v is that value.
// Scalars: same type and same content. NULL equals only NULL. Two containers / two constraint values:
// a function of the two that this unit does not interpret (the property's alternations are literals).
pub uninterp spec fn list_elems_same(a: Seq<Rc<Val>>, b: Seq<Rc<Val>>) -> bool;
pub uninterp spec fn tuple_fields_same(a: Seq<(Rc<str>, Rc<Val>)>, b: Seq<(Rc<str>, Rc<Val>)>) -> bool;

pub open spec fn val_same(a: Val, b: Val) -> bool {
    match (a, b) {
        (Val::Empty, Val::Empty) => true,
        (Val::Int(i), Val::Int(ii)) => i == ii,
        (Val::Float(f), Val::Float(ff)) => f64_eq(f, ff),
        (Val::Boolean(x), Val::Boolean(y)) => x == y,
        (Val::Str(s), Val::Str(ss)) => s@ == ss@,
        (Val::List(l), Val::List(r)) => l@.len() == r@.len() && list_elems_same(l@, r@),
        (Val::Tuple(l), Val::Tuple(r)) => l@.len() == r@.len() && tuple_fields_same(l@, r@),
        (Val::Constraint(x), Val::Constraint(y)) => constraint_same(x, y),
        _ => false,
    }
}

pub open spec fn is_scalar(v: Val) -> bool {
    v is Empty || v is Boolean || v is Int || v is Float || v is Str
}
pub open spec fn same_kind(a: Val, b: Val) -> bool {
    (a is Empty && b is Empty) || (a is Boolean && b is Boolean) || (a is Int && b is Int) || (a is Float && b is Float) || (a is Str && b is Str)
}

// `>=` / `<=` of a bound's numeric type, as the exec comparison computes it (used by the closures' contracts)
pub trait BoundOrd: Sized {
    spec fn b_ge(self, o: Self) -> bool;
    spec fn b_le(self, o: Self) -> bool;
}
impl BoundOrd for i64 {
    open spec fn b_ge(self, o: i64) -> bool { self >= o }
    open spec fn b_le(self, o: i64) -> bool { self <= o }
}
impl BoundOrd for f64 {
    open spec fn b_ge(self, o: f64) -> bool { f64_ge(self, o) }
    open spec fn b_le(self, o: f64) -> bool { f64_le(self, o) }
}

// "restrict a value to a numeric range": `in lo..hi` — "must be between lo and hi", `in 0..` is ">= 0",
// `in ..100` is "<= 100": both bounds INCLUSIVE, an absent bound does not constrain. An int range admits
// only Int values, a float range only Float values.
pub open spec fn arm_admits(arm: ConstraintValArm, val: Val) -> bool
    decreases arm
{
    match arm {
        ConstraintValArm::Range(ConstraintBound::Int(min, max)) => match val {
            Val::Int(x) => (min matches Some(lo) ==> lo <= x) && (max matches Some(hi) ==> x <= hi),
            _ => false,
        },
        ConstraintValArm::Range(ConstraintBound::Float(min, max)) => match val {
            Val::Float(x) => (min matches Some(lo) ==> f64_ge(x, lo)) && (max matches Some(hi) ==> f64_le(x, hi)),
            _ => false,
        },
        ConstraintValArm::Exact(e) => match *e {
            // an alternative that is itself a constraint — a named constraint used inside an alternation,
            // `constraint c = in 1..3; let x :: c | 9 = 2;` — admits what that constraint admits:
            // "a named constraint behaves exactly like the same constraint written inline".
            Val::Constraint(inner) => check_spec(inner, val),
            _ => val_same(val, *e),
        },
    }
}

// "`|` joins constraint arms": a value conforms iff some arm admits it. A constraint without arms is the
// placeholder of a recursive constraint and admits everything (ir.rs: checked statically).
pub open spec fn check_spec(cv: ConstraintVal, val: Val) -> bool
    decreases cv
{
    cv.arms@.len() == 0 || exists|k: int| 0 <= k < cv.arms.len() && arm_admits(#[trigger] cv.arms[k], val)
}

// A value "contains an empty constraint" (the self-reference placeholder): directly, or in a list
// element / tuple field at any depth.
pub open spec fn has_placeholder(v: Val) -> bool
    decreases v
{
    match v {
        Val::Constraint(cv) => cv.arms@.len() == 0,
        Val::List(items) => exists|k: int| 0 <= k < items.len() && has_placeholder(*#[trigger] items[k]),
        Val::Tuple(fields) => exists|k: int| 0 <= k < fields.len() && has_placeholder(*(#[trigger] fields[k]).1),
        _ => false,
    }
}

pub open spec fn self_ref_spec(cv: ConstraintVal) -> bool {
    exists|k: int| 0 <= k < cv.arms@.len() && (#[trigger] cv.arms@[k] matches ConstraintValArm::Exact(e) && has_placeholder(*e))
}
