#!/bin/bash
# usage: fw/try_unit.sh <unit> [lines]   -- assemble and show verus' human-readable output
cd /verif && python3 - "$1" <<'PY'
import sys, traceback, os
sys.path.insert(0,'/verif/fw')
import assemble as A, run
u=sys.argv[1]
os.makedirs('/verif/.cache/try', exist_ok=True)
try:
    ex=A.assemble('/verif/units/%s.unit.rs'%u, hooks=run.load_hooks())
    open('/verif/.cache/try/%s.rs'%u,'w').write(ex.out_text)
except Exception as e:
    traceback.print_exc(); sys.exit(3)
PY
[ $? -eq 0 ] && cd /verif/.cache/try && verus $1.rs --multiple-errors 20 --triggers-mode silent ${VFLAGS} 2>&1 | head -${2:-100}
