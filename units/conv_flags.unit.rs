//@ unit conv_flags
//@ serves C08
//@ must_verify FlagConverter::write FlagConverter::write_list_flag FlagConverter::write_simple_value FlagConverter::write_flag_name shell_escape_single_quoted verif_replace_char lemma_flag_str_two_words
//@ include prelude/head.rs
use std::rc::Rc;

verus! {
//@ include prelude/core.rs
//@ include prelude/sh_escape_models.rs
//@ include prelude/sh_escape_posix.rs
//@ include prelude/sh_escape_fns.rs
//@ include prelude/conv_env_types.rs
//@ include prelude/conv_env_words.rs
//@ include prelude/conv_flags_spec.rs

// ---------- R2: one stub per write! call site of flags.rs ----------
// write!(w, "--{}{} ", pfx, name)
#[verifier::external_body]
fn vw_flag_long(w: &mut VWriter, pfx: &str, name: &str) -> (r: ConvertResult)
    ensures vw_wrote(*old(w), *final(w), seq!['-', '-'] + pfx@ + name@ + sp(), r)
{ unimplemented!() }
// write!(w, "-{} ", name)
#[verifier::external_body]
fn vw_flag_short(w: &mut VWriter, name: &str) -> (r: ConvertResult)
    ensures vw_wrote(*old(w), *final(w), seq!['-'] + name@ + sp(), r)
{ unimplemented!() }
// write!(w, "{} ", <&str>)
#[verifier::external_body]
fn vw_flag_sp_str(w: &mut VWriter, s: &str) -> (r: ConvertResult)
    ensures vw_wrote(*old(w), *final(w), s@ + sp(), r)
{ unimplemented!() }
// write!(w, "{} ", f)
#[verifier::external_body]
fn vw_flag_sp_f64(w: &mut VWriter, f: &f64) -> (r: ConvertResult)
    ensures vw_wrote(*old(w), *final(w), disp_f64(*f) + sp(), r)
{ unimplemented!() }
// write!(w, "{} ", i)
#[verifier::external_body]
fn vw_flag_sp_i64(w: &mut VWriter, i: &i64) -> (r: ConvertResult)
    ensures vw_wrote(*old(w), *final(w), disp_i64(*i) + sp(), r)
{ unimplemented!() }
// write!(w, "'{}' ", <String>)
#[verifier::external_body]
fn vw_flag_sp_quoted(w: &mut VWriter, s: String) -> (r: ConvertResult)
    ensures vw_wrote(*old(w), *final(w), seq!['\''] + s@ + seq!['\''] + sp(), r)
{ unimplemented!() }

// ---------- composition with the POSIX oracle ----------
// For ALL prefixes/names made of ordinary characters, ALL string values s and ANY following text: the shell
// reads what is written for (name, Str(s)) as two words, the flag word and then exactly the value s
// (unaltered, nothing expanded), and stops at the blank that precedes whatever is written next.
pub proof fn lemma_flag_str_two_words(pfx: Seq<char>, name: Seq<char>, s: Seq<char>, following: Seq<char>)
    requires sh_all_plain(pfx), sh_all_plain(name)
    ensures ({
        // = flag_item(pfx, name, Str(s)) + following
        let t = flag_name_text(pfx, name) + (sh_squote(s) + sp()) + following;
        let flag = if name.len() > 1 || pfx.len() > 0 { seq!['-', '-'] + pfx + name } else { seq!['-'] + name };
        &&& sh_yields(sh_word(t), flag, sp() + (sh_squote(s) + sp() + following))
        &&& sh_yields(sh_word(sh_squote(s) + sp() + following), s, sp() + following)
    })
{
    let flag = if name.len() > 1 || pfx.len() > 0 { seq!['-', '-'] + pfx + name } else { seq!['-'] + name };
    let rest = sp() + (sh_squote(s) + sp() + following);
    let t = flag_name_text(pfx, name) + (sh_squote(s) + sp()) + following;
    assert(sh_plain('-'));
    assert(sh_all_plain(flag));
    assert(rest[0] == ' ');
    assert(t =~= flag + rest);
    lemma_plain_prefix(flag, rest);
    assert(sh_word(rest) == sh_stop(true, rest));
    assert((sp() + following)[0] == ' ');
    lemma_squote_one_word(s, sp() + following);
    assert(sh_squote(s) + (sp() + following) =~= sh_squote(s) + sp() + following);
}

//@ extract src/convert/flags.rs :: struct FlagConverter
//@   rule R0 RV
//@ end

// R9': `x.chars().count()` -> vstd's `unicode_len` (exec fn with `ensures r == x@.len()`).
//@ extract src/convert/flags.rs :: impl FlagConverter :: fn write_flag_name
//@   subst "&mut dyn Write" => "&mut VWriter"
//@   subst "name.chars().count()" => "name.unicode_len()"
//@   subst "pfx.chars().count()" => "pfx.unicode_len()"
//@   subst "write!(w, \"--{}{} \", pfx, name)" => "vw_flag_long(w, pfx, name)"
//@   subst "write!(w, \"-{} \", name)" => "vw_flag_short(w, name)"
//@   ret r
//@   sig <<<
        ensures vw_wrote(*old(w), *final(w), flag_name_text(pfx@, name@), r)
//@   >>>
//@   mutant short_flag_for_long_name "name.chars().count() > 1" => "name.chars().count() > 2" expect write_flag_name
//@ end

//@ extract src/convert/flags.rs :: impl FlagConverter :: fn write_simple_value
//@   rule R1 R3
//@   subst "&mut dyn Write" => "&mut VWriter"
//@   subst "write!(w, \"{} \", if b { \"true\" } else { \"false\" })" => "vw_flag_sp_str(w, if *b { \"true\" } else { \"false\" })"
//@   subst "write!(w, \"{} \", f)" => "vw_flag_sp_f64(w, f)"
//@   subst "write!(w, \"{} \", i)" => "vw_flag_sp_i64(w, i)"
//@   subst "write!(w, \"'{}' \", super::shell_escape_single_quoted(s))" => "vw_flag_sp_quoted(w, shell_escape_single_quoted(s))"
//@   ret r
//@   sig <<<
        ensures vw_wrote(*old(w), *final(w), match flag_value_text(*v) { Some(t) => t, None => Seq::<char>::empty() }, r)
//@   >>>
//@   mutant flag_string_not_escaped "shell_escape_single_quoted(s)" => "verif_rcstr_to_string(s)" expect write_simple_value
//@ end

//@ extract src/convert/flags.rs :: impl FlagConverter :: fn write_list_flag
//@   rule R1
//@   subst "&mut dyn Write" => "&mut VWriter"
//@   ret r
//@   sig <<<
        ensures vw_wrote(*old(w), *final(w), flag_list(pfx@, name@, def@), r)
//@   >>>
//@   loop 1 iter it <<<
            invariant
                it.seq().len() == def@.len(),
                forall|k: int| 0 <= k < def@.len() ==> *it.seq()[k] == def@[k],
                w.out@ =~= old(w).out@ + flag_list(pfx@, name@, def@.take(it.index@)),
                w.failed@ == old(w).failed@,
                it.index@ == def@.len() ==> def@.take(it.index@) =~= def@,
//@   >>>
//@   before "let vref = v.as_ref();" <<<
            proof {
                assert(def@.take(it.index@ + 1).drop_last() =~= def@.take(it.index@));
                assert(def@.take(it.index@ + 1).last() == def@[it.index@]);
            }
//@   >>>
//@   mutant list_item_value_only "self.write_flag_name(pfx, name, w)?; self.write_simple_value(vref, w)?;" => "self.write_simple_value(vref, w)?;" expect write_list_flag
//@   mutant nested_list_not_skipped "vref.is_list() ||" => "" expect write_list_flag
//@ end

// `for (name, val) in flds.iter() {` is rewritten to the equivalent indexed `while` (same elements, same
// order): Verus' `for` does not support `continue`.
//@ extract src/convert/flags.rs :: impl FlagConverter :: fn write
//@   rule R1 R3
//@   subst "&mut dyn Write" => "&mut VWriter"
//@   subst "for (name, val) in flds.iter() {" => "let mut i__: usize = 0; while i__ < flds.len() { let (name, val) = (&flds[i__].0, &flds[i__].1); i__ += 1;"
//@   ret r
//@   sig <<<
        ensures vw_wrote(*old(w), *final(w), flag_fields(pfx@, flds@), r)
//@   >>>
//@   loop 1 <<<
            invariant
                0 <= i__ <= flds@.len(),
                w.out@ =~= old(w).out@ + flag_fields(pfx@, flds@.take(i__ as int)),
                w.failed@ == old(w).failed@,
                i__ == flds@.len() ==> flds@.take(i__ as int) =~= flds@,
            decreases flds@.len() - i__
//@   >>>
//@   after "i__ += 1;" <<<
            proof {
                assert(flds@.take(i__ as int).drop_last() =~= flds@.take(i__ - 1));
                assert(flds@.take(i__ as int).last() == flds@[i__ - 1]);
            }
//@   >>>
//@   mutant null_flag_ends_output "self.write_flag_name(pfx, name, w)?; continue;" => "self.write_flag_name(pfx, name, w)?; return Ok(());" expect write
//@   mutant tuple_field_leaves_flag "eprintln!(\"Skipping {} in flag output tuple.\", val.type_name());" => "self.write_flag_name(pfx, name, w)?;" expect write
//@   mutant scalar_value_before_flag "self.write_flag_name(pfx, name, w)?; self.write_simple_value(val, w)?;" => "self.write_simple_value(val, w)?; self.write_flag_name(pfx, name, w)?;" expect write
//@ end

// used by a seeded mutant only (the value written without escaping)
#[verifier::external_body]
fn verif_rcstr_to_string(s: &Rc<str>) -> (r: String)
    ensures r@ == s@
{ unimplemented!() }

} // verus!

fn main() {}
