// ---- prelude/lsp_pos_models.rs: std iterator adapters used by the LSP cursor lookup (inside verus!) ----
// Each model is a VERIFIED loop; the assumption is only that std's adapter of the same name behaves like it
// (documented behaviour of core::iter: left-to-right / right-to-left scan, short-circuit at the first hit).

// `slice.iter().position(f)`: index of the first element for which f is true. (closure argument: `&T`)
pub fn verif_position<T, F: Fn(&T) -> bool>(s: &[T], f: F) -> (r: Option<usize>)
    requires forall|k: int| 0 <= k < s@.len() ==> f.requires((&#[trigger] s@[k],)),
    ensures
        r matches Some(i) ==> i < s@.len() && f.ensures((&s@[i as int],), true)
            && forall|k: int| 0 <= k < i ==> f.ensures((&#[trigger] s@[k],), false),
        r is None ==> forall|k: int| 0 <= k < s@.len() ==> f.ensures((&#[trigger] s@[k],), false),
{
    let mut i: usize = 0;
    while i < s.len()
        invariant
            i <= s@.len(),
            forall|k: int| 0 <= k < s@.len() ==> f.requires((&#[trigger] s@[k],)),
            forall|k: int| 0 <= k < i ==> f.ensures((&#[trigger] s@[k],), false),
        decreases s@.len() - i
    {
        if f(&s[i]) { return Some(i); }
        i += 1;
    }
    None
}

// `slice.iter().find(f)`: the first element for which f is true. (closure argument: `&&T`, as in std)
pub fn verif_find<'a, T, F: Fn(&&'a T) -> bool>(s: &'a [T], f: F) -> (r: Option<&'a T>)
    requires forall|k: int| 0 <= k < s@.len() ==> f.requires((&&#[trigger] s@[k],)),
    ensures
        r matches Some(t) ==> exists|i: int| 0 <= i < s@.len() && *t == s@[i] && f.ensures((&&s@[i],), true)
            && forall|k: int| 0 <= k < i ==> f.ensures((&&#[trigger] s@[k],), false),
        r is None ==> forall|k: int| 0 <= k < s@.len() ==> f.ensures((&&#[trigger] s@[k],), false),
{
    let mut i: usize = 0;
    while i < s.len()
        invariant
            i <= s@.len(),
            forall|k: int| 0 <= k < s@.len() ==> f.requires((&&#[trigger] s@[k],)),
            forall|k: int| 0 <= k < i ==> f.ensures((&&#[trigger] s@[k],), false),
        decreases s@.len() - i
    {
        let e = &s[i];
        if f(&e) { return Some(e); }
        i += 1;
    }
    None
}

// `slice.iter().rfind(f)`: the LAST element for which f is true (scan from the back).
pub fn verif_rfind<'a, T, F: Fn(&&'a T) -> bool>(s: &'a [T], f: F) -> (r: Option<&'a T>)
    requires forall|k: int| 0 <= k < s@.len() ==> f.requires((&&#[trigger] s@[k],)),
    ensures
        r matches Some(t) ==> exists|i: int| 0 <= i < s@.len() && *t == s@[i] && f.ensures((&&s@[i],), true)
            && forall|k: int| i < k < s@.len() ==> f.ensures((&&#[trigger] s@[k],), false),
        r is None ==> forall|k: int| 0 <= k < s@.len() ==> f.ensures((&&#[trigger] s@[k],), false),
{
    let mut i: usize = s.len();
    while i > 0
        invariant
            i <= s@.len(),
            forall|k: int| 0 <= k < s@.len() ==> f.requires((&&#[trigger] s@[k],)),
            forall|k: int| i <= k < s@.len() ==> f.ensures((&&#[trigger] s@[k],), false),
        decreases i
    {
        i -= 1;
        let e = &s[i];
        if f(&e) { return Some(e); }
    }
    None
}

// `s.chars().take(n).collect::<String>()`: the first min(n, #chars) characters of s, in order.
// Verified on top of `verif_chars_vec` (prelude/core.rs: `s.chars()` yields the chars of s in order).
// Also exports "a text has at most as many characters as bytes" (proved below) for the caller's arithmetic.
pub fn verif_chars_take(s: &str, n: usize) -> (r: String)
    ensures r@ == s@.take(if n <= s@.len() { n as int } else { s@.len() as int }),
        s@.len() <= vstd::utf8::encode_utf8(s@).len(),
{
    proof { lemma_chars_le_bytes(s@); }
    let cs = verif_chars_vec(s);
    let mut out = String::new();
    let mut i: usize = 0;
    while i < cs.len() && i < n
        invariant
            i <= cs@.len(), i <= n, cs@ == s@,
            out@ == s@.take(i as int),
        decreases cs@.len() - i
    {
        out.push(cs[i]);
        proof { assert(s@.take(i as int).push(s@[i as int]) =~= s@.take(i + 1)); }
        i += 1;
    }
    out
}

// every character takes at least one byte in UTF-8 (vstd::utf8 is a proved model of RFC 3629)
pub proof fn lemma_chars_le_bytes(s: Seq<char>)
    ensures s.len() <= vstd::utf8::encode_utf8(s).len()
    decreases s.len()
{
    if s.len() > 0 {
        reveal_with_fuel(vstd::utf8::encode_utf8, 2);
        lemma_chars_le_bytes(s.drop_first());
    }
}
