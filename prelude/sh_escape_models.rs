// ---- prelude/sh_escape_models.rs: R9' model of `str::replace(char, &str)` (inside verus!) ----
// std documents `str::replace(pat, to)`: "Replaces all matches of a pattern with another string", matches are
// found left to right and do not overlap.  For a `char` pattern every match is one character, so the result is
// the concatenation, in order, of `to` for each occurrence of the character and of the character itself otherwise.
// `replace_char` is that function; `verif_replace_char` is a plain loop PROVED to compute it.
// ASSUMPTION (R9', listed per use): std's `str::replace::<char>` behaves like `verif_replace_char`.

pub open spec fn replace_char(s: Seq<char>, c: char, t: Seq<char>) -> Seq<char>
    decreases s.len()
{
    if s.len() == 0 {
        Seq::<char>::empty()
    } else {
        (if s[0] == c { t } else { seq![s[0]] }) + replace_char(s.subrange(1, s.len() as int), c, t)
    }
}

pub proof fn lemma_replace_empty(c: char, t: Seq<char>)
    ensures replace_char(Seq::<char>::empty(), c, t) =~= Seq::<char>::empty()
{ }

// replace distributes over concatenation (a char pattern cannot match across the seam)
pub proof fn lemma_replace_concat(a: Seq<char>, b: Seq<char>, c: char, t: Seq<char>)
    ensures replace_char(a + b, c, t) =~= replace_char(a, c, t) + replace_char(b, c, t)
    decreases a.len()
{
    if a.len() == 0 {
        assert(a + b =~= b);
    } else {
        let a1 = a.subrange(1, a.len() as int);
        lemma_replace_concat(a1, b, c, t);
        assert((a + b).subrange(1, (a + b).len() as int) =~= a1 + b);
        assert((a + b)[0] == a[0]);
    }
}

pub proof fn lemma_replace_one(x: char, c: char, t: Seq<char>)
    ensures replace_char(seq![x], c, t) =~= (if x == c { t } else { seq![x] })
{
    assert(seq![x].subrange(1, 1) =~= Seq::<char>::empty());
    lemma_replace_empty(c, t);
}

pub proof fn lemma_replace_push(s: Seq<char>, x: char, c: char, t: Seq<char>)
    ensures replace_char(s.push(x), c, t) =~= replace_char(s, c, t) + (if x == c { t } else { seq![x] })
{
    assert(s.push(x) =~= s + seq![x]);
    lemma_replace_concat(s, seq![x], c, t);
    lemma_replace_one(x, c, t);
}

// a text that does not contain the character is left alone
pub proof fn lemma_replace_absent(s: Seq<char>, c: char, t: Seq<char>)
    requires forall|k: int| 0 <= k < s.len() ==> s[k] != c
    ensures replace_char(s, c, t) =~= s
    decreases s.len()
{
    if s.len() > 0 {
        let s1 = s.subrange(1, s.len() as int);
        assert forall|k: int| 0 <= k < s1.len() implies s1[k] != c by { assert(s1[k] == s[k + 1]); }
        lemma_replace_absent(s1, c, t);
        assert(seq![s[0]] + s1 =~= s);
    }
}

// The verified exec model the real call sites are redirected to.
pub fn verif_replace_char(s: &str, c: char, t: &str) -> (r: String)
    ensures r@ == replace_char(s@, c, t@)
{
    let mut out = String::new();
    proof { lemma_replace_empty(c, t@); }
    for ch in it: s.chars()
        invariant
            it.seq() == s@,
            out@ == replace_char(s@.take(it.index as int), c, t@),
    {
        proof {
            assert(ch == s@[it.index as int]);
            lemma_replace_push(s@.take(it.index as int), ch, c, t@);
            assert(s@.take(it.index as int).push(ch) =~= s@.take(it.index as int + 1));
        }
        if ch == c {
            out.push_str(t);
        } else {
            out.push(ch);
        }
    }
    proof { assert(s@.take(s@.len() as int) =~= s@); }
    out
}
