"""C13 bounded stand-ins: "`ucg test` reports a file as passing exactly when all its assertions hold".

Oracle (from the property statement and statements.md "Assert Statements"), computed from how each generated file was built:
  * a file's verdict is PASS iff it builds (no parse / type / evaluation error anywhere in it) and every assert evaluated in it has
    ok = true; an assert whose value is not a tuple with a boolean `ok` and a string `desc` counts as a failure; field order and extra
    fields do not matter; an assert in a module body counts once per instantiation and not at all when the module is never instantiated;
  * the process exits non-zero iff some file of the invocation failed;
  * every assertion of a file that builds appears exactly once in the output, inside that file's part of it (between its `Validating`
    line and the next one), marked NOT OK iff it does not hold; a malformed assertion is one NOT OK entry;
  * verdicts (and logs) do not depend on which files were tested before: every ordered selection must give the same per-file results.
Reading the output: the verdict of file f is taken from the lines `<path ending in f> - PASS|FAIL` (all of them must agree, at least one
must exist); a `File <path> Pass|Fail` line, when printed, must agree too.  Assertions are recognised by their unique `desc` text.

Documented choice (not flagged): for a file that stops with a build error, HEAD prints the error instead of the log, so the assertions
evaluated before the error do not appear at all; the statement's "exactly once" is therefore checked as "at most once, and only in its
own part" for such files.

Files of one invocation that touch each other (stand-in import_dag_invocations; multisets also in generated_orders):
  * the list given to `ucg test` is a MULTISET: the same file may be named several times (also under different spellings of its path:
    `./f`, `d/../d/f`, absolute) and is then validated up to that many times; every one of these validations must report the oracle's
    verdict and carry the file's own log;
  * test files may import other test files of the same run (a DAG).  What is pinned for an importer: it does not build when a file it
    imports (transitively) does not build (the import expression is an evaluation error in it); its OWN assertions appear exactly once
    in its own log and decide its verdict together with its build; assertions of a file g may appear in the log of f only if f imports
    g (transitively).  The statement and the reference are SILENT on whether a failing assertion of an imported file fails the
    importer ("every assert statement evaluated in it"), so for an importer that builds, whose own assertions all hold and that
    imports a file with a failing assertion, no verdict is pinned: it only has to be the same in every invocation shape as when the
    file is validated alone (see KNOWN for the one excluded situation).  The imported file's OWN verdict and log are pinned as for
    any other file, whatever was validated or imported before it.
"""
import itertools
import os
import random
import re
import shutil
import tempfile
import threading

import realcode as R

TRUE_EXPRS = ['true', '1 == 1', '"a" in ["a"]', 'not false', '(1 + 1) == 2', '[1, 2] == [1, 2]']
FALSE_EXPRS = ['false', '1 == 2', '"z" in ["a"]', 'not true', '(1 + 1) == 3', '{a = 1} == {a = 2}']
# malformed at run time (built by a function, so the type checker does not see the shape): each is ONE failed assertion, the file goes on
MALFORMED_RT = ['mk_ok("yes")', 'mk_ok(1)', 'mk_ok(NULL)', 'mk_desc(5)', 'mk_desc(NULL)', 'mk_desc([1])', 'ident(1)', 'ident("s")', 'ident([1])', 'ident(NULL)', 'no_ok(1)', 'no_desc(1)', 'ident({})']
# malformed where the checker sees it: the file does not build (statements.md: "This shape is enforced at compile time by the type checker")
MALFORMED_STATIC = ['assert {ok = "yes", desc = "%s"};', 'assert {ok = true, desc = 5};', 'assert 1;', 'assert {desc = "%s"};', 'assert {ok = true};', 'assert "%s";', 'assert [true, "%s"];']
BUILD_ERRORS = ['let e%d = fail "boom";', 'let e%d = 1 / 0;', 'let e%d = nosuch_binding;', 'let e%d = import "nonexistent_file.ucg";', 'let e%d = 1 + "a";', 'let e%d = ;', 'let e%d = {a = 1}.b.c;',
                'let e%d = [1].(5);', 'let e%d = int("x");', 'let e%d = select ("q") => {a = 1};', 'let e%d = "@ @" %% (1);', 'let e%d :: 0 = "s";', 'let e%d :: in 1..3 = 9;', 'fail "top level boom";']
HELPERS = ('let mk_ok = func(x) => {ok = x, desc = "helper-made"};\nlet mk_desc = func(x) => {ok = true, desc = x};\nlet ident = func(x) => x;\n'
           'let no_ok = func(x) => {desc = "helper-made"};\nlet no_desc = func(x) => {ok = true};\n')


class TestFile(object):
    def __init__(self, name, src, asserts, build_error):
        self.name = name                # unique base name, ends in _test.ucg
        self.src = src
        self.asserts = asserts          # [(desc or None, holds: bool, malformed: bool)] in evaluation order, for a file that builds
        self.build_error = build_error  # None or a description
        self.passes = build_error is None and all(h is not False for _, h, _ in asserts)      # h None: never evaluated


def gen_file(rnd, fid, force=None):
    """A *_test.ucg file with 0..6 assertions (true / false / malformed, fields in either order, extra fields, inside modules) and possibly a build error
    before / between / after them."""
    name = 't%02d_test.ucg' % fid
    n = rnd.randint(0, 6)
    kinds = [rnd.choice('TTTTFFMX') for _ in range(n)]      # T true, F false, M malformed at run time, X in a module body
    if force == 'pass':
        kinds = [k if k in 'TX' else 'T' for k in kinds] or ['T']
    lines, asserts = [HELPERS], []
    static_bad = None
    for k, kind in enumerate(kinds):
        desc = 'f%02d-a%d-%s' % (fid, k, {'T': 'holds', 'F': 'fails', 'M': 'malformed', 'X': 'module'}[kind])
        if kind in 'TF':
            ok = rnd.choice(TRUE_EXPRS if kind == 'T' else FALSE_EXPRS)
            fields = ['ok = %s' % ok, 'desc = "%s"' % desc]
            if rnd.random() < 0.5:
                fields.reverse()                                  # desc before ok
            if rnd.random() < 0.25:
                fields.insert(rnd.randint(0, 2), 'extra%d = %s' % (k, rnd.choice(['1', '"x"', '[1]', 'NULL'])))
            form = rnd.random()
            if form < 0.6:
                lines.append('assert {%s};' % ', '.join(fields))
            elif form < 0.8:
                lines.append('let a%d = {%s};\nassert a%d;' % (k, ', '.join(fields), k))
            else:
                lines.append('assert {\n    %s,\n};' % ',\n    '.join(fields))
            asserts.append((desc, kind == 'T', False))
        elif kind == 'M':
            lines.append('assert %s;' % rnd.choice(MALFORMED_RT))
            asserts.append((None, False, True))
        else:
            holds = rnd.random() < 0.6 or force == 'pass'
            times = rnd.choice([0, 1, 1, 2])
            lines.append('let m%d = module{} => { assert {ok = %s, desc = "%s"}; };' % (k, 'true' if holds else 'false', desc))
            for j in range(times):
                lines.append('let i%d_%d = m%d{};' % (k, j, k))
                asserts.append((desc, holds, False))
            if times == 0:
                asserts.append((desc, None, False))               # never evaluated: must not appear
    build_error = None
    r = rnd.random()
    if force is None and r < 0.3:
        stmt = rnd.choice(BUILD_ERRORS)
        stmt = stmt % fid if '%d' in stmt else stmt
        pos = rnd.choice(['first', 'middle', 'last'])
        at = {'first': 1, 'middle': 1 + (len(lines) - 1) // 2, 'last': len(lines)}[pos]
        lines.insert(at, stmt)
        build_error = '%s, %s (`%s`)' % (pos, 'a build error', stmt)
    elif force is None and r < 0.4:
        stmt = rnd.choice(MALFORMED_STATIC)
        stmt = stmt % ('f%02d-static' % fid) if '%s' in stmt else stmt
        lines.insert(rnd.randint(1, len(lines)), stmt)
        build_error = 'an assert the type checker rejects (`%s`)' % stmt
    return TestFile(name, '\n'.join(lines) + '\n', asserts, build_error)


def fixed_files():
    """The scenarios named in the task, as files with fixed content."""
    out = []

    def add(name, src, asserts, build_error=None):
        out.append(TestFile(name, src, asserts, build_error))
    add('s_descfirst_test.ucg', 'assert {desc = "s1-a0-holds", ok = 1 == 1};\nassert {desc = "s1-a1-fails", ok = 1 == 2};\n', [('s1-a0-holds', True, False), ('s1-a1-fails', False, False)])
    add('s_falsethentrue_test.ucg', 'assert {ok = false, desc = "s2-a0-fails"};\nassert {ok = true, desc = "s2-a1-holds"};\nassert {ok = true, desc = "s2-a2-holds"};\n',
        [('s2-a0-fails', False, False), ('s2-a1-holds', True, False), ('s2-a2-holds', True, False)])
    add('s_malformedthentrue_test.ucg', HELPERS + 'assert mk_ok("yes");\nassert {ok = true, desc = "s3-a1-holds"};\nassert {desc = "s3-a2-holds", ok = true};\n',
        [(None, False, True), ('s3-a1-holds', True, False), ('s3-a2-holds', True, False)])
    add('s_failthenboom_test.ucg', 'assert {ok = false, desc = "s4-a0-fails"};\nlet x = fail "boom";\nassert {ok = true, desc = "s4-a2-holds"};\n',
        [('s4-a0-fails', False, False), ('s4-a2-holds', True, False)], 'a failing assert, then `fail "boom";`')
    add('s_good_test.ucg', 'assert {ok = true, desc = "s5-a0-holds"};\nassert {ok = 2 == 2, desc = "s5-a1-holds"};\n', [('s5-a0-holds', True, False), ('s5-a1-holds', True, False)])
    add('s_noasserts_test.ucg', 'let z = 1;\n', [])
    add('s_empty_test.ucg', '', [])
    add('s_parseerror_test.ucg', 'assert {ok = true, desc = "s8-a0-holds"};\nlet x = 1 +;\n', [('s8-a0-holds', True, False)], 'a parse error on the last line')
    add('s_trueonlyextra_test.ucg', 'assert {ok = true, desc = "s9-a0-holds", extra = 1};\nassert {zzz = [1], desc = "s9-a1-holds", ok = true};\n', [('s9-a0-holds', True, False), ('s9-a1-holds', True, False)])
    add('s_allmalformed_test.ucg', HELPERS + 'assert ident(1);\nassert no_ok(1);\nassert no_desc(1);\nassert mk_desc(5);\n', [(None, False, True)] * 4)
    add('s_stdlib_test.ucg', 'let t = import "std/testing.ucg";\nassert t.ok{test = 1 == 1, desc = "s11-a0-holds"};\nassert t.not_ok{test = 1 == 2, desc = "s11-a1-holds"};\n',
        [('s11-a0-holds', True, False), ('s11-a1-holds', True, False)])
    return out


VERDICT_RE = r'(?m)^(?:\S*/)?%s - (PASS|FAIL)\s*$'
FILE_RE = r'(?m)^File (?:\S*/)?%s (Pass|Fail)\s*$'
VALIDATING_RE = r'(?m)^Validating (\S+)\s*$'


def check_run(files, rc, so, se, scope=None):
    """Problems (strings) of one `ucg test` invocation over `files` (TestFile objects that must have been validated)."""
    problems = []
    want_fail = any(not f.passes for f in files)
    if (rc != 0) != want_fail:
        problems.append('exit status %d, expected %s' % (rc, 'non-zero (a file fails)' if want_fail else '0 (every file passes)'))
    if rc not in (0, 1):
        problems.append('exit status %d: the run did not end normally: %s' % (rc, se[-200:]))
    # the part of stdout that belongs to each file
    marks = [(m.start(), m.group(1)) for m in re.finditer(VALIDATING_RE, so)]
    parts = {}
    for i, (pos, path) in enumerate(marks):
        end = marks[i + 1][0] if i + 1 < len(marks) else len(so)
        # the RESULTS summary that follows the last file of a directory / of the run is not part of a file's log
        chunk = so[pos:end]
        k = chunk.find('\nRESULTS:')
        parts.setdefault(os.path.basename(path), []).append(chunk if k < 0 else chunk[:k])
    have_marks = all(f.name in parts for f in files)
    for f in files:
        want = 'PASS' if f.passes else 'FAIL'
        verdicts = re.findall(VERDICT_RE % re.escape(f.name), so)
        if not verdicts:
            problems.append('%s: no verdict line `%s - %s`' % (f.name, f.name, want))
        elif any(v != want for v in verdicts):
            problems.append('%s reported %s, expected %s (%s)' % (f.name, '/'.join(verdicts), want, f.build_error or ('%d of %d assertions do not hold' % (sum(1 for _, h, _ in f.asserts if h is False), len([a for a in f.asserts if a[1] is not None])))))
        for v in re.findall(FILE_RE % re.escape(f.name), so):
            if v.upper() != want:
                problems.append('%s: line `File %s %s`, expected %s' % (f.name, f.name, v, want))
        if have_marks and len(parts[f.name]) != 1:
            problems.append('%s validated %d times in one run' % (f.name, len(parts[f.name])))
        own = ''.join(parts.get(f.name, []))
        counted = {}
        for desc, holds, malformed in f.asserts:
            if desc is None:
                continue
            counted[desc] = counted.get(desc, 0) + (0 if holds is None else 1)
        for desc, times in counted.items():
            total = len(re.findall(re.escape(desc), so))
            if f.build_error is None:
                if total != times:
                    problems.append('%s: assertion "%s" appears %d time(s) in the output, expected %d' % (f.name, desc, total, times))
                elif have_marks and len(re.findall(re.escape(desc), own)) != times:
                    problems.append('%s: assertion "%s" is logged outside the part of the output that belongs to its file' % (f.name, desc))
            elif total > times or (have_marks and total != len(re.findall(re.escape(desc), own))):
                problems.append('%s: assertion "%s" appears %d time(s) / outside its file\'s part (file stops with a build error: at most %d, in its own part)' % (f.name, desc, total, times))
        if f.build_error is None:
            for desc, holds, malformed in f.asserts:
                if desc is None or holds is None:
                    continue
                for ln in so.split('\n'):
                    if desc in ln and (('NOT OK' in ln) != (not holds)):
                        problems.append('%s: assertion "%s" logged as `%s`, it %s' % (f.name, desc, ln.strip()[:80], 'holds' if holds else 'does not hold'))
            if have_marks:
                notok = len(re.findall(r'NOT OK', own))
                want_notok = sum(1 for _, h, _ in f.asserts if h is False)
                if notok != want_notok:
                    problems.append('%s: %d NOT OK entries in its log, expected %d (false + malformed assertions, one entry each)' % (f.name, notok, want_notok))
    if scope is not None:
        for bn in parts:
            if bn not in scope:
                problems.append('%s was validated although it is not a *_test.ucg file in the scope of the run' % bn)
    return problems


def run_many(jobs, threads):
    """jobs: [(args, cwd)] -> [(rc, stdout, stderr)] using a few worker threads."""
    R.ucg_binary()
    out = [None] * len(jobs)
    lock = threading.Lock()
    nxt = [0]

    def work():
        while True:
            with lock:
                i = nxt[0]
                nxt[0] += 1
            if i >= len(jobs):
                return
            try:
                out[i] = R.run_ucg(jobs[i][0], jobs[i][1], timeout=60)
            except Exception as e:      # noqa
                out[i] = (-99, '', repr(e))
    ts = [threading.Thread(target=work) for _ in range(threads)]
    for t in ts:
        t.start()
    for t in ts:
        t.join()
    return out


def describe(files):
    return {f.name: f.src for f in files}


# ------------------------------------------------------------------ ordered selections of files in one invocation
def standin_generated_orders(tier, seed):
    rnd = random.Random(seed)
    thorough = tier == 'thorough'
    fixed = fixed_files()
    gen = [gen_file(rnd, i) for i in range(30 if thorough else 8)] + [gen_file(rnd, 90 + i, force='pass') for i in range(4 if thorough else 2)]
    pool = fixed + gen
    byname = {f.name: f for f in pool}
    sels = [(f.name,) for f in pool]
    # the scenarios of the task in every order: a file that records a failing assert and then hits a build error, followed by a good file; failing before passing; ...
    must = [('s_failthenboom_test.ucg', 's_good_test.ucg'), ('s_falsethentrue_test.ucg', 's_good_test.ucg'), ('s_malformedthentrue_test.ucg', 's_good_test.ucg', 's_noasserts_test.ucg'),
            ('s_allmalformed_test.ucg', 's_trueonlyextra_test.ucg'), ('s_parseerror_test.ucg', 's_good_test.ucg', 's_descfirst_test.ucg'), ('s_failthenboom_test.ucg', 's_stdlib_test.ucg', 's_empty_test.ucg')]
    if not thorough:
        must = must[:3]
    sets = [tuple(m) for m in must]
    names = [f.name for f in pool]
    for _ in range(80 if thorough else 4):
        sets.append(tuple(rnd.sample(names, 2)))
    for _ in range(70 if thorough else 2):
        sets.append(tuple(rnd.sample(names, 3)))
    for s in sets:
        sels += list(itertools.permutations(s))
    sels.append(('s_good_test.ucg', 's_good_test.ucg'))      # the same file twice in one run
    # the list is a multiset: files that do not build / fail / pass named twice, with and without another file in between, any order
    n_before = len(sels)
    twice = [f.name for f in fixed if f.build_error] + ['s_falsethentrue_test.ucg', 's_allmalformed_test.ucg'] + [f.name for f in gen if f.build_error or thorough]
    for x in dict.fromkeys(twice):
        sels.append((x, x))
    for _ in range(60 if thorough else 6):
        x, y = rnd.sample(names, 2)
        sels.append(rnd.choice([(x, y, x), (x, x, y), (y, x, x), (x, y, y, x), (x, y, x, y)]))
    n_multi = len(sels) - n_before + 1
    bound = ('%d invocations naming a file twice (x x, x y x, ... in any order), and ' % n_multi) + ('%d fixed scenario files + %d seeded generated *_test.ucg files (0..6 assertions: true / false / malformed at run time / in module bodies instantiated 0..2 times, fields '
             'in either order, extra fields; 30%% with a build error of %d kinds first / in the middle / last, 10%% with an assert the type checker rejects); every file alone and '
             '%d sets of 2..3 files in EVERY order, one `ucg test` invocation each (%d invocations): verdicts, exit status, log entries' % (len(fixed), len(gen), len(BUILD_ERRORS), len(sets), len(sels)))
    work = tempfile.mkdtemp(prefix='verif_c13_')
    workreal = os.path.realpath(work)
    try:
        for f in pool:
            with open(os.path.join(work, f.name), 'w') as fh:
                fh.write(f.src)
        res = run_many([(['test'] + list(s), work) for s in sels], 6 if thorough else 4)
    finally:
        shutil.rmtree(work, ignore_errors=True)
    for s, (rc, so, se) in zip(sels, res):
        files = [byname[n] for n in dict.fromkeys(s)]
        if len(set(s)) != len(s):
            # the same file named twice: every validation must agree with the oracle and carry the file's own log
            pseudo = Project(0, [from_testfile(f) for f in files])
            pseudo.root = workreal
            cnt = {}
            for n in s:
                cnt[n] = cnt.get(n, 0) + 1
            probs = check_dag_run(pseudo, cnt, rc, so, se)
        else:
            probs = check_run(files, rc, so, se)
        if probs:
            return dict(name='generated_orders', bound=bound, cases=len(sels), status='violation', detail='`ucg test %s`: %s' % (' '.join(s), '; '.join(probs[:4])),
                        input=dict(source=describe(files), files=describe(files), command='ucg test ' + ' '.join(s), expected='; '.join('%s %s' % (f.name, 'PASS' if f.passes else 'FAIL') for f in files) +
                                   '; exit status %s; every assertion of a building file logged exactly once in its own part' % ('non-zero' if any(not f.passes for f in files) else '0'),
                                   observed='exit status %d\n%s\n%s' % (rc, so[-1500:], se[-400:]), how='real binary, all files in one directory'))
    return dict(name='generated_orders', bound=bound, cases=len(sels), status='ok')


# ------------------------------------------------------------------ -r over nested directories
def standin_recursive_dirs(tier, seed):
    rnd = random.Random(seed)
    thorough = tier == 'thorough'
    trees = 8 if thorough else 2
    n_inv = 0
    bound = ('%d seeded directory trees (depth <= 3, 4..9 generated *_test.ucg files + decoys: a helper.ucg with a false assert, *_test.ucg.bak, *_test.txt, an empty directory), each run as '
             '`ucg test -r .`, `ucg test -r <subdir>`, `ucg test .` (not recursive), `ucg test` (no argument) and `ucg test -r <dir> <file>`: exactly the *_test.ucg files in scope get a '
             'verdict, per-file verdicts and logs as for single files, exit status non-zero iff a file in scope fails' % trees)
    for t in range(trees):
        work = tempfile.mkdtemp(prefix='verif_c13r_')
        try:
            dirs = ['.', 'sub', 'sub/deeper', 'sub/deeper/deepest', 'other', 'empty_dir']
            for d in dirs:
                os.makedirs(os.path.join(work, d), exist_ok=True)
            files = {}
            nfiles = rnd.randint(4, 9)
            force_all_pass = (t % 4 == 2)
            for i in range(nfiles):
                f = gen_file(rnd, t * 10 + i, force='pass' if (force_all_pass or rnd.random() < 0.4) else None)
                d = rnd.choice(dirs[:5]) if i else 'sub/deeper'          # at least one file below the top level
                files[os.path.join(d, f.name)] = f
            if t % 4 == 0:
                # the only failing file sits in the deepest directory
                for p in list(files):
                    if not files[p].passes:
                        del files[p]
                f = gen_file(rnd, t * 10 + 9)
                f = TestFile(f.name, 'assert {ok = false, desc = "deep-only-failure-%d"};\n' % t, [('deep-only-failure-%d' % t, False, False)], None)
                files[os.path.join('sub/deeper/deepest', f.name)] = f
            for p, f in files.items():
                with open(os.path.join(work, p), 'w') as fh:
                    fh.write(f.src)
            decoy = 'assert {ok = false, desc = "decoy-must-not-run"};\n'
            for p in ['helper.ucg', 'sub/helper.ucg', 'sub/old_test.ucg.bak', 'other/notes_test.txt', 'sub/deeper/test.ucg']:
                with open(os.path.join(work, p), 'w') as fh:
                    fh.write(decoy)

            def in_scope(root, recursive):
                out = []
                for p, f in files.items():
                    d = os.path.normpath(os.path.dirname(p) or '.')
                    r = os.path.normpath(root)
                    if d == r or (recursive and (r == '.' or d.startswith(r + os.sep))):
                        out.append(f)
                return out
            top_file = next((p for p in files if os.path.dirname(p) in ('', '.')), None)
            invs = [(['test', '-r', '.'], in_scope('.', True)), (['test', '-r', 'sub'], in_scope('sub', True)), (['test', '.'], in_scope('.', False)), (['test'], in_scope('.', False)),
                    (['test', '-r', 'sub/deeper', 'other'], in_scope('sub/deeper', True) + in_scope('other', True)), (['test', 'sub'], in_scope('sub', False)), (['test', '-r', 'empty_dir'], [])]
            if top_file:
                invs.append((['test', '-r', 'sub', os.path.basename(top_file)], in_scope('sub', True) + [files[top_file]]))
            res = run_many([(a, work) for a, _ in invs], 4)
            n_inv += len(invs)
            for (args, scope), (rc, so, se) in zip(invs, res):
                probs = check_run(scope, rc, so, se, scope=set(f.name for f in scope))
                if 'decoy-must-not-run' in so:
                    probs.append('a file that is not named *_test.ucg was validated')
                if probs:
                    return dict(name='recursive_dirs', bound=bound, cases=n_inv, status='violation', detail='`ucg %s`: %s' % (' '.join(args), '; '.join(probs[:4])),
                                input=dict(source={p: f.src for p, f in files.items()}, files={p: f.src for p, f in files.items()}, decoys='helper.ucg, sub/helper.ucg, sub/old_test.ucg.bak, other/notes_test.txt, sub/deeper/test.ucg: ' + decoy,
                                           command='ucg ' + ' '.join(args), expected='; '.join('%s %s' % (f.name, 'PASS' if f.passes else 'FAIL') for f in scope) + '; exit status %s' % ('non-zero' if any(not f.passes for f in scope) else '0'),
                                           observed='exit status %d\n%s\n%s' % (rc, so[-1500:], se[-300:]), how='real binary in a temporary directory tree'))
        finally:
            shutil.rmtree(work, ignore_errors=True)
    return dict(name='recursive_dirs', bound=bound, cases=n_inv, status='ok')


# ------------------------------------------------------------------ files of one invocation that touch each other: import DAGs, multisets, path spellings, directories
KNOWN = [
    # (importer-verdict-depends-on-earlier-import was repaired in ucg, a5bfd6a: the import value cache is reset per validated file; the
    # exclusion is gone and such importers are compared with their verdict when validated alone in every validation.)
]

DAG_DIRS = ['.', 'sub', 'sub/deep', 'other']
MARK_RE = re.compile(r'(?m)^Validating (\S+)\s*$')
VLINE_RE = re.compile(r'(?m)^(\S+) - (PASS|FAIL)\s*$')
FLINE_RE = re.compile(r'(?m)^File (\S+) (Pass|Fail)\s*$')


class DagFile(object):
    """A file of a project: `path` relative to the project root, own assertions, own build error, direct imports."""

    def __init__(self, path, src='', asserts=None, build_error=None, deps=None, is_test=True, export=None):
        self.path = os.path.normpath(path)
        self.name = os.path.basename(self.path)
        self.src = src
        self.asserts = list(asserts or [])      # own: (desc or None, holds True / False / None = never evaluated, malformed)
        self.build_error = build_error          # own
        self.deps = list(deps or [])
        self.is_test = is_test
        self.export = export

    def closure(self):
        """Files imported directly or transitively (without self)."""
        seen, todo = {}, list(self.deps)
        while todo:
            d = todo.pop()
            if d.path not in seen:
                seen[d.path] = d
                todo += d.deps
        return list(seen.values())

    def builds(self):
        return self.build_error is None and all(d.build_error is None for d in self.closure())

    def own_fails(self):
        return any(h is False for _, h, _ in self.asserts)

    def verdict(self):
        """'PASS' / 'FAIL' where the statement decides, None where it is silent (only consistency is demanded)."""
        if not self.builds() or self.own_fails():
            return 'FAIL'
        if any(d.own_fails() for d in self.closure()):
            # "every assert statement evaluated in it": the assert statements of a file this one imports ARE evaluated while this file
            # is validated (that is the reading ucg's own fix a5bfd6a states: "the assertions of a file this one imports count for this
            # file too"), so a false one makes the importer FAIL - alone and in every batch shape.
            return 'FAIL'
        return 'PASS'

    def desc_counts(self):
        counted = {}
        for desc, holds, _ in self.asserts:
            if desc is not None:
                counted[desc] = counted.get(desc, 0) + (0 if holds is None else 1)
        return counted

    def tainted(self):
        """Imported files through which a failing assertion can reach this file's log."""
        return set(d.path for d in self.closure() if d.own_fails() or any(e.own_fails() for e in d.closure()))


class Project(object):
    def __init__(self, pid, files):
        self.pid = pid
        self.files = files
        self.tests = [f for f in files if f.is_test]
        self.bypath = {f.path: f for f in files}
        self.root = None

    def write(self, parent):
        self.root = os.path.realpath(os.path.join(parent, 'p%02d' % self.pid))
        for f in self.files:
            p = os.path.join(self.root, f.path)
            os.makedirs(os.path.dirname(p), exist_ok=True)
            with open(p, 'w') as fh:
                fh.write(f.src)
        for d in DAG_DIRS:
            os.makedirs(os.path.join(self.root, d), exist_ok=True)

    def sources(self):
        return {f.path: f.src for f in self.files}


def from_testfile(t):
    return DagFile(t.name, t.src, t.asserts, t.build_error)


def norm_path(p, root):
    q = p if os.path.isabs(p) else os.path.join(root, p)
    return os.path.normpath(os.path.relpath(os.path.normpath(q), root))


def own_log(so, pos, end):
    chunk = so[pos:end]
    k = chunk.find('\nRESULTS:')
    return chunk if k < 0 else chunk[:k]


def known_affected(f, earlier_paths, bypath):
    """KNOWN importer-verdict-depends-on-earlier-import: an earlier validation of the run imported a file through which a failing assertion reaches f."""
    t = f.tainted()
    return any(t & set(d.path for d in bypath[e].closure()) for e in earlier_paths if e in bypath)


def alone_verdict(proj, path, rc, so):
    vs = set(v for m in VLINE_RE.finditer(so) for v in [m.group(2)] if norm_path(m.group(1), proj.root) == path)
    return vs.pop() if len(vs) == 1 else None


def check_dag_run(proj, expected, rc, so, se, alone=None):
    """Problems of one invocation.  expected: {path: how often the run names it (directly or through a directory)};
    alone: {path: verdict printed when that file is validated alone} for the files whose verdict the statement leaves open."""
    problems = []
    alone = alone or {}
    byp = proj.bypath
    marks = [(m.start(), norm_path(m.group(1), proj.root)) for m in MARK_RE.finditer(so)]
    spans = [(pos, marks[i + 1][0] if i + 1 < len(marks) else len(so), p) for i, (pos, p) in enumerate(marks)]
    vlines = [(m.start(), norm_path(m.group(1), proj.root), m.group(2)) for m in VLINE_RE.finditer(so)]
    flines = [(m.start(), norm_path(m.group(1), proj.root), m.group(2).upper()) for m in FLINE_RE.finditer(so)]
    want = {p: byp[p].verdict() for p in expected}
    if rc not in (0, 1):
        problems.append('exit status %d: the run did not end normally: %s' % (rc, se[-200:]))
    failing = sorted(p for p, v in want.items() if v == 'FAIL')
    if failing and rc == 0:
        problems.append('exit status 0 although %s must fail' % ', '.join(failing))
    if want and all(v == 'PASS' for v in want.values()) and rc != 0:
        problems.append('exit status %d although every file passes' % rc)
    if not want and rc != 0:
        problems.append('exit status %d although no file was to be validated' % rc)
    if vlines and (rc != 0) != any(v == 'FAIL' for _, _, v in vlines):
        problems.append('exit status %d does not match the printed verdicts (%s)' % (rc, ', '.join('%s %s' % (p, v) for _, p, v in vlines)))
    for p in sorted(set(p for _, p in marks) - set(expected)):
        problems.append('%s was validated although the run does not name it (not a listed file / not a *_test.ucg file of a listed directory)' % p)
    for p, times in expected.items():
        f = byp[p]
        vs = [(pos, v) for pos, q, v in vlines if q == p]
        fs = [(pos, v) for pos, q, v in flines if q == p]
        if not vs:
            problems.append('%s: no verdict line `%s - %s`' % (p, p, want[p] or 'PASS|FAIL'))
        own = [(i, s) for i, s in enumerate(spans) if s[2] == p]
        if marks and not (1 <= len(own) <= times):
            problems.append('%s validated %d time(s), the run names it %d time(s)' % (p, len(own), times))
        if want[p] is not None:
            why = f.build_error or ('imports a file that does not build' if not f.builds() else '%d of its %d own assertions do not hold' % (sum(1 for _, h, _ in f.asserts if h is False), sum(1 for _, h, _ in f.asserts if h is not None)))
            if any(v != want[p] for _, v in vs):
                problems.append('%s reported %s, expected %s every time (%s)' % (p, '/'.join(v for _, v in vs), want[p], why))
            if any(v != want[p] for _, v in fs):
                problems.append('%s: line(s) `File %s %s`, expected %s (%s)' % (p, p, '/'.join(v for _, v in fs), want[p], why))
        elif alone.get(p):
            for i, (pos, end, _) in own:
                got = [v for vp, v in vs + fs if pos <= vp < end]
                if any(v != alone[p] for v in got):
                    problems.append('%s reported %s here but %s when validated alone (its own assertions hold, it imports a file with a failing assertion, and no earlier file of this run imports that file)' % (p, '/'.join(got), alone[p]))
        builds = f.builds()
        allowed = set(d.path for d in f.closure())
        dirty = [d for d in f.closure() if d.own_fails()]
        for i, (pos, end, _) in own:
            log = own_log(so, pos, end)
            for desc, cnt in f.desc_counts().items():
                c = log.count(desc)
                if builds and c != cnt:
                    problems.append('%s: its assertion "%s" appears %d time(s) in its log (validation #%d of the run), expected %d' % (p, desc, c, i + 1, cnt))
                elif not builds and c > cnt:
                    problems.append('%s: its assertion "%s" appears %d time(s) in its log, at most %d expected' % (p, desc, c, cnt))
            if builds:
                for desc, holds, _ in f.asserts:
                    if desc is None or holds is None:
                        continue
                    for ln in log.split('\n'):
                        if desc in ln and (('NOT OK' in ln) != (not holds)):
                            problems.append('%s: assertion "%s" logged as `%s`, it %s' % (p, desc, ln.strip()[:80], 'holds' if holds else 'does not hold'))
                notok = log.count('NOT OK')
                lo = sum(1 for _, h, _ in f.asserts if h is False)
                hi = lo + sum(1 for d in dirty for _, h, _ in d.asserts if h is False)
                if not (lo <= notok <= hi):
                    problems.append('%s: %d NOT OK entries in its log, expected %s (own false + malformed assertions, one entry each%s)' % (p, notok, lo if lo == hi else '%d..%d' % (lo, hi), '' if lo == hi else '; imported ones not pinned'))
            for g in proj.tests:
                if g is f or g.path in allowed:
                    continue
                for desc in g.desc_counts():
                    if desc in log:
                        problems.append('%s: its log contains assertion "%s" of %s, which it does not import' % (p, desc, g.path))
            # "every assertion appears exactly once in that file's log": an assertion of an imported file is evaluated once per
            # validation however many import expressions (under whatever spellings) reach that file
            for g in proj.files:
                if g is f or g.path not in allowed:
                    continue
                for desc, cnt in g.desc_counts().items():
                    if cnt == 1 and log.count(desc) > 1:
                        problems.append('%s: its log contains assertion "%s" of the imported %s %d times (the file is imported through %s), at most once expected' % (
                            p, desc, g.path, log.count(desc), 'several import expressions'))
    logs = [own_log(so, pos, end) for pos, end, _ in spans]
    if marks:
        for g in proj.tests:
            for desc in g.desc_counts():
                if so.count(desc) != sum(l.count(desc) for l in logs):
                    problems.append('assertion "%s" of %s is printed outside the log of any file' % (desc, g.path))
    return problems


def dag_assert(rnd, kind, desc, k):
    """One assert statement: kind T / F (literal tuple in several spellings) or M (malformed at run time)."""
    if kind == 'M':
        return 'assert %s;' % rnd.choice(MALFORMED_RT)
    fields = ['ok = %s' % rnd.choice(TRUE_EXPRS if kind == 'T' else FALSE_EXPRS), 'desc = "%s"' % desc]
    if rnd.random() < 0.5:
        fields.reverse()
    if rnd.random() < 0.2:
        fields.insert(rnd.randint(0, 2), 'extra%d = %s' % (k, rnd.choice(['1', '"x"', '[1]', 'NULL'])))
    if rnd.random() < 0.75:
        return 'assert {%s};' % ', '.join(fields)
    return 'let a%d = {%s};\nassert a%d;' % (k, ', '.join(fields), k)


def gen_dag_file(rnd, pid, idx, path, deps, profile):
    """profile: clean (only true assertions) / fails (at least one false or malformed one) / broken (a build error somewhere).
    Imports of `deps` stand at random places between the assertions; most are followed (somewhere later) by a true assertion about the
    imported value."""
    tag = 'p%02df%d' % (pid, idx)
    export = 1000 * pid + idx
    k = rnd.randint(1 if profile == 'fails' else 0, 4)
    kinds = ['T' if profile == 'clean' else rnd.choice('TTTFM' if profile == 'broken' else 'TTFM') for _ in range(k)]
    if profile == 'fails' and not any(x in 'FM' for x in kinds):
        kinds[rnd.randrange(k)] = rnd.choice('FFM')
    stmts = [(HELPERS if 'M' in kinds else '') + 'let v = %d;' % export]
    asserts = []
    for a, kind in enumerate(kinds):
        desc = '%s-a%d-%s' % (tag, a, {'T': 'holds', 'F': 'fails', 'M': 'malformed'}[kind])
        stmts.append(dag_assert(rnd, kind, desc, a))
        asserts.append((None if kind == 'M' else desc, kind == 'T', kind == 'M'))
    for j, d in enumerate(deps):
        rel = os.path.relpath(d.path, os.path.dirname(path) or '.')
        at = rnd.randint(1, len(stmts))
        stmts.insert(at, 'let i%d = import "%s";' % (j, rel))
        if rnd.random() < 0.15:
            stmts.insert(rnd.randint(at + 1, len(stmts)), 'let i%db = import "%s";' % (j, rel))        # "idempotent and cached": a second import in the same file
        if rnd.random() < 0.7:
            desc = '%s-u%d-holds' % (tag, j)
            stmts.insert(rnd.randint(at + 1, len(stmts)), 'assert {ok = i%d.%s, desc = "%s"};' % (j, 'v == %d' % d.export if d.is_test else 'k == 7', desc))
            asserts.append((desc, True, False))
    if rnd.random() < 0.25:
        stmts.append('out json {v = v};')          # one output statement: its per-file lock lives in the environment shared by the run
    build_error = None
    if profile == 'broken':
        # (asserts of a statically visible wrong shape are left to generated_orders: the reference says the type checker rejects them, the
        # statement says they count as failed assertions -- whether a file IMPORTING such a file builds is not decided by either)
        stmt = rnd.choice(BUILD_ERRORS)
        stmt = stmt % (pid * 10 + idx) if '%d' in stmt else stmt
        pos = rnd.choice(['first', 'middle', 'last'])
        stmts.insert({'first': 1, 'middle': 1 + (len(stmts) - 1) // 2, 'last': len(stmts)}[pos], stmt)
        build_error = '%s statement does not build (`%s`)' % (pos, stmt)
    return DagFile(path, '\n'.join(stmts) + '\n', asserts, build_error, deps, True, export)


LIB_BROKEN = [('let z = 1 +;', 'a parse error'), ('let z = 1 + "a";', 'a type error'), ('let z = fail "lib boom";', 'a run-time error')]


def gen_project(rnd, pid, nested):
    """2..5 *_test.ucg files, file i importing a random subset of the files before it (a DAG with at least one edge), optionally a shared
    lib.ucg (not a test file; sometimes broken); nested: files spread over ./ sub/ sub/deep/ other/, sometimes with equal base names."""
    n = rnd.randint(2, 5)
    files, tests = [], []
    lib = None
    if rnd.random() < 0.5:
        if rnd.random() < 0.3:
            stmt, what = rnd.choice(LIB_BROKEN)
            lib = DagFile('lib.ucg', 'let k = 7;\n%s\n' % stmt, [], '%s in lib.ucg' % what, [], False)
        else:
            lib = DagFile('lib.ucg', 'let k = 7;\n', [], None, [], False)
        files.append(lib)
    edges = 0
    for i in range(n):
        d = rnd.choice(DAG_DIRS) if nested else '.'
        base = 't%d_test.ucg' % i
        if nested and tests and rnd.random() < 0.3:
            other = rnd.choice(tests)
            if os.path.normpath(os.path.join(d, other.name)) not in [t.path for t in tests]:
                base = other.name                                   # same base name in another directory
        path = os.path.normpath(os.path.join(d, base))
        deps = [g for g in tests if rnd.random() < 0.5]
        if i == n - 1 and edges == 0 and not deps:
            deps = [rnd.choice(tests)]
        edges += len(deps)
        if lib is not None and rnd.random() < 0.4:
            deps.insert(rnd.randint(0, len(deps)), lib)
        f = gen_dag_file(rnd, pid, i, path, deps, rnd.choice(['clean', 'clean', 'clean', 'clean', 'fails', 'fails', 'broken', 'broken']))
        tests.append(f)
        files.append(f)
    return Project(pid, files)


def fixed_projects():
    """The shapes behind the missed changes C13_5 / C13_6 and their neighbours, with fixed content."""
    out = []
    # 0: a file with a false assertion that another test file imports; a bystander
    base = DagFile('base_test.ucg', 'let v = 1;\nassert {ok = v == 2, desc = "q0-base-a0-fails"};\nassert {ok = v == 1, desc = "q0-base-a1-holds"};\n', [('q0-base-a0-fails', False, False), ('q0-base-a1-holds', True, False)], export=1)
    user = DagFile('user_test.ucg', 'assert {ok = true, desc = "q0-user-a0-holds"};\nlet b = import "base_test.ucg";\nassert {ok = b.v == 1, desc = "q0-user-a1-holds"};\n', [('q0-user-a0-holds', True, False), ('q0-user-a1-holds', True, False)], deps=[base])
    good = DagFile('good_test.ucg', 'assert {ok = 1 == 1, desc = "q0-good-a0-holds"};\n', [('q0-good-a0-holds', True, False)])
    out.append(Project(0, [base, user, good]))
    # 1: files that do not build (type error / parse error / static malformed assert after a true assertion), an importer of one of them, a bystander
    tyerr = DagFile('tyerr_test.ucg', 'let v = 1;\nassert {ok = true, desc = "q1-tyerr-a0-holds"};\nlet x = 1 + "a";\n', [('q1-tyerr-a0-holds', True, False)], 'a type error on the last line', export=1)
    perr = DagFile('perr_test.ucg', 'assert {ok = true, desc = "q1-perr-a0-holds"};\nlet x = 1 +;\n', [('q1-perr-a0-holds', True, False)], 'a parse error on the last line')
    user = DagFile('user_test.ucg', 'let b = import "tyerr_test.ucg";\nassert {ok = true, desc = "q1-user-a0-holds"};\n', [('q1-user-a0-holds', True, False)], deps=[tyerr])
    good = DagFile('good_test.ucg', 'assert {ok = 1 == 1, desc = "q1-good-a0-holds"};\n', [('q1-good-a0-holds', True, False)])
    out.append(Project(1, [tyerr, perr, user, good]))
    # 2: a passing file imported by two others (one with a false assertion BEFORE the import, one chaining), a shared lib
    lib = DagFile('lib.ucg', 'let k = 7;\n', is_test=False)
    dep = DagFile('sub/dep_test.ucg', 'let l = import "../lib.ucg";\nlet v = l.k;\nassert {ok = v == 7, desc = "q2-dep-a0-holds"};\nassert {desc = "q2-dep-a1-holds", ok = true};\nout json {v = v};\n', [('q2-dep-a0-holds', True, False), ('q2-dep-a1-holds', True, False)], deps=[lib], export=7)
    a = DagFile('a_test.ucg', 'assert {ok = false, desc = "q2-a-a0-fails"};\nlet d = import "sub/dep_test.ucg";\nassert {ok = d.v == 7, desc = "q2-a-a1-holds"};\n', [('q2-a-a0-fails', False, False), ('q2-a-a1-holds', True, False)], deps=[dep])
    b = DagFile('other/b_test.ucg', 'let a = import "../a_test.ucg";\nlet d = import "../sub/dep_test.ucg";\nlet l = import "../lib.ucg";\nassert {ok = d.v == l.k, desc = "q2-b-a0-holds"};\n', [('q2-b-a0-holds', True, False)], deps=[a, dep, lib])
    out.append(Project(2, [lib, dep, a, b]))
    # 3: a file that stops with a run-time error after a true assertion, imported (value unused) by two other test files
    rterr = DagFile('rterr_test.ucg', 'let v = 1;\nassert {ok = true, desc = "q3-rterr-a0-holds"};\nlet x = fail "boom";\n', [('q3-rterr-a0-holds', True, False)], 'a run-time error (`fail "boom"`) on the last line', export=1)
    u1 = DagFile('u1_test.ucg', 'let b = import "rterr_test.ucg";\nassert {ok = true, desc = "q3-u1-a0-holds"};\n', [('q3-u1-a0-holds', True, False)], deps=[rterr])
    u2 = DagFile('u2_test.ucg', 'assert {ok = true, desc = "q3-u2-a0-holds"};\nlet b = import "rterr_test.ucg";\n', [('q3-u2-a0-holds', True, False)], deps=[rterr])
    out.append(Project(3, [rterr, u1, u2]))
    # 4: two files with the same base name in different directories (one passes, one fails), a third importing both
    xs = DagFile('sub/x_test.ucg', 'let v = 1;\nassert {ok = v == 1, desc = "q4-subx-a0-holds"};\n', [('q4-subx-a0-holds', True, False)], export=1)
    xo = DagFile('other/x_test.ucg', 'let v = 2;\nassert {ok = v == 1, desc = "q4-otherx-a0-fails"};\nassert {ok = v == 2, desc = "q4-otherx-a1-holds"};\n', [('q4-otherx-a0-fails', False, False), ('q4-otherx-a1-holds', True, False)], export=2)
    y = DagFile('sub/deep/y_test.ucg', 'let a = import "../x_test.ucg";\nlet b = import "../../other/x_test.ucg";\nassert {ok = a.v == 1, desc = "q4-y-a0-holds"};\nassert {ok = b.v == 2, desc = "q4-y-a1-holds"};\n',
                [('q4-y-a0-holds', True, False), ('q4-y-a1-holds', True, False)], deps=[xs, xo])
    out.append(Project(4, [xs, xo, y]))
    # 5: a diamond over a shared file with assertions, every import spelled in a way that is not already normal (`./x`, `d/../x`)
    sh = DagFile('shared_test.ucg', 'let v = 3;\nassert {ok = v == 3, desc = "q5-shared-a0-holds"};\n', [('q5-shared-a0-holds', True, False)], export=3)
    l = DagFile('sub/left_test.ucg', 'let s = import "./../shared_test.ucg";\nassert {ok = s.v == 3, desc = "q5-left-a0-holds"};\n', [('q5-left-a0-holds', True, False)], deps=[sh])
    r = DagFile('right_test.ucg', 'let s = import "./shared_test.ucg";\nassert {ok = s.v == 3, desc = "q5-right-a0-holds"};\n', [('q5-right-a0-holds', True, False)], deps=[sh])
    top = DagFile('top_test.ucg', 'let a = import "sub/../sub/left_test.ucg";\nlet b = import "./right_test.ucg";\nlet c = import "./shared_test.ucg";\nassert {ok = a.s.v == b.s.v, desc = "q5-top-a0-holds"};\n',
                  [('q5-top-a0-holds', True, False)], deps=[l, r, sh])
    out.append(Project(5, [sh, l, r, top]))
    return out


def spell(rnd, proj, path, style=None):
    """Another way of naming the same file on the command line."""
    style = style or rnd.choice(['plain', 'dot', 'abs', 'updown'])
    if style == 'dot':
        return './' + path
    if style == 'abs':
        return os.path.join(proj.root, path)
    if style == 'updown':
        d = os.path.dirname(path)
        return os.path.join(d, '..', os.path.basename(d), os.path.basename(path)) if d else os.path.join('sub', '..', path)
    return path


def project_invocations(rnd, proj, thorough):
    """[(args, {path: times})] : every file alone first (their index = position in proj.tests), then orders, multisets, spellings, directories."""
    paths = [f.path for f in proj.tests]
    n = len(paths)
    invs = [([p], {p: 1}) for p in paths]
    # (b) all files in every order (n <= 3) or in sampled orders; ordered pairs
    if n <= 3:
        orders = list(itertools.permutations(paths))
    else:
        orders = set()
        orders.add(tuple(paths))
        orders.add(tuple(reversed(paths)))
        while len(orders) < (12 if thorough else 5):
            orders.add(tuple(rnd.sample(paths, n)))
        orders = sorted(orders)
    invs += [(list(o), {p: 1 for p in o}) for o in orders]
    if n >= 3:
        for _ in range(4 if thorough else 2):
            o = rnd.sample(paths, 2)
            invs.append((o, {p: 1 for p in o}))
    # (c) multisets: x x, x y x, the whole list with repeats, different spellings of one file
    multis = []
    for _ in range(3 if thorough else 1):
        x = rnd.choice(paths)
        multis.append([x, x])
    for _ in range(3 if thorough else 1):
        x, y = rnd.sample(paths, 2)
        multis.append(rnd.choice([[x, y, x], [x, x, y], [y, x, x]]))
    for _ in range(3 if thorough else 1):
        o = rnd.sample(paths, n)
        for _ in range(rnd.randint(1, 2)):
            o.insert(rnd.randint(0, len(o)), rnd.choice(paths))
        multis.append(o)
    for m in multis:
        cnt = {}
        for p in m:
            cnt[p] = cnt.get(p, 0) + 1
        invs.append((list(m), cnt))
    for _ in range(3 if thorough else 1):
        x, y = rnd.sample(paths, 2)
        m = [(x, rnd.choice(['dot', 'abs', 'updown'])), (y, rnd.choice(['plain', 'dot', 'abs', 'updown'])), (x, 'plain')]
        rnd.shuffle(m)
        cnt = {}
        for p, _ in m:
            cnt[p] = cnt.get(p, 0) + 1
        invs.append(([spell(rnd, proj, p, s) for p, s in m], cnt))
    # (d) through directories
    def scope(dirs, recursive):
        cnt = {}
        for d in dirs:
            r = os.path.normpath(d)
            for p in paths:
                pd = os.path.normpath(os.path.dirname(p) or '.')
                if pd == r or (recursive and (r == '.' or pd.startswith(r + os.sep))):
                    cnt[p] = cnt.get(p, 0) + 1
        return cnt
    invs.append((['-r', '.'], scope(['.'], True)))
    used = sorted(set(os.path.dirname(p) or '.' for p in paths))
    if used != ['.']:
        ds = rnd.sample(used, len(used))
        invs.append((['-r'] + ds, scope(ds, True)))
        invs.append((list(ds), scope(ds, False)))
    x = rnd.choice(paths)
    cnt = scope(['.'], True)
    cnt[x] += 1
    invs.append((['-r', '.', x] if rnd.random() < 0.5 else ['-r', x, '.'], cnt))
    if thorough:
        invs.append((['-r', '.', '.'], scope(['.', '.'], True)))
    return invs


def standin_import_dag(tier, seed):
    rnd = random.Random(seed)
    thorough = tier == 'thorough'
    projects = fixed_projects()
    nfixed = len(projects)
    for i in range(28 if thorough else 4):
        projects.append(gen_project(rnd, nfixed + i, nested=(i % 2 == 1)))
    work = tempfile.mkdtemp(prefix='verif_c13d_')
    jobs, meta = [], []
    try:
        for proj in projects:
            proj.write(work)
            for k, (args, cnt) in enumerate(project_invocations(rnd, proj, thorough)):
                jobs.append((['test'] + args, proj.root))
                meta.append((proj, args, cnt, k))
        res = run_many(jobs, 8)
    finally:
        shutil.rmtree(work, ignore_errors=True)
    bound = ('%d fixed + %d seeded projects of 2..5 *_test.ucg files (0..4 own assertions true / false / malformed at run time, or a build error of %d kinds first / middle / last, 25%% with an `out` statement) in which '
             'file i imports a random subset of the files before it (imports at random places between the assertions, imported values used in further assertions, second import of the same '
             'file), half of them spread over nested directories with repeated base names, half with a shared lib.ucg (30%% of those broken); each project run as: every file alone, all files in '
             'every order (<= 3 files) or %d sampled orders, ordered pairs, MULTISETS (x x / x y x / whole list with repeats / one file under several spellings of its path), and through '
             'directories (-r ., -r <dirs>, <dirs>, -r . <file>%s): %d invocations; own verdict, own log and exit status against the reference, equal in every shape'
             % (nfixed, len(projects) - nfixed, len(BUILD_ERRORS), 12 if thorough else 5, ', -r . .' if thorough else '', len(jobs)))
    alone = {}
    for (proj, args, cnt, k), (rc, so, se) in zip(meta, res):
        if k < len(proj.tests):
            alone[(proj.pid, args[0])] = alone_verdict(proj, args[0], rc, so)
    for (proj, args, cnt, k), (rc, so, se) in zip(meta, res):
        probs = check_dag_run(proj, cnt, rc, so, se, {p: alone.get((proj.pid, p)) for p in cnt})
        if probs:
            cmd = 'ucg test ' + ' '.join(a.replace(proj.root, '$PWD') for a in args)
            exp = []
            for p in cnt:
                v = proj.bypath[p].verdict()
                exp.append('%s %s' % (p, v or ('as alone (%s)' % alone.get((proj.pid, p)))))
            hard = [proj.bypath[p].verdict() for p in cnt]
            return dict(name='import_dag_invocations', bound=bound, cases=len(jobs), status='violation', detail='`%s`: %s' % (cmd, '; '.join(probs[:4])),
                        input=dict(source=proj.sources(), files=proj.sources(), command=cmd, imports={f.path: [d.path for d in f.deps] for f in proj.files if f.deps},
                                   expected='; '.join(exp) + '; exit status %s; own assertions of a building file exactly once in each of its logs' % ('non-zero' if 'FAIL' in hard else ('0' if all(h == 'PASS' for h in hard) else 'matching the verdicts')),
                                   observed='exit status %d\n%s\n%s' % (rc, so[-2500:].replace(proj.root, '$PWD'), se[-400:]), how='real binary, files written under a temporary directory ($PWD), command run there'))
    return dict(name='import_dag_invocations', bound=bound, cases=len(jobs), status='ok')



def standin_missing_files(tier, seed):
    """A file named on the command line that does not exist (never existed, a dangling symbolic link, a directory entry removed) does not
    build: it is reported FAIL, the process exits non-zero, and the other files keep their verdicts - wherever it stands in the list."""
    work = tempfile.mkdtemp(prefix='verif_c13m_')
    n = 0
    bound = 'a missing file / a dangling symlink at every place among 0..2 passing files, named relative and absolute'
    try:
        for k in range(2):
            open(os.path.join(work, 'good%d_test.ucg' % k), 'w').write('assert {ok = true, desc = "good%d holds"};\n' % k)
        os.symlink(os.path.join(work, 'gone', 'x_test.ucg'), os.path.join(work, 'dangling_test.ucg'))
        for missing in ('nothere_test.ucg', 'dangling_test.ucg', os.path.join(work, 'abs_nothere_test.ucg'), 'sub/nothere_test.ucg'):
            for goods in ([], ['good0_test.ucg'], ['good0_test.ucg', 'good1_test.ucg']):
                for pos in range(len(goods) + 1):
                    args = goods[:pos] + [missing] + goods[pos:]
                    rc, so, se = R.run_ucg(['test'] + args, work)
                    n += 1
                    out = so + se
                    how = '`ucg test %s` in a directory holding only good0_test.ucg, good1_test.ucg and a dangling symlink dangling_test.ucg' % ' '.join(args)
                    if rc == 0:
                        return dict(name='missing_files', bound=bound, cases=n, status='violation', detail='%s does not exist, yet the run exits 0' % missing,
                                    input=dict(source={'good0_test.ucg': 'assert {ok = true, desc = "good0 holds"};'}, expected='exit status != 0 and `%s - FAIL`' % missing, observed='rc=0 ' + out[-400:], how=how))
                    if not re.search(r'(?m)^%s - FAIL\s*$' % re.escape(missing), out):
                        return dict(name='missing_files', bound=bound, cases=n, status='violation', detail='%s does not exist and is not reported FAIL' % missing,
                                    input=dict(source={}, expected='a line `%s - FAIL`' % missing, observed=out[-500:], how=how))
                    for g in goods:
                        if not re.search(r'(?m)^%s - PASS\s*$' % re.escape(g), out):
                            return dict(name='missing_files', bound=bound, cases=n, status='violation', detail='%s passes alone but is not reported PASS next to the missing %s' % (g, missing),
                                        input=dict(source={}, expected='a line `%s - PASS`' % g, observed=out[-500:], how=how))
    finally:
        shutil.rmtree(work, ignore_errors=True)
    return dict(name='missing_files', bound=bound, cases=n, status='ok')


STANDINS = [standin_missing_files, standin_generated_orders, standin_recursive_dirs, standin_import_dag]
