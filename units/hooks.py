"""Text generated at assembly time from non-Rust sources of /repo (documentation tables, word lists)."""
import os
import re
import html

REPO = os.environ.get('VERIF_REPO', '/repo')

# operator spelling in the published table -> variant of BinaryExprType.
# (`=~` in the table is the row of the `~` token.)
DOC_OP = {'==': 'Equal', '!=': 'NotEqual', '>=': 'GTEqual', '<=': 'LTEqual', '<': 'LT', '>': 'GT',
          '=~': 'REMatch', '!~': 'NotREMatch', 'in': 'IN', 'is': 'IS', '+': 'Add', '-': 'Sub',
          '*': 'Mul', '/': 'Div', '%%': 'Mod', '&&': 'AND', '||': 'OR', '.': 'DOT'}


def doc_level(ctx):
    """spec fn doc_level generated from the precedence table of the language reference."""
    from assemble import Undecided
    p = os.path.join(REPO, 'docsite/site/content/reference/expressions.md')
    try:
        txt = open(p).read()
    except OSError as e:
        raise Undecided('reference table unreadable: %s' % e)
    rows = re.findall(r'<tr><td>(.*?)</td><td>(\d+)</td>', txt)
    levels = {}
    for op, lvl in rows:
        op = html.unescape(op).strip()
        if op not in DOC_OP:
            raise Undecided('unknown operator %r in the published table' % op)
        levels[DOC_OP[op]] = int(lvl)
    if set(levels) != set(DOC_OP.values()):
        raise Undecided('published precedence table incomplete: %s' % sorted(set(DOC_OP.values()) - set(levels)))
    arms = '\n'.join('        BinaryExprType::%s => %d,' % (v, levels[v]) for v in sorted(levels))
    return ('// generated from docsite/site/content/reference/expressions.md (the published table)\n'
            'pub open spec fn doc_level(op: BinaryExprType) -> u32 {\n    match op {\n%s\n    }\n}\n' % arms)


def reserved_words(ctx):
    """spec fns for the reserved-word check: `src_reserved` from the literal list in vm.rs::reserved_words
    (what the BTreeSet really contains) and `doc_reserved` from the reference's list."""
    from assemble import Undecided
    try:
        vm = open(os.path.join(REPO, 'src/build/opcode/vm.rs')).read()
        doc = open(os.path.join(REPO, 'docsite/site/content/reference/_index.md')).read()
    except OSError as e:
        raise Undecided('reserved word sources unreadable: %s' % e)
    m = re.search(r'fn reserved_words\(\).*?BTreeSet::from\(\[(.*?)\]\)', vm, re.S)
    if not m:
        raise Undecided('reserved_words() literal list not found in vm.rs')
    src_words = re.findall(r'"([^"]+)"', m.group(1))
    m2 = re.search(r'reserved in UCG.*?\n((?:\s*\n|\* .*\n)+)', doc)
    if not m2:
        raise Undecided('reserved word list not found in the reference')
    doc_words = re.findall(r'^\* (\S+)\s*$', m2.group(1), re.M)
    if len(src_words) < 5 or len(doc_words) < 5:
        raise Undecided('reserved word lists implausibly short')

    def disj(ws):
        return ' || '.join('s == "%s"@' % w for w in ws)
    return ('// generated: literal list of vm.rs::reserved_words()\n'
            'pub open spec fn src_reserved(s: Seq<char>) -> bool { %s }\n'
            '// generated: reserved words published in docsite/site/content/reference/_index.md\n'
            'pub open spec fn doc_reserved(s: Seq<char>) -> bool { %s }\n' % (disj(src_words), disj(doc_words)))
