#!/bin/bash
# usage: keep5.sh Cxx  -- renumber round-5 seeds after existing ones, confirm + test them (own scratch worktree per property)
cd /verif
pid=$1
export SEED_REPO=/scratch/seedrun_$pid
n=$(ls -d seeded/${pid}_* 2>/dev/null | sed 's/.*_//' | sort -n | tail -1); n=${n:-0}
for d in /tmp/seeds5/$pid/${pid}_*; do
  [ -f $d/patch.diff ] || continue
  n=$((n+1)); new=/tmp/seeds5/$pid/keep/${pid}_$n; mkdir -p /tmp/seeds5/$pid/keep; rm -rf $new; cp -r $d $new
  python3 fw/seedkeep.py $new
done
rm -rf ${SEED_REPO}_target; git -C /repo worktree remove --force $SEED_REPO 2>/dev/null
