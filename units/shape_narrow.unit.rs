//@ unit shape_narrow
//@ serves C06 C04
//@ must_verify Shape::narrow Shape::narrow_cached Shape::narrow_tuple_shapes_cached Shape::narrow_list_shapes_cached Shape::pos is_list_subset_cached is_tuple_subset_cached compat VIter::next verif_slice_iter verif_find
//@ include prelude/head.rs
use std::rc::Rc;
use std::collections::BTreeMap;

verus! {
//@ include prelude/core.rs
//@ include prelude/constraint_rt_models.rs
//@ include prelude/shape_narrow_models.rs

// Positions are only cloned and stored (R5).
//@ opaque Position
//@ clone_spec Position

//@ extract src/ast/mod.rs :: struct PositionedItem
//@   rule R0
//@ end
//@ extract src/ast/mod.rs :: type TupleShape
//@ end
//@ extract src/ast/mod.rs :: struct FuncShapeDef
//@   rule R0 RV
//@ end
//@ extract src/ast/mod.rs :: struct ModuleShape
//@   rule R0 RV
//@ end
//@ extract src/ast/mod.rs :: enum ImportShape
//@   rule R0
//@ end
//@ extract src/ast/mod.rs :: enum NarrowingShape
//@   rule R0
//@ end
//@ extract src/ast/mod.rs :: struct NarrowedShape
//@   rule R0
//@ end
//@ extract src/ast/mod.rs :: enum Shape
//@   rule R0
//@ end
// R0: #[derive(Clone)] is structural
//@ clone_spec Shape

// R0: `#[derive(PartialEq)]` on Shape is not visible to Verus. `==` on two shapes (only used by the memo-cache lookup of the
// ConstraintRef arm) is an uninterpreted function of the two.
pub uninterp spec fn shape_same(a: Shape, b: Shape) -> bool;
impl PartialEqSpecImpl for Shape {
    open spec fn obeys_eq_spec() -> bool { true }
    open spec fn eq_spec(&self, other: &Shape) -> bool { shape_same(*self, *other) }
}
impl PartialEq for Shape {
    #[verifier::external_body]
    fn eq(&self, other: &Shape) -> bool { unimplemented!() }
}

pub type Fields = Seq<(PositionedItem<Rc<str>>, Shape)>;

// ---------- termination measure: number of Shape nodes (Func / Module / Import are leaves here) ----------
pub open spec fn sz_list(v: Vec<Shape>, n: nat) -> nat
    decreases v, n
{
    if n == 0 || n > v@.len() { 0 } else { sz(v@[n - 1]) + sz_list(v, (n - 1) as nat) }
}
pub open spec fn sz_fields(v: TupleShape, n: nat) -> nat
    decreases v, n
{
    if n == 0 || n > v@.len() { 0 } else { sz(v@[n - 1].1) + sz_fields(v, (n - 1) as nat) }
}
pub open spec fn sz_ns(ns: NarrowedShape) -> nat
    decreases ns
{
    match ns.types {
        NarrowingShape::Narrowed(v) => sz_list(v, v@.len()),
        NarrowingShape::Any => 0,
    }
}
pub open spec fn sz(s: Shape) -> nat
    decreases s
{
    match s {
        Shape::List(ns) => 1 + sz_ns(ns),
        Shape::Narrowed(ns) => 1 + sz_ns(ns),
        Shape::Tuple(pi) => 1 + sz_fields(pi.val, pi.val@.len()),
        _ => 1,
    }
}


pub open spec fn seq_sz(s: Seq<Shape>) -> nat
    decreases s.len()
{
    if s.len() == 0 { 0 } else { sz(s.last()) + seq_sz(s.drop_last()) }
}
pub open spec fn fields_sz(s: Fields) -> nat
    decreases s.len()
{
    if s.len() == 0 { 0 } else { sz(s.last().1) + fields_sz(s.drop_last()) }
}

pub proof fn lemma_sz_list_elem(v: Vec<Shape>, n: nat, i: int)
    requires 0 <= i < n <= v@.len()
    ensures sz(v@[i]) <= sz_list(v, n)
    decreases n
{
    if i < n - 1 { lemma_sz_list_elem(v, (n - 1) as nat, i); }
}
pub proof fn lemma_sz_fields_elem(v: TupleShape, n: nat, i: int)
    requires 0 <= i < n <= v@.len()
    ensures sz(v@[i].1) <= sz_fields(v, n)
    decreases n
{
    if i < n - 1 { lemma_sz_fields_elem(v, (n - 1) as nat, i); }
}
pub proof fn lemma_sz_pos(s: Shape)
    ensures sz(s) >= 1
{ }

// ---------- the oracle ----------
// A Narrowed without candidates, `Any`, and a type hole put no constraint on the other side.
pub open spec fn unconstrained(s: Shape) -> bool {
    s is Hole || (s matches Shape::Narrowed(ns) && (ns.types matches NarrowingShape::Narrowed(v) ==> v@.len() == 0))
}
pub open spec fn cands(s: Shape) -> Seq<Shape>
    recommends s is Narrowed
{
    match s { Shape::Narrowed(NarrowedShape { types: NarrowingShape::Narrowed(v), .. }) => v@, _ => Seq::empty() }
}
// element types of a list shape (None: unknown element type, `Any`)
pub open spec fn elems(ns: NarrowedShape) -> Option<Seq<Shape>> {
    match ns.types { NarrowingShape::Narrowed(v) => Some(v@), NarrowingShape::Any => None }
}

// Shapes the stubbed arms are about (the statement says nothing on functions and modules).
pub uninterp spec fn func_compat(l: FuncShapeDef, r: FuncShapeDef) -> bool;
pub uninterp spec fn module_compat(l: ModuleShape, r: ModuleShape) -> bool;
// phase 2
pub uninterp spec fn cref_compat(a: Shape, b: Shape) -> bool;

// compat(a, b): exemplar shape a admits shape b (property C06, reference "Shape Constraints"):
//  * a type error on either side is never admitted;
//  * a hole / an unconstrained candidate set admits everything;
//  * a candidate set admits what one of its candidates admits (and is admitted if one of its candidates is);
//  * same primitive type;
//  * tuples: every field of ONE side has a field of the same name on the other side whose type it agrees with
//    (one field set contained in the other, shared fields agree);
//  * lists: every element type of ONE side is admitted by some element type of the other side; a list of unknown
//    element type (Any) and an empty list admit everything;
//  * anything else is a mismatch (Int vs Float, tuple vs list ...).
pub open spec fn compat(a: Shape, b: Shape) -> bool
    decreases sz(a) + sz(b)
    via compat_decreases
{
    if a is TypeErr || b is TypeErr { false }
    else if a is ConstraintRef || b is ConstraintRef { cref_compat(a, b) }
    else if unconstrained(a) || unconstrained(b) { true }
    else if a is Narrowed { exists|i: int| 0 <= i < cands(a).len() && compat(#[trigger] cands(a)[i], b) }
    else if b is Narrowed { exists|j: int| 0 <= j < cands(b).len() && compat(a, #[trigger] cands(b)[j]) }
    else {
        match (a, b) {
            (Shape::Str(_), Shape::Str(_)) | (Shape::Boolean(_), Shape::Boolean(_))
            | (Shape::Int(_), Shape::Int(_)) | (Shape::Float(_), Shape::Float(_)) => true,
            (Shape::List(l), Shape::List(r)) => match (elems(l), elems(r)) {
                (Some(ls), Some(rs)) =>
                    (forall|i: int| 0 <= i < ls.len() ==> exists|j: int| 0 <= j < rs.len() && compat(#[trigger] ls[i], #[trigger] rs[j]))
                    || (forall|j: int| 0 <= j < rs.len() ==> exists|i: int| 0 <= i < ls.len() && compat(#[trigger] rs[j], #[trigger] ls[i])),
                _ => true,
            },
            (Shape::Tuple(l), Shape::Tuple(r)) => {
                let lf = l.val@; let rf = r.val@;
                (forall|i: int| 0 <= i < lf.len() ==> exists|j: int| 0 <= j < rf.len()
                    && rf[j].0.val@ == lf[i].0.val@ && compat((#[trigger] lf[i]).1, (#[trigger] rf[j]).1))
                || (forall|j: int| 0 <= j < rf.len() ==> exists|i: int| 0 <= i < lf.len()
                    && lf[i].0.val@ == rf[j].0.val@ && compat((#[trigger] rf[j]).1, (#[trigger] lf[i]).1))
            },
            (Shape::Func(l), Shape::Func(r)) => func_compat(l, r),
            (Shape::Module(l), Shape::Module(r)) => module_compat(l, r),
            _ => false,
        }
    }
}

#[via_fn]
proof fn compat_decreases(a: Shape, b: Shape)
{
    if a is Narrowed && !unconstrained(a) {
        let v = a->Narrowed_0.types->Narrowed_0;
        assert forall|i: int| 0 <= i < cands(a).len() implies sz(#[trigger] cands(a)[i]) < sz(a) by {
            lemma_sz_list_elem(v, v@.len(), i);
        }
    }
    if b is Narrowed && !unconstrained(b) {
        let v = b->Narrowed_0.types->Narrowed_0;
        assert forall|j: int| 0 <= j < cands(b).len() implies sz(#[trigger] cands(b)[j]) < sz(b) by {
            lemma_sz_list_elem(v, v@.len(), j);
        }
    }
    if a is List && b is List && elems(a->List_0) is Some && elems(b->List_0) is Some {
        let lv = a->List_0.types->Narrowed_0;
        let rv = b->List_0.types->Narrowed_0;
        assert forall|i: int| 0 <= i < lv@.len() implies sz(#[trigger] lv@[i]) < sz(a) by { lemma_sz_list_elem(lv, lv@.len(), i); }
        assert forall|j: int| 0 <= j < rv@.len() implies sz(#[trigger] rv@[j]) < sz(b) by { lemma_sz_list_elem(rv, rv@.len(), j); }
    }
    if a is Tuple && b is Tuple {
        let lv = a->Tuple_0.val;
        let rv = b->Tuple_0.val;
        assert forall|i: int| 0 <= i < lv@.len() implies sz((#[trigger] lv@[i]).1) < sz(a) by { lemma_sz_fields_elem(lv, lv@.len(), i); }
        assert forall|j: int| 0 <= j < rv@.len() implies sz((#[trigger] rv@[j]).1) < sz(b) by { lemma_sz_fields_elem(rv, rv@.len(), j); }
    }
}


pub proof fn lemma_seq_sz_elem(s: Seq<Shape>, i: int)
    requires 0 <= i < s.len()
    ensures sz(s[i]) <= seq_sz(s)
    decreases s.len()
{
    if i < s.len() - 1 { lemma_seq_sz_elem(s.drop_last(), i); }
}
pub proof fn lemma_fields_sz_elem(s: Fields, i: int)
    requires 0 <= i < s.len()
    ensures sz(s[i].1) <= fields_sz(s)
    decreases s.len()
{
    if i < s.len() - 1 { lemma_fields_sz_elem(s.drop_last(), i); }
}
pub proof fn lemma_sz_list_seq(v: Vec<Shape>, n: nat)
    requires n <= v@.len()
    ensures sz_list(v, n) == seq_sz(v@.take(n as int))
    decreases n
{
    if n > 0 {
        lemma_sz_list_seq(v, (n - 1) as nat);
        assert(v@.take(n as int).drop_last() =~= v@.take(n - 1));
    }
}
pub proof fn lemma_sz_fields_seq(v: TupleShape, n: nat)
    requires n <= v@.len()
    ensures sz_fields(v, n) == fields_sz(v@.take(n as int))
    decreases n
{
    if n > 0 {
        lemma_sz_fields_seq(v, (n - 1) as nat);
        assert(v@.take(n as int).drop_last() =~= v@.take(n - 1));
    }
}

pub proof fn lemma_sz_ns_seq(ns: NarrowedShape)
    ensures elems(ns) matches Some(xs) ==> sz_ns(ns) == seq_sz(xs)
{
    if let NarrowingShape::Narrowed(v) = ns.types { lemma_sz_list_seq(v, v@.len()); assert(v@.take(v@.len() as int) =~= v@); }
}
pub proof fn lemma_sz_tuple_seq(v: TupleShape)
    ensures sz_fields(v, v@.len()) == fields_sz(v@)
{
    lemma_sz_fields_seq(v, v@.len()); assert(v@.take(v@.len() as int) =~= v@);
}

// no reference to a named constraint anywhere in the shape (phase 1; function and module shapes are opaque here)
pub uninterp spec fn func_cref_free(d: FuncShapeDef) -> bool;
pub uninterp spec fn module_cref_free(d: ModuleShape) -> bool;
pub open spec fn cref_free(s: Shape) -> bool
    decreases s
{
    match s {
        Shape::ConstraintRef(_) => false,
        Shape::List(ns) => cref_free_ns(ns),
        Shape::Narrowed(ns) => cref_free_ns(ns),
        Shape::Tuple(pi) => forall|i: int| 0 <= i < pi.val@.len() ==> cref_free((#[trigger] pi.val@[i]).1),
        Shape::Func(d) => func_cref_free(d),
        Shape::Module(d) => module_cref_free(d),
        _ => true,
    }
}
pub open spec fn cref_free_ns(ns: NarrowedShape) -> bool
    decreases ns
{
    match ns.types {
        NarrowingShape::Narrowed(v) => forall|i: int| 0 <= i < v@.len() ==> cref_free(#[trigger] v@[i]),
        NarrowingShape::Any => true,
    }
}

pub open spec fn admitted_by_some(x: Shape, ys: Seq<Shape>) -> bool {
    exists|j: int| 0 <= j < ys.len() && compat(x, #[trigger] ys[j])
}
pub open spec fn list_sub_from(xs: Seq<Shape>, from: int, ys: Seq<Shape>) -> bool {
    forall|k: int| from <= k < xs.len() ==> admitted_by_some(#[trigger] xs[k], ys)
}
pub open spec fn field_admitted(f: (PositionedItem<Rc<str>>, Shape), rf: Fields) -> bool {
    exists|j: int| 0 <= j < rf.len() && rf[j].0.val@ == f.0.val@ && compat(f.1, (#[trigger] rf[j]).1)
}
pub open spec fn tuple_sub_from(lf: Fields, from: int, rf: Fields) -> bool {
    forall|k: int| from <= k < lf.len() ==> field_admitted(#[trigger] lf[k], rf)
}

pub type Seen = Seq<(Rc<str>, Shape, Shape)>;
pub type SymMap = Map<Rc<str>, Shape>;
// the memo cache is untouched; the symbol table keeps exactly its names (entries of holes may be refined)
pub open spec fn frame(st0: SymMap, st1: SymMap, seen0: Seen, seen1: Seen) -> bool {
    st1.dom() =~= st0.dom() && seen1 == seen0
}

// what narrow_cached returns (phase 1)
pub open spec fn narrow_post(a: Shape, b: Shape, r: Shape) -> bool {
    &&& (r is TypeErr) == !compat(a, b)
    &&& !(r is TypeErr) ==> (r == a || r == b)
}

// The Func/Func and Module/Module arms are NOT verified (function and module shapes are outside the property statement;
// the recursion through BTreeMap values has no structural measure). They are cut off by an always-taken early return to
// these stubs: ASSUMED contract = result is a type error iff the uninterpreted func_compat / module_compat says so, else a
// clone of self; frame as everywhere else.
#[verifier::external_body]
fn verif_skip_arm() -> (r: bool) ensures r { true }
#[verifier::external_body]
fn verif_narrow_func_arm(slf: &Shape, l: &FuncShapeDef, r: &FuncShapeDef, symbol_table: &mut BTreeMap<Rc<str>, Shape>, seen: &mut Vec<(Rc<str>, Shape, Shape)>) -> (res: Shape)
    ensures (res is TypeErr) == !func_compat(*l, *r), !(res is TypeErr) ==> res == *slf,
        frame(old(symbol_table)@, final(symbol_table)@, old(seen)@, final(seen)@),
{ unimplemented!() }
#[verifier::external_body]
fn verif_narrow_module_arm(slf: &Shape, l: &ModuleShape, r: &ModuleShape, symbol_table: &mut BTreeMap<Rc<str>, Shape>, seen: &mut Vec<(Rc<str>, Shape, Shape)>) -> (res: Shape)
    ensures (res is TypeErr) == !module_compat(*l, *r), !(res is TypeErr) ==> res == *slf,
        frame(old(symbol_table)@, final(symbol_table)@, old(seen)@, final(seen)@),
{ unimplemented!() }

pub proof fn lemma_cands(s: Shape)
    ensures
        s matches Shape::Narrowed(NarrowedShape { types: NarrowingShape::Narrowed(v), .. }) ==>
            (forall|j: int| 0 <= j < v@.len() ==> sz(#[trigger] v@[j]) < sz(s))
            && (cref_free(s) ==> forall|j: int| 0 <= j < v@.len() ==> cref_free(#[trigger] v@[j])),
{
    if let Shape::Narrowed(NarrowedShape { types: NarrowingShape::Narrowed(v), .. }) = s {
        assert forall|j: int| 0 <= j < v@.len() implies sz(#[trigger] v@[j]) < sz(s) by { lemma_sz_list_elem(v, v@.len(), j); }
        if cref_free(s) { assert(cref_free_ns(s->Narrowed_0)); }
    }
}
// unfolding of cref_free for the two container shapes
pub proof fn lemma_cref_free_parts(s: Shape)
    requires cref_free(s)
    ensures
        s matches Shape::List(ns) ==> cref_free_ns(ns) && (elems(ns) matches Some(xs) ==> forall|j: int| 0 <= j < xs.len() ==> cref_free(#[trigger] xs[j])),
        s matches Shape::Tuple(pi) ==> forall|j: int| 0 <= j < pi.val@.len() ==> cref_free((#[trigger] pi.val@[j]).1),
{
    if let Shape::List(ns) = s { assert(cref_free_ns(ns)); }
}

//@ extract src/ast/mod.rs :: impl Shape :: fn pos
//@   ret r
//@   sig <<<
        decreases *self
//@   >>>
//@ end

//@ extract src/ast/mod.rs :: impl Shape :: fn with_pos
//@   opaque_body
//@ end

//@ extract src/ast/mod.rs :: impl Shape :: fn narrow_cached
//@   rule R1
//@   subst all <<<
                let compatible: Vec<Shape> = types
                    .iter()
                    .filter(|t| {
//@ ===
                let mut compatible__v: Vec<Shape> = Vec::new(); let it__c = types.as_slice(); let mut i__c: usize = 0; while i__c < it__c.len() { let t = &it__c[i__c]; i__c += 1; let keep__ = {
//@   >>>
//@   subst all <<<
                    })
                    .cloned()
                    .collect();
//@ ===
                    }; if keep__ { compatible__v.push(t.clone()); } } let compatible: Vec<Shape> = compatible__v;
//@   >>>
// `.iter().find(closure)` -> the verified model verif_find; the closure keeps its body, Verus needs its parameter type and an `ensures`
//@   subst "seen.iter().find(|(name, shape, _)| {" => "verif_find(seen.as_slice(), |e__: &(Rc<str>, Shape, Shape)| -> (b: bool) ensures b == (e__.0@ == cref.val@ && shape_same(e__.1, *other)) { let (name, shape, _) = e__;"
//@   subst "(Shape::Func(left_opshape), Shape::Func(right_opshape)) => {" => "(Shape::Func(left_opshape), Shape::Func(right_opshape)) => { if verif_skip_arm() { return verif_narrow_func_arm(self, left_opshape, right_opshape, symbol_table, seen); }"
//@   subst "(Shape::Module(left_opshape), Shape::Module(right_opshape)) => {" => "(Shape::Module(left_opshape), Shape::Module(right_opshape)) => { if verif_skip_arm() { return verif_narrow_module_arm(self, left_opshape, right_opshape, symbol_table, seen); }"
//@   ret r
//@   sig <<<
        requires cref_free(*self), cref_free(*right)
        ensures
            narrow_post(*self, *right, r),
            frame(old(symbol_table)@, final(symbol_table)@, old(seen)@, final(seen)@),
        decreases sz(*self) + sz(*right), 1nat
//@   >>>
//@   body_start <<<
        broadcast use axiom_rc_str_btree_key;
        proof { lemma_cands(*self); lemma_cands(*right); }
//@   >>>
//@   loop 1 <<<
                    invariant
                        i__c <= it__c@.len(), it__c@ == types@, other == right,
                        forall|j: int| 0 <= j < types@.len() ==> sz(#[trigger] types@[j]) < sz(*self),
                        forall|j: int| 0 <= j < types@.len() ==> cref_free(#[trigger] types@[j]),
                        cref_free(*other),
                        (compatible__v@.len() > 0) == (exists|j: int| 0 <= j < i__c && compat(#[trigger] types@[j], *other)),
                        frame(old(symbol_table)@, symbol_table@, old(seen)@, seen@),
                    decreases it__c@.len() - i__c
//@   >>>
// the loops of the two cut-off arms (unreachable after the early return)
//@   loop 3 <<<
                    invariant false
//@   >>>
//@   loop 4 <<<
                    invariant false
//@   >>>
//@   loop 5 <<<
                    invariant false
//@   >>>
//@   loop 2 <<<
                    invariant
                        i__c <= it__c@.len(), it__c@ == types@, other == self,
                        forall|j: int| 0 <= j < types@.len() ==> sz(#[trigger] types@[j]) < sz(*right),
                        forall|j: int| 0 <= j < types@.len() ==> cref_free(#[trigger] types@[j]),
                        cref_free(*other),
                        (compatible__v@.len() > 0) == (exists|j: int| 0 <= j < i__c && compat(*other, #[trigger] types@[j])),
                        frame(old(symbol_table)@, symbol_table@, old(seen)@, seen@),
                    decreases it__c@.len() - i__c
//@   >>>
//@   mutant int_float_conflated "| (Shape::Int(_), Shape::Int(_))" => "| (Shape::Int(_), Shape::Float(_))" expect narrow_cached
//@   mutant first_candidate_only "while i__c < it__c.len() { let t = &it__c[i__c]; i__c += 1; let keep__ = { let result = t.narrow_cached(other" => "while i__c < it__c.len() && i__c < 1 { let t = &it__c[i__c]; i__c += 1; let keep__ = { let result = t.narrow_cached(other" expect narrow_cached
//@   mutant candidate_filter_inverted "let result = other.narrow_cached(t, symbol_table, seen); !matches!(result, Shape::TypeErr(_, _))" => "let result = other.narrow_cached(t, symbol_table, seen); matches!(result, Shape::TypeErr(_, _))" expect narrow_cached
//@   mutant type_error_not_propagated "(_, Shape::TypeErr(_, _)) => right.clone()," => "(_, Shape::TypeErr(_, _)) => self.clone()," expect narrow_cached
//@   mutant mismatch_accepted "_ => Shape::TypeErr( right.pos().clone(), verif_msg(), )," => "_ => self.clone()," expect narrow_cached
//@ end

//@ extract src/ast/mod.rs :: impl Shape :: fn narrow
//@   ret r
//@   sig <<<
        requires cref_free(*self), cref_free(*right)
        ensures
            // a type error exactly for shapes that are not compatible; otherwise one of the two shapes
            narrow_post(*self, *right, r),
            // the symbol table keeps exactly its names
            final(symbol_table)@.dom() =~= old(symbol_table)@.dom(),
//@   >>>
//@ end

//@ extract src/ast/mod.rs :: impl Shape :: fn narrow_tuple_shapes_cached
//@   mutant tuple_one_direction_only "} else if is_tuple_subset_cached(right_iter, left_slist, symbol_table, seen) {" => "} else if false {" expect narrow_tuple_shapes_cached
//@   subst "left_slist.val.iter()" => "verif_slice_iter(&left_slist.val)"
//@   subst "right_slist.val.iter()" => "verif_slice_iter(&right_slist.val)"
//@   ret r
//@   sig <<<
        requires
            *self == Shape::Tuple(*left_slist), *right == Shape::Tuple(*right_slist),
            cref_free(*self), cref_free(*right),
        ensures
            narrow_post(*self, *right, r),
            frame(old(symbol_table)@, final(symbol_table)@, old(seen)@, final(seen)@),
        decreases sz(*self) + sz(*right), 0nat
//@   >>>
//@   body_start <<<
        proof {
            lemma_sz_tuple_seq(left_slist.val); lemma_sz_tuple_seq(right_slist.val);
            lemma_cref_free_parts(*self); lemma_cref_free_parts(*right);
        }
//@   >>>
//@ end

//@ extract src/ast/mod.rs :: impl Shape :: fn narrow_list_shapes_cached
//@   mutant list_one_direction_only "} else if is_list_subset_cached(right_iter, left_slist, symbol_table, seen) {" => "} else if false {" expect narrow_list_shapes_cached
//@   mutant list_unknown_elem_rejects "| (NarrowingShape::Any, NarrowingShape::Any) => self.clone()," => "| (NarrowingShape::Any, NarrowingShape::Any) => Shape::TypeErr(right.pos().clone(), \"Incompatible List Shapes\".to_owned())," expect narrow_list_shapes_cached
//@   subst "left_types.iter()" => "verif_slice_iter(left_types)"
//@   subst "right_types.iter()" => "verif_slice_iter(right_types)"
//@   ret r
//@   sig <<<
        requires
            *self == Shape::List(*left_slist), *right == Shape::List(*right_slist),
            cref_free(*self), cref_free(*right),
        ensures
            narrow_post(*self, *right, r),
            frame(old(symbol_table)@, final(symbol_table)@, old(seen)@, final(seen)@),
        decreases sz(*self) + sz(*right), 0nat
//@   >>>
//@   body_start <<<
        proof {
            lemma_sz_ns_seq(*left_slist); lemma_sz_ns_seq(*right_slist);
            lemma_cref_free_parts(*self); lemma_cref_free_parts(*right);
        }
//@   >>>
//@ end

//@ extract src/ast/mod.rs :: fn is_list_subset_cached
//@   rule R4
// the body shadows the parameter `left_slist`, so loop invariants cannot name it; without loop isolation the facts
// about it are simply inherited by the loops
//@   subst "fn is_list_subset_cached" => "#[verifier::loop_isolation(false)] #[verifier::allow_complex_invariants] fn is_list_subset_cached"
// R9': std::slice::Iter -> the verified index walker VIter
//@   subst "std::slice::Iter<Shape>" => "VIter<Shape>"
// Verus has no `break VALUE`: the loop's value goes through the local r__
//@   subst "let right_subset = loop" => "let mut r__: bool = true; loop"
//@   subst "break true" => "{ r__ = true; break; }"
//@   subst "break matches" => "{ r__ = matches; break; }"
//@   after_loop 1 <<<
    let right_subset = r__;
//@   >>>
//@   ret r
//@   sig <<<
    requires
        right_iter__in.wf(),
        forall|k: int| right_iter__in.i <= k < right_iter__in.s@.len() ==> cref_free(#[trigger] right_iter__in.s@[k]),
        cref_free_ns(*left_slist),
    ensures
        // every remaining element type of the iterated side is admitted by some element type of the other side
        // (a list of unknown element type admits everything)
        r == (elems(*left_slist) matches Some(ys) ==> list_sub_from(right_iter__in.s@, right_iter__in.i as int, ys)),
        frame(old(symbol_table)@, final(symbol_table)@, old(seen)@, final(seen)@),
    decreases 1 + seq_sz(right_iter__in.s@) + sz_ns(*left_slist), 0nat
//@   >>>
//@   body_start <<<
    let ghost ns0 = *left_slist;
    proof {
        assert forall|k: int| 0 <= k < right_iter__in.s@.len() implies sz(#[trigger] right_iter__in.s@[k]) <= seq_sz(right_iter__in.s@) by {
            lemma_seq_sz_elem(right_iter__in.s@, k);
        }
        if ns0.types is Narrowed {
            let v = ns0.types->Narrowed_0;
            assert forall|j: int| 0 <= j < v@.len() implies sz(#[trigger] v@[j]) <= sz_ns(ns0) by { lemma_sz_list_elem(v, v@.len(), j); }
        }
    }
//@   >>>
//@   loop 1 <<<
        invariant_except_break
            forall|k: int| right_iter__in.i <= k < right_iter.i ==> admitted_by_some(#[trigger] right_iter.s@[k], left_slist@),
        invariant
            right_iter.wf(), right_iter.s == right_iter__in.s, right_iter__in.i <= right_iter.i,
            forall|j: int| 0 <= j < left_slist@.len() ==> cref_free(#[trigger] left_slist@[j]),
            forall|j: int| 0 <= j < left_slist@.len() ==> sz(#[trigger] left_slist@[j]) <= sz_ns(ns0),
            forall|k: int| right_iter__in.i <= k < right_iter__in.s@.len() ==> cref_free(#[trigger] right_iter__in.s@[k]),
            forall|k: int| 0 <= k < right_iter__in.s@.len() ==> sz(#[trigger] right_iter__in.s@[k]) <= seq_sz(right_iter__in.s@),
            frame(old(symbol_table)@, symbol_table@, old(seen)@, seen@),
        ensures
            r__ == list_sub_from(right_iter__in.s@, right_iter__in.i as int, left_slist@),
            frame(old(symbol_table)@, symbol_table@, old(seen)@, seen@),
        decreases right_iter.s@.len() - right_iter.i
//@   >>>
//@   loop 2 indexed <<<
            invariant
                i__2 <= it__2@.len(), it__2@ == left_slist@,
                forall|j: int| 0 <= j < left_slist@.len() ==> cref_free(#[trigger] left_slist@[j]),
                forall|j: int| 0 <= j < left_slist@.len() ==> sz(#[trigger] left_slist@[j]) <= sz_ns(ns0),
                cref_free(*ls),
                sz(*ls) <= seq_sz(right_iter__in.s@),
                // the flag says: some element type seen so far admits this one (it starts false for EVERY element)
                matches == (exists|j: int| 0 <= j < i__2 && compat(*ls, #[trigger] left_slist@[j])),
                frame(old(symbol_table)@, symbol_table@, old(seen)@, seen@),
            decreases it__2@.len() - i__2
//@   >>>
//@   mutant list_flag_not_reset "let right_subset = loop { let mut matches = false;" => "let mut matches = false; let right_subset = loop {" expect is_list_subset_cached
//@   mutant empty_list_side_rejects "{ r__ = true; break; }" => "{ r__ = false; break; }" expect is_list_subset_cached
//@   mutant list_any_side_rejects "NarrowingShape::Any => return true" => "NarrowingShape::Any => return false" expect is_list_subset_cached
//@ end

//@ extract src/ast/mod.rs :: fn is_tuple_subset_cached
//@   rule R4
//@   subst "std::slice::Iter<(PositionedItem<Rc<str>>, Shape)>" => "VIter<(PositionedItem<Rc<str>>, Shape)>"
//@   subst "break false" => "{ r__ = false; break; }"
//@   subst "break true" => "{ r__ = true; break; }"
//@   after_loop 1 <<<
    r__
//@   >>>
//@   ret r
//@   sig <<<
    requires
        left_iter__in.wf(),
        forall|k: int| left_iter__in.i <= k < left_iter__in.s@.len() ==> cref_free((#[trigger] left_iter__in.s@[k]).1),
        forall|j: int| 0 <= j < right_slist.val@.len() ==> cref_free((#[trigger] right_slist.val@[j]).1),
    ensures
        // every remaining field of the iterated side has a field of the same name on the other side that admits its type
        r == tuple_sub_from(left_iter__in.s@, left_iter__in.i as int, right_slist.val@),
        frame(old(symbol_table)@, final(symbol_table)@, old(seen)@, final(seen)@),
    decreases 1 + fields_sz(left_iter__in.s@) + sz_fields(right_slist.val, right_slist.val@.len() as nat), 0nat
//@   >>>
//@   body_start <<<
    let mut r__: bool = true;
    let ghost rf = right_slist.val@;
    proof {
        assert forall|k: int| 0 <= k < left_iter__in.s@.len() implies sz((#[trigger] left_iter__in.s@[k]).1) <= fields_sz(left_iter__in.s@) by {
            lemma_fields_sz_elem(left_iter__in.s@, k);
        }
        assert forall|j: int| 0 <= j < rf.len() implies sz((#[trigger] rf[j]).1) <= sz_fields(right_slist.val, rf.len()) by {
            lemma_sz_fields_elem(right_slist.val, rf.len(), j);
        }
    }
//@   >>>
//@   loop 1 <<<
        invariant_except_break
            forall|k: int| left_iter__in.i <= k < left_iter.i ==> field_admitted(#[trigger] left_iter.s@[k], rf),
        invariant
            left_iter.wf(), left_iter.s == left_iter__in.s, left_iter__in.i <= left_iter.i,
            rf == right_slist.val@,
            forall|k: int| left_iter__in.i <= k < left_iter__in.s@.len() ==> cref_free((#[trigger] left_iter__in.s@[k]).1),
            forall|j: int| 0 <= j < rf.len() ==> cref_free((#[trigger] rf[j]).1),
            forall|k: int| 0 <= k < left_iter__in.s@.len() ==> sz((#[trigger] left_iter__in.s@[k]).1) <= fields_sz(left_iter__in.s@),
            forall|j: int| 0 <= j < rf.len() ==> sz((#[trigger] rf[j]).1) <= sz_fields(right_slist.val, rf.len()),
            frame(old(symbol_table)@, symbol_table@, old(seen)@, seen@),
        ensures
            r__ == tuple_sub_from(left_iter__in.s@, left_iter__in.i as int, rf),
            frame(old(symbol_table)@, symbol_table@, old(seen)@, seen@),
        decreases left_iter.s@.len() - left_iter.i
//@   >>>
//@   loop 2 indexed <<<
                invariant
                    i__2 <= it__2@.len(), it__2@ == rf, rf == right_slist.val@,
                    forall|j: int| 0 <= j < rf.len() ==> cref_free((#[trigger] rf[j]).1),
                    forall|j: int| 0 <= j < rf.len() ==> sz((#[trigger] rf[j]).1) <= sz_fields(right_slist.val, rf.len()),
                    cref_free(*ls),
                    sz(*ls) <= fields_sz(left_iter__in.s@),
                    // the flag says: a field of the same name seen so far admits this field's type
                    matched == (exists|j: int| 0 <= j < i__2 && rf[j].0.val@ == lt.val@ && compat(*ls, (#[trigger] rf[j]).1)),
                    frame(old(symbol_table)@, symbol_table@, old(seen)@, seen@),
                decreases it__2@.len() - i__2
//@   >>>
//@   mutant tuple_field_types_not_compared "if let Shape::TypeErr(_, _) = ls.narrow_cached(rs, symbol_table, seen) { } else { matched = true; continue; }" => "{ matched = true; continue; }" expect is_tuple_subset_cached
//@   mutant tuple_names_not_compared "if rt.val == lt.val {" => "if true {" expect is_tuple_subset_cached
//@   mutant tuple_missing_field_ok "let mut matched = false;" => "let mut matched = true;" expect is_tuple_subset_cached
//@ end

} // verus!

fn main() {}
