// ---- prelude/unmap_json_models.rs: serde_json's value types as `convert_json_val` sees them (inside verus!) ----
// needs prelude/unmap_json_data.rs.
// Pinned serde_json (Cargo.lock) is built with features ["default", "std"] (see
// target/debug/.fingerprint/serde_json-*/lib-serde_json.json; Cargo.lock lists no indexmap dependency for it):
//   * `arbitrary_precision` is OFF  -> Number is `struct Number { n: N }`, `enum N { PosInt(u64), NegInt(i64), Float(f64) }`;
//   * `preserve_order` is OFF       -> `Map<String, Value>` wraps a std BTreeMap: iteration is in ASCENDING KEY
//     ORDER (String's Ord: byte-wise = code-point order), NOT in document order. The document order of object
//     members is lost by the dependency's parser before ucg sees the value.
// `enum Value`, `struct Number`, `enum N` and the three Number accessors the mapper calls are EXTRACTED from the
// pinned dependency source; only `Map` is a hand-written model.
pub mod serde_json {
    use super::*;

//@ extract dep:serde_json/src/number.rs :: struct Number
//@   rule R0 RV
//@ end
    // (the `#[cfg(not(feature = "arbitrary_precision"))]` item; visibility normalised like RV)
//@ extract dep:serde_json/src/number.rs :: enum N
//@   rule R0
//@   subst "enum N" => "pub enum N"
//@ end

    // the mathematical value of an integer number
    pub open spec fn n_int(n: N) -> Option<int> {
        match n {
            N::PosInt(u) => Some(u as int),
            N::NegInt(i) => Some(i as int),
            N::Float(_) => None,
        }
    }

    // In the three accessors the expression under `#[cfg(feature = "arbitrary_precision")]` is dropped (feature
    // off, see above); `n as f64` is the uninterpreted int->float conversion (R6).
//@ extract dep:serde_json/src/number.rs :: impl Number :: fn as_i64
//@   rule R0
//@   subst "self.n.parse().ok()" => ""
//@   ret r
//@   sig <<<
        ensures r == (match n_int(self.n) { Some(x) => if fits_i64(x) { Some(x as i64) } else { None }, None => None })
//@   >>>
//@ end
//@ extract dep:serde_json/src/number.rs :: impl Number :: fn is_u64
//@   rule R0
//@   subst "self.as_u64().is_some()" => ""
//@   ret r
//@   sig <<<
        ensures r == (self.n is PosInt)
//@   >>>
//@ end
//@ extract dep:serde_json/src/number.rs :: impl Number :: fn as_f64
//@   rule R0
//@   subst "N::PosInt(n) => Some(n as f64)" => "N::PosInt(n) => Some(verif_u64_as_f64(n))"
//@   subst "N::NegInt(n) => Some(n as f64)" => "N::NegInt(n) => Some(verif_i64_as_f64(n))"
//@   subst "self.n.parse::<f64>().ok().filter(|float| float.is_finite())" => ""
//@   ret r
//@   sig <<<
        ensures r == Some(match self.n { N::PosInt(u) => u64_to_f64(u), N::NegInt(i) => i64_to_f64(i), N::Float(f) => f })
//@   >>>
//@ end

    // MODEL of serde_json::Map<K, V> (map.rs: `struct Map<K, V> { map: BTreeMap<K, V> }`): the entries in the
    // order the map's iterator yields them. `len` is the number of entries; `for (k, v) in &map`
    // (map.rs `impl IntoIterator for &Map`: `self.map.iter()`) yields every entry once, in that order.
    // What a BTreeMap<String, _> guarantees about that order is `map_sorted` below (ascending, hence unique, keys).
    pub struct Map<K, V> { pub entries: Vec<(K, V)> }
    impl<K, V> View for Map<K, V> {
        type V = Seq<(K, V)>;
        open spec fn view(&self) -> Seq<(K, V)> { self.entries@ }
    }
    impl<K, V> Map<K, V> {
        pub fn len(&self) -> (r: usize)
            ensures r == self@.len()
        { self.entries.len() }
    }
    impl<'a, K, V> IntoIterator for &'a Map<K, V> {
        type Item = &'a (K, V);     // serde_json: (&'a K, &'a V) — the pattern `(key, value)` binds the same references
        type IntoIter = std::slice::Iter<'a, (K, V)>;
        fn into_iter(self) -> (r: std::slice::Iter<'a, (K, V)>)
            ensures
                r.obeys_prophetic_iter_laws(), r.decrease() is Some,
                r.remaining().len() == self@.len(),
                forall|k: int| 0 <= k < self@.len() ==> *(#[trigger] r.remaining()[k]) == self@[k],
        { self.entries.iter() }
    }

//@ extract dep:serde_json/src/value/mod.rs :: enum Value
//@   rule R0
//@ end

    // serde_json::Error / `serde_json::from_slice::<Value>`: the dependency's PARSER. ASSUMED to be a deterministic
    // function of the bytes, `json_parse`: Some(value) or None (malformed document). What value it produces for a
    // document is the dependency's business (DESIGN C15 "assumed").
    #[verifier::external_body]
    pub struct Error { _p: u8 }
    #[verifier::external_body]
    pub fn from_slice(bytes: &[u8]) -> (r: Result<Value, Error>)
        ensures match json_parse(bytes@) { Some(v) => r == Ok::<Value, Error>(v), None => r is Err }
    { unimplemented!() }
}
pub uninterp spec fn json_parse(bytes: Seq<u8>) -> Option<serde_json::Value>;
// `?` on the parser's error: std `impl<E: Error> From<E> for Box<dyn Error>`.
impl From<serde_json::Error> for VBoxDynError {
    #[verifier::external_body]
    fn from(e: serde_json::Error) -> (r: VBoxDynError) { unimplemented!() }
}

// ---------- the order a serde_json Map (BTreeMap<String, _>) iterates in ----------
// String's Ord is the lexicographic order of the UTF-8 bytes, which is the lexicographic order of the code points.
pub open spec fn str_lt(a: Seq<char>, b: Seq<char>) -> bool
    decreases a.len()
{
    if b.len() == 0 { false }
    else if a.len() == 0 { true }
    else if (a[0] as u32) < (b[0] as u32) { true }
    else if (a[0] as u32) > (b[0] as u32) { false }
    else { str_lt(a.drop_first(), b.drop_first()) }
}
