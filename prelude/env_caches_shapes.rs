// ---- prelude/env_caches_shapes.rs: std models for Checker::resolve_import (inside verus!). TRUSTED except the two loop
// models, which are VERIFIED. needs: prelude/env_caches_world.rs ----

// std `BTreeMap::iter`: the entries in key order - a function of the map's content.
pub uninterp spec fn map_items<K: VKey, V>(m: Map<K::KV, V>) -> Seq<(K, V)>;
impl<K: VKey, V> BTreeMap<K, V> {
    #[verifier::external_body]
    pub fn iter(&self) -> (r: Vec<(&K, &V)>)
        ensures
            r@.len() == map_items::<K, V>(self@).len(),
            forall|i: int| 0 <= i < r@.len() ==> *(#[trigger] r@[i]).0 == map_items::<K, V>(self@)[i].0
                && *r@[i].1 == map_items::<K, V>(self@)[i].1,
    { unimplemented!() }
}

// R9': `ITER.map(f).collect::<Vec<_>>()` behaves as this loop (in order, once each). The model is VERIFIED; the
// assumption is only that std's map+collect behaves like it.
pub fn verif_map_collect<A: Copy, B, F: Fn(A) -> B>(items: Vec<A>, f: F) -> (r: Vec<B>)
    requires forall|i: int| 0 <= i < items@.len() ==> f.requires((#[trigger] items@[i],)),
    ensures
        r@.len() == items@.len(),
        forall|i: int| 0 <= i < items@.len() ==> f.ensures((items@[i],), #[trigger] r@[i]),
{
    let mut out: Vec<B> = Vec::new();
    let mut i: usize = 0;
    while i < items.len()
        invariant
            i <= items@.len(), out@.len() == i,
            forall|k: int| 0 <= k < items@.len() ==> f.requires((#[trigger] items@[k],)),
            forall|k: int| 0 <= k < i ==> f.ensures((items@[k],), #[trigger] out@[k]),
        decreases items@.len() - i
    {
        let a = items[i];
        out.push(f(a));
        i += 1;
    }
    out
}

// R9': `stack.contains(&p)` on a `Vec<PathBuf>` (std: linear search with `PartialEq for PathBuf`, which compares what
// the view of a PathBuf stands for). VERIFIED over the assumed comparison `verif_path_eq`.
#[verifier::external_body]
pub fn verif_path_eq(a: &PathBuf, b: &PathBuf) -> (r: bool) ensures r == (a@ == b@) { unimplemented!() }
pub fn verif_contains_path(v: &Vec<PathBuf>, p: &PathBuf) -> (r: bool)
    ensures r == path_texts(v@).contains(p@)
{
    let mut i: usize = 0;
    while i < v.len()
        invariant i <= v@.len(), forall|k: int| 0 <= k < i ==> path_texts(v@)[k] != p@,
        decreases v@.len() - i
    {
        if verif_path_eq(&v[i], p) {
            assert(path_texts(v@)[i as int] == p@);
            return true;
        }
        i += 1;
    }
    assert forall|k: int| 0 <= k < path_texts(v@).len() implies path_texts(v@)[k] != p@ by { }
    false
}

// std: cloning a Vec<PathBuf> clones each element; a cloned PathBuf denotes the same path. vstd states `Vec::clone`
// through `cloned(a, b)` per element; this axiom says what `cloned` is for PathBuf.
pub mod pclax {
    use super::*;
    pub broadcast axiom fn axiom_cloned_pathbuf(a: PathBuf, b: PathBuf)
        ensures #[trigger] cloned::<PathBuf>(a, b) ==> a@ == b@;
}
