"""C15 bounded stand-ins: included data files decode to the data they contain.

Documents are generated independently of ucg (python's json.dumps in several layouts, a small TOML writer for the generated
subset, PyYAML's pure-python dumper), written next to a program `let x = include <type> "<file>"; out yaml {v = x, end = 0};`
and built with the REAL `ucg build` (one program + one data file per case, many cases per invocation).  The oracle is what an
INDEPENDENT decoder reads from the very same file (json.loads / tomllib.loads / PyYAML's pure-python parser with the YAML 1.2
core schema): same nesting, list order, key set, strings, booleans, nulls and numbers of equal value (integers exactly);
`include str` is the file's text, `include b64|b64urlsafe` is python's base64 of the file's bytes; documents the independent
decoder rejects (truncated / corrupted ones, the empty JSON file), integers that do not fit an i64 and unknown include types
are build errors.  Integer-vs-float is observed inside the language with `is "int"` / `is "float"`.

The value of `x` is observed through `out yaml` (integers are exact there; the final `end = 0` keeps the observation
independent of how a document-final block scalar is chomped, C03's business) or, if PyYAML is missing, through `out json`
with integers kept below 2^53 (C03's recorded JSON-integer finding).  Bounded: exactly the generated documents of the given seed; never counted as proved."""
import base64
import json
import math
import os
import random
import re
import shutil
import struct
import tempfile

try:
    import tomllib
except ModuleNotFoundError:
    tomllib = None

import realcode as R
from . import c03 as G

I64_MAX = 2 ** 63 - 1
I64_MIN = -2 ** 63
U64_MAX = 2 ** 64 - 1
F64_EXACT = 2 ** 53

# ---------------------------------------------------------------------------------------------------------------------
# KNOWN: inputs on which the real code violates the property today; kept OUT of the generated families.
KNOWN = [
    # include json: an integer below i64::MIN or above u64::MAX is silently turned into a rounded float (the fix 2b8c1d0 covers
    # (i64::MAX, u64::MAX] only):  `-9223372036854775809` -> -9.223372036854776e18,  `18446744073709551617` -> 1.8446744073709552e19.
    # The property wants integers as integers (or, where a 64-bit integer cannot hold them, an error as for the u64 band);
    # include yaml and include toml refuse the same documents.  JSON integers are generated in [i64::MIN, i64::MAX] (value
    # family) and (i64::MAX, u64::MAX] (error family) only.
    dict(id='json-integer-outside-i64-u64-rounded', family='json', excluded='JSON integers < i64::MIN or > u64::MAX',
         input='d.json = -9223372036854775809 ; let x = include json "d.json";', observed='x = -9.223372036854776e18 (a float, off by one, exit 0)',
         clause='integers as integers / numbers of the value the independent decoder reads'),
    # include json: a float whose decimal significand needs more than 53 bits or whose decimal exponent (relative to the integer
    # significand) is beyond +-22 is read with TWO roundings and may come out one ULP off:
    #   d.json = 7.038531e-26  ->  x = 7.038530999999999e-26   (`x == 0.00000000000000000000000007038531` is false)
    #   d.json = 1.9809309333116702e+63  ->  1.9809309333116706e63
    # (python's json, PyYAML and tomllib read the nearest double; include yaml / include toml of the same numbers are exact.)
    # Seeded random JSON floats are drawn from the class that needs one rounding only (significand < 2^53, |exponent| <= 22);
    # the fixed table G.FLOATS (incl. the extremes 1.7976931348623157e308, 5e-324, 2.2250738585072014e-308) stays in.
    dict(id='json-float-one-ulp-off', family='json', excluded='seeded random floats with a significand >= 2^53 or a decimal exponent beyond +-22',
         input='d.json = 7.038531e-26 ; let x = include json "d.json";', observed='x = 7.038530999999999e-26',
         clause='numbers: the value an independent decoder reads from the file'),
    # include yaml: a QUOTED key '<<' (a plain string, not a merge key) is treated as a merge key: its mapping value is merged into the
    # parent, any other value is silently dropped:   '<<': 1\nb: 2   ->  {b = 2}      '<<': {a: 1}\nb: 2  ->  {a = 1, b = 2}
    # The key '<<' is renamed in the YAML family.
    dict(id='yaml-quoted-merge-key', family='yaml', excluded="the string key '<<'",
         input="d.yaml = '<<': 1\\nb: 2 ; let x = include yaml \"d.yaml\";", observed='x = {b = 2} (the entry is gone, exit 0)', clause='same keys'),
]


def channel():
    return 'yaml' if G.yaml_module() is not None else 'json'


# ---------------------------------------------------------------------------------------------------------------------
# document generator: None, bool, int, float, str, list, dict (string keys, unique)
def gen_int(rnd, big_ok):
    r = rnd.random()
    if r < 0.45:
        n = rnd.choice(G.INT_EDGES)
    elif r < 0.7:
        n = rnd.randint(-1000, 1000)
    elif r < 0.85:
        n = rnd.randint(-F64_EXACT, F64_EXACT)
    else:
        n = rnd.randint(I64_MIN, I64_MAX)
    if not big_ok and abs(n) > F64_EXACT:
        n = n % F64_EXACT
    return n


def json_one_rounding(f):
    """Is repr(f) a decimal with an integer significand < 2^53 and a power of ten within +-22 (read exactly by any sane reader)?"""
    from decimal import Decimal
    if f != f or f in (float('inf'), float('-inf')):
        return False
    sign, digits, exp = Decimal(repr(f)).as_tuple()
    mant = int(''.join(map(str, digits)))
    return mant < F64_EXACT and -22 <= exp <= 22


def gen_float(rnd, fmt):
    f = G.gen_float(rnd)
    if fmt == 'json' and not json_one_rounding(f):          # KNOWN json-float-one-ulp-off
        for digits in (12, 9, 6, 3):
            g = float('%.*g' % (digits, f))
            if json_one_rounding(g):
                return g
        return rnd.choice(G.FLOATS)
    return f


def rename_merge_key(doc):
    """KNOWN yaml-quoted-merge-key"""
    if isinstance(doc, list):
        return [rename_merge_key(x) for x in doc]
    if isinstance(doc, dict):
        return {('<<x' if k == '<<' else k): rename_merge_key(v) for k, v in doc.items()}
    return doc


def gen_doc(rnd, depth, fmt, big_ok, top=True):
    r = rnd.random()
    if fmt == 'toml' and top:
        kind = 'dict'
    elif depth <= 0 or r < 0.4:
        kind = 'scalar'
    elif r < 0.7:
        kind = 'list'
    else:
        kind = 'dict'
    if kind == 'scalar':
        kinds = ['null', 'bool', 'int', 'int', 'float', 'str', 'str', 'str']
        if fmt == 'toml':
            kinds.remove('null')
        k = rnd.choice(kinds)
        if k == 'null':
            return None
        if k == 'bool':
            return rnd.random() < 0.5
        if k == 'int':
            return gen_int(rnd, big_ok)
        if k == 'float':
            return gen_float(rnd, fmt)
        return G.gen_string(rnd)
    n = rnd.choice([0, 1, 1, 2, 2, 3, 4, 6]) if depth > 0 else 0
    if kind == 'list':
        return [gen_doc(rnd, depth - 1, fmt, big_ok, False) for _ in range(n)]
    used = set()
    d = {}
    for _ in range(n):
        k = G.gen_key(rnd, used)
        d[k] = gen_doc(rnd, depth - 1, fmt, big_ok, False)
    return d


def fixed_docs(fmt, big_ok):
    docs = []
    strs = G.SPECIAL_STRINGS
    for i in range(0, len(strs), 30):
        chunk = strs[i:i + 30]
        docs.append({'l': list(chunk), 'd': {'s%d' % j: s for j, s in enumerate(chunk)}})
    for i in range(0, len(G.KEY_STRINGS), 20):
        chunk = G.KEY_STRINGS[i:i + 20]
        docs.append({k: {k: [k]} for k in chunk})
    ints = [n for n in G.INT_EDGES if big_ok or abs(n) <= F64_EXACT]
    docs.append({'ints': ints, 'floats': list(G.FLOATS), 'neg': [-f for f in G.FLOATS], 'min': I64_MIN if big_ok else -F64_EXACT, 'max': I64_MAX if big_ok else F64_EXACT})
    docs.append({'t': True, 'f': False, 'e': [], 'et': {}, 'ee': [[], [[]]], 'le': [{}, {}], 'deep': {'a': {'b': {'c': {'d': {'e': {'f': [1, [2, [3, [4, [5]]]]]}}}}}},
                 'mixed': [1, 'a', 1.5, True, [], {}, {'x': 1}, [{'y': [{'z': 0}]}]]})
    if fmt != 'toml':
        docs.append({'n': None, 'ln': [None, None], 'dn': {'x': None}})
        docs += [None, True, False, 0, 1, -1, 1.5, '', 'x', 'true', [], {}, [[]], [None], [{}], I64_MAX if big_ok else 7, I64_MIN if big_ok else -7, 1e300, -1e-300, 'é日本語😀']
    return docs


# ---------------------------------------------------------------------------------------------------------------------
# independent writers
def write_json(rnd, doc):
    style = rnd.choice(['compact', 'default', 'indent', 'raw-unicode', 'raw-indent', 'tabs'])
    if style == 'compact':
        return json.dumps(doc, allow_nan=False, separators=(',', ':'))
    if style == 'default':
        return json.dumps(doc, allow_nan=False)
    if style == 'indent':
        return json.dumps(doc, allow_nan=False, indent=2) + '\n'
    if style == 'raw-unicode':
        return json.dumps(doc, allow_nan=False, ensure_ascii=False)
    if style == 'raw-indent':
        return '\n  ' + json.dumps(doc, allow_nan=False, ensure_ascii=False, indent=4, sort_keys=True) + ' \r\n\t'
    return json.dumps(doc, allow_nan=False, indent='\t', separators=(' ,', ' : '))


BARE_KEY = re.compile(r'^[A-Za-z0-9_-]+$')


def toml_str(rnd, s):
    out = ['"']
    short = {'\b': '\\b', '\t': '\\t', '\n': '\\n', '\f': '\\f', '\r': '\\r', '"': '\\"', '\\': '\\\\'}
    for ch in s:
        o = ord(ch)
        if ch in short and (ch in '"\\' or rnd.random() < 0.7):
            out.append(short[ch])
        elif o < 0x20 or o == 0x7f:
            out.append('\\u%04X' % o)
        elif o > 0x7e and rnd.random() < 0.2:
            out.append('\\u%04X' % o if o <= 0xffff else '\\U%08X' % o)
        else:
            out.append(ch)
    out.append('"')
    return ''.join(out)


def toml_literal_ok(s):
    return "'" not in s and all(ord(c) >= 0x20 and ord(c) != 0x7f or c == '\t' for c in s)


def toml_key(rnd, k):
    if BARE_KEY.fullmatch(k) and rnd.random() < 0.8:
        return k
    if toml_literal_ok(k) and rnd.random() < 0.2:
        return "'" + k + "'"
    return toml_str(rnd, k)


def toml_float(f):
    if f != f:
        return 'nan'
    if f == float('inf'):
        return 'inf'
    if f == float('-inf'):
        return '-inf'
    r = repr(f)
    if '.' not in r and 'e' not in r:
        r += '.0'
    if 'e' in r and '.' not in r.split('e')[0]:
        pass        # `1e+300` is a valid TOML float
    return r


def toml_val(rnd, v):
    if v is True:
        return 'true'
    if v is False:
        return 'false'
    if isinstance(v, int):
        return str(v)
    if isinstance(v, float):
        return toml_float(v)
    if isinstance(v, str):
        if toml_literal_ok(v) and rnd.random() < 0.25:
            return "'" + v + "'"
        return toml_str(rnd, v)
    if isinstance(v, list):
        sep = rnd.choice([', ', ',', ' , '])
        return '[' + sep.join(toml_val(rnd, x) for x in v) + ']'
    if isinstance(v, dict):
        return '{' + ', '.join('%s = %s' % (toml_key(rnd, k), toml_val(rnd, x)) for k, x in v.items()) + '}' if v else '{}'
    raise TypeError(v)


def write_toml(rnd, doc):
    """Top-level table; nested tables as [sections], [[arrays of tables]] or inline tables."""
    lines = []

    def table(path, d):
        later = []
        for k, v in d.items():
            kk = toml_key(rnd, k)
            if isinstance(v, dict) and rnd.random() < 0.6:
                later.append(('t', kk, v))
            elif isinstance(v, list) and v and all(isinstance(x, dict) for x in v) and rnd.random() < 0.5:
                later.append(('a', kk, v))
            else:
                lines.append('%s = %s' % (kk, toml_val(rnd, v)))
        for kind, kk, v in later:
            p = path + [kk]
            if kind == 't':
                lines.append('')
                lines.append('[%s]' % '.'.join(p))
                table(p, v)
            else:
                for item in v:
                    lines.append('')
                    lines.append('[[%s]]' % '.'.join(p))
                    table(p, item)
    table([], doc)
    nl = rnd.choice(['\n', '\n', '\r\n'])
    return nl.join(lines) + rnd.choice(['', nl])


def write_yaml(rnd, doc):
    yaml = G.yaml_module()
    return yaml.dump(doc, Dumper=yaml.SafeDumper, default_flow_style=rnd.choice([False, False, True, None]), allow_unicode=rnd.choice([True, False]),
                     width=rnd.choice([80, 20, 1000]), indent=rnd.choice([2, 4]), explicit_start=rnd.choice([False, True]), sort_keys=False)


# ---------------------------------------------------------------------------------------------------------------------
# independent decoders of the file (the oracle)
def decode_file(fmt, text):
    """-> data; raises G.Undecodable."""
    if fmt == 'json':
        return G.decode_json(text)
    if fmt == 'toml':
        return G.decode_toml(text)
    return G.decode_yaml(text)


def eq_strict(a, b):
    """Deep equality with types (True != 1, 1 != 1.0), NaN == NaN."""
    if type(a) is not type(b):
        return False
    if isinstance(a, float):
        return a == b or (a != a and b != b)
    if isinstance(a, list):
        return len(a) == len(b) and all(eq_strict(x, y) for x, y in zip(a, b))
    if isinstance(a, dict):
        return list(map(repr, sorted(a, key=repr))) == list(map(repr, sorted(b, key=repr))) and all(eq_strict(a[k], b[k]) for k in a)
    return a == b


def family_ok(fmt, data, big_ok):
    """Is the decoded document inside the stated family (string keys, integers in i64 -- or below 2^53 on the JSON channel --,
    no dates / other types)?"""
    if data is None or isinstance(data, (bool, str)):
        return True
    if isinstance(data, int):
        return (I64_MIN <= data <= I64_MAX) if big_ok else abs(data) <= F64_EXACT
    if isinstance(data, float):
        return True
    if isinstance(data, list):
        return all(family_ok(fmt, x, big_ok) for x in data)
    if isinstance(data, dict):
        return all(isinstance(k, str) for k in data) and all(family_ok(fmt, x, big_ok) for x in data.values())
    return False


def same_data(exp, obs, path='$'):
    """exp: what the independent decoder read from the file; obs: what came out of ucg (decoded artifact)."""
    if exp is None:
        return None if obs is None else '%s: the file holds null, ucg has %r' % (path, obs)
    if isinstance(exp, bool):
        return None if obs is exp else '%s: the file holds the boolean %s, ucg has %r' % (path, exp, obs)
    if isinstance(exp, (int, float)):
        if isinstance(obs, bool) or not isinstance(obs, (int, float)):
            return '%s: the file holds the number %r, ucg has %r' % (path, exp, obs)
        if isinstance(exp, float) and exp != exp:
            return None if (isinstance(obs, float) and obs != obs) else '%s: the file holds NaN, ucg has %r' % (path, obs)
        return None if obs == exp else '%s: the file holds the number %r, ucg has %r' % (path, exp, obs)
    if isinstance(exp, str):
        return None if (isinstance(obs, str) and obs == exp) else '%s: the file holds the string %r, ucg has %r' % (path, exp, obs)
    if isinstance(exp, list):
        if not isinstance(obs, list) or len(obs) != len(exp):
            return '%s: the file holds a list of %d items, ucg has %s' % (path, len(exp), ('a list of %d items' % len(obs)) if isinstance(obs, list) else repr(obs)[:120])
        for i, (a, b) in enumerate(zip(exp, obs)):
            d = same_data(a, b, '%s[%d]' % (path, i))
            if d:
                return d
        return None
    if isinstance(exp, dict):
        if not isinstance(obs, dict) or sorted(map(repr, exp)) != sorted(map(repr, obs)):
            return '%s: the file holds a mapping with the keys %r, ucg has %s' % (path, sorted(exp), sorted(obs, key=repr) if isinstance(obs, dict) else repr(obs)[:120])
        for k in exp:
            d = same_data(exp[k], obs[k], '%s.%s' % (path, json.dumps(k)))
            if d:
                return d
        return None
    raise TypeError(exp)


# ---------------------------------------------------------------------------------------------------------------------
# running the real binary: a case = data files + one program; many cases per `ucg build`
class Case(object):
    def __init__(self, files, source, ext, check, what):
        self.files = files        # {name: bytes}
        self.source = source      # program text; refers to the files by name
        self.ext = ext            # artifact extension
        self.check = check        # f(rc, artifact text or None) -> None | why   (rc is only meaningful for a run of this case alone)
        self.what = what          # expected, in words (for the report)


def build_cases(cases):
    """One invocation for all cases.  -> (rc, [artifact text or None], log)"""
    work = tempfile.mkdtemp(prefix='verif_c15_')
    try:
        names = []
        for i, c in enumerate(cases):
            n = 'c%04d' % i
            for fn, data in c.files.items():
                with open(os.path.join(work, fn), 'wb') as f:
                    f.write(data)
            with open(os.path.join(work, n + '.ucg'), 'w', encoding='utf-8', newline='') as f:
                f.write(c.source)
            names.append(n)
        rc, so, se = R.run_ucg(['build'] + [n + '.ucg' for n in names], work, timeout=600)
        arts = []
        for n, c in zip(names, cases):
            p = os.path.join(work, n + '.' + c.ext)
            if os.path.exists(p):
                with open(p, 'rb') as f:
                    raw = f.read()
                try:
                    arts.append(raw.decode('utf-8'))
                except UnicodeDecodeError:
                    arts.append(raw.decode('latin-1') + '\x00<<artifact is not UTF-8>>')
            else:
                arts.append(None)
        return rc, arts, so + se
    finally:
        shutil.rmtree(work, ignore_errors=True)


def show_bytes(b, limit=1500):
    try:
        s = b.decode('utf-8')
        return s if len(s) <= limit else s[:limit] + '... (%d bytes)' % len(b)
    except UnicodeDecodeError:
        return 'bytes.fromhex(%r)' % b[:limit].hex()


def run_cases(name, bound, cases):
    if not cases:
        return dict(name=name, bound=bound, cases=0, status='ok', detail='nothing to run')
    rc, arts, log = build_cases(cases)
    for c, text in zip(cases, arts):
        # inside the batch the exit status belongs to the whole invocation: judge by the artifact, then confirm alone
        if c.check(1 if text is None else 0, text) is None:
            continue
        rc1, arts1, log1 = build_cases([c])
        why = c.check(rc1, arts1[0])
        if why is None:
            continue
        files = {fn: show_bytes(b) for fn, b in c.files.items()}
        return dict(name=name, bound=bound, cases=len(cases), status='violation',
                    detail='%s: %s  [%s]' % (c.source.strip().replace('\n', ' ')[:100], why[:300], '; '.join('%s = %r' % (fn, t[:200]) for fn, t in files.items())),
                    input=dict(source=c.source, files=files, files_hex={fn: b.hex() for fn, b in c.files.items() if len(b) <= 4000}, expected=c.what,
                               observed='exit %s; artifact %r; %s; log: %s' % (rc1, arts1[0] if arts1[0] is None else arts1[0][:1500], why, log1[-300:]),
                               how='put the files next to x.ucg (the program), run the real `ucg build x.ucg`, decode the artifact x.%s (%s)'
                                   % (c.ext, G.DECODER_NAME['yaml'] if c.ext == 'yaml' else "python's json.loads")))
    return dict(name=name, bound=bound, cases=len(cases), status='ok')


def value_case(i, fmt, text, exp, extension=None):
    """include <fmt> of a well-formed document: the value the independent decoder reads."""
    ch = channel()
    fn = 'd%04d.%s' % (i, extension or fmt)
    src = ('let x = include %s "%s";\nout yaml {v = x, end = 0};\n' if ch == 'yaml' else 'let x = include %s "%s";\nout json {v = x, end = 0};\n') % (fmt, fn)

    def check(rc, art):
        if art is None:
            return 'the build failed (exit %s) on a document the independent decoder reads as %s' % (rc, repr(exp)[:200])
        try:
            obs = G.decode_yaml(art) if ch == 'yaml' else G.decode_json(art)
        except G.Undecodable as e:
            return 'the artifact does not decode: %s' % e
        if not isinstance(obs, dict) or 'v' not in obs:
            return 'the artifact is not {v, end}: %r' % (obs,)
        return same_data(exp, obs['v'])
    return Case({fn: text.encode('utf-8')}, src, ch, check, 'x is the data an independent decoder reads from the file: %s' % repr(exp)[:1500])


def error_case(i, typ, data, why_bad, extension='dat'):
    """A build error is demanded (exit status != 0)."""
    fn = 'e%04d.%s' % (i, extension)
    src = 'let x = include %s "%s";\nout json {v = x, end = 0};\n' % (typ, fn)

    def check(rc, art):
        if rc != 0:
            return None
        return '%s, yet the build succeeds and x is %s' % (why_bad, 'unknown (no artifact)' if art is None else art.strip()[:300])
    return Case({fn: data}, src, 'json', check, 'a build error (exit status 1): ' + why_bad)


def sizes(tier):
    return (600, 6) if tier == 'thorough' else (80, 4)


def doc_cases(fmt, tier, seed, writer):
    n, depth = sizes(tier)
    big_ok = channel() == 'yaml'
    rnd = random.Random('c15-%s-%s' % (fmt, seed))
    docs = fixed_docs(fmt, big_ok) + [gen_doc(rnd, rnd.randint(1, depth), fmt, big_ok) for _ in range(n)]
    cases, skipped = [], 0
    for i, doc in enumerate(docs):
        if fmt == 'yaml':
            doc = rename_merge_key(doc)
        text = writer(rnd, doc)
        try:
            exp = decode_file(fmt, text)
        except G.Undecodable:
            skipped += 1            # the independent decoder must accept what the independent writer wrote; otherwise not in the family
            continue
        if not eq_strict(exp, doc) or not family_ok(fmt, exp, big_ok):
            skipped += 1
            continue
        if fmt == 'yaml':
            # decoders must agree (YAML 1.1 vs 1.2 readings of plain scalars): keep only documents PyYAML's own 1.1 loader reads identically
            yaml = G.yaml_module()
            try:
                if not eq_strict(yaml.load(text, Loader=yaml.SafeLoader), exp):
                    skipped += 1
                    continue
            except Exception:
                skipped += 1
                continue
        cases.append(value_case(i, fmt, text, exp))
    return cases, len(docs), skipped, n, depth


def standin_include_json(tier, seed):
    cases, total, skipped, n, depth = doc_cases('json', tier, seed, write_json)
    bound = ('%d JSON documents (fixed tables of strings / keys / numbers + %d seeded random of depth <= %d, seed %s) written by json.dumps in 6 layouts, '
             'integers in [i64::MIN, i64::MAX]; observed through `out %s`; KNOWN exclusions: json-integer-outside-i64-u64-rounded, json-float-one-ulp-off' % (len(cases), n, depth, seed, channel()))
    return run_cases('include_json', bound, cases)


def standin_include_toml(tier, seed):
    if tomllib is None:
        return dict(name='include_toml', bound='none', cases=0, status='ok', detail='tomllib is not available: include toml not covered')
    cases, total, skipped, n, depth = doc_cases('toml', tier, seed, write_toml)
    bound = ('%d TOML documents (fixed tables + %d seeded random of depth <= %d, seed %s) from a small writer (basic / literal strings, bare / quoted keys, arrays, inline tables, '
             '[tables], [[arrays of tables]], LF / CRLF), each re-read by tomllib (%d dropped); observed through `out %s`' % (len(cases), n, depth, seed, skipped, channel()))
    return run_cases('include_toml', bound, cases)


def standin_include_yaml(tier, seed):
    if G.yaml_module() is None:
        return dict(name='include_yaml', bound='none', cases=0, status='ok', detail='PyYAML is not importable: include yaml not covered (no independent writer / decoder)')
    cases, total, skipped, n, depth = doc_cases('yaml', tier, seed, write_yaml)
    bound = ('%d YAML documents (fixed tables + %d seeded random of depth <= %d, seed %s) from PyYAML\'s pure-python dumper (block / flow / mixed, unicode raw / escaped, 3 widths), '
             'kept only where the YAML 1.2 core reading equals PyYAML\'s 1.1 reading (%d dropped), string keys, no anchors / tags; observed through `out yaml`; KNOWN exclusion: yaml-quoted-merge-key'
             % (len(cases), n, depth, seed, skipped))
    return run_cases('include_yaml', bound, cases)


# ---------------------------------------------------------------------------------------------------------------------
# integers as integers, other numbers as floats  (observed in the language with `is`)
def standin_include_number_types(tier, seed):
    rnd = random.Random('c15-types-%s' % seed)
    n = 60 if tier == 'thorough' else 20
    nums = [0, 1, -1, I64_MAX, I64_MIN, F64_EXACT + 1, 10 ** 18, 0.0, 1.0, -1.0, 100.0, 1e2, 1e22, 1.5, 0.1, 1e300, 5e-324, 9.223372036854775807e18, 1e15, 123456789.0, -0.0]
    nums += [gen_int(rnd, True) if rnd.random() < 0.5 else gen_float(rnd, 'json') for _ in range(n)]
    nums = [x for x in nums if not (isinstance(x, float) and (x != x or x in (float('inf'), float('-inf'))))]
    cases = []
    fmts = ['json'] + (['toml'] if tomllib else []) + (['yaml'] if G.yaml_module() else [])
    for fi, fmt in enumerate(fmts):
        doc = {'n%d' % i: x for i, x in enumerate(nums)}
        if fmt == 'json':
            text = json.dumps(doc)
            # JSON spellings of floats that have no fraction part
            extra = {'x0': ('1e2', float), 'x1': ('1E+2', float), 'x2': ('10.0', float), 'x3': ('-0.0', float), 'x4': ('1e0', float), 'x5': ('0', int), 'x6': ('12e-1', float), 'x7': ('9007199254740993', int)}
            text = text[:-1] + ''.join(', "%s": %s' % (k, v[0]) for k, v in extra.items()) + '}'
        elif fmt == 'toml':
            text = '\n'.join('%s = %s' % (k, toml_val(rnd, v)) for k, v in doc.items()) + '\nx0 = 1e2\nx1 = 1E+2\nx2 = 10.0\nx3 = -0.0\nx4 = +7\nx5 = 1_000\nx6 = 0x10\nx7 = 6.0e0\n'
        else:
            yaml = G.yaml_module()
            text = yaml.dump(doc, Dumper=yaml.SafeDumper, sort_keys=False) + 'x0: 1.0e+2\nx1: 10.0\nx2: -0.0\nx3: 7\nx4: -7\n'
        try:
            exp = decode_file(fmt, text)
        except G.Undecodable:
            continue
        if fmt == 'yaml':
            yaml = G.yaml_module()
            if not eq_strict(yaml.load(text, Loader=yaml.SafeLoader), exp):
                continue
        keys = list(exp)
        fn = 't%d.%s' % (fi, fmt)
        src = 'let x = include %s "%s";\nout json {\n%s\n};\n' % (fmt, fn, ',\n'.join('  %s = [x.%s is "int", x.%s is "float"]' % (k, k, k) for k in keys))

        def check(rc, art, exp=exp, keys=keys):
            if art is None:
                return 'the build failed (exit %s) on a well-formed document' % rc
            try:
                obs = G.decode_json(art)
            except G.Undecodable as e:
                return 'the artifact does not decode: %s' % e
            for k in keys:
                want = [isinstance(exp[k], int), isinstance(exp[k], float)]
                if obs.get(k) != want:
                    return ('the number %r (field %s) is %s in the file; in ucg `is "int"`, `is "float"` give %r'
                            % (exp[k], k, 'an integer' if want[0] else 'a float', obs.get(k)))
            return None
        cases.append(Case({fn: text.encode('utf-8')}, src, 'json', check, 'every integer of the file `is "int"`, every other number `is "float"`'))
    bound = '%d numbers (edge table + %d seeded, seed %s) and alternative spellings (1e2, 1E+2, 10.0, -0.0, 12e-1, +7, 1_000, 0x10) in one flat document per format (%s)' % (len(nums), n, seed, ', '.join(fmts))
    r = run_cases('include_number_types', bound, cases)
    r['cases'] = len(cases) * (len(nums) + 8) if cases else 0
    return r


# ---------------------------------------------------------------------------------------------------------------------
# include str / b64 / b64urlsafe
def gen_text(rnd):
    r = rnd.random()
    if r < 0.3:
        return rnd.choice(G.SPECIAL_STRINGS)
    if r < 0.6:
        nl = rnd.choice(['\n', '\r\n', '\r', '\n\n'])
        return nl.join(G.gen_string(rnd) for _ in range(rnd.randint(1, 8))) + rnd.choice(['', nl, nl + nl, ' ', '\t'])
    if r < 0.8:
        return ''.join(chr(rnd.choice([rnd.randint(0, 0x7f), rnd.randint(0x80, 0x7ff), rnd.randint(0x800, 0xd7ff), rnd.randint(0xe000, 0xffff), rnd.randint(0x10000, 0x10ffff)]))
                       for _ in range(rnd.randint(0, 40)))
    return ''.join(rnd.choice(G.ALPHABET) for _ in range(rnd.randint(0, 200)))


FIXED_TEXTS = ['', '\n', '\r\n', 'no trailing newline', 'one trailing newline\n', 'two trailing newlines\n\n', 'crlf line 1\r\ncrlf line 2\r\n', 'mixed\r\nline\nendings\rhere',
               '\ufeffstarts with a BOM\n', 'nul \x00 inside\n', ' leading and trailing blanks \n ', '\t\ttabs\t\n', 'é日本語😀\n', '#!/bin/sh\necho "hello $USER"\nexit 0\n',
               '{"looks": "like json"}', 'a: yaml\nb: [1, 2]\n', 'key = "toml"\n', 'let x = 1;\n', '"quoted"', "it's", 'back\\slash \\n \\t \\" \\\\', '@ @{x} %', '\x7f\x1b[0m\x01',
               'x' * 5000 + '\n', ('line %d\r\n' * 300) % tuple(range(300)), '\u0085\u2028\u2029\n', '\n\n\n', ' ', '\r', 'ends with CR\r', '\U0010ffff\uffff\ud7ff',
               # the text UNCHANGED: a leading U+FEFF, blanks, line ends, control characters at either end are part of it
               '\ufeff', '\ufeff\ufeff', '\ufeffhi', '\ufeff\r\nline\r\n', 'mid\ufeffdle', 'end\ufeff', '\ufeff{"a": 1}', '\ufffe', '\x00', '\x00\x00text', 'text\x00', '\x1a', 'a\x1ab', '\x0c\n', '\n leading newline',
               '  two leading blanks', 'trailing blanks  ', '\t', '\n\r', '\r\n\r\n', 'x\n' * 1024, 'y' * 1023 + '\n', 'z' * 4096, '\ufeff' + 'w' * 4093]


def standin_include_str(tier, seed):
    rnd = random.Random('c15-str-%s' % seed)
    n = 150 if tier == 'thorough' else 40
    texts = FIXED_TEXTS + [gen_text(rnd) for _ in range(n)]
    cases = []
    for i, t in enumerate(texts):
        fn = 's%04d.txt' % i
        src = 'let x = include str "%s";\nout json {v = x};\n' % fn

        def check(rc, art, t=t):
            if art is None:
                return 'the build failed (exit %s) on a UTF-8 text file' % rc
            try:
                obs = G.decode_json(art)
            except G.Undecodable as e:
                return 'the artifact does not decode: %s' % e
            if not isinstance(obs, dict) or obs.get('v') != t:
                return 'the file\'s text is %r, x is %r' % (t[:200], (obs.get('v') if isinstance(obs, dict) else obs) if True else None)
            return None
        cases.append(Case({fn: t.encode('utf-8')}, src, 'json', check, 'x is the file\'s text, unchanged: %r' % t[:1500]))
    bound = '%d UTF-8 texts (%d fixed: empty, CRLF / CR / mixed line ends, with and without trailing newlines, U+FEFF at the start / alone / doubled / in the middle / at the end, NUL / Ctrl-Z / blanks at either end, 5 kB line, lengths around 1024 and 4096; %d seeded random, seed %s)' % (len(texts), len(FIXED_TEXTS), n, seed)
    return run_cases('include_str', bound, cases)


# byte sequences a reader that treats the file as TEXT might strip, translate or stop at; `include b64` is the encoding of the file's bytes, all of them
MARKS = [b'\xef\xbb\xbf', b'\xff\xfe', b'\xfe\xff', b'\xff\xfe\x00\x00', b'\x00\x00\xfe\xff', b'\xef\xbb', b'\xef', b'\x00', b'\x00\x00\x00', b'\n', b'\r', b'\r\n', b'\n\n', b' ', b'\t', b' \n',
         b'\x1a', b'\xff', b'\xff\xff\xff', b'\x1f\x8b\x08', b'\x89PNG\r\n\x1a\n', b'\x0c', b'\x7f', b'\xc2\x85', b'\xe2\x80\xa8', b'\\n', b'=', b'==']


def exact_byte_blobs(rnd, tier):
    out = []
    body = b'hi?>\n'
    for m in MARKS:
        out += [m, m + body, body + m, body[:2] + m + body[2:]] + ([m + m, m + body + m] if tier == 'thorough' or m in MARKS[:5] else [])
    bom = MARKS[0]
    for k in range(0, 6):                                   # BOM followed by 0..5 bytes (all paddings), ordinary bytes before it
        tail = bytes(rnd.getrandbits(8) for _ in range(k))
        out += [bom + tail, bom + b'a' * k, b'a' * k + bom, bom + bom + tail]
    for m in (b'\xff\xfe', b'\xfe\xff'):                  # UTF-16 text with its BOM
        enc = 'utf-16-le' if m == b'\xff\xfe' else 'utf-16-be'
        out += [m + 'hi é\n'.encode(enc), m + ''.encode(enc), 'hi'.encode(enc)]
    out += [b'line 1\nline 2', b'line 1\nline 2\n', b'line 1\r\nline 2\r\n', b'line 1\rline 2\r', b'\n' * 7, b'\r\n' * 5, b'\x00' * 9, b'\xff' * 10, b'text\x00', b'\x00text', b'te\x00xt\x00']
    tops = [1024, 2048, 3072, 4096] + ([8192, 16384, 65536] if tier == 'thorough' else [])
    for t in tops:                                          # around buffer sizes; the first of each is BOM-prefixed, the last ends in a newline
        for d in (-2, -1, 0, 1, 2) if tier == 'thorough' else (-1, 0, 1):
            b = bytes(rnd.getrandbits(8) for _ in range(t + d))
            out.append(b)
        out.append(bom + b[3:])
        out.append(b[:-1] + b'\n')
        # TEXT of these lengths with every kind of ending (a reader that tidies up text must not sit in the path of b64)
        line = b'0123456789abcde\n'
        if tier != 'thorough' and t not in (1024, 4096):
            continue
        for end in (b'', b'\n', b'\n\n', b'\r\n', b' ', b'\t\n', b'\x00'):
            for d in (-1, 0, 1, 2) if tier == 'thorough' else (0, 1):
                out.append((line * (t // len(line) + 2))[:t + d - len(end) - 1] + b'y' + end)
    return out


def standin_include_b64(tier, seed):
    rnd = random.Random('c15-b64-%s' % seed)
    n = 100 if tier == 'thorough' else 30
    blobs = [b'', b'\x00', b'\xff', b'a', b'ab', b'abc', b'abcd', b'\xfb\xff\xfe', b'\xfb\xff', b'\xfb', b'\xff\xff\xff\xff', bytes(range(256)), bytes(range(255, -1, -1)), b'\xc3\x28 invalid utf-8 \xe2\x82',
             b'\x80\x81\xfe\xff', 'é日本語😀\n'.encode('utf-8'), b'text with newline\n', b'crlf\r\n', bytes(rnd.getrandbits(8) for _ in range(10000)), b'>>>???' * 50, b'\xfb\xef\xbe' * 40]
    for k in range(0, 20):
        blobs.append(bytes(rnd.getrandbits(8) for _ in range(k)))
    for _ in range(n):
        blobs.append(bytes(rnd.getrandbits(8) for _ in range(rnd.randint(0, 300))))
    nmarks = len(blobs)
    blobs += exact_byte_blobs(rnd, tier)
    nmarks = len(blobs) - nmarks
    cases = []
    for i, b in enumerate(blobs):
        fn = 'b%04d.bin' % i
        src = 'let s = include b64 "%s";\nlet u = include b64urlsafe "%s";\nout json {s = s, u = u};\n' % (fn, fn)
        want = {'s': base64.b64encode(b).decode('ascii'), 'u': base64.urlsafe_b64encode(b).decode('ascii')}

        def check(rc, art, want=want):
            if art is None:
                return 'the build failed (exit %s) on a readable file' % rc
            try:
                obs = G.decode_json(art)
            except G.Undecodable as e:
                return 'the artifact does not decode: %s' % e
            if obs != want:
                return 'base64 of the file is %r (url-safe %r), ucg has %r' % (want['s'][:120], want['u'][:120], {k: (v[:120] if isinstance(v, str) else v) for k, v in obs.items()} if isinstance(obs, dict) else obs)
            return None
        cases.append(Case({fn: b}, src, 'json', check, 's = %r, u = %r (python base64.b64encode / urlsafe_b64encode)' % (want['s'][:600], want['u'][:600])))
    bound = ('%d byte strings (all lengths 0..19, all 256 byte values, invalid UTF-8, 10 kB, %d seeded random up to 300 bytes, seed %s; %d files that begin with / consist of / contain / end in a byte '
             'sequence a text reader might drop or rewrite: UTF-8 / UTF-16 / UTF-32 byte order marks (whole, partial, doubled, followed by 0..5 bytes), NUL, LF, CR, CRLF, blanks, Ctrl-Z, 0xFF, gzip / PNG '
             'magic, each also behind and before 0..4 ordinary bytes; lengths around multiples of 1024 up to %d) x {b64, b64urlsafe}' % (len(blobs), n, seed, nmarks, 65537 if tier == 'thorough' else 4097))
    r = run_cases('include_b64', bound, cases)
    r['cases'] = 2 * len(blobs)
    return r


# ---------------------------------------------------------------------------------------------------------------------
# WHICH file: the path of an include is relative to the file that contains the expression (reference "Include expressions": `include str
# "./script.sh"`; C09's statement) -- whatever the working directory of the process is and whatever the path's first letters are (a directory
# called std, a file called stdx.json: the reference knows a library name space `std/` for IMPORTS only).  Every data file of this family holds
# its own location, every place the same path string would name from another directory holds a decoy of the same format.
REL_TYPES = [('str', 'txt'), ('json', 'json'), ('yaml', 'yaml'), ('toml', 'toml'), ('b64', 'bin'), ('b64urlsafe', 'bin')]
REL_SPELLINGS = ['std/data.%s', 'stdx.%s', 'std_d/data.%s', './std/data.%s', 'data/conf.%s', 'std/sub/data.%s', 'sub/../std/data.%s', 'std.%s', 'data.%s', 'std/../stdx.%s', './stdx.%s', 'stdlib/std/data.%s']
REL_DIRS = ['std', 'std_d', 'data', 'std/sub', 'sub', 'stdlib/std']


def rel_document(typ, where):
    """(bytes of the file, expected value of the include) for a data file that sits at `where`"""
    doc = {'who': where, 'n': [1, 2, 3], 'nested': {'ok': True, 'why': 'é ✓'}}
    if typ == 'str':
        t = 'FILE %s\nsecond line é ✓\n' % where
        return t.encode('utf-8'), t
    if typ == 'json':
        return json.dumps(doc, indent=1).encode('utf-8'), doc
    if typ == 'yaml':
        return ('who: "%s"\nn:\n  - 1\n  - 2\n  - 3\nnested:\n  ok: true\n  why: "é ✓"\n' % where).encode('utf-8'), doc
    if typ == 'toml':
        return ('who = "%s"\nn = [1, 2, 3]\n\n[nested]\nok = true\nwhy = "é ✓"\n' % where).encode('utf-8'), doc
    raw = b'\xef\xbb\xbfFILE ' + where.encode('utf-8') + b'\x00\xff\xfe>>??\n'
    return raw, (base64.b64encode(raw) if typ == 'b64' else base64.urlsafe_b64encode(raw)).decode('ascii')


def standin_include_relative_to_file(tier, seed):
    import posixpath
    name = 'include_relative_to_file'
    rnd = random.Random('c15-rel-%s' % seed)
    work = tempfile.mkdtemp(prefix='verif_c15r_')
    includers = [('proj', 'the main file'), ('proj/lib', 'a file imported from the main file')]
    cwds = [('the directory of the main file', 'proj'), ('the parent directory', '.'), ('an unrelated directory (absolute path of the main file)', 'elsewhere/deep'), ('the directory of the imported file', 'proj/lib')]
    spellings = REL_SPELLINGS if tier == 'thorough' else REL_SPELLINGS[:5] + rnd.sample(REL_SPELLINGS[5:], 1)
    if tier != 'thorough':
        cwds = [cwds[1], cwds[2 + seed % 2]]      # quick: the parent directory and one of {unrelated directory, directory of the imported file}
    bound = ('%d include types (str, json, yaml, toml, b64, b64urlsafe) x %d path spellings (%s) x 2 including files (the main file; a file in another directory imported from it) x 2 positions (let; function '
             'body, alternating), each built from %d working directories (%s); every data file holds its own location, decoys of the same format sit wherever the path string would lead from one of the other directories; '
             'expected: the data of the file next to the INCLUDING file' % (len(REL_TYPES), len(spellings), ', '.join(x % 'E' for x in spellings), len(cwds), '; '.join(c[0] for c in cwds)))
    try:
        real, progs = {}, []           # real: path (relative to work) -> bytes
        for d, _ in includers:
            for sub in REL_DIRS:
                os.makedirs(os.path.join(work, d, sub), exist_ok=True)
        for ti, (typ, ext) in enumerate(REL_TYPES):
            for si, sp in enumerate(spellings):
                rel = sp % ext
                for ii, (d, dwhat) in enumerate(includers):
                    target = posixpath.normpath(posixpath.join(d, rel))
                    if target not in real:
                        real[target] = None
                    k = 'p_%s_%d_%d' % (typ, si, ii)
                    inc = 'include %s "%s"' % (typ, rel)
                    body = 'let x = %s;\n' % inc if (ti + si + ii) % 2 == 0 else 'let f = func (q) => %s;\nlet x = f(0);\n' % inc
                    if ii == 0:
                        files = {'proj/%s.ucg' % k: body + 'out json {v = x};\n'}
                    else:
                        files = {'proj/%s.ucg' % k: 'let l = import "lib/%s_inc.ucg";\nout json {v = l.x};\n' % k, 'proj/lib/%s_inc.ucg' % k: body}
                    progs.append(dict(k=k, typ=typ, rel=rel, target=target, files=files, dwhat=dwhat))
        # the same relative location holds the same file for b64 and b64urlsafe (both are .bin): documents by (location, extension)
        docs = {}
        for pr in progs:
            raw, _ = rel_document('b64' if pr['typ'].startswith('b64') else pr['typ'], pr['target'])
            docs[pr['target']] = raw
            pr['expected'] = rel_document(pr['typ'], pr['target'])[1]
        decoys = {}
        for pr in progs:
            for _, c in cwds:
                for base in [c] + [d for d, _ in includers]:
                    q = posixpath.normpath(posixpath.join(base, pr['rel']))
                    if q not in docs and not q.startswith('..'):
                        decoys[q] = rel_document('b64' if pr['typ'].startswith('b64') else pr['typ'], 'DECOY at ' + q)[0]
        for pth, raw in list(docs.items()) + list(decoys.items()):
            os.makedirs(os.path.dirname(os.path.join(work, pth)), exist_ok=True)
            with open(os.path.join(work, pth), 'wb') as f:
                f.write(raw)
        for pr in progs:
            for pth, txt in pr['files'].items():
                with open(os.path.join(work, pth), 'w', encoding='utf-8') as f:
                    f.write(txt)
        n = 0
        for cwhat, c in cwds:
            cdir = os.path.join(work, c)
            os.makedirs(cdir, exist_ok=True)
            for pr in progs:
                a = os.path.join(work, 'proj', pr['k'] + '.json')
                if os.path.exists(a):
                    os.remove(a)
            if c.startswith('elsewhere'):
                args = [os.path.join(work, 'proj', pr['k'] + '.ucg') for pr in progs]
            else:
                args = [posixpath.relpath(posixpath.join('proj', pr['k'] + '.ucg'), c) for pr in progs]
            rc, so, se = R.run_ucg(['build'] + args, cdir, timeout=600)
            for pr, arg in zip(progs, args):
                n += 1
                a = os.path.join(work, 'proj', pr['k'] + '.json')
                why, art = None, None
                if not os.path.exists(a):
                    why = 'the build failed / wrote no artifact'
                else:
                    art = open(a, encoding='utf-8', errors='replace').read()
                    try:
                        obs = G.decode_json(art)
                        why = same_data(pr['expected'], obs.get('v') if isinstance(obs, dict) else obs)
                    except G.Undecodable as e:
                        why = 'the artifact does not decode: %s' % e
                if why:
                    log = [ln for ln in (so + se).split('\n') if pr['k'] in ln or 'rror' in ln][:6]
                    near = {q: show_bytes(b, 300) for q, b in sorted(list(docs.items()) + list(decoys.items())) if posixpath.basename(q) == posixpath.basename(pr['target'])}
                    return dict(name=name, bound=bound, cases=n, status='violation',
                                detail='`include %s "%s"` in %s (directory %s), built from %s: %s; expected the data of %s' % (pr['typ'], pr['rel'], pr['dwhat'], posixpath.dirname(list(pr['files'])[-1]), cwhat, why[:300], pr['target']),
                                input=dict(source=pr['files'], files=near, expected='v = %r (the file %s, next to the including file)' % (pr['expected'], pr['target']),
                                           observed='%s; artifact %r; log: %s' % (why, art if art is None else art[:600], ' | '.join(log)[:600]),
                                           how='write the files below a fresh directory <tmp>, cd <tmp>/%s, run the real `ucg build %s`, read <tmp>/proj/%s.json' % (c, arg.replace(work, '<tmp>'), pr['k'])))
    finally:
        shutil.rmtree(work, ignore_errors=True)
    return dict(name=name, bound=bound, cases=n, status='ok')


# ---------------------------------------------------------------------------------------------------------------------
# malformed documents, integers beyond i64, unknown include types: build errors
JSON_BAD = ['', ' ', '\n', '\t \r\n', 'tru', 'nul', 'fals', 'True', 'None', '-', '1.', '.5', '01', '+1', '1e', '1e+', '0x10', '"abc', "'a'", '{a:1}', '{"a":1,}', '[1,]', '{"a" 1}', '{"a":}',
            '[1 2]', '"\\x"', '"\\u12"', '"a\nb"', '"tab\there"', '{', '[', '}', ']', '{"a":1}}', '[1]]', '{"a":1} x', '{"a":1}{"a":2}', '[1],', ',', ':', '{"a":1,,"b":2}', '{"a"::1}', '[,1]',
            '{,"a":1}', '{1:2}', '{"a":1 "b":2}', '["a":1]', '{"a"}', 'NaN', 'Infinity', '-Infinity', '[NaN]', '// c\n1', '/* c */ 1', '{"a":1} // c', '"\\ud800"', '1e400', '[1e999]', '-1e400', 'nil',
            'undefined', '"unterminated\\"', '[1, 2', '{"a": [1, {"b": 2}', '{"a": "x}', '@', '<a/>', 'a = 1', '- 1\n- 2', '{"a": 1}\x00', '\x00', '1 2', '"a" "b"', 'truefalse', '[true false]', '--1', '1.2.3', '1..2', '2e', '-a']
JSON_BAD_BYTES = [b'"\xff"', b'{"a": "\xc3\x28"}', b'\xff\xfe{\x00}\x00', b'{"\x80": 1}', b'["\xed\xa0\x80"]']

TOML_BAD = ['a = ', 'a', '= 1', 'a = "x', "a = 'x", 'a = [1, 2', 'a = {b = 1', '[sec', '[[sec]', '[sec]]', 'a = tru', 'a = 1 2', 'a = "\\q"', 'a = 01', 'a = 1__0', 'a == 1', 'a = [1,,2]', 'a = {b = 1,}', 'a = 1 b = 2',
            'a = 1\na = 2', '[t]\n[t]', 'a = 1.', 'a = .5', 'a = 1e', 'a = +', 'a = "x" "y"', 'a b = 1', 'a = {b = 1\n}', 'a = nul', 'a = None', 'a = null', '"a = 1', 'a = 0x', 'a = 1_', 'a = _1', '[]', '[[]]', '[a.]', '[.a]', 'a. = 1',
            'a = "line1\nline2"', 'a = "\x01"', 'a = 9223372036854775808', 'a = -9223372036854775809', 'a = 18446744073709551615', 'a = 2001-13-01', 'a = [', 'a = ]', 'a = }', '{"a": 1}', 'a: 1', '- a', 'a = "\\u12"',
            'a = "\\ud800"', 'a = \'\'\'x', 'a = """x', 'a = 1\n[t\nb = 2', 'a = 1\nb', 'a = 1\n= 2', 'a = true false', 'a = 1,', 'a = [1] ]', 'é = 1', 'a = 1.2.3', 'a = 1e1e1', '[a]\nb = 1\n[a]\nc = 2', 'a = 1\n[a]\nb = 2']
TOML_BAD_BYTES = [b'a = "\xff"', b'\xff = 1', b'a = "\xc3\x28"']

YAML_BAD = ['{a: [1, 2', '[1, 2', '{a: 1', '"abc', "'abc", 'a: "x', 'a: b: c', '[1, 2]]', '{a: 1}}', 'a: [1, 2', '- a\nb: 1', 'a: 1\n- b', '@foo', '`foo', 'a: @x', 'a: *unknown', '*unknown', 'a: &x 1\nb: *y', 'a:\n\t- 1\n\t- 2',
            'a: 1\n b: 2', 'a: 1\n  b: 2\n c: 3', '"a\\qb"', 'a: "\\x"', 'a: "\\u12"', '%', 'a: |\n x\n  y\n z\nb', '? a\n? b\n: c\n: d', 'a: [1, 2\nb: 3', 'a: {b: 1\nc: 2', '[a, b: c: d]', '- [', '- {', 'a: }', 'a: ]', ']', '}',
            'key: "v" x', "key: 'v' x", '- - a\n - b', 'a: 1\na', '{a: 1, b}x', '[1] x', '{a: 1} x', '"a" "b"', 'a: 18446744073709551616', 'a: -9223372036854775809', '\x01', 'a: \x01', 'a: "\x01"', '--- a\n--- b\n', 'a: 1\n---\nb: 2\n',
            '&a [*a']
YAML_BAD_BYTES = [b'a: "\xff"', b'\xff: 1', b'a: \xc3\x28', b'\xff\xfe']

UNKNOWN_TYPES = ['foo', 'JSON', 'Json', 'yml', 'YAML', 'xml', 'text', 'txt', 'string', 'base64', 'b64url', 'b64_urlsafe', 'B64', 'env', 'flags', 'exec', 'yamlmulti', 'ucg', 'json5', 'bytes', 'raw', 'csv', 'ini', 'strr', 'jso']


def rejected_by_oracle(fmt, data):
    """Does the independent decoder reject these bytes (or read an integer that cannot be an i64)?  -> reason or None"""
    try:
        text = data.decode('utf-8')
    except UnicodeDecodeError:
        return 'the file is not UTF-8'
    try:
        if fmt == 'json':
            val = json.loads(text, parse_constant=G._no_const)          # (duplicate keys are tolerated here: corruption may create them)
        elif fmt == 'toml':
            val = tomllib.loads(text)
        else:
            val = G.decode_yaml(text)
    except (ValueError, G.Undecodable, RecursionError) as e:
        return 'the file is malformed (%s: %s)' % (G.DECODER_NAME[fmt].split(' (')[0], ' '.join(str(e).split())[:120])
    big = []

    def walk(x):
        if isinstance(x, int) and not isinstance(x, bool) and not (I64_MIN <= x <= I64_MAX):
            big.append(x)
        elif isinstance(x, list):
            for y in x:
                walk(y)
        elif isinstance(x, dict):
            for y in x.values():
                walk(y)
    walk(val)
    if big:
        if fmt == 'json' and any(n < I64_MIN or n > U64_MAX for n in big):
            return None         # KNOWN json-integer-outside-i64-u64-rounded: not in the family
        return 'the integer %d does not fit a 64 bit signed integer' % big[0]
    return None


def truncations(rnd, text, k):
    """k proper prefixes of a document that is one bracketed / quoted construct (every proper prefix of it is malformed)."""
    body = text.rstrip()
    if len(body) < 2:
        return []
    return [body[:rnd.randint(1, len(body) - 1)] for _ in range(k)]


def standin_include_malformed(tier, seed):
    rnd = random.Random('c15-bad-%s' % seed)
    n = 60 if tier == 'thorough' else 15
    have_yaml = G.yaml_module() is not None
    todo = []        # (fmt, bytes)
    for t in JSON_BAD:
        todo.append(('json', t.encode('utf-8')))
    todo += [('json', b) for b in JSON_BAD_BYTES]
    if tomllib:
        todo += [('toml', t.encode('utf-8')) for t in TOML_BAD] + [('toml', b) for b in TOML_BAD_BYTES]
    if have_yaml:
        todo += [('yaml', t.encode('utf-8')) for t in YAML_BAD] + [('yaml', b) for b in YAML_BAD_BYTES]
    # truncated / corrupted variants of generated documents
    for _ in range(n):
        doc = gen_doc(rnd, rnd.randint(1, 3), 'json', True)
        if not isinstance(doc, (list, dict, str)):
            doc = [doc]
        text = write_json(rnd, doc)
        for t in truncations(rnd, text, 2):
            todo.append(('json', t.encode('utf-8')))
        body = text.strip()
        todo.append(('json', (body + rnd.choice([' x', ']', '}', ',', ' 1', ' null', body, '"', ':'])).encode('utf-8')))
        todo.append(('json', (rnd.choice(['x ', ',', ']', '}', ':', '1 ']) + body).encode('utf-8')))
        if len(body) > 2:
            todo.append(('json', (body[0] + ',' + body[1:]).encode('utf-8')))                 # {,"a":1}   [,1]   ","x"
            cut = rnd.randint(1, len(body.encode('utf-8')) - 1)
            todo.append(('json', body.encode('utf-8')[:cut] + b'\xff' + body.encode('utf-8')[cut:]))      # a byte that is never UTF-8
        if have_yaml:
            yaml = G.yaml_module()
            ydoc = doc if isinstance(doc, (list, dict)) and doc else [doc, 1]
            ytext = yaml.dump(ydoc, Dumper=yaml.SafeDumper, default_flow_style=True, allow_unicode=rnd.choice([True, False]), width=1000)   # one flow collection
            for t in truncations(rnd, ytext, 2):
                todo.append(('yaml', t.encode('utf-8')))
            todo.append(('yaml', (ytext.rstrip() + rnd.choice([' x', ']', '}', ' ]'])).encode('utf-8')))
        if tomllib:
            tdoc = gen_doc(rnd, rnd.randint(1, 3), 'toml', True)
            ttext = write_toml(rnd, tdoc).replace('\r\n', '\n').rstrip('\n')
            last = ttext.split('\n')[-1] if ttext else ''
            if last:
                # cut the last line: inside the key / around the `=` / inside a quoted or bracketed value
                todo.append(('toml', (ttext[:len(ttext) - len(last)] + last[:rnd.randint(1, len(last) - 1)] if len(last) > 1 else ttext + ' =').encode('utf-8')))
            todo.append(('toml', (ttext + '\n' + rnd.choice(['= 1', '[', 'x', 'a = ', 'a = 1 b = 2', ']', '"q" =', 'a = [1,', '[[x]', 'a = {'])).encode('utf-8')))
    # integers beyond i64 (must be refused, not rounded)
    for v in [I64_MAX + 1, U64_MAX, U64_MAX - 1, 2 ** 63 + 2 ** 10, 10 ** 19] + [rnd.randint(I64_MAX + 1, U64_MAX) for _ in range(6 if tier == 'thorough' else 2)]:
        for shape in ('%d', '{"a": %d}', '[1, %d]', '{"a": {"b": [%d]}, "c": 1}'):
            todo.append(('json', (shape % v).encode()))
        if have_yaml:
            for shape in ('%d', 'a: %d', '- 1\n- %d', 'a:\n  b: [%d]\nc: 1', '{a: %d}'):
                todo.append(('yaml', (shape % v).encode()))
    cases, dropped = [], 0
    for i, (fmt, data) in enumerate(todo):
        why = rejected_by_oracle(fmt, data)
        if why is None:
            dropped += 1            # the independent decoder accepts it (e.g. a truncation that is still well-formed): no demand
            continue
        cases.append(error_case(i, fmt, data, why, extension=fmt))
    for j, typ in enumerate(UNKNOWN_TYPES):
        cases.append(error_case(len(todo) + j, typ, b'{"a": 1}', 'there is no include type `%s` (ucg importers: json, yaml, toml, b64, b64urlsafe; plus str)' % typ, extension='json'))
    bound = ('%d error cases: hand-written malformed JSON (%d) / TOML (%d) / YAML (%d) documents, truncated / corrupted variants of %d seeded generated documents per format (seed %s; only those the '
             'independent decoder rejects, %d dropped), integers in (i64::MAX, u64::MAX] for json / yaml, %d unknown include types'
             % (len(cases), len(JSON_BAD) + len(JSON_BAD_BYTES), len(TOML_BAD) + len(TOML_BAD_BYTES), len(YAML_BAD) + len(YAML_BAD_BYTES), n, seed, dropped, len(UNKNOWN_TYPES)))
    return run_cases('include_malformed', bound, cases)


STANDINS = [standin_include_json, standin_include_toml, standin_include_yaml, standin_include_number_types, standin_include_str, standin_include_b64, standin_include_relative_to_file, standin_include_malformed]
