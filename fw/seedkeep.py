#!/usr/bin/env python3
"""fw/seedkeep.py <seed dir>...  - confirm (compile, suite green, demo fails with / passes without) and file under /verif/seeded/<id>/."""
import json, os, shutil, subprocess, sys
VERIF = os.path.dirname(os.path.dirname(os.path.abspath(__file__)))
for d in sys.argv[1:]:
    d = os.path.abspath(d)
    sid = os.path.basename(d)
    p = subprocess.run([sys.executable, os.path.join(VERIF, 'fw', 'seedtest.py'), d, '--confirm'], capture_output=True, text=True, timeout=7200)
    try:
        res = json.load(open(os.path.join(d, 'check_result.json')))
    except Exception:
        print(sid, 'NO RESULT', p.stdout[-300:], p.stderr[-300:]); continue
    ok = res.get('demo_with_change_rc', 0) != 0 and res.get('demo_without_change_rc', 1) == 0 and '0 failed' in res.get('test_suite_with_change', '') and '533 passed' in res.get('test_suite_with_change', '')
    det = {k: v['rc'] for k, v in res.items() if isinstance(v, dict)}
    print(sid, 'CONFIRMED' if ok else 'NOT-CONFIRMED', res.get('test_suite_with_change'), 'demo with/without:', res.get('demo_with_change_rc'), res.get('demo_without_change_rc'), det)
    if not ok:
        continue
    out = os.path.join(VERIF, 'seeded', sid)
    os.makedirs(out, exist_ok=True)
    for f in os.listdir(d):
        if f in ('patch.diff', 'demo.sh', 'demo_test.rs'):
            if os.path.abspath(os.path.join(d, f)) != os.path.abspath(os.path.join(out, f)):
                shutil.copy(os.path.join(d, f), os.path.join(out, f))
    meta = json.load(open(os.path.join(d, 'meta.json')))
    meta['breaks_property'] = meta.get('property')
    meta['confirmed_by_me'] = dict(test_suite_with_change=res.get('test_suite_with_change'), demo_with_change_rc=res.get('demo_with_change_rc'),
                                   demo_without_change_rc=res.get('demo_without_change_rc'),
                                   how='fw/seedtest.py --confirm: patch applied in a scratch worktree of /repo HEAD, cargo test --workspace --offline, demo.sh against the rebuilt binary with and without the patch')
    meta['checks'] = {k: dict(rc=v['rc'], lines=v['lines']) for k, v in res.items() if isinstance(v, dict)}
    json.dump(meta, open(os.path.join(out, 'meta.json'), 'w'), indent=1)
