#!/usr/bin/env python3
"""setup_cmd: nothing to build (python + verus); verify the tools the checks need are present."""
import shutil, subprocess, sys
ok = True
for tool in ('verus',):
    if not shutil.which(tool):
        print('missing tool:', tool); ok = False
if ok:
    r = subprocess.run(['verus', '--version'], capture_output=True, text=True)
    print(r.stdout.strip().split('\n')[1] if r.returncode == 0 else r.stderr)
sys.exit(0 if ok else 1)
