// ---- prelude/env_caches_world.rs: std stand-ins for the caches of the shared Environment (C16 kernel). ----
// Everything in this file is a TRUSTED MODEL of std (collections, paths, file reading). The stand-ins carry the std
// names (PathBuf, Path, BTreeMap, btree_map::Entry, BTreeSet, RefCell, File) so that the extracted /repo text resolves to
// them without rewriting; the unit must not import the std ones.
// needs: `use std::rc::Rc;` before verus!, prelude/core.rs

// ---------- paths ----------
// A path is its text (more exactly: what std's `Ord for Path` compares, the component sequence; two PathBufs are the
// same map key iff std compares them equal. Nothing about std's path algebra is modelled, `parent` and `join` are
// UNINTERPRETED functions of the text - they are functions: same path in, same path out; that is all the contracts use).
pub struct Path { pub text: Ghost<Seq<char>> }
pub struct PathBuf { pub text: Ghost<Seq<char>> }
impl View for Path { type V = Seq<char>; open spec fn view(&self) -> Seq<char> { self.text@ } }
impl View for PathBuf { type V = Seq<char>; open spec fn view(&self) -> Seq<char> { self.text@ } }

// std `Path::parent` (None: the path has no parent, e.g. `/` or the empty path)
pub uninterp spec fn spec_parent(p: Seq<char>) -> Option<Seq<char>>;
// std `Path::join`
pub uninterp spec fn spec_join(dir: Seq<char>, rel: Seq<char>) -> Seq<char>;

impl Path {
    #[verifier::external_body]
    pub fn to_path_buf(&self) -> (r: PathBuf) ensures r@ == self@ { unimplemented!() }
}
impl PathBuf {
    // `PathBuf::from(&str)` (std `impl From<&str> for PathBuf`)
    #[verifier::external_body]
    pub fn from(s: &str) -> (r: PathBuf) ensures r@ == s@ { unimplemented!() }
    // std `Path::parent` (through Deref)
    #[verifier::external_body]
    pub fn parent(&self) -> (r: Option<&Path>)
        ensures match r { Some(p) => spec_parent(self@) == Some(p@), None => spec_parent(self@) is None }
    { unimplemented!() }
    // std `Path::join` (through Deref) with a `&str` argument
    #[verifier::external_body]
    pub fn join(&self, rel: &str) -> (r: PathBuf) ensures r@ == spec_join(self@, rel@) { unimplemented!() }
}
impl Clone for PathBuf {
    #[verifier::external_body]
    fn clone(&self) -> (r: Self) ensures r@ == self@ { unimplemented!() }
}

// R7: `P: Into<PathBuf>` / `P: AsRef<Path>` - local traits with the instances the callers use; `pview` is the path denoted.
// (VIntoPathBuf lives in a module of its own: as a trait in scope its `into` would compete with std's `Into` at the
// unrelated `"..".into()` call sites; through the bound `P: vinto::VIntoPathBuf` it is found.)
pub mod vinto {
    use super::*;
    pub trait VIntoPathBuf: Sized {
        spec fn pview(&self) -> Seq<char>;
        fn into(self) -> (r: PathBuf) ensures r@ == self.pview();
    }
    impl VIntoPathBuf for &Path {
        open spec fn pview(&self) -> Seq<char> { (**self)@ }
        #[verifier::external_body]
        fn into(self) -> (r: PathBuf) { unimplemented!() }
    }
    impl VIntoPathBuf for &PathBuf {
        open spec fn pview(&self) -> Seq<char> { (**self)@ }
        #[verifier::external_body]
        fn into(self) -> (r: PathBuf) { unimplemented!() }
    }
    impl VIntoPathBuf for PathBuf {
        open spec fn pview(&self) -> Seq<char> { (*self)@ }
        fn into(self) -> (r: PathBuf) { self }
    }
    impl VIntoPathBuf for &str {
        open spec fn pview(&self) -> Seq<char> { (**self)@ }
        #[verifier::external_body]
        fn into(self) -> (r: PathBuf) { unimplemented!() }
    }
    impl VIntoPathBuf for String {
        open spec fn pview(&self) -> Seq<char> { (*self)@ }
        #[verifier::external_body]
        fn into(self) -> (r: PathBuf) { unimplemented!() }
    }
    // std: a clone of a path-like value (`&str`, `&Path`, `&PathBuf`, `PathBuf`, `String`) denotes the same path.
    pub broadcast axiom fn axiom_cloned_pview<P: VIntoPathBuf + Clone>(a: P, b: P)
        ensures #[trigger] call_ensures(P::clone, (&a,), b) ==> a.pview() == b.pview();
}
pub trait VAsRefPath {
    spec fn pview(&self) -> Seq<char>;
    fn as_ref(&self) -> (r: &Path) ensures r@ == self.pview();
}
impl VAsRefPath for str {
    open spec fn pview(&self) -> Seq<char> { self@ }
    #[verifier::external_body]
    fn as_ref(&self) -> (r: &Path) { unimplemented!() }
}
impl VAsRefPath for Path {
    open spec fn pview(&self) -> Seq<char> { self@ }
    fn as_ref(&self) -> (r: &Path) { self }
}
impl VAsRefPath for PathBuf {
    open spec fn pview(&self) -> Seq<char> { self@ }
    #[verifier::external_body]
    fn as_ref(&self) -> (r: &Path) { unimplemented!() }
}
impl<T: ?Sized + VAsRefPath> VAsRefPath for &T {
    open spec fn pview(&self) -> Seq<char> { (**self).pview() }
    fn as_ref(&self) -> (r: &Path) { (**self).as_ref() }
}

// ---------- BTreeMap<K, V>: a finite map from the VIEW of the key to the value ----------
// (std compares keys with `Ord`; for the key types used here - Rc<str>, PathBuf - `Ord` agrees with equality of the view.)
#[verifier::external_body]
#[verifier::accept_recursive_types(K)]
#[verifier::accept_recursive_types(V)]
pub struct BTreeMap<K, V> { _k: core::marker::PhantomData<(K, V)> }
// what a key IS for the map (`Rc<str>`: its text; `PathBuf`: the path)
pub trait VKey { type KV; spec fn kview(&self) -> Self::KV; }
impl VKey for Rc<str> { type KV = Seq<char>; open spec fn kview(&self) -> Seq<char> { self@ } }
impl VKey for PathBuf { type KV = Seq<char>; open spec fn kview(&self) -> Seq<char> { self@ } }
impl<K: VKey, V> View for BTreeMap<K, V> {
    type V = Map<K::KV, V>;
    uninterp spec fn view(&self) -> Map<K::KV, V>;
}
impl<K: VKey, V> BTreeMap<K, V> {
    #[verifier::external_body]
    pub fn new() -> (r: Self) ensures r@ == Map::<K::KV, V>::empty() { unimplemented!() }
    #[verifier::external_body]
    pub fn get(&self, k: &K) -> (r: Option<&V>)
        ensures match r {
            Some(v) => self@.contains_key(k.kview()) && *v == self@[k.kview()],
            None => !self@.contains_key(k.kview()),
        }
    { unimplemented!() }
    // std `BTreeMap::first_key_value` (only used by a seeded mutant)
    #[verifier::external_body]
    pub fn first_key_value(&self) -> (r: Option<(&K, &V)>)
        ensures match r {
            Some(kv) => self@.contains_key(kv.0.kview()) && *kv.1 == self@[kv.0.kview()],
            None => self@ =~= Map::<K::KV, V>::empty(),
        }
    { unimplemented!() }
    #[verifier::external_body]
    pub fn insert(&mut self, k: K, v: V) -> (r: Option<V>)
        ensures final(self)@ == old(self)@.insert(k.kview(), v)
    { unimplemented!() }
    // std `BTreeMap::entry`: a view into the single slot of `key`; the entry holds the `&mut` borrow of the map, what is
    // done through the entry is what happens to the map.
    #[verifier::external_body]
    pub fn entry<'a>(&'a mut self, key: K) -> (r: btree_map::Entry<'a, K, V>)
        ensures
            r.key() == key.kview(),
            r.cur() == old(self)@,
            r.fin() == final(self)@,
            r.wf(),
    { unimplemented!() }
}

pub mod btree_map {
    use super::*;
    pub struct VacantEntry<'a, K, V> { pub map: &'a mut BTreeMap<K, V>, pub key: K }
    pub struct OccupiedEntry<'a, K, V> { pub map: &'a mut BTreeMap<K, V>, pub key: K }
    pub enum Entry<'a, K, V> { Occupied(OccupiedEntry<'a, K, V>), Vacant(VacantEntry<'a, K, V>) }

    impl<'a, K: VKey, V> Entry<'a, K, V> {
        // std's invariant of an entry: it is Occupied iff its map has the key
        pub open spec fn wf(self) -> bool { self is Occupied <==> self.cur().contains_key(self.key()) }
        // the slot's key
        pub open spec fn key(self) -> K::KV {
            match self { Entry::Occupied(e) => e.key.kview(), Entry::Vacant(e) => e.key.kview() }
        }
        // the map as it is while the entry is held
        pub open spec fn cur(self) -> Map<K::KV, V> {
            match self { Entry::Occupied(e) => (*e.map)@, Entry::Vacant(e) => (*e.map)@ }
        }
        // the map as it is when the borrow held by the entry ends
        #[verifier::prophetic]
        pub open spec fn fin(self) -> Map<K::KV, V> {
            match self { Entry::Occupied(e) => (*final(e.map))@, Entry::Vacant(e) => (*final(e.map))@ }
        }
    }
    impl<'a, K: VKey, V> VacantEntry<'a, K, V> {
        // std `VacantEntry::insert` (its result, a `&mut V` into the map, is not modelled: the callers drop it)
        #[verifier::external_body]
        pub fn insert(self, v: V)
            ensures final(self.map)@ == old(self.map)@.insert(self.key.kview(), v)
        { unimplemented!() }
    }
    impl<'a, K: VKey, V> OccupiedEntry<'a, K, V> {
        pub open spec fn cur(self) -> Map<K::KV, V> { (*self.map)@ }
        // std `OccupiedEntry::get`
        #[verifier::external_body]
        pub fn get(&self) -> (r: &V)
            ensures self.cur().contains_key(self.key.kview()), *r == self.cur()[self.key.kview()]
        { unimplemented!() }
    }
}

// ---------- BTreeSet<PathBuf>: a set of paths ----------
#[verifier::external_body]
#[verifier::accept_recursive_types(T)]
pub struct BTreeSet<T> { _t: core::marker::PhantomData<T> }
impl View for BTreeSet<PathBuf> { type V = Set<Seq<char>>; uninterp spec fn view(&self) -> Set<Seq<char>>; }
impl BTreeSet<PathBuf> {
    #[verifier::external_body]
    pub fn contains(&self, p: &Path) -> (r: bool) ensures r == self@.contains(p@) { unimplemented!() }
    #[verifier::external_body]
    pub fn insert(&mut self, p: PathBuf) -> (r: bool)
        ensures final(self)@ == old(self)@.insert(p@), r == !old(self)@.contains(p@)
    { unimplemented!() }
    #[verifier::external_body]
    pub fn clear(&mut self) ensures final(self)@ == Set::<Seq<char>>::empty() { unimplemented!() }
    #[verifier::external_body]
    pub fn remove(&mut self, p: &Path) -> (r: bool)
        ensures final(self)@ == old(self)@.remove(p@), r == old(self)@.contains(p@)
    { unimplemented!() }
}

// `RefCell<T>`: an opaque cell. The CONTENT of the shared shape cache (`Rc<RefCell<BTreeMap<PathBuf, Shape>>>`) is not
// modelled where the cell is only handed on (Environment::get_ops_for_path); where it is read and written
// (Checker::resolve_import) rule R11 turns it into an explicit `&mut BTreeMap` parameter.
#[verifier::external_body]
#[verifier::accept_recursive_types(T)]
pub struct RefCell<T> { _t: core::marker::PhantomData<T> }

// ---------- reading source files ----------
// The file system is a FIXED function for the whole run (a file changing during the run is outside the property):
// `fs_opens(p)`: File::open(p) succeeds; `fs_read(p)`: what read_to_string yields for the opened file (None: an I/O or
// UTF-8 error).
pub uninterp spec fn fs_opens(p: Seq<char>) -> bool;
pub uninterp spec fn fs_read(p: Seq<char>) -> Option<Seq<char>>;
// open + read_to_string as one step
pub open spec fn fs_text(p: Seq<char>) -> Option<Seq<char>> { if fs_opens(p) { fs_read(p) } else { None } }

#[verifier::external_body]
pub struct IoError { _p: u8 }
pub struct File { pub path: Ghost<Seq<char>> }
impl File {
    #[verifier::external_body]
    pub fn open(p: &PathBuf) -> (r: Result<File, IoError>)
        ensures match r { Ok(f) => fs_opens(p@) && f.path@ == p@, Err(_) => !fs_opens(p@) }
    { unimplemented!() }
    // std::io::Read::read_to_string: appends the whole content
    #[verifier::external_body]
    pub fn read_to_string(&mut self, buf: &mut String) -> (r: Result<usize, IoError>)
        ensures
            final(self).path@ == old(self).path@,
            match r {
                Ok(_) => fs_read(old(self).path@) is Some && final(buf)@ == old(buf)@ + fs_read(old(self).path@)->Some_0,
                Err(_) => fs_read(old(self).path@) is None,
            },
    { unimplemented!() }
}
// std::fs::read_to_string(p) = open + read_to_string
pub mod std_fs {
    use super::*;
    #[verifier::external_body]
    pub fn read_to_string(p: &PathBuf) -> (r: Result<String, IoError>)
        ensures match r { Ok(s) => fs_text(p@) == Some(s@), Err(_) => fs_text(p@) is None }
    { unimplemented!() }
}

// std: cloning an Rc is a pointer copy. vstd states `Option<&T>::cloned` through `cloned(a, b)`; this axiom says what
// `cloned` is for an Rc. Used function-locally (`broadcast use` in the body) only.
pub mod clax {
    use super::*;
    pub broadcast axiom fn axiom_cloned_rc<T: ?Sized>(a: Rc<T>, b: Rc<T>)
        ensures #[trigger] cloned::<Rc<T>>(a, b) ==> a == b;
    pub broadcast group group_clone_axioms { axiom_cloned_rc, }
}
