//@ unit rt_funcs
//@ serves C01 C04
//@ must_verify Builtins::map Builtins::filter Builtins::reduce lemma_call_on_stack
// C01/C04 — the functional operators: `Builtins::map`, `Builtins::filter`, `Builtins::reduce`
// (src/build/opcode/runtime.rs) verbatim, with `decorate_call!` (opcode/error.rs) verbatim.
//
// Oracle: docsite/site/content/reference/expressions.md, "Functional processing expressions".
// Calling a function value is ASSUMED (VM::fcall_impl is verified in unit `scope`, the interpreter loop is outside):
// it pops one argument per parameter and its outcome is `call_result(f, arguments in parameter order)`, an
// uninterpreted function (UCG functions are pure) whose value None stands for "the call fails the build".
//@ include prelude/head.rs
use std::rc::Rc;

verus! {
//@ include prelude/core.rs
//@ opaque Position VPathBuf OpPointer Stack Module ConstraintVal VEnvCell VM
//@ clone_spec Position

// opcode::Error is only constructed, decorated and propagated here (R5); message text dropped (R1).
#[verifier::external_body]
pub struct Error { _p: u8 }
impl Error {
    #[verifier::external_body]
    pub fn new(msg: String, pos: Position) -> Self { unimplemented!() }
    #[verifier::external_body]
    pub fn push_call_stack(&mut self, pos: Position) { unimplemented!() }
}
//@ extract src/build/opcode/mod.rs :: enum Primitive
//@   rule R0
//@ end
//@ extract src/build/opcode/mod.rs :: enum Composite
//@   rule R0
//@ end
//@ extract src/build/opcode/mod.rs :: enum Value
//@   rule R0
//@ end
//@ extract src/build/opcode/mod.rs :: struct Func
//@   rule R0 RV
//@ end
use Primitive::{Bool, Empty, Float, Int, Str};
use Composite::{List, Tuple};
use Value::{C, F, K, M, P, S, T};

//@ extract src/build/opcode/runtime.rs :: struct Builtins
//@   rule R0 RV
//@   subst "import_path: Vec<PathBuf>" => "import_path: Vec<VPathBuf>"
//@ end

//@ extract src/build/opcode/error.rs :: macro decorate_call
//@ end

// ---------- std models ----------
// `String -> Rc<str>` (`buf.into()`): std `impl From<String> for Rc<str>`, content preserved.
pub assume_specification [<Rc<str> as From<String>>::from] (s: String) -> (r: Rc<str>)
    ensures r@ == s@;

pub mod strax {
    use super::*;
    // `char::to_string()` is the one-character string (std Display for char).
    pub broadcast axiom fn axiom_char_to_string(c: char, s: String)
        ensures #[trigger] vstd::string::to_string_from_display_ensures::<char>(&c, s) ==> s@ == seq![c];
    // A str IS its character sequence: the view is injective (rcstr_of is its inverse).
    pub uninterp spec fn rcstr_of(s: Seq<char>) -> Rc<str>;
    pub broadcast axiom fn axiom_rcstr_view_injective(r: Rc<str>)
        ensures rcstr_of(#[trigger] r@) == r;
}
use strax::*;
broadcast use {strax::axiom_char_to_string, strax::axiom_rcstr_view_injective};

// ---------- ASSUMED: the meaning of calling a function value ----------
// UCG functions are pure: the outcome of a call depends only on the function value and its arguments.
// None = the call fails (the build fails with a diagnostic).
pub uninterp spec fn call_result(f: Func, args: Seq<Value>) -> Option<Value>;

// the k values on top of the value stack, deepest first = arguments in parameter order
// (`Func.bindings` is stored reversed by op_func: its first entry is the LAST parameter and is popped first)
pub open spec fn top_args(st: Seq<(Rc<Value>, Position)>, k: int) -> Seq<Value> {
    Seq::new(k as nat, |j: int| *st[st.len() - k + j].0)
}
// the same, spelled out for the arities the functional operators use (lemma_call_on_stack: it IS the same)
pub open spec fn call_on_stack(f: Func, st: Seq<(Rc<Value>, Position)>) -> Option<Value> {
    let k = f.bindings@.len() as int; let n = st.len() as int;
    if k == 1 { call_result(f, seq![*st[n - 1].0]) }
    else if k == 2 { call_result(f, seq![*st[n - 2].0, *st[n - 1].0]) }
    else if k == 3 { call_result(f, seq![*st[n - 3].0, *st[n - 2].0, *st[n - 1].0]) }
    else { call_result(f, top_args(st, k)) }
}
proof fn lemma_call_on_stack(f: Func, st: Seq<(Rc<Value>, Position)>)
    requires st.len() >= f.bindings@.len()
    ensures call_on_stack(f, st) == call_result(f, top_args(st, f.bindings@.len() as int))
{
    let k = f.bindings@.len() as int; let n = st.len() as int;
    if k == 1 { assert(top_args(st, k) =~= seq![*st[n - 1].0]); }
    else if k == 2 { assert(top_args(st, k) =~= seq![*st[n - 2].0, *st[n - 1].0]); }
    else if k == 3 { assert(top_args(st, k) =~= seq![*st[n - 3].0, *st[n - 2].0, *st[n - 1].0]); }
}

// VM::fcall_impl: signature from the source, body ASSUMED (contract below; verified against its real body in unit `scope`).
//@ extract src/build/opcode/vm.rs :: impl VM :: fn fcall_impl
//@   subst "pub fn fcall_impl<O, E>(" => "pub fn fcall_impl("
//@   subst "env: &RefCell<Environment<O, E>>," => "env: &VEnvCell,"
//@   subst "where O: std::io::Write + Clone, E: std::io::Write + Clone," => ""
//@   opaque_body
//@   ret r
//@   sig <<<
        requires
            // one value per parameter is on the stack (`stack.pop().unwrap()` per parameter)
            old(stack)@.len() >= f.bindings@.len(),
        ensures
            r is Ok <==> call_on_stack(*f, old(stack)@) is Some,
            r matches Ok(v) ==> Some(*v.0) == call_on_stack(*f, old(stack)@)
                && final(stack)@ == old(stack)@.subrange(0, old(stack)@.len() - f.bindings@.len()),
//@   >>>
//@ end

// ---------- value invariant the hooks rely on (and re-establish for their results) ----------
// a list value carries one position per element, a tuple value one position pair per field
pub open spec fn wf_top(v: Value) -> bool {
    match v {
        C(List(elems, pos)) => pos@.len() == elems@.len(),
        C(Tuple(flds, pos)) => pos@.len() == flds@.len(),
        _ => true,
    }
}

// ---------- oracle (reference: Functional processing expressions) ----------
pub open spec fn arity(f: Func) -> int { f.bindings@.len() as int }

// the argument lists the reference prescribes
pub open spec fn elem_args(e: Rc<Value>) -> Seq<Value> { seq![*e] }
pub open spec fn field_args(fld: (Rc<str>, Rc<Value>)) -> Seq<Value> { seq![P(Str(fld.0)), *fld.1] }
pub open spec fn char_args(c: char) -> Seq<Value> { seq![P(Str(rcstr_of(seq![c])))] }

// --- map ---
// "[field, value]": a two item list whose first item is a string
pub open spec fn pair_of(v: Value) -> Option<(Rc<str>, Rc<Value>)> {
    match v {
        C(List(fv, _)) => if fv@.len() == 2 { match *fv@[0] { P(Str(s)) => Some((s, fv@[1])), _ => None } } else { None },
        _ => None,
    }
}
pub open spec fn map_elem_ok(f: Func, e: Rc<Value>) -> bool { call_result(f, elem_args(e)) is Some }
pub open spec fn map_field_ok(f: Func, fld: (Rc<str>, Rc<Value>)) -> bool {
    call_result(f, field_args(fld)) matches Some(v) && pair_of(v) is Some
}
pub open spec fn map_char_ok(f: Func, c: char) -> bool { call_result(f, char_args(c)) matches Some(P(Str(_))) }
pub open spec fn map_char_piece(f: Func, c: char) -> Seq<char> {
    match call_result(f, char_args(c)) { Some(P(Str(t))) => t@, _ => Seq::<char>::empty() }
}
// the mapped pieces of the first k characters, concatenated in order
pub open spec fn map_str(f: Func, s: Seq<char>, k: int) -> Seq<char>
    decreases k
{
    if k <= 0 { Seq::<char>::empty() } else { map_str(f, s, k - 1) + map_char_piece(f, s[k - 1]) }
}

// --- filter ---
// "false or NULL" filters the item out, "any other value" keeps it
pub open spec fn keeps(v: Value) -> bool { v != P(Empty) && v != P(Bool(false)) }
pub open spec fn kept_elems(f: Func, elems: Seq<Rc<Value>>, k: int) -> Seq<Rc<Value>>
    decreases k
{
    if k <= 0 { Seq::<Rc<Value>>::empty() }
    else if keeps(call_result(f, elem_args(elems[k - 1]))->0) { kept_elems(f, elems, k - 1).push(elems[k - 1]) }
    else { kept_elems(f, elems, k - 1) }
}
pub open spec fn kept_fields(f: Func, flds: Seq<(Rc<str>, Rc<Value>)>, k: int) -> Seq<(Rc<str>, Rc<Value>)>
    decreases k
{
    if k <= 0 { Seq::<(Rc<str>, Rc<Value>)>::empty() }
    else if keeps(call_result(f, field_args(flds[k - 1]))->0) { kept_fields(f, flds, k - 1).push(flds[k - 1]) }
    else { kept_fields(f, flds, k - 1) }
}
pub open spec fn kept_chars(f: Func, s: Seq<char>, k: int) -> Seq<char>
    decreases k
{
    if k <= 0 { Seq::<char>::empty() }
    else if keeps(call_result(f, char_args(s[k - 1]))->0) { kept_chars(f, s, k - 1).push(s[k - 1]) }
    else { kept_chars(f, s, k - 1) }
}
pub open spec fn call_elem_ok(f: Func, e: Rc<Value>) -> bool { call_result(f, elem_args(e)) is Some }
pub open spec fn call_field_ok(f: Func, fld: (Rc<str>, Rc<Value>)) -> bool { call_result(f, field_args(fld)) is Some }
pub open spec fn call_char_ok(f: Func, c: char) -> bool { call_result(f, char_args(c)) is Some }

// --- reduce ---
// acc_0 = initial, acc_{i+1} = f(acc_i, item_i)  (tuples: f(acc_i, name_i, value_i))
pub open spec fn or_null(o: Option<Value>) -> Value { match o { Some(v) => v, None => P(Empty) } }
pub open spec fn acc_elems(f: Func, init: Value, elems: Seq<Rc<Value>>, k: int) -> Value
    decreases k
{
    if k <= 0 { init } else { or_null(call_result(f, seq![acc_elems(f, init, elems, k - 1), *elems[k - 1]])) }
}
pub open spec fn acc_fields(f: Func, init: Value, flds: Seq<(Rc<str>, Rc<Value>)>, k: int) -> Value
    decreases k
{
    if k <= 0 { init } else { or_null(call_result(f, seq![acc_fields(f, init, flds, k - 1), P(Str(flds[k - 1].0)), *flds[k - 1].1])) }
}
pub open spec fn acc_chars(f: Func, init: Value, s: Seq<char>, k: int) -> Value
    decreases k
{
    if k <= 0 { init } else { or_null(call_result(f, seq![acc_chars(f, init, s, k - 1), P(Str(rcstr_of(seq![s[k - 1]])))])) }
}

// ---------- the hooks ----------
//@ extract src/build/opcode/runtime.rs :: impl Builtins :: fn map
//@   rule R1 R3
//@   subst "fn map<O, E>(" => "fn map("
//@   subst "env: &RefCell<Environment<O, E>>," => "env: &VEnvCell,"
//@   subst "where O: std::io::Write + Clone, E: std::io::Write + Clone," => ""
//@   subst "match *list.as_ref() {" => "match list.as_ref() {"
//@   subst "let mut result_elems = Vec::new();" => "let mut result_elems: Vec<Rc<Value>> = Vec::new();"
//@   subst "let mut pos_elems = Vec::new();" => "let mut pos_elems: Vec<Position> = Vec::new();"
//@   subst "let mut new_fields = Vec::new();" => "let mut new_fields: Vec<(Rc<str>, Rc<Value>)> = Vec::new();"
//@   subst "let mut new_flds_pos_list = Vec::new();" => "let mut new_flds_pos_list: Vec<(Position, Position)> = Vec::new();"
//@   ret r
//@   sig <<<
        requires
            // translator invariant (caller obligation): the function and the target were pushed
            old(stack)@.len() >= 2,
            // value invariant: one position per element / field
            wf_top(*old(stack)@[old(stack)@.len() - 1].0),
        ensures
            // the result replaces the two operands; everything below is untouched
            r is Ok ==> final(stack)@.len() == old(stack)@.len() - 1
                && final(stack)@.drop_last() =~= old(stack)@.subrange(0, old(stack)@.len() - 2)
                && wf_top(*final(stack)@.last().0),
            !(*old(stack)@[old(stack)@.len() - 2].0 is F) ==> r is Err,
            *old(stack)@[old(stack)@.len() - 2].0 matches F(f) ==> match *old(stack)@[old(stack)@.len() - 1].0 {
                // a list: the function takes one argument; element i becomes f(element i)
                C(List(elems, _)) => {
                    &&& arity(f) != 1 ==> r is Err
                    &&& arity(f) == 1 ==> (r is Ok <==> forall|i: int| 0 <= i < elems@.len() ==> map_elem_ok(f, #[trigger] elems@[i]))
                    &&& arity(f) == 1 && r is Ok ==> (*final(stack)@.last().0 matches C(List(res, _)) && res@.len() == elems@.len()
                            && forall|i: int| 0 <= i < elems@.len() ==> Some(*(#[trigger] res@[i])) == call_result(f, elem_args(elems@[i])))
                },
                // a tuple: the function takes (name, value) and returns [new name, new value] which replaces the field
                C(Tuple(flds, _)) => {
                    &&& arity(f) != 2 ==> r is Err
                    &&& arity(f) == 2 ==> (r is Ok <==> forall|i: int| 0 <= i < flds@.len() ==> map_field_ok(f, #[trigger] flds@[i]))
                    &&& arity(f) == 2 && r is Ok ==> (*final(stack)@.last().0 matches C(Tuple(res, _)) && res@.len() == flds@.len()
                            && forall|i: int| 0 <= i < flds@.len() ==> Some(#[trigger] res@[i]) == pair_of(call_result(f, field_args(flds@[i]))->0))
                },
                // a string: the function takes each character (as a string) and returns a string; the results are concatenated
                P(Str(s)) => {
                    &&& arity(f) != 1 ==> r is Err
                    &&& arity(f) == 1 ==> (r is Ok <==> forall|i: int| 0 <= i < s@.len() ==> map_char_ok(f, #[trigger] s@[i]))
                    &&& arity(f) == 1 && r is Ok ==> (*final(stack)@.last().0 matches P(Str(res)) && res@ == map_str(f, s@, s@.len() as int))
                },
                _ => r is Err,
            },
//@   >>>
//@   loop 1 indexed <<<
                    invariant
                        i__1 <= it__1@.len(), it__1@ == elems@, elems_pos_list@.len() == elems@.len(),
                        old(stack)@.len() >= 2, *old(stack)@[old(stack)@.len() - 2].0 == F(*f),
                        *old(stack)@[old(stack)@.len() - 1].0 == C(List(*elems, *elems_pos_list)),
                        arity(*f) == 1,
                        stack@ =~= old(stack)@.subrange(0, old(stack)@.len() - 2),
                        result_elems@.len() == i__1, pos_elems@.len() == i__1,
                        forall|j: int| 0 <= j < i__1 ==> Some(*(#[trigger] result_elems@[j])) == call_result(*f, elem_args(elems@[j])),
                    decreases it__1@.len() - i__1
//@   >>>
//@   loop 2 indexed <<<
                    invariant
                        i__2 <= it__2@.len(), it__2@ == flds@, flds_pos_list@.len() == flds@.len(),
                        old(stack)@.len() >= 2, *old(stack)@[old(stack)@.len() - 2].0 == F(*f),
                        *old(stack)@[old(stack)@.len() - 1].0 == C(Tuple(*flds, *flds_pos_list)),
                        arity(*f) == 2,
                        stack@ =~= old(stack)@.subrange(0, old(stack)@.len() - 2),
                        new_fields@.len() == i__2, new_flds_pos_list@.len() == i__2,
                        forall|j: int| 0 <= j < i__2 ==> map_field_ok(*f, #[trigger] flds@[j])
                            && Some(new_fields@[j]) == pair_of(call_result(*f, field_args(flds@[j]))->0),
                    decreases it__2@.len() - i__2
//@   >>>
//@   loop 3 indexed <<<
                    invariant
                        i__3 <= it__3@.len(), it__3@ == s@,
                        old(stack)@.len() >= 2, *old(stack)@[old(stack)@.len() - 2].0 == F(*f),
                        *old(stack)@[old(stack)@.len() - 1].0 == P(Str(*s)),
                        arity(*f) == 1,
                        stack@ =~= old(stack)@.subrange(0, old(stack)@.len() - 2),
                        forall|j: int| 0 <= j < i__3 ==> map_char_ok(*f, #[trigger] s@[j]),
                        buf@ == map_str(*f, s@, i__3 as int),
                    decreases it__3@.len() - i__3
//@   >>>
//@ end

} // verus!

fn main() {}
