// ---- prelude/unmap_json_data.rs: what the three `format value -> Val` units (unmap_json, unmap_toml,
// unmap_yaml) share (inside verus!) ----
// needs: `use std::rc::Rc;` and `use vstd::std_specs::convert::*;` before verus!, prelude/core.rs

// Val: extracted verbatim; its Constraint payload is only moved around (R5).
//@ opaque ConstraintVal
//@ extract src/build/ir.rs :: enum Val
//@   rule R0
//@ end

// ---------- the oracle: the abstract data tree a document denotes (what an independent decoder reads) ----------
// Integers are MATHEMATICAL integers (a decoder such as python's json reads 18446744073709551615 as that
// integer); lists keep order and length; an object is the sequence of its (key, value) members in the order
// the format value presents them.  `NotData` is the image of the two Val variants no document denotes.
pub enum D {
    Null,
    Bool(bool),
    Int(int),
    Float(f64),
    Str(Seq<char>),
    List(Seq<D>),
    Obj(Seq<(Seq<char>, D)>),
    NotData,
}

// data(val): the data tree a ucg value denotes. Whole-view: nothing of the value is left out, so
// `data(r) == view(input)` pins every node of the result.
pub open spec fn data(v: Val) -> D
    decreases v
{
    match v {
        Val::Empty => D::Null,
        Val::Boolean(b) => D::Bool(b),
        Val::Int(i) => D::Int(i as int),
        Val::Float(f) => D::Float(f),
        Val::Str(s) => D::Str(s@),
        Val::List(l) => D::List(Seq::new(l@.len(), |k: int| if 0 <= k < l@.len() { data(*l@[k]) } else { D::NotData })),
        Val::Tuple(fs) => D::Obj(Seq::new(fs@.len(), |k: int| if 0 <= k < fs@.len() { (fs@[k].0@, data(*fs@[k].1)) } else { (Seq::<char>::empty(), D::NotData) })),
        Val::Env(_) => D::NotData,
        Val::Constraint(_) => D::NotData,
    }
}

// ucg's Int is an i64: a tree can be bound to a ucg value iff every integer in it fits.
pub open spec fn fits_i64(x: int) -> bool { i64::MIN <= x <= i64::MAX }
pub open spec fn representable(d: D) -> bool
    decreases d
{
    match d {
        D::Int(x) => fits_i64(x),
        D::List(l) => forall|k: int| 0 <= k < l.len() ==> representable(#[trigger] l[k]),
        D::Obj(m) => forall|k: int| 0 <= k < m.len() ==> representable((#[trigger] m[k]).1),
        D::NotData => false,
        _ => true,
    }
}

// the contract of every mapper: a representable tree is bound to a value denoting EXACTLY that tree;
// a tree that cannot be represented (an integer outside i64) is a build error, never an altered value.
pub open spec fn unmap_post(view: D, r: Result<Val, VBoxDynError>) -> bool {
    &&& representable(view) ==> (r matches Ok(val) && data(val) == view)
    &&& !representable(view) ==> r is Err
}

// ---------- std / crate neighbours (trusted models) ----------
// `String -> Rc<str>` (`s.clone().into()`): std `impl From<String> for Rc<str>`, content preserved.
pub assume_specification [<Rc<str> as From<String>>::from] (s: String) -> (r: Rc<str>)
    ensures r@ == s@;

// `Box<dyn Error>` is only constructed and propagated by `?` (R5): opaque.
#[verifier::external_body]
pub struct VBoxDynError { _p: u8 }

// crate::error::{ErrorType, BuildError}: `BuildError::new(msg, t).to_boxed()` builds the boxed error; the
// unsizing coercion Box<BuildError> -> Box<dyn Error> at the `Err(..)` site is folded into `to_boxed`.
//@ extract src/error.rs :: enum ErrorType
//@   rule R0
//@ end
#[verifier::external_body]
pub struct BuildError { _p: u8 }
impl BuildError {
    #[verifier::external_body]
    pub fn new(msg: String, t: ErrorType) -> Self { unimplemented!() }
    #[verifier::external_body]
    pub fn to_boxed(self) -> VBoxDynError { unimplemented!() }
}

// u64/i64 -> f64 conversion (`n as f64`): uninterpreted (R6).
pub uninterp spec fn u64_to_f64(n: u64) -> f64;
pub uninterp spec fn i64_to_f64(n: i64) -> f64;
#[verifier::external_body] pub fn verif_u64_as_f64(n: u64) -> (r: f64) ensures r == u64_to_f64(n) { n as f64 }
#[verifier::external_body] pub fn verif_i64_as_f64(n: i64) -> (r: f64) ensures r == i64_to_f64(n) { n as f64 }
