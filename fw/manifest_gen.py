#!/usr/bin/env python3
"""Regenerate MANIFEST.json from fw/claims.py (single source of truth for claims and N/A reasons)."""
import json, os, sys
sys.path.insert(0, os.path.dirname(os.path.abspath(__file__)))
import claims

def main():
    checks = []
    for pid, c in sorted(claims.CLAIMS.items()):
        checks.append(dict(
            property_id=pid,
            quick_cmd='./check %s quick' % pid,
            thorough_cmd='./check %s thorough' % pid,
            evidence_file='evidence/%s.json' % pid,
            replay_cmd_template='cat {path}',
            engine='verus-units',
            level_claimed=dict(category='proof', text=c['text'], design_ref=c['design_ref']),
            level_note=c['note'],
            technique=c['technique'],
        ))
    man = dict(
        version=1,
        setup_cmd='python3 fw/setup_check.py',
        hooks=dict(guard='ucg_verif', enable='none needed: the extractor reads /repo sources; no instrumentation is compiled into ucg',
                   baseline_off_cmd='cd /repo && cargo test --workspace --no-fail-fast --offline',
                   source_commits=claims.HOOK_COMMITS, add_only=True),
        engines=[dict(name='verus-units', path='fw/', serves_properties=sorted(claims.CLAIMS),
                      kind_free_text='contract-based deductive verification: real functions extracted mechanically from /repo on every run, contracts spliced in, discharged by Verus/Z3; vacuity canaries and seeded mutants on every run')],
        checks=checks,
        notes=claims.NOTES,
        not_applicable=[dict(property_id=p, reason=r) for p, r in sorted(claims.NOT_APPLICABLE.items())],
    )
    json.dump(man, open(os.path.join(os.path.dirname(os.path.dirname(os.path.abspath(__file__))), 'MANIFEST.json'), 'w'), indent=1)
    print('MANIFEST.json: %d checks, %d not_applicable' % (len(checks), len(man['not_applicable'])))

if __name__ == '__main__':
    main()
