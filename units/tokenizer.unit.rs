//@ unit tokenizer
//@ serves C11 C04
//@ must_verify token__layout token__longest Position::from Token::new Token::new_with_pos OffsetStrIter::span ascii_ws ascii_alpha ascii_digit eoi optional not trap complete whitespace comment commatok lbracetok rbracetok lparentok rparentok dotdottok dottok plustok dashtok startok slashtok modulustok pcttok eqeqtok notequaltok matchtok notmatchtok gttok gtequaltok ltequaltok lttok equaltok semicolontok doublecolontok colontok leftsquarebracket rightsquarebracket fatcommatok andtok ortok pipetok selecttok intok istok nottok tracetok failtok functok moduletok lettok importtok includetok asserttok outtok constrainttok converttok astok maptok filtertok reducetok is_symbol_char barewordtok digittok emptytok booleantok end_of_input escapequoted strtok token lemma_boundary_step lemma_ascii_steps lemma_suffix_valid lemma_boundary_is_char_boundary lemma_ascii_on_boundary lemma_ascii_text lemma_fixed_text lemma_starts_1 lemma_starts_2 lemma_starts_first lemma_lits_1 lemma_lits_2 lemma_lits_3 lemma_lits_4 lemma_lits_5 lemma_lits_6 lemma_lits_7 lemma_lits_8 lemma_lits lemma_ws_dep_set lemma_ws_end_bounds lemma_ws_run_is_ascii lemma_cmt_lits lemma_cmt_end_bounds lemma_cmt_stop lemma_cmt_end_least lemma_until_span lemma_sep lemma_run_end_bounds lemma_consume_step lemma_consume_span lemma_true_false_lits lemma_bool_lits lemma_first_bytes lemma_ws_first lemma_subrange_starts
//@ include prelude/head.rs
use vstd::utf8::*;
use std::rc::Rc;
use std::ops::Index;

// C11 for the recognisers of src/tokenizer/mod.rs: whitespace, comment, the fixed-text recognisers (operators,
// punctuation, keywords), numbers, barewords, booleans, NULL, strings (shape only; the value is unit lit_roundtrip),
// end of input, and the ORDERED alternation `token`.
// Everything executable is extracted: the ucg functions and macros verbatim (make_fn! expanded one layer, R10), the
// abortable_parser combinators from the pinned dependency (prelude/tokenizer_macros.rs, prelude/tokenizer_ap.rs;
// what is rewritten there and why is said at each item).
// Hand-written: the oracle (what a token's text, extent and position must be, from the property statement and the
// reference grammar), loop clauses, lemmas.

//@ include prelude/tokenizer_macros.rs
//@ extract src/tokenizer/mod.rs :: macro do_text_token_tok
//@   rule R0
//@ end

verus! {
//@ include prelude/core.rs
//@ include prelude/stepper_iter.rs

//@ extract src/ast/mod.rs :: struct Position
//@   rule R0
//@ end
//@ extract src/ast/mod.rs :: enum TokenType
//@   rule R0
//@ end
//@ extract src/ast/mod.rs :: struct Token
//@   rule R0
//@ end

// ---------- vocabulary ----------
pub open spec fn bytes_of(i: OffsetStrIter) -> Seq<u8> { src_bytes(i.contained) }
pub open spec fn off_of(i: OffsetStrIter) -> int { i.contained.offset as int }
pub open spec fn same_frame(a: OffsetStrIter, b: OffsetStrIter) -> bool {
    a.contained.source == b.contained.source && a.source_file == b.source_file
    && a.line_offset == b.line_offset && a.col_offset == b.col_offset
}
// r is i's stepper moved to byte offset k, still reporting the true line/column of k
pub open spec fn moved(i: OffsetStrIter, r: OffsetStrIter, k: int) -> bool {
    same_frame(r, i) && wf_osi(r) && off_of(r) == k
}
// the position a token starting where `i` stands must report: the true line (1 + LFs before), the true column
// (bytes since the last LF, 1-based), the byte offset (prelude/stepper_iter.rs)
pub open spec fn pos_is(p: Position, i: OffsetStrIter) -> bool {
    &&& p.file == i.source_file
    &&& p.offset == off_of(i)
    &&& p.line == true_line(bytes_of(i), off_of(i)) + i.line_offset
    &&& p.column == true_column(bytes_of(i), off_of(i)) + i.col_offset
}

//@ include prelude/tokenizer_ap.rs

//@ extract src/iter.rs :: impl * From<&'a OffsetStrIter<'a>> for Position :: fn from
//@   impl_header impl<'a> Position
//@   ret r
//@   sig <<<
        requires wf_osi(*s)
        ensures pos_is(r, *s)
//@   >>>
//@ end

// ---------- Token construction ----------
// R7: `Token::new<S: Into<Rc<str>>, P: Into<Position>>` is used by the comment recogniser at S = String,
// P = &OffsetStrIter; `p.into()` is then `<Position as From<&OffsetStrIter>>::from(p)` (src/iter.rs, extracted above).
//@ extract src/ast/mod.rs :: impl Token :: fn new
//@   rule R0
//@   subst "new<S: Into<Rc<str>>, P: Into<Position>>(f: S, typ: TokenType, p: P)" => "new<'a>(f: String, typ: TokenType, p: &'a OffsetStrIter<'a>)"
//@   subst "p.into()" => "Position::from(p)"
//@   ret r
//@   sig <<<
        requires wf_osi(*p)
        ensures r.fragment@ == f@, r.typ == typ, pos_is(r.pos, *p)
//@   >>>
//@ end
//@ extract src/ast/mod.rs :: impl Token :: fn new_with_pos
//@   subst "new_with_pos<S: Into<Rc<str>>>(f: S," => "new_with_pos(f: String,"
//@   ret r
//@   sig <<<
        ensures r.fragment@ == f@, r.typ == typ, r.pos == pos
//@   >>>
//@ end
//@ extract src/ast/mod.rs :: macro make_tok
//@   rule R0
//@ end

// =====================================================================================================
// UTF-8: "the stepper stands on a character boundary"
// =====================================================================================================
// on_boundary(bs, k): the rest of the text from k on is well-formed UTF-8 (vstd::utf8::valid_utf8).  For the bytes of a
// &str this is `str::is_char_boundary(k)` (lemma_boundary_is_char_boundary), and it holds at every ASCII byte and at the
// end (lemma_ascii_on_boundary): nothing here is a caller obligation.
#[verifier::opaque]
pub open spec fn suffix_valid(bs: Seq<u8>, k: int) -> bool { valid_utf8(bs.skip(k)) }
pub open spec fn on_boundary(bs: Seq<u8>, k: int) -> bool { 0 <= k <= bs.len() && suffix_valid(bs, k) }

// a byte on a boundary is not a continuation byte (10xxxxxx); an ASCII byte is a whole character
pub proof fn lemma_boundary_step(bs: Seq<u8>, k: int)
    requires on_boundary(bs, k), k < bs.len()
    ensures !is_continuation_byte(bs[k]), bs[k] != 0x85, bs[k] != 0xA0, bs[k] < 0x80 ==> on_boundary(bs, k + 1),
{
    reveal(suffix_valid);
    reveal_with_fuel(valid_utf8, 2);
    assert(bs.skip(k)[0] == bs[k]);
    assert(bs.skip(k).skip(1) =~= bs.skip(k + 1));
    assert(0x85u8 & 0xC0 == 0x80 && 0xA0u8 & 0xC0 == 0x80) by (bit_vector);
}
pub proof fn lemma_ascii_steps(bs: Seq<u8>, o: int, n: int)
    requires on_boundary(bs, o), 0 <= n, o + n <= bs.len(), forall|j: int| o <= j < o + n ==> #[trigger] bs[j] < 0x80
    ensures on_boundary(bs, o + n)
    decreases n
{
    if n > 0 { lemma_ascii_steps(bs, o, n - 1); lemma_boundary_step(bs, o + n - 1); }
}
// a byte of well-formed UTF-8 that is not a continuation byte starts a character
pub proof fn lemma_suffix_valid(bs: Seq<u8>, k: int)
    requires valid_utf8(bs), 0 <= k < bs.len(), !is_continuation_byte(bs[k])
    ensures valid_utf8(bs.skip(k))
    decreases bs.len()
{
    if k == 0 {
        assert(bs.skip(0) =~= bs);
    } else {
        let w = length_of_first_scalar(bs);
        assert(valid_first_scalar(bs));
        assert(pop_first_scalar(bs) =~= bs.skip(w));
        assert(forall|j: int| 1 <= j < w ==> is_continuation_byte(#[trigger] bs[j]));
        assert(w <= k);
        lemma_suffix_valid(pop_first_scalar(bs), k - w);
        assert(bs.skip(w).skip(k - w) =~= bs.skip(k));
    }
}
// on_boundary is str::is_char_boundary (vstd's model of it) on the bytes of a &str
pub proof fn lemma_boundary_is_char_boundary(s: &str, k: int)
    requires on_boundary(encode_utf8(s@), k)
    ensures is_char_boundary(encode_utf8(s@), k)
{
    let bs = encode_utf8(s@);
    encode_utf8_valid_utf8(s@);
    if k < bs.len() {
        lemma_boundary_step(bs, k);
        is_char_boundary_iff_not_is_continuation_byte(bs, k);
    } else {
        is_char_boundary_start_end_of_seq(bs);
    }
}
// in the bytes of a &str every ASCII byte, and the end, is a character boundary
pub proof fn lemma_ascii_on_boundary(s: &str, k: int)
    requires 0 <= k <= encode_utf8(s@).len(), k < encode_utf8(s@).len() ==> encode_utf8(s@)[k] < 0x80
    ensures on_boundary(encode_utf8(s@), k)
{
    reveal(suffix_valid);
    let bs = encode_utf8(s@);
    encode_utf8_valid_utf8(s@);
    if k < bs.len() {
        let b = bs[k];
        assert(b < 0x80 ==> b & 0xC0 != 0x80) by (bit_vector);
        lemma_suffix_valid(bs, k);
    } else {
        assert(bs.skip(k) =~= Seq::<u8>::empty());
    }
}

// =====================================================================================================
// text_token!: "the input starts with this text"
// =====================================================================================================
pub open spec fn lit(s: &str) -> Seq<u8> { encode_utf8(s@) }
pub open spec fn prefix_matches(bs: Seq<u8>, o: int, e: Seq<u8>, k: int) -> bool {
    forall|j: int| 0 <= j < k ==> bs[o + j] == #[trigger] e[j]
}
pub open spec fn starts_with_at(bs: Seq<u8>, o: int, e: Seq<u8>) -> bool {
    0 <= o && o + e.len() <= bs.len() && prefix_matches(bs, o, e, e.len() as int)
}
// clauses of the loop of text_token!(start, e): k bytes of e have been compared, `count` of them were equal
pub open spec fn text_token_inv(start: OffsetStrIter, cur: OffsetStrIter, it: Seq<u8>, e: &str, k: int, count: int) -> bool {
    &&& it == lit(e) && 0 <= k <= it.len() && 0 <= count <= k
    &&& moved(start, cur, off_of(start) + k)
    &&& (count == k) == prefix_matches(bytes_of(start), off_of(start), it, k)
}
pub open spec fn text_token_done(start: OffsetStrIter, cur: OffsetStrIter, e: &str, count: int) -> bool {
    &&& wf_osi(cur) && same_frame(cur, start) && 0 <= count <= lit(e).len()
    &&& (count == lit(e).len()) == starts_with_at(bytes_of(start), off_of(start), lit(e))
    &&& count == lit(e).len() ==> off_of(cur) == off_of(start) + lit(e).len()
}

// ASCII text is its own UTF-8 (vstd::utf8::is_ascii_chars_encode_utf8)
pub proof fn lemma_ascii_text(t: Seq<char>)
    requires is_ascii_chars(t)
    ensures encode_utf8(t).len() == t.len(),
        forall|j: int| 0 <= j < t.len() ==> #[trigger] encode_utf8(t)[j] == t[j] as u8 && encode_utf8(t)[j] < 0x80,
{
    is_ascii_chars_encode_utf8(t);
}
// after a fixed ASCII text the stepper is on a character boundary again
pub proof fn lemma_fixed_text(bs: Seq<u8>, o: int, t: Seq<char>)
    requires is_ascii_chars(t)
    ensures encode_utf8(t).len() == t.len(),
        (on_boundary(bs, o) && starts_with_at(bs, o, encode_utf8(t))) ==> on_boundary(bs, o + t.len()),
{
    lemma_ascii_text(t);
    let e = encode_utf8(t);
    if on_boundary(bs, o) && starts_with_at(bs, o, e) {
        assert forall|j: int| o <= j < o + t.len() implies #[trigger] bs[j] < 0x80 by {
            assert(bs[o + (j - o)] == e[j - o]);
        }
        lemma_ascii_steps(bs, o, t.len() as int);
    }
}
pub proof fn lemma_starts_1(bs: Seq<u8>, o: int, a: u8)
    ensures starts_with_at(bs, o, seq![a]) == (0 <= o < bs.len() && bs[o] == a)
{
    let e = seq![a];
    if starts_with_at(bs, o, e) { assert(bs[o + 0] == e[0]); }
}
pub proof fn lemma_starts_2(bs: Seq<u8>, o: int, a: u8, b: u8)
    ensures starts_with_at(bs, o, seq![a, b]) == (0 <= o && o + 2 <= bs.len() && bs[o] == a && bs[o + 1] == b)
{
    let e = seq![a, b];
    if starts_with_at(bs, o, e) { assert(bs[o + 0] == e[0]); assert(bs[o + 1] == e[1]); }
}
pub proof fn lemma_starts_first(bs: Seq<u8>, o: int, e: Seq<u8>)
    requires e.len() > 0, starts_with_at(bs, o, e)
    ensures 0 <= o < bs.len(), bs[o] == e[0]
{
    assert(bs[o + 0] == e[0]);
}
// the byte values of the literals the recognisers look for
pub proof fn lemma_lits_1()
    ensures
        lit(",") =~= seq![0x2Cu8],
        lit("{") =~= seq![0x7Bu8],
        lit("}") =~= seq![0x7Du8],
        lit("(") =~= seq![0x28u8],
        lit(")") =~= seq![0x29u8],
        lit("..") =~= seq![0x2Eu8, 0x2Eu8],
        lit(".") =~= seq![0x2Eu8],
        lit("+") =~= seq![0x2Bu8],
{
    reveal_strlit(","); lemma_ascii_text(","@);
    reveal_strlit("{"); lemma_ascii_text("{"@);
    reveal_strlit("}"); lemma_ascii_text("}"@);
    reveal_strlit("("); lemma_ascii_text("("@);
    reveal_strlit(")"); lemma_ascii_text(")"@);
    reveal_strlit(".."); lemma_ascii_text(".."@);
    reveal_strlit("."); lemma_ascii_text("."@);
    reveal_strlit("+"); lemma_ascii_text("+"@);
}
pub proof fn lemma_lits_2()
    ensures
        lit("-") =~= seq![0x2Du8],
        lit("*") =~= seq![0x2Au8],
        lit("/") =~= seq![0x2Fu8],
        lit("%%") =~= seq![0x25u8, 0x25u8],
        lit("%") =~= seq![0x25u8],
        lit("==") =~= seq![0x3Du8, 0x3Du8],
        lit("!=") =~= seq![0x21u8, 0x3Du8],
        lit("~") =~= seq![0x7Eu8],
{
    reveal_strlit("-"); lemma_ascii_text("-"@);
    reveal_strlit("*"); lemma_ascii_text("*"@);
    reveal_strlit("/"); lemma_ascii_text("/"@);
    reveal_strlit("%%"); lemma_ascii_text("%%"@);
    reveal_strlit("%"); lemma_ascii_text("%"@);
    reveal_strlit("=="); lemma_ascii_text("=="@);
    reveal_strlit("!="); lemma_ascii_text("!="@);
    reveal_strlit("~"); lemma_ascii_text("~"@);
}
pub proof fn lemma_lits_3()
    ensures
        lit("!~") =~= seq![0x21u8, 0x7Eu8],
        lit(">") =~= seq![0x3Eu8],
        lit(">=") =~= seq![0x3Eu8, 0x3Du8],
        lit("<=") =~= seq![0x3Cu8, 0x3Du8],
        lit("<") =~= seq![0x3Cu8],
        lit("=") =~= seq![0x3Du8],
        lit(";") =~= seq![0x3Bu8],
        lit("::") =~= seq![0x3Au8, 0x3Au8],
{
    reveal_strlit("!~"); lemma_ascii_text("!~"@);
    reveal_strlit(">"); lemma_ascii_text(">"@);
    reveal_strlit(">="); lemma_ascii_text(">="@);
    reveal_strlit("<="); lemma_ascii_text("<="@);
    reveal_strlit("<"); lemma_ascii_text("<"@);
    reveal_strlit("="); lemma_ascii_text("="@);
    reveal_strlit(";"); lemma_ascii_text(";"@);
    reveal_strlit("::"); lemma_ascii_text("::"@);
}
pub proof fn lemma_lits_4()
    ensures
        lit(":") =~= seq![0x3Au8],
        lit("[") =~= seq![0x5Bu8],
        lit("]") =~= seq![0x5Du8],
        lit("=>") =~= seq![0x3Du8, 0x3Eu8],
        lit("&&") =~= seq![0x26u8, 0x26u8],
        lit("||") =~= seq![0x7Cu8, 0x7Cu8],
        lit("|") =~= seq![0x7Cu8],
        lit("select") =~= seq![0x73u8, 0x65u8, 0x6Cu8, 0x65u8, 0x63u8, 0x74u8],
{
    reveal_strlit(":"); lemma_ascii_text(":"@);
    reveal_strlit("["); lemma_ascii_text("["@);
    reveal_strlit("]"); lemma_ascii_text("]"@);
    reveal_strlit("=>"); lemma_ascii_text("=>"@);
    reveal_strlit("&&"); lemma_ascii_text("&&"@);
    reveal_strlit("||"); lemma_ascii_text("||"@);
    reveal_strlit("|"); lemma_ascii_text("|"@);
    reveal_strlit("select"); lemma_ascii_text("select"@);
}
pub proof fn lemma_lits_5()
    ensures
        lit("in") =~= seq![0x69u8, 0x6Eu8],
        lit("is") =~= seq![0x69u8, 0x73u8],
        lit("not") =~= seq![0x6Eu8, 0x6Fu8, 0x74u8],
        lit("TRACE") =~= seq![0x54u8, 0x52u8, 0x41u8, 0x43u8, 0x45u8],
        lit("fail") =~= seq![0x66u8, 0x61u8, 0x69u8, 0x6Cu8],
        lit("func") =~= seq![0x66u8, 0x75u8, 0x6Eu8, 0x63u8],
        lit("module") =~= seq![0x6Du8, 0x6Fu8, 0x64u8, 0x75u8, 0x6Cu8, 0x65u8],
        lit("let") =~= seq![0x6Cu8, 0x65u8, 0x74u8],
{
    reveal_strlit("in"); lemma_ascii_text("in"@);
    reveal_strlit("is"); lemma_ascii_text("is"@);
    reveal_strlit("not"); lemma_ascii_text("not"@);
    reveal_strlit("TRACE"); lemma_ascii_text("TRACE"@);
    reveal_strlit("fail"); lemma_ascii_text("fail"@);
    reveal_strlit("func"); lemma_ascii_text("func"@);
    reveal_strlit("module"); lemma_ascii_text("module"@);
    reveal_strlit("let"); lemma_ascii_text("let"@);
}
pub proof fn lemma_lits_6()
    ensures
        lit("import") =~= seq![0x69u8, 0x6Du8, 0x70u8, 0x6Fu8, 0x72u8, 0x74u8],
        lit("include") =~= seq![0x69u8, 0x6Eu8, 0x63u8, 0x6Cu8, 0x75u8, 0x64u8, 0x65u8],
        lit("assert") =~= seq![0x61u8, 0x73u8, 0x73u8, 0x65u8, 0x72u8, 0x74u8],
        lit("out") =~= seq![0x6Fu8, 0x75u8, 0x74u8],
        lit("constraint") =~= seq![0x63u8, 0x6Fu8, 0x6Eu8, 0x73u8, 0x74u8, 0x72u8, 0x61u8, 0x69u8, 0x6Eu8, 0x74u8],
        lit("convert") =~= seq![0x63u8, 0x6Fu8, 0x6Eu8, 0x76u8, 0x65u8, 0x72u8, 0x74u8],
        lit("as") =~= seq![0x61u8, 0x73u8],
        lit("map") =~= seq![0x6Du8, 0x61u8, 0x70u8],
{
    reveal_strlit("import"); lemma_ascii_text("import"@);
    reveal_strlit("include"); lemma_ascii_text("include"@);
    reveal_strlit("assert"); lemma_ascii_text("assert"@);
    reveal_strlit("out"); lemma_ascii_text("out"@);
    reveal_strlit("constraint"); lemma_ascii_text("constraint"@);
    reveal_strlit("convert"); lemma_ascii_text("convert"@);
    reveal_strlit("as"); lemma_ascii_text("as"@);
    reveal_strlit("map"); lemma_ascii_text("map"@);
}
pub proof fn lemma_lits_7()
    ensures
        lit("filter") =~= seq![0x66u8, 0x69u8, 0x6Cu8, 0x74u8, 0x65u8, 0x72u8],
        lit("reduce") =~= seq![0x72u8, 0x65u8, 0x64u8, 0x75u8, 0x63u8, 0x65u8],
        lit("NULL") =~= seq![0x4Eu8, 0x55u8, 0x4Cu8, 0x4Cu8],
        lit("true") =~= seq![0x74u8, 0x72u8, 0x75u8, 0x65u8],
        lit("false") =~= seq![0x66u8, 0x61u8, 0x6Cu8, 0x73u8, 0x65u8],
        lit("\"") =~= seq![0x22u8],
        lit("//") =~= seq![0x2Fu8, 0x2Fu8],
        lit("\r\n") =~= seq![0x0Du8, 0x0Au8],
{
    reveal_strlit("filter"); lemma_ascii_text("filter"@);
    reveal_strlit("reduce"); lemma_ascii_text("reduce"@);
    reveal_strlit("NULL"); lemma_ascii_text("NULL"@);
    reveal_strlit("true"); lemma_ascii_text("true"@);
    reveal_strlit("false"); lemma_ascii_text("false"@);
    reveal_strlit("\""); lemma_ascii_text("\""@);
    reveal_strlit("//"); lemma_ascii_text("//"@);
    reveal_strlit("\r\n"); lemma_ascii_text("\r\n"@);
}
pub proof fn lemma_lits_8()
    ensures
        lit("\n") =~= seq![0x0Au8],
{
    reveal_strlit("\n"); lemma_ascii_text("\n"@);
}
pub proof fn lemma_lits()
    ensures
        lit(",") =~= seq![0x2Cu8],
        lit("{") =~= seq![0x7Bu8],
        lit("}") =~= seq![0x7Du8],
        lit("(") =~= seq![0x28u8],
        lit(")") =~= seq![0x29u8],
        lit("..") =~= seq![0x2Eu8, 0x2Eu8],
        lit(".") =~= seq![0x2Eu8],
        lit("+") =~= seq![0x2Bu8],
        lit("-") =~= seq![0x2Du8],
        lit("*") =~= seq![0x2Au8],
        lit("/") =~= seq![0x2Fu8],
        lit("%%") =~= seq![0x25u8, 0x25u8],
        lit("%") =~= seq![0x25u8],
        lit("==") =~= seq![0x3Du8, 0x3Du8],
        lit("!=") =~= seq![0x21u8, 0x3Du8],
        lit("~") =~= seq![0x7Eu8],
        lit("!~") =~= seq![0x21u8, 0x7Eu8],
        lit(">") =~= seq![0x3Eu8],
        lit(">=") =~= seq![0x3Eu8, 0x3Du8],
        lit("<=") =~= seq![0x3Cu8, 0x3Du8],
        lit("<") =~= seq![0x3Cu8],
        lit("=") =~= seq![0x3Du8],
        lit(";") =~= seq![0x3Bu8],
        lit("::") =~= seq![0x3Au8, 0x3Au8],
        lit(":") =~= seq![0x3Au8],
        lit("[") =~= seq![0x5Bu8],
        lit("]") =~= seq![0x5Du8],
        lit("=>") =~= seq![0x3Du8, 0x3Eu8],
        lit("&&") =~= seq![0x26u8, 0x26u8],
        lit("||") =~= seq![0x7Cu8, 0x7Cu8],
        lit("|") =~= seq![0x7Cu8],
        lit("select") =~= seq![0x73u8, 0x65u8, 0x6Cu8, 0x65u8, 0x63u8, 0x74u8],
        lit("in") =~= seq![0x69u8, 0x6Eu8],
        lit("is") =~= seq![0x69u8, 0x73u8],
        lit("not") =~= seq![0x6Eu8, 0x6Fu8, 0x74u8],
        lit("TRACE") =~= seq![0x54u8, 0x52u8, 0x41u8, 0x43u8, 0x45u8],
        lit("fail") =~= seq![0x66u8, 0x61u8, 0x69u8, 0x6Cu8],
        lit("func") =~= seq![0x66u8, 0x75u8, 0x6Eu8, 0x63u8],
        lit("module") =~= seq![0x6Du8, 0x6Fu8, 0x64u8, 0x75u8, 0x6Cu8, 0x65u8],
        lit("let") =~= seq![0x6Cu8, 0x65u8, 0x74u8],
        lit("import") =~= seq![0x69u8, 0x6Du8, 0x70u8, 0x6Fu8, 0x72u8, 0x74u8],
        lit("include") =~= seq![0x69u8, 0x6Eu8, 0x63u8, 0x6Cu8, 0x75u8, 0x64u8, 0x65u8],
        lit("assert") =~= seq![0x61u8, 0x73u8, 0x73u8, 0x65u8, 0x72u8, 0x74u8],
        lit("out") =~= seq![0x6Fu8, 0x75u8, 0x74u8],
        lit("constraint") =~= seq![0x63u8, 0x6Fu8, 0x6Eu8, 0x73u8, 0x74u8, 0x72u8, 0x61u8, 0x69u8, 0x6Eu8, 0x74u8],
        lit("convert") =~= seq![0x63u8, 0x6Fu8, 0x6Eu8, 0x76u8, 0x65u8, 0x72u8, 0x74u8],
        lit("as") =~= seq![0x61u8, 0x73u8],
        lit("map") =~= seq![0x6Du8, 0x61u8, 0x70u8],
        lit("filter") =~= seq![0x66u8, 0x69u8, 0x6Cu8, 0x74u8, 0x65u8, 0x72u8],
        lit("reduce") =~= seq![0x72u8, 0x65u8, 0x64u8, 0x75u8, 0x63u8, 0x65u8],
        lit("NULL") =~= seq![0x4Eu8, 0x55u8, 0x4Cu8, 0x4Cu8],
        lit("true") =~= seq![0x74u8, 0x72u8, 0x75u8, 0x65u8],
        lit("false") =~= seq![0x66u8, 0x61u8, 0x6Cu8, 0x73u8, 0x65u8],
        lit("\"") =~= seq![0x22u8],
        lit("//") =~= seq![0x2Fu8, 0x2Fu8],
        lit("\r\n") =~= seq![0x0Du8, 0x0Au8],
        lit("\n") =~= seq![0x0Au8],
{
    lemma_lits_1();
    lemma_lits_2();
    lemma_lits_3();
    lemma_lits_4();
    lemma_lits_5();
    lemma_lits_6();
    lemma_lits_7();
    lemma_lits_8();
}

// =====================================================================================================
// whitespace
// =====================================================================================================
// the oracle: ASCII whitespace = u8::is_ascii_whitespace (space, \t, \n, form feed, \r) plus vertical tab.  The reference
// grammar only says "WS is any non-visible utf-8 whitespace"; `ascii_ws` of the pinned abortable_parser 0.2.3 asks
// `(byte as char).is_whitespace()`, i.e. exactly these six bytes plus 0x85 and 0xA0 (lemma_ws_dep_set), which in the
// bytes of a &str only occur inside multi-byte characters (lemma_ws_run_is_ascii).
pub open spec fn ws_ascii(b: u8) -> bool { b == 0x20 || b == 0x09 || b == 0x0A || b == 0x0B || b == 0x0C || b == 0x0D }
pub proof fn lemma_ws_dep_set(b: u8)
    ensures ws_dep(b) == (ws_ascii(b) || b == 0x85 || b == 0xA0)
{
}
// end of the maximal run of bytes `ascii_ws` accepts that starts at k
pub open spec fn ws_end(bs: Seq<u8>, k: int) -> int
    decreases bs.len() - k
{
    if 0 <= k < bs.len() && ws_dep(bs[k]) { ws_end(bs, k + 1) } else { k }
}
// ... and of the maximal run of ASCII whitespace (the oracle)
pub open spec fn ws_ascii_end(bs: Seq<u8>, k: int) -> int
    decreases bs.len() - k
{
    if 0 <= k < bs.len() && ws_ascii(bs[k]) { ws_ascii_end(bs, k + 1) } else { k }
}
pub proof fn lemma_ws_end_bounds(bs: Seq<u8>, k: int)
    requires 0 <= k <= bs.len()
    ensures k <= ws_end(bs, k) <= bs.len(), k <= ws_ascii_end(bs, k) <= bs.len(),
    decreases bs.len() - k
{
    if k < bs.len() { lemma_ws_end_bounds(bs, k + 1); }
}
// On a character boundary of well-formed UTF-8 the two extra bytes never occur: the run `ascii_ws` consumes is the run
// of ASCII whitespace, and it ends on a character boundary again.
pub proof fn lemma_ws_run_is_ascii(bs: Seq<u8>, k: int)
    requires on_boundary(bs, k)
    ensures ws_end(bs, k) == ws_ascii_end(bs, k), on_boundary(bs, ws_end(bs, k)),
    decreases bs.len() - k
{
    if k < bs.len() {
        lemma_boundary_step(bs, k);
        lemma_ws_dep_set(bs[k]);
        if ws_dep(bs[k]) { lemma_ws_run_is_ascii(bs, k + 1); }
    }
}
// clauses of the loop in repeat!(ascii_ws): `cur` is `start` moved forward inside the run that begins at `start`
pub open spec fn repeat_inv(start: OffsetStrIter, cur: OffsetStrIter) -> bool {
    &&& wf_osi(start) && moved(start, cur, off_of(cur))
    &&& off_of(start) <= off_of(cur) <= bytes_of(start).len()
    &&& ws_end(bytes_of(start), off_of(cur)) == ws_end(bytes_of(start), off_of(start))
}
pub open spec fn repeat_done(start: OffsetStrIter, cur: OffsetStrIter) -> bool {
    &&& wf_osi(start) && moved(start, cur, off_of(cur))
    &&& off_of(cur) == ws_end(bytes_of(start), off_of(start))
}
pub open spec fn repeat_left(cur: OffsetStrIter) -> int { bytes_of(cur).len() - off_of(cur) }

pub open spec fn whitespace_tok<'a>(i: OffsetStrIter<'a>, r: Result<OffsetStrIter<'a>, Token>) -> bool {
    let bs = bytes_of(i); let o = off_of(i);
    &&& if ws_end(bs, o) == o {
            // empty run: no token
            r is Fail
        } else {
            // exactly the maximal run is consumed; one WS token with empty text at the true start position
            r matches Result::Complete(rest, tok) && off_of(rest) == ws_end(bs, o)
            && tok.typ is WS && tok.fragment@ =~= Seq::<char>::empty() && token_shape(i, rest, tok)
        }
    // the run is the run of ASCII whitespace (space, \t, \n, VT, FF, \r) whenever the stepper stands on a character
    // boundary (it always does: `tokenize` keeps it there)
    &&& on_boundary(bs, o) ==> ws_end(bs, o) == ws_ascii_end(bs, o)
}

//@ extract src/tokenizer/mod.rs :: make_fn whitespace
//@   ret r
//@   sig <<<
    requires wf_osi(i)
    ensures whitespace_tok(i, r)
//@   >>>
//@   body_start <<<
    proof {
        reveal_strlit("");
        lemma_ws_end_bounds(bytes_of(i), off_of(i));
        if off_of(i) < bytes_of(i).len() { lemma_ws_end_bounds(bytes_of(i), off_of(i) + 1); }
        if on_boundary(bytes_of(i), off_of(i)) { lemma_ws_run_is_ascii(bytes_of(i), off_of(i)); }
    }
//@   >>>
//@   mutant ws_empty_run "_ => peek!(ascii_ws)," => "" expect whitespace
//@   mutant ws_single_byte "_ => repeat!(ascii_ws)," => "_ => ascii_ws," expect whitespace
//@   mutant ws_pos_at_end "span => input!(), _ => peek!(ascii_ws), _ => repeat!(ascii_ws)," => "_ => peek!(ascii_ws), _ => repeat!(ascii_ws), span => input!()," expect whitespace
//@ end

// =====================================================================================================
// comment
// =====================================================================================================
pub open spec fn is_lf(bs: Seq<u8>, j: int) -> bool { 0 <= j < bs.len() && bs[j] == 0x0A }
pub open spec fn is_crlf(bs: Seq<u8>, j: int) -> bool { 0 <= j && j + 1 < bs.len() && bs[j] == 0x0D && bs[j + 1] == 0x0A }
// the comment text ends at j: end of input, LF, or CR LF.  A CR that is not followed by LF is comment text.
pub open spec fn cmt_ends_at(bs: Seq<u8>, j: int) -> bool { j >= bs.len() || is_lf(bs, j) || is_crlf(bs, j) }
// the first such position at or after s
pub open spec fn cmt_end(bs: Seq<u8>, s: int) -> int
    decreases bs.len() - s
{
    if s >= bs.len() || cmt_ends_at(bs, s) { s } else { cmt_end(bs, s + 1) }
}
// where the next token starts: after the line terminator, which belongs to the comment token but not to its text
pub open spec fn cmt_next(bs: Seq<u8>, e: int) -> int { if is_crlf(bs, e) { e + 2 } else if is_lf(bs, e) { e + 1 } else { e } }
pub open spec fn starts_comment(bs: Seq<u8>, o: int) -> bool { 0 <= o && o + 2 <= bs.len() && bs[o] == 0x2F && bs[o + 1] == 0x2F }

pub proof fn lemma_cmt_lits()
    ensures lit("//") =~= seq![0x2Fu8, 0x2Fu8], lit("\r\n") =~= seq![0x0Du8, 0x0Au8], lit("\n") =~= seq![0x0Au8],
{
    reveal_strlit("//"); lemma_ascii_text("//"@);
    reveal_strlit("\r\n"); lemma_ascii_text("\r\n"@);
    reveal_strlit("\n"); lemma_ascii_text("\n"@);
}
pub proof fn lemma_cmt_end_bounds(bs: Seq<u8>, s: int)
    requires 0 <= s <= bs.len()
    ensures s <= cmt_end(bs, s) <= bs.len(), s <= cmt_next(bs, cmt_end(bs, s)) <= bs.len()
    decreases bs.len() - s
{
    if s < bs.len() && !cmt_ends_at(bs, s) { lemma_cmt_end_bounds(bs, s + 1); }
}

// the rule until! is used with, as the combinators see it: either!(eoi, text_token!("\r\n"), text_token!("\n"))
pub open spec fn cmt_stop(bs: Seq<u8>, j: int) -> bool {
    j >= bs.len() || starts_with_at(bs, j, lit("\r\n")) || starts_with_at(bs, j, lit("\n"))
}
pub proof fn lemma_cmt_stop(bs: Seq<u8>, j: int)
    requires 0 <= j
    ensures cmt_stop(bs, j) == cmt_ends_at(bs, j),
        starts_with_at(bs, j, lit("\r\n")) == is_crlf(bs, j), starts_with_at(bs, j, lit("\n")) == is_lf(bs, j),
{
    lemma_cmt_lits();
    lemma_starts_2(bs, j, 0x0D, 0x0A); lemma_starts_1(bs, j, 0x0A);
}
pub proof fn lemma_cmt_end_least(bs: Seq<u8>, s: int, e: int)
    requires 0 <= s <= e <= bs.len(), cmt_ends_at(bs, e), forall|j: int| s <= j < e ==> !cmt_ends_at(bs, j)
    ensures cmt_end(bs, s) == e
    decreases e - s
{
    if s < e { lemma_cmt_end_least(bs, s + 1, e); }
}
// clauses of the loop of until!(start, <the rule above>): no terminator between `start` and `cur`
pub open spec fn until_inv(start: OffsetStrIter, cur: OffsetStrIter) -> bool {
    &&& wf_osi(start) && on_boundary(bytes_of(start), off_of(start))
    &&& moved(start, cur, off_of(cur)) && off_of(start) <= off_of(cur) <= bytes_of(start).len()
    &&& forall|j: int| off_of(start) <= j < off_of(cur) ==> !cmt_stop(bytes_of(start), j)
}
pub open spec fn until_post<'a>(start: OffsetStrIter<'a>, r: Result<OffsetStrIter<'a>, &'a str>) -> bool {
    r matches Result::Complete(rest, sp) && (until_inv(start, rest) && cmt_stop(bytes_of(start), off_of(rest))
    && encode_utf8(sp@) == bytes_of(start).subrange(off_of(start), off_of(rest)))
}
// the span until! cuts out lies on character boundaries
pub proof fn lemma_until_span(start: OffsetStrIter, cur: OffsetStrIter)
    requires until_inv(start, cur), cmt_stop(bytes_of(start), off_of(cur))
    ensures span_ok(bytes_of(start), off_of(start), off_of(cur))
{
    let bs = bytes_of(start);
    lemma_boundary_is_char_boundary(start.contained.source, off_of(start));
    lemma_cmt_stop(bs, off_of(cur));
    lemma_ascii_on_boundary(start.contained.source, off_of(cur));
    lemma_boundary_is_char_boundary(start.contained.source, off_of(cur));
}

pub open spec fn comment_tok<'a>(input: OffsetStrIter<'a>, r: Result<OffsetStrIter<'a>, Token>) -> bool {
    let bs = bytes_of(input); let o = off_of(input);
    if !starts_comment(bs, o) {
        // does not start with `//`: not a comment
        r is Fail
    } else {
        let s = o + 2; let e = cmt_end(bs, s);
        // one COMMENT token: its text is exactly the bytes between `//` and the terminator, its position is the
        // true position of the first `/`; the next token starts after the terminator, on a character boundary
        r matches Result::Complete(rest, tok) && off_of(rest) == cmt_next(bs, e)
        && tok.typ is COMMENT && encode_utf8(tok.fragment@) == bs.subrange(s, e)
        && on_boundary(bs, cmt_next(bs, e)) && token_shape(input, rest, tok)
    }
}

//@ extract src/tokenizer/mod.rs :: fn comment
// names the elided lifetime (the closure signature inside until! has to mention it)
//@   subst "fn comment(input: OffsetStrIter) -> Result<OffsetStrIter, Token>" => "fn comment<'a>(input: OffsetStrIter<'a>) -> Result<OffsetStrIter<'a>, Token>"
//@   ret r
//@   sig <<<
    requires wf_osi(input)
    ensures comment_tok(input, r)
//@   >>>
//@   body_start <<<
    proof {
        lemma_cmt_lits();
        let bs = bytes_of(input); let o = off_of(input);
        lemma_starts_2(bs, o, 0x2F, 0x2F);
        if starts_comment(bs, o) {
            // `/` is ASCII: the stepper stands on a character boundary, and so does the text after `//`
            lemma_ascii_on_boundary(input.contained.source, o);
            lemma_boundary_step(bs, o); lemma_boundary_step(bs, o + 1);
            lemma_cmt_end_bounds(bs, o + 2);
        }
    }
//@   >>>
//@   before "let rest = match optional" <<<
                    proof {
                        let bs = bytes_of(input); let s = off_of(input) + 2; let e = off_of(rest);
                        assert forall|j: int| s <= j < e implies !cmt_ends_at(bs, j) by { lemma_cmt_stop(bs, j); }
                        lemma_cmt_stop(bs, e);
                        lemma_cmt_end_least(bs, s, e);
                        lemma_ascii_on_boundary(input.contained.source, e);
                        if e < bs.len() { lemma_boundary_step(bs, e); }
                        if is_crlf(bs, e) { lemma_boundary_step(bs, e + 1); }
                    }
//@   >>>
// seeded change B: a lone CR ends the comment
//@   mutant cmt_cr_terminates "discard!(text_token!(\"\\r\\n\"))," => "discard!(text_token!(\"\\r\"))," expect comment
//@   mutant cmt_single_slash "text_token!(input, \"//\")" => "text_token!(input, \"/\")" expect comment
// the CR of a CRLF terminator becomes part of the comment text
//@   mutant cmt_text_keeps_cr "either!( eoi, discard!(text_token!(\"\\r\\n\")), discard!(text_token!(\"\\n\")) )" => "either!( eoi, discard!(text_token!(\"\\n\")) )" expect comment
//@   mutant cmt_newline_not_eaten "Result::Complete(next_rest, _) => next_rest," => "Result::Complete(next_rest, _) => rest.clone()," expect comment
//@   mutant cmt_needs_newline "either!( eoi, discard!" => "either!( discard!" expect comment
//@ end

// =====================================================================================================
// fixed-text recognisers: operators, punctuation (do_text_token_tok!) and keywords (its WS variant)
// =====================================================================================================
// succeeds iff the input starts with the text; the token is that text, at the true position; nothing else is consumed
pub open spec fn fixed_tok<'a>(i: OffsetStrIter<'a>, r: Result<OffsetStrIter<'a>, Token>, text: &str, typ: TokenType) -> bool {
    let bs = bytes_of(i); let o = off_of(i); let n = lit(text).len();
    if starts_with_at(bs, o, lit(text)) {
        r matches Result::Complete(rest, tok) && off_of(rest) == o + n && n > 0
        && tok.typ == typ && tok.fragment@ == text@ && token_shape(i, rest, tok)
    } else {
        r is Fail
    }
}
// a keyword must be followed by a separator: whitespace or a comment, which the recogniser consumes as well
pub open spec fn sep_at(bs: Seq<u8>, k: int) -> bool { ws_end(bs, k) != k || starts_comment(bs, k) }
pub open spec fn sep_end(bs: Seq<u8>, k: int) -> int {
    if ws_end(bs, k) != k { ws_end(bs, k) } else { cmt_next(bs, cmt_end(bs, k + 2)) }
}
pub open spec fn keyword_tok<'a>(i: OffsetStrIter<'a>, r: Result<OffsetStrIter<'a>, Token>, text: &str) -> bool {
    let bs = bytes_of(i); let o = off_of(i); let n = lit(text).len();
    if starts_with_at(bs, o, lit(text)) && sep_at(bs, o + n) {
        r matches Result::Complete(rest, tok) && off_of(rest) == sep_end(bs, o + n) && sep_end(bs, o + n) > o + n && n > 0
        && tok.typ is BAREWORD && tok.fragment@ == text@ && token_shape(i, rest, tok)
    } else {
        r is Fail
    }
}
pub proof fn lemma_sep(bs: Seq<u8>, k: int)
    requires 0 <= k <= bs.len()
    ensures sep_at(bs, k) ==> k < sep_end(bs, k) <= bs.len()
{
    lemma_ws_end_bounds(bs, k);
    if starts_comment(bs, k) { lemma_cmt_end_bounds(bs, k + 2); }
}

//@ extract src/tokenizer/mod.rs :: make_fn commatok
//@   ret r
//@   sig <<<
    requires wf_osi(i)
    ensures fixed_tok(i, r, ",", TokenType::PUNCT)
//@   >>>
//@   body_start <<<
    proof { reveal_strlit(","); lemma_fixed_text(bytes_of(i), off_of(i), ","@); }
//@   >>>
//@ end
//@ extract src/tokenizer/mod.rs :: make_fn lbracetok
//@   ret r
//@   sig <<<
    requires wf_osi(i)
    ensures fixed_tok(i, r, "{", TokenType::PUNCT)
//@   >>>
//@   body_start <<<
    proof { reveal_strlit("{"); lemma_fixed_text(bytes_of(i), off_of(i), "{"@); }
//@   >>>
//@ end
//@ extract src/tokenizer/mod.rs :: make_fn rbracetok
//@   ret r
//@   sig <<<
    requires wf_osi(i)
    ensures fixed_tok(i, r, "}", TokenType::PUNCT)
//@   >>>
//@   body_start <<<
    proof { reveal_strlit("}"); lemma_fixed_text(bytes_of(i), off_of(i), "}"@); }
//@   >>>
//@ end
//@ extract src/tokenizer/mod.rs :: make_fn lparentok
//@   ret r
//@   sig <<<
    requires wf_osi(i)
    ensures fixed_tok(i, r, "(", TokenType::PUNCT)
//@   >>>
//@   body_start <<<
    proof { reveal_strlit("("); lemma_fixed_text(bytes_of(i), off_of(i), "("@); }
//@   >>>
//@ end
//@ extract src/tokenizer/mod.rs :: make_fn rparentok
//@   ret r
//@   sig <<<
    requires wf_osi(i)
    ensures fixed_tok(i, r, ")", TokenType::PUNCT)
//@   >>>
//@   body_start <<<
    proof { reveal_strlit(")"); lemma_fixed_text(bytes_of(i), off_of(i), ")"@); }
//@   >>>
//@ end
//@ extract src/tokenizer/mod.rs :: make_fn dotdottok
//@   ret r
//@   sig <<<
    requires wf_osi(i)
    ensures fixed_tok(i, r, "..", TokenType::PUNCT)
//@   >>>
//@   body_start <<<
    proof { reveal_strlit(".."); lemma_fixed_text(bytes_of(i), off_of(i), ".."@); }
//@   >>>
//@ end
//@ extract src/tokenizer/mod.rs :: make_fn dottok
//@   ret r
//@   sig <<<
    requires wf_osi(i)
    ensures fixed_tok(i, r, ".", TokenType::PUNCT)
//@   >>>
//@   body_start <<<
    proof { reveal_strlit("."); lemma_fixed_text(bytes_of(i), off_of(i), "."@); }
//@   >>>
//@ end
//@ extract src/tokenizer/mod.rs :: make_fn plustok
//@   ret r
//@   sig <<<
    requires wf_osi(i)
    ensures fixed_tok(i, r, "+", TokenType::PUNCT)
//@   >>>
//@   body_start <<<
    proof { reveal_strlit("+"); lemma_fixed_text(bytes_of(i), off_of(i), "+"@); }
//@   >>>
//@ end
//@ extract src/tokenizer/mod.rs :: make_fn dashtok
//@   ret r
//@   sig <<<
    requires wf_osi(i)
    ensures fixed_tok(i, r, "-", TokenType::PUNCT)
//@   >>>
//@   body_start <<<
    proof { reveal_strlit("-"); lemma_fixed_text(bytes_of(i), off_of(i), "-"@); }
//@   >>>
//@ end
//@ extract src/tokenizer/mod.rs :: make_fn startok
//@   ret r
//@   sig <<<
    requires wf_osi(i)
    ensures fixed_tok(i, r, "*", TokenType::PUNCT)
//@   >>>
//@   body_start <<<
    proof { reveal_strlit("*"); lemma_fixed_text(bytes_of(i), off_of(i), "*"@); }
//@   >>>
//@ end
//@ extract src/tokenizer/mod.rs :: make_fn slashtok
//@   ret r
//@   sig <<<
    requires wf_osi(i)
    ensures fixed_tok(i, r, "/", TokenType::PUNCT)
//@   >>>
//@   body_start <<<
    proof { reveal_strlit("/"); lemma_fixed_text(bytes_of(i), off_of(i), "/"@); }
//@   >>>
//@ end
//@ extract src/tokenizer/mod.rs :: make_fn modulustok
//@   ret r
//@   sig <<<
    requires wf_osi(i)
    ensures fixed_tok(i, r, "%%", TokenType::PUNCT)
//@   >>>
//@   body_start <<<
    proof { reveal_strlit("%%"); lemma_fixed_text(bytes_of(i), off_of(i), "%%"@); }
//@   >>>
//@ end
//@ extract src/tokenizer/mod.rs :: make_fn pcttok
//@   ret r
//@   sig <<<
    requires wf_osi(i)
    ensures fixed_tok(i, r, "%", TokenType::PUNCT)
//@   >>>
//@   body_start <<<
    proof { reveal_strlit("%"); lemma_fixed_text(bytes_of(i), off_of(i), "%"@); }
//@   >>>
//@ end
//@ extract src/tokenizer/mod.rs :: make_fn eqeqtok
//@   ret r
//@   sig <<<
    requires wf_osi(i)
    ensures fixed_tok(i, r, "==", TokenType::PUNCT)
//@   >>>
//@   body_start <<<
    proof { reveal_strlit("=="); lemma_fixed_text(bytes_of(i), off_of(i), "=="@); }
//@   >>>
//@ end
//@ extract src/tokenizer/mod.rs :: make_fn notequaltok
//@   ret r
//@   sig <<<
    requires wf_osi(i)
    ensures fixed_tok(i, r, "!=", TokenType::PUNCT)
//@   >>>
//@   body_start <<<
    proof { reveal_strlit("!="); lemma_fixed_text(bytes_of(i), off_of(i), "!="@); }
//@   >>>
//@ end
//@ extract src/tokenizer/mod.rs :: make_fn matchtok
//@   ret r
//@   sig <<<
    requires wf_osi(i)
    ensures fixed_tok(i, r, "~", TokenType::PUNCT)
//@   >>>
//@   body_start <<<
    proof { reveal_strlit("~"); lemma_fixed_text(bytes_of(i), off_of(i), "~"@); }
//@   >>>
//@ end
//@ extract src/tokenizer/mod.rs :: make_fn notmatchtok
//@   ret r
//@   sig <<<
    requires wf_osi(i)
    ensures fixed_tok(i, r, "!~", TokenType::PUNCT)
//@   >>>
//@   body_start <<<
    proof { reveal_strlit("!~"); lemma_fixed_text(bytes_of(i), off_of(i), "!~"@); }
//@   >>>
//@ end
//@ extract src/tokenizer/mod.rs :: make_fn gttok
//@   ret r
//@   sig <<<
    requires wf_osi(i)
    ensures fixed_tok(i, r, ">", TokenType::PUNCT)
//@   >>>
//@   body_start <<<
    proof { reveal_strlit(">"); lemma_fixed_text(bytes_of(i), off_of(i), ">"@); }
//@   >>>
//@ end
//@ extract src/tokenizer/mod.rs :: make_fn gtequaltok
//@   ret r
//@   sig <<<
    requires wf_osi(i)
    ensures fixed_tok(i, r, ">=", TokenType::PUNCT)
//@   >>>
//@   body_start <<<
    proof { reveal_strlit(">="); lemma_fixed_text(bytes_of(i), off_of(i), ">="@); }
//@   >>>
//@ end
//@ extract src/tokenizer/mod.rs :: make_fn ltequaltok
//@   ret r
//@   sig <<<
    requires wf_osi(i)
    ensures fixed_tok(i, r, "<=", TokenType::PUNCT)
//@   >>>
//@   body_start <<<
    proof { reveal_strlit("<="); lemma_fixed_text(bytes_of(i), off_of(i), "<="@); }
//@   >>>
//@ end
//@ extract src/tokenizer/mod.rs :: make_fn lttok
//@   ret r
//@   sig <<<
    requires wf_osi(i)
    ensures fixed_tok(i, r, "<", TokenType::PUNCT)
//@   >>>
//@   body_start <<<
    proof { reveal_strlit("<"); lemma_fixed_text(bytes_of(i), off_of(i), "<"@); }
//@   >>>
//@ end
//@ extract src/tokenizer/mod.rs :: make_fn equaltok
//@   ret r
//@   sig <<<
    requires wf_osi(i)
    ensures fixed_tok(i, r, "=", TokenType::PUNCT)
//@   >>>
//@   body_start <<<
    proof { reveal_strlit("="); lemma_fixed_text(bytes_of(i), off_of(i), "="@); }
//@   >>>
//@ end
//@ extract src/tokenizer/mod.rs :: make_fn semicolontok
//@   ret r
//@   sig <<<
    requires wf_osi(i)
    ensures fixed_tok(i, r, ";", TokenType::PUNCT)
//@   >>>
//@   body_start <<<
    proof { reveal_strlit(";"); lemma_fixed_text(bytes_of(i), off_of(i), ";"@); }
//@   >>>
//@ end
//@ extract src/tokenizer/mod.rs :: make_fn doublecolontok
//@   ret r
//@   sig <<<
    requires wf_osi(i)
    ensures fixed_tok(i, r, "::", TokenType::PUNCT)
//@   >>>
//@   body_start <<<
    proof { reveal_strlit("::"); lemma_fixed_text(bytes_of(i), off_of(i), "::"@); }
//@   >>>
//@ end
//@ extract src/tokenizer/mod.rs :: make_fn colontok
//@   ret r
//@   sig <<<
    requires wf_osi(i)
    ensures fixed_tok(i, r, ":", TokenType::PUNCT)
//@   >>>
//@   body_start <<<
    proof { reveal_strlit(":"); lemma_fixed_text(bytes_of(i), off_of(i), ":"@); }
//@   >>>
//@ end
//@ extract src/tokenizer/mod.rs :: make_fn leftsquarebracket
//@   ret r
//@   sig <<<
    requires wf_osi(i)
    ensures fixed_tok(i, r, "[", TokenType::PUNCT)
//@   >>>
//@   body_start <<<
    proof { reveal_strlit("["); lemma_fixed_text(bytes_of(i), off_of(i), "["@); }
//@   >>>
//@ end
//@ extract src/tokenizer/mod.rs :: make_fn rightsquarebracket
//@   ret r
//@   sig <<<
    requires wf_osi(i)
    ensures fixed_tok(i, r, "]", TokenType::PUNCT)
//@   >>>
//@   body_start <<<
    proof { reveal_strlit("]"); lemma_fixed_text(bytes_of(i), off_of(i), "]"@); }
//@   >>>
//@ end
//@ extract src/tokenizer/mod.rs :: make_fn fatcommatok
//@   ret r
//@   sig <<<
    requires wf_osi(i)
    ensures fixed_tok(i, r, "=>", TokenType::PUNCT)
//@   >>>
//@   body_start <<<
    proof { reveal_strlit("=>"); lemma_fixed_text(bytes_of(i), off_of(i), "=>"@); }
//@   >>>
//@ end
//@ extract src/tokenizer/mod.rs :: make_fn andtok
//@   ret r
//@   sig <<<
    requires wf_osi(i)
    ensures fixed_tok(i, r, "&&", TokenType::PUNCT)
//@   >>>
//@   body_start <<<
    proof { reveal_strlit("&&"); lemma_fixed_text(bytes_of(i), off_of(i), "&&"@); }
//@   >>>
//@ end
//@ extract src/tokenizer/mod.rs :: make_fn ortok
//@   ret r
//@   sig <<<
    requires wf_osi(i)
    ensures fixed_tok(i, r, "||", TokenType::PUNCT)
//@   >>>
//@   body_start <<<
    proof { reveal_strlit("||"); lemma_fixed_text(bytes_of(i), off_of(i), "||"@); }
//@   >>>
//@ end
//@ extract src/tokenizer/mod.rs :: make_fn pipetok
//@   ret r
//@   sig <<<
    requires wf_osi(i)
    ensures fixed_tok(i, r, "|", TokenType::PUNCT)
//@   >>>
//@   body_start <<<
    proof { reveal_strlit("|"); lemma_fixed_text(bytes_of(i), off_of(i), "|"@); }
//@   >>>
//@ end
//@ extract src/tokenizer/mod.rs :: make_fn selecttok
//@   ret r
//@   sig <<<
    requires wf_osi(i)
    ensures keyword_tok(i, r, "select")
//@   >>>
//@   body_start <<<
    proof { reveal_strlit("select"); lemma_fixed_text(bytes_of(i), off_of(i), "select"@); if starts_with_at(bytes_of(i), off_of(i), lit("select")) { lemma_sep(bytes_of(i), off_of(i) + lit("select").len()); } }
//@   >>>
//@ end
//@ extract src/tokenizer/mod.rs :: make_fn intok
//@   ret r
//@   sig <<<
    requires wf_osi(i)
    ensures keyword_tok(i, r, "in")
//@   >>>
//@   body_start <<<
    proof { reveal_strlit("in"); lemma_fixed_text(bytes_of(i), off_of(i), "in"@); if starts_with_at(bytes_of(i), off_of(i), lit("in")) { lemma_sep(bytes_of(i), off_of(i) + lit("in").len()); } }
//@   >>>
//@ end
//@ extract src/tokenizer/mod.rs :: make_fn istok
//@   ret r
//@   sig <<<
    requires wf_osi(i)
    ensures keyword_tok(i, r, "is")
//@   >>>
//@   body_start <<<
    proof { reveal_strlit("is"); lemma_fixed_text(bytes_of(i), off_of(i), "is"@); if starts_with_at(bytes_of(i), off_of(i), lit("is")) { lemma_sep(bytes_of(i), off_of(i) + lit("is").len()); } }
//@   >>>
//@ end
//@ extract src/tokenizer/mod.rs :: make_fn nottok
//@   ret r
//@   sig <<<
    requires wf_osi(i)
    ensures keyword_tok(i, r, "not")
//@   >>>
//@   body_start <<<
    proof { reveal_strlit("not"); lemma_fixed_text(bytes_of(i), off_of(i), "not"@); if starts_with_at(bytes_of(i), off_of(i), lit("not")) { lemma_sep(bytes_of(i), off_of(i) + lit("not").len()); } }
//@   >>>
//@ end
//@ extract src/tokenizer/mod.rs :: make_fn tracetok
//@   ret r
//@   sig <<<
    requires wf_osi(i)
    ensures keyword_tok(i, r, "TRACE")
//@   >>>
//@   body_start <<<
    proof { reveal_strlit("TRACE"); lemma_fixed_text(bytes_of(i), off_of(i), "TRACE"@); if starts_with_at(bytes_of(i), off_of(i), lit("TRACE")) { lemma_sep(bytes_of(i), off_of(i) + lit("TRACE").len()); } }
//@   >>>
//@ end
//@ extract src/tokenizer/mod.rs :: make_fn failtok
//@   ret r
//@   sig <<<
    requires wf_osi(i)
    ensures keyword_tok(i, r, "fail")
//@   >>>
//@   body_start <<<
    proof { reveal_strlit("fail"); lemma_fixed_text(bytes_of(i), off_of(i), "fail"@); if starts_with_at(bytes_of(i), off_of(i), lit("fail")) { lemma_sep(bytes_of(i), off_of(i) + lit("fail").len()); } }
//@   >>>
//@ end
//@ extract src/tokenizer/mod.rs :: make_fn functok
//@   ret r
//@   sig <<<
    requires wf_osi(i)
    ensures keyword_tok(i, r, "func")
//@   >>>
//@   body_start <<<
    proof { reveal_strlit("func"); lemma_fixed_text(bytes_of(i), off_of(i), "func"@); if starts_with_at(bytes_of(i), off_of(i), lit("func")) { lemma_sep(bytes_of(i), off_of(i) + lit("func").len()); } }
//@   >>>
//@ end
//@ extract src/tokenizer/mod.rs :: make_fn moduletok
//@   ret r
//@   sig <<<
    requires wf_osi(i)
    ensures keyword_tok(i, r, "module")
//@   >>>
//@   body_start <<<
    proof { reveal_strlit("module"); lemma_fixed_text(bytes_of(i), off_of(i), "module"@); if starts_with_at(bytes_of(i), off_of(i), lit("module")) { lemma_sep(bytes_of(i), off_of(i) + lit("module").len()); } }
//@   >>>
//@ end
//@ extract src/tokenizer/mod.rs :: make_fn lettok
//@   ret r
//@   sig <<<
    requires wf_osi(i)
    ensures keyword_tok(i, r, "let")
//@   >>>
//@   body_start <<<
    proof { reveal_strlit("let"); lemma_fixed_text(bytes_of(i), off_of(i), "let"@); if starts_with_at(bytes_of(i), off_of(i), lit("let")) { lemma_sep(bytes_of(i), off_of(i) + lit("let").len()); } }
//@   >>>
//@ end
//@ extract src/tokenizer/mod.rs :: make_fn importtok
//@   ret r
//@   sig <<<
    requires wf_osi(i)
    ensures keyword_tok(i, r, "import")
//@   >>>
//@   body_start <<<
    proof { reveal_strlit("import"); lemma_fixed_text(bytes_of(i), off_of(i), "import"@); if starts_with_at(bytes_of(i), off_of(i), lit("import")) { lemma_sep(bytes_of(i), off_of(i) + lit("import").len()); } }
//@   >>>
//@ end
//@ extract src/tokenizer/mod.rs :: make_fn includetok
//@   ret r
//@   sig <<<
    requires wf_osi(i)
    ensures keyword_tok(i, r, "include")
//@   >>>
//@   body_start <<<
    proof { reveal_strlit("include"); lemma_fixed_text(bytes_of(i), off_of(i), "include"@); if starts_with_at(bytes_of(i), off_of(i), lit("include")) { lemma_sep(bytes_of(i), off_of(i) + lit("include").len()); } }
//@   >>>
//@ end
//@ extract src/tokenizer/mod.rs :: make_fn asserttok
//@   ret r
//@   sig <<<
    requires wf_osi(i)
    ensures keyword_tok(i, r, "assert")
//@   >>>
//@   body_start <<<
    proof { reveal_strlit("assert"); lemma_fixed_text(bytes_of(i), off_of(i), "assert"@); if starts_with_at(bytes_of(i), off_of(i), lit("assert")) { lemma_sep(bytes_of(i), off_of(i) + lit("assert").len()); } }
//@   >>>
//@ end
//@ extract src/tokenizer/mod.rs :: make_fn outtok
//@   ret r
//@   sig <<<
    requires wf_osi(i)
    ensures keyword_tok(i, r, "out")
//@   >>>
//@   body_start <<<
    proof { reveal_strlit("out"); lemma_fixed_text(bytes_of(i), off_of(i), "out"@); if starts_with_at(bytes_of(i), off_of(i), lit("out")) { lemma_sep(bytes_of(i), off_of(i) + lit("out").len()); } }
//@   >>>
//@ end
//@ extract src/tokenizer/mod.rs :: make_fn constrainttok
//@   ret r
//@   sig <<<
    requires wf_osi(i)
    ensures keyword_tok(i, r, "constraint")
//@   >>>
//@   body_start <<<
    proof { reveal_strlit("constraint"); lemma_fixed_text(bytes_of(i), off_of(i), "constraint"@); if starts_with_at(bytes_of(i), off_of(i), lit("constraint")) { lemma_sep(bytes_of(i), off_of(i) + lit("constraint").len()); } }
//@   >>>
//@ end
//@ extract src/tokenizer/mod.rs :: make_fn converttok
//@   ret r
//@   sig <<<
    requires wf_osi(i)
    ensures keyword_tok(i, r, "convert")
//@   >>>
//@   body_start <<<
    proof { reveal_strlit("convert"); lemma_fixed_text(bytes_of(i), off_of(i), "convert"@); if starts_with_at(bytes_of(i), off_of(i), lit("convert")) { lemma_sep(bytes_of(i), off_of(i) + lit("convert").len()); } }
//@   >>>
//@ end
//@ extract src/tokenizer/mod.rs :: make_fn astok
//@   ret r
//@   sig <<<
    requires wf_osi(i)
    ensures keyword_tok(i, r, "as")
//@   >>>
//@   body_start <<<
    proof { reveal_strlit("as"); lemma_fixed_text(bytes_of(i), off_of(i), "as"@); if starts_with_at(bytes_of(i), off_of(i), lit("as")) { lemma_sep(bytes_of(i), off_of(i) + lit("as").len()); } }
//@   >>>
//@ end
//@ extract src/tokenizer/mod.rs :: make_fn maptok
//@   ret r
//@   sig <<<
    requires wf_osi(i)
    ensures keyword_tok(i, r, "map")
//@   >>>
//@   body_start <<<
    proof { reveal_strlit("map"); lemma_fixed_text(bytes_of(i), off_of(i), "map"@); if starts_with_at(bytes_of(i), off_of(i), lit("map")) { lemma_sep(bytes_of(i), off_of(i) + lit("map").len()); } }
//@   >>>
//@ end
//@ extract src/tokenizer/mod.rs :: make_fn filtertok
//@   ret r
//@   sig <<<
    requires wf_osi(i)
    ensures keyword_tok(i, r, "filter")
//@   >>>
//@   body_start <<<
    proof { reveal_strlit("filter"); lemma_fixed_text(bytes_of(i), off_of(i), "filter"@); if starts_with_at(bytes_of(i), off_of(i), lit("filter")) { lemma_sep(bytes_of(i), off_of(i) + lit("filter").len()); } }
//@   >>>
//@ end
//@ extract src/tokenizer/mod.rs :: make_fn reducetok
//@   ret r
//@   sig <<<
    requires wf_osi(i)
    ensures keyword_tok(i, r, "reduce")
//@   >>>
//@   body_start <<<
    proof { reveal_strlit("reduce"); lemma_fixed_text(bytes_of(i), off_of(i), "reduce"@); if starts_with_at(bytes_of(i), off_of(i), lit("reduce")) { lemma_sep(bytes_of(i), off_of(i) + lit("reduce").len()); } }
//@   >>>
//@ end

// =====================================================================================================
// runs of a byte class: numbers and barewords (consume_all!)
// =====================================================================================================
pub enum ByteClass { Symbol, Digit }
// reference/grammar.md: "bareword: ASCII_CHAR, { DIGIT | VISIBLE_CHAR | "_" }"; the tokenizer's symbol characters are the
// ASCII letters, the digits, '-' and '_'
pub open spec fn sym_byte(b: u8) -> bool { alpha_byte(b) || digit_byte(b) || b == 0x2D || b == 0x5F }
pub open spec fn in_class(c: ByteClass, b: u8) -> bool {
    match c { ByteClass::Symbol => sym_byte(b), ByteClass::Digit => digit_byte(b) }
}
// consume_all!(rule) names the class of its rule as `rule::class()`: modules named like the two rules (type namespace)
pub mod is_symbol_char { use super::*; pub open spec fn class() -> ByteClass { ByteClass::Symbol } }
pub mod ascii_digit { use super::*; pub open spec fn class() -> ByteClass { ByteClass::Digit } }

// end of the maximal run of bytes of class c that starts at k
pub open spec fn run_end(bs: Seq<u8>, k: int, c: ByteClass) -> int
    decreases bs.len() - k
{
    if 0 <= k < bs.len() && in_class(c, bs[k]) { run_end(bs, k + 1, c) } else { k }
}
pub proof fn lemma_run_end_bounds(bs: Seq<u8>, k: int, c: ByteClass)
    requires 0 <= k <= bs.len()
    ensures k <= run_end(bs, k, c) <= bs.len()
    decreases bs.len() - k
{
    if k < bs.len() { lemma_run_end_bounds(bs, k + 1, c); }
}
pub open spec fn sym_at(bs: Seq<u8>, k: int) -> bool { 0 <= k < bs.len() && sym_byte(bs[k]) }

// clauses of the loop of consume_all!(start, rule)
pub open spec fn consume_inv(start: OffsetStrIter, cur: OffsetStrIter, c: ByteClass) -> bool {
    &&& wf_osi(start) && on_boundary(bytes_of(start), off_of(start))
    &&& moved(start, cur, off_of(cur)) && off_of(start) <= off_of(cur) <= bytes_of(start).len()
    &&& on_boundary(bytes_of(start), off_of(cur))
    &&& run_end(bytes_of(start), off_of(cur), c) == run_end(bytes_of(start), off_of(start), c)
}
pub open spec fn consume_post<'a>(start: OffsetStrIter<'a>, r: Result<OffsetStrIter<'a>, &'a str>, c: ByteClass) -> bool {
    let bs = bytes_of(start); let o = off_of(start); let e = run_end(bs, o, c);
    r matches Result::Complete(rest, sp) && (moved(start, rest, e) && encode_utf8(sp@) == bs.subrange(o, e) && on_boundary(bs, e))
}
// the rule accepted the byte at `cur`: it is ASCII, so the next offset is a boundary again, in the same run
pub proof fn lemma_consume_step(start: OffsetStrIter, cur: OffsetStrIter, c: ByteClass)
    requires consume_inv(start, cur, c), off_of(cur) < bytes_of(start).len(), in_class(c, bytes_of(start)[off_of(cur)])
    ensures on_boundary(bytes_of(start), off_of(cur) + 1),
        run_end(bytes_of(start), off_of(cur) + 1, c) == run_end(bytes_of(start), off_of(start), c)
{
    lemma_boundary_step(bytes_of(start), off_of(cur));
}
pub proof fn lemma_consume_span(start: OffsetStrIter, cur: OffsetStrIter, c: ByteClass)
    requires consume_inv(start, cur, c)
    ensures span_ok(bytes_of(start), off_of(start), off_of(cur))
{
    lemma_boundary_is_char_boundary(start.contained.source, off_of(start));
    lemma_boundary_is_char_boundary(start.contained.source, off_of(cur));
}

//@ extract src/tokenizer/mod.rs :: fn is_symbol_char
//@   ret r
//@   sig <<<
    requires wf_osi(i)
    ensures one_byte(i, r, sym_byte(cur_byte(i)))
//@   >>>
//@   mutant sym_no_dash "c == b'-' ||" => "" expect is_symbol_char
//@ end

// a token whose text is the maximal run of class c starting at the cursor
pub open spec fn run_tok<'a>(i: OffsetStrIter<'a>, r: Result<OffsetStrIter<'a>, Token>, first_ok: bool, c: ByteClass, typ: TokenType) -> bool {
    let bs = bytes_of(i); let o = off_of(i); let e = run_end(bs, o, c);
    if o < bs.len() && first_ok {
        r matches Result::Complete(rest, tok) && off_of(rest) == e && e > o
        && tok.typ == typ && encode_utf8(tok.fragment@) == bs.subrange(o, e) && on_boundary(bs, e) && token_shape(i, rest, tok)
    } else {
        r is Fail
    }
}

// BAREWORD: a letter followed by symbol characters, as many as there are
//@ extract src/tokenizer/mod.rs :: make_fn barewordtok
//@   subst "fn barewordtok(i: OffsetStrIter) -> Result<OffsetStrIter, Token>" => "fn barewordtok<'a>(i: OffsetStrIter<'a>) -> Result<OffsetStrIter<'a>, Token>"
//@   ret r
//@   sig <<<
    requires wf_osi(i)
    ensures run_tok(i, r, alpha_byte(cur_byte(i)), ByteClass::Symbol, TokenType::BAREWORD)
//@   >>>
//@   body_start <<<
    proof {
        let bs = bytes_of(i); let o = off_of(i);
        if o < bs.len() && alpha_byte(bs[o]) { lemma_ascii_on_boundary(i.contained.source, o); lemma_run_end_bounds(bs, o + 1, ByteClass::Symbol); lemma_subrange_starts(bs, o, run_end(bs, o, ByteClass::Symbol)); }
    }
//@   >>>
//@   mutant bareword_digit_start "peek!(ascii_alpha)" => "peek!(ascii_digit)" expect barewordtok
//@ end
// DIGIT: the maximal run of digits
//@ extract src/tokenizer/mod.rs :: make_fn digittok
//@   subst "fn digittok(i: OffsetStrIter) -> Result<OffsetStrIter, Token>" => "fn digittok<'a>(i: OffsetStrIter<'a>) -> Result<OffsetStrIter<'a>, Token>"
//@   ret r
//@   sig <<<
    requires wf_osi(i)
    ensures run_tok(i, r, digit_byte(cur_byte(i)), ByteClass::Digit, TokenType::DIGIT)
//@   >>>
//@   body_start <<<
    proof {
        let bs = bytes_of(i); let o = off_of(i);
        if o < bs.len() && digit_byte(bs[o]) { lemma_ascii_on_boundary(i.contained.source, o); lemma_run_end_bounds(bs, o + 1, ByteClass::Digit); lemma_subrange_starts(bs, o, run_end(bs, o, ByteClass::Digit)); }
    }
//@   >>>
//@   mutant digits_as_symbols "consume_all!(ascii_digit)" => "consume_all!(is_symbol_char)" expect digittok
//@ end

// =====================================================================================================
// whole-word literals: NULL, true, false
// =====================================================================================================
pub open spec fn word_tok<'a>(i: OffsetStrIter<'a>, r: Result<OffsetStrIter<'a>, Token>, text: &str, typ: TokenType) -> bool {
    let bs = bytes_of(i); let o = off_of(i); let n = lit(text).len();
    starts_with_at(bs, o, lit(text)) && !sym_at(bs, o + n)
    && (r matches Result::Complete(rest, tok) && off_of(rest) == o + n && n > 0
        && tok.typ == typ && tok.fragment@ == text@ && token_shape(i, rest, tok))
}
pub proof fn lemma_true_false_lits()
    ensures lit("true").len() == 4, lit("true")[0] == 0x74, lit("false").len() == 5, lit("false")[0] == 0x66,
{
    reveal_strlit("true"); lemma_ascii_text("true"@);
    reveal_strlit("false"); lemma_ascii_text("false"@);
}
pub proof fn lemma_bool_lits(bs: Seq<u8>, o: int)
    ensures
        lit("true").len() == 4, lit("false").len() == 5,
        !(starts_with_at(bs, o, lit("true")) && starts_with_at(bs, o, lit("false"))),
        (on_boundary(bs, o) && starts_with_at(bs, o, lit("true"))) ==> on_boundary(bs, o + 4),
        (on_boundary(bs, o) && starts_with_at(bs, o, lit("false"))) ==> on_boundary(bs, o + 5),
{
    lemma_true_false_lits();
    reveal_strlit("true"); lemma_fixed_text(bs, o, "true"@);
    reveal_strlit("false"); lemma_fixed_text(bs, o, "false"@);
    if starts_with_at(bs, o, lit("true")) { lemma_starts_first(bs, o, lit("true")); }
    if starts_with_at(bs, o, lit("false")) { lemma_starts_first(bs, o, lit("false")); }
}
//@ extract src/tokenizer/mod.rs :: make_fn emptytok
//@   ret r
//@   sig <<<
    requires wf_osi(i)
    ensures word_tok(i, r, "NULL", TokenType::EMPTY) || r is Fail,
        r is Fail == !(starts_with_at(bytes_of(i), off_of(i), lit("NULL")) && !sym_at(bytes_of(i), off_of(i) + 4)),
//@   >>>
//@   body_start <<<
    proof { reveal_strlit("NULL"); lemma_fixed_text(bytes_of(i), off_of(i), "NULL"@); }
//@   >>>
//@   mutant null_prefix_of_word "_ => not!(is_symbol_char)," => "" expect emptytok
//@ end
//@ extract src/tokenizer/mod.rs :: make_fn booleantok
//@   ret r
//@   sig <<<
    requires wf_osi(i)
    ensures word_tok(i, r, "true", TokenType::BOOLEAN) || word_tok(i, r, "false", TokenType::BOOLEAN) || r is Fail,
        r is Fail == !((starts_with_at(bytes_of(i), off_of(i), lit("true")) && !sym_at(bytes_of(i), off_of(i) + 4))
                    || (starts_with_at(bytes_of(i), off_of(i), lit("false")) && !sym_at(bytes_of(i), off_of(i) + 5))),
//@   >>>
//@   body_start <<<
    proof {
        lemma_bool_lits(bytes_of(i), off_of(i));
    }
//@   >>>
//@ end

// =====================================================================================================
// end of input, strings
// =====================================================================================================
//@ extract src/tokenizer/mod.rs :: make_fn end_of_input
//@   ret r
//@   sig <<<
    requires wf_osi(i)
    ensures
        off_of(i) >= bytes_of(i).len() ==> (r matches Result::Complete(rest, tok) && rest == i
            && tok.typ is END && tok.fragment@ =~= Seq::<char>::empty() && token_shape(i, rest, tok)),
        off_of(i) < bytes_of(i).len() ==> r is Fail,
//@   >>>
//@   body_start <<<
    proof { reveal_strlit(""); }
//@   >>>
//@ end

// The string body scanner: its VALUE contract (escapes decoded, every other byte preserved) is units/lit_roundtrip.
// Here only its shape, which `token`/`tokenize` need: it stops right after an unescaped closing quote.
//@ extract src/tokenizer/mod.rs :: fn escapequoted
//@   subst "while let Some(&c) = _input.next() {" => "while let Some(c__r) = _input.next() { let c = *c__r;"
//@   ret r
//@   sig <<<
    requires wf_osi(input)
    ensures
        r matches Result::Complete(rest, frag) ==> moved(input, rest, off_of(rest)) && off_of(input) < off_of(rest) <= bytes_of(input).len()
            && bytes_of(input)[off_of(rest) - 1] == 0x22,
        r matches Result::Incomplete(rest) ==> moved(input, rest, bytes_of(input).len() as int),
        !(r is Abort),
//@   >>>
//@   loop 1 <<<
        invariant
            wf_osi(_input), same_frame(_input, input),
            off_of(input) <= off_of(_input) <= bytes_of(input).len(),
        ensures
            wf_osi(_input), same_frame(_input, input), off_of(_input) == bytes_of(input).len(),
        decreases bytes_of(input).len() - off_of(_input)
//@   >>>
//@ end

pub open spec fn str_tok<'a>(i: OffsetStrIter<'a>, r: Result<OffsetStrIter<'a>, Token>) -> bool {
    let bs = bytes_of(i); let o = off_of(i);
    &&& !(0 <= o < bs.len() && bs[o] == 0x22) ==> r is Fail
    &&& r matches Result::Complete(rest, tok) ==> tok.typ is QUOTED && on_boundary(bs, off_of(rest)) && token_shape(i, rest, tok)
    &&& !(r is Abort)
}
//@ extract src/tokenizer/mod.rs :: make_fn strtok
//@   ret r
//@   sig <<<
    requires wf_osi(i)
    ensures str_tok(i, r)
//@   >>>
//@   body_start <<<
    proof {
        reveal_strlit("\""); lemma_ascii_text("\""@); assert(lit("\"") =~= seq![0x22u8]); lemma_starts_1(bytes_of(i), off_of(i), 0x22);
        // the closing quote is ASCII: what follows it starts a character
        assert forall|k: int| 0 < k <= bytes_of(i).len() && bytes_of(i)[k - 1] == 0x22 implies on_boundary(bytes_of(i), k) by {
            lemma_ascii_on_boundary(i.contained.source, k - 1);
            lemma_boundary_step(bytes_of(i), k - 1);
        }
    }
//@   >>>
//@ end


// =====================================================================================================
// token: the ORDERED alternation
// =====================================================================================================
// every fixed text `token` looks for, in bytes: the one- and two-byte operators exactly, the words by their first byte
pub proof fn lemma_first_bytes(bs: Seq<u8>, o: int)
    ensures
        starts_with_at(bs, o, lit(",")) == (0 <= o < bs.len() && bs[o] == 0x2C),
        starts_with_at(bs, o, lit("{")) == (0 <= o < bs.len() && bs[o] == 0x7B),
        starts_with_at(bs, o, lit("}")) == (0 <= o < bs.len() && bs[o] == 0x7D),
        starts_with_at(bs, o, lit("(")) == (0 <= o < bs.len() && bs[o] == 0x28),
        starts_with_at(bs, o, lit(")")) == (0 <= o < bs.len() && bs[o] == 0x29),
        lit("..").len() == 2 && starts_with_at(bs, o, lit("..")) == (0 <= o && o + 2 <= bs.len() && bs[o] == 0x2E && bs[o + 1] == 0x2E),
        starts_with_at(bs, o, lit(".")) == (0 <= o < bs.len() && bs[o] == 0x2E),
        starts_with_at(bs, o, lit("+")) == (0 <= o < bs.len() && bs[o] == 0x2B),
        starts_with_at(bs, o, lit("-")) == (0 <= o < bs.len() && bs[o] == 0x2D),
        starts_with_at(bs, o, lit("*")) == (0 <= o < bs.len() && bs[o] == 0x2A),
        starts_with_at(bs, o, lit("/")) == (0 <= o < bs.len() && bs[o] == 0x2F),
        lit("%%").len() == 2 && starts_with_at(bs, o, lit("%%")) == (0 <= o && o + 2 <= bs.len() && bs[o] == 0x25 && bs[o + 1] == 0x25),
        starts_with_at(bs, o, lit("%")) == (0 <= o < bs.len() && bs[o] == 0x25),
        lit("==").len() == 2 && starts_with_at(bs, o, lit("==")) == (0 <= o && o + 2 <= bs.len() && bs[o] == 0x3D && bs[o + 1] == 0x3D),
        lit("!=").len() == 2 && starts_with_at(bs, o, lit("!=")) == (0 <= o && o + 2 <= bs.len() && bs[o] == 0x21 && bs[o + 1] == 0x3D),
        starts_with_at(bs, o, lit("~")) == (0 <= o < bs.len() && bs[o] == 0x7E),
        lit("!~").len() == 2 && starts_with_at(bs, o, lit("!~")) == (0 <= o && o + 2 <= bs.len() && bs[o] == 0x21 && bs[o + 1] == 0x7E),
        starts_with_at(bs, o, lit(">")) == (0 <= o < bs.len() && bs[o] == 0x3E),
        lit(">=").len() == 2 && starts_with_at(bs, o, lit(">=")) == (0 <= o && o + 2 <= bs.len() && bs[o] == 0x3E && bs[o + 1] == 0x3D),
        lit("<=").len() == 2 && starts_with_at(bs, o, lit("<=")) == (0 <= o && o + 2 <= bs.len() && bs[o] == 0x3C && bs[o + 1] == 0x3D),
        starts_with_at(bs, o, lit("<")) == (0 <= o < bs.len() && bs[o] == 0x3C),
        starts_with_at(bs, o, lit("=")) == (0 <= o < bs.len() && bs[o] == 0x3D),
        starts_with_at(bs, o, lit(";")) == (0 <= o < bs.len() && bs[o] == 0x3B),
        lit("::").len() == 2 && starts_with_at(bs, o, lit("::")) == (0 <= o && o + 2 <= bs.len() && bs[o] == 0x3A && bs[o + 1] == 0x3A),
        starts_with_at(bs, o, lit(":")) == (0 <= o < bs.len() && bs[o] == 0x3A),
        starts_with_at(bs, o, lit("[")) == (0 <= o < bs.len() && bs[o] == 0x5B),
        starts_with_at(bs, o, lit("]")) == (0 <= o < bs.len() && bs[o] == 0x5D),
        lit("=>").len() == 2 && starts_with_at(bs, o, lit("=>")) == (0 <= o && o + 2 <= bs.len() && bs[o] == 0x3D && bs[o + 1] == 0x3E),
        lit("&&").len() == 2 && starts_with_at(bs, o, lit("&&")) == (0 <= o && o + 2 <= bs.len() && bs[o] == 0x26 && bs[o + 1] == 0x26),
        lit("||").len() == 2 && starts_with_at(bs, o, lit("||")) == (0 <= o && o + 2 <= bs.len() && bs[o] == 0x7C && bs[o + 1] == 0x7C),
        starts_with_at(bs, o, lit("|")) == (0 <= o < bs.len() && bs[o] == 0x7C),
        starts_with_at(bs, o, lit("select")) ==> 0 <= o < bs.len() && bs[o] == 0x73,
        lit("in").len() == 2 && starts_with_at(bs, o, lit("in")) == (0 <= o && o + 2 <= bs.len() && bs[o] == 0x69 && bs[o + 1] == 0x6E),
        lit("is").len() == 2 && starts_with_at(bs, o, lit("is")) == (0 <= o && o + 2 <= bs.len() && bs[o] == 0x69 && bs[o + 1] == 0x73),
        starts_with_at(bs, o, lit("not")) ==> 0 <= o < bs.len() && bs[o] == 0x6E,
        starts_with_at(bs, o, lit("TRACE")) ==> 0 <= o < bs.len() && bs[o] == 0x54,
        starts_with_at(bs, o, lit("fail")) ==> 0 <= o < bs.len() && bs[o] == 0x66,
        starts_with_at(bs, o, lit("func")) ==> 0 <= o < bs.len() && bs[o] == 0x66,
        starts_with_at(bs, o, lit("module")) ==> 0 <= o < bs.len() && bs[o] == 0x6D,
        starts_with_at(bs, o, lit("let")) ==> 0 <= o < bs.len() && bs[o] == 0x6C,
        starts_with_at(bs, o, lit("import")) ==> 0 <= o < bs.len() && bs[o] == 0x69,
        starts_with_at(bs, o, lit("include")) ==> 0 <= o < bs.len() && bs[o] == 0x69,
        starts_with_at(bs, o, lit("assert")) ==> 0 <= o < bs.len() && bs[o] == 0x61,
        starts_with_at(bs, o, lit("out")) ==> 0 <= o < bs.len() && bs[o] == 0x6F,
        starts_with_at(bs, o, lit("constraint")) ==> 0 <= o < bs.len() && bs[o] == 0x63,
        starts_with_at(bs, o, lit("convert")) ==> 0 <= o < bs.len() && bs[o] == 0x63,
        lit("as").len() == 2 && starts_with_at(bs, o, lit("as")) == (0 <= o && o + 2 <= bs.len() && bs[o] == 0x61 && bs[o + 1] == 0x73),
        starts_with_at(bs, o, lit("map")) ==> 0 <= o < bs.len() && bs[o] == 0x6D,
        starts_with_at(bs, o, lit("filter")) ==> 0 <= o < bs.len() && bs[o] == 0x66,
        starts_with_at(bs, o, lit("reduce")) ==> 0 <= o < bs.len() && bs[o] == 0x72,
        starts_with_at(bs, o, lit("NULL")) ==> 0 <= o < bs.len() && bs[o] == 0x4E,
        starts_with_at(bs, o, lit("true")) ==> 0 <= o < bs.len() && bs[o] == 0x74,
        starts_with_at(bs, o, lit("false")) ==> 0 <= o < bs.len() && bs[o] == 0x66,
{
    lemma_lits();
    lemma_starts_1(bs, o, 0x2C);
    lemma_starts_1(bs, o, 0x7B);
    lemma_starts_1(bs, o, 0x7D);
    lemma_starts_1(bs, o, 0x28);
    lemma_starts_1(bs, o, 0x29);
    lemma_starts_2(bs, o, 0x2E, 0x2E);
    lemma_starts_1(bs, o, 0x2E);
    lemma_starts_1(bs, o, 0x2B);
    lemma_starts_1(bs, o, 0x2D);
    lemma_starts_1(bs, o, 0x2A);
    lemma_starts_1(bs, o, 0x2F);
    lemma_starts_2(bs, o, 0x25, 0x25);
    lemma_starts_1(bs, o, 0x25);
    lemma_starts_2(bs, o, 0x3D, 0x3D);
    lemma_starts_2(bs, o, 0x21, 0x3D);
    lemma_starts_1(bs, o, 0x7E);
    lemma_starts_2(bs, o, 0x21, 0x7E);
    lemma_starts_1(bs, o, 0x3E);
    lemma_starts_2(bs, o, 0x3E, 0x3D);
    lemma_starts_2(bs, o, 0x3C, 0x3D);
    lemma_starts_1(bs, o, 0x3C);
    lemma_starts_1(bs, o, 0x3D);
    lemma_starts_1(bs, o, 0x3B);
    lemma_starts_2(bs, o, 0x3A, 0x3A);
    lemma_starts_1(bs, o, 0x3A);
    lemma_starts_1(bs, o, 0x5B);
    lemma_starts_1(bs, o, 0x5D);
    lemma_starts_2(bs, o, 0x3D, 0x3E);
    lemma_starts_2(bs, o, 0x26, 0x26);
    lemma_starts_2(bs, o, 0x7C, 0x7C);
    lemma_starts_1(bs, o, 0x7C);
    if starts_with_at(bs, o, lit("select")) { lemma_starts_first(bs, o, lit("select")); }
    lemma_starts_2(bs, o, 0x69, 0x6E);
    lemma_starts_2(bs, o, 0x69, 0x73);
    if starts_with_at(bs, o, lit("not")) { lemma_starts_first(bs, o, lit("not")); }
    if starts_with_at(bs, o, lit("TRACE")) { lemma_starts_first(bs, o, lit("TRACE")); }
    if starts_with_at(bs, o, lit("fail")) { lemma_starts_first(bs, o, lit("fail")); }
    if starts_with_at(bs, o, lit("func")) { lemma_starts_first(bs, o, lit("func")); }
    if starts_with_at(bs, o, lit("module")) { lemma_starts_first(bs, o, lit("module")); }
    if starts_with_at(bs, o, lit("let")) { lemma_starts_first(bs, o, lit("let")); }
    if starts_with_at(bs, o, lit("import")) { lemma_starts_first(bs, o, lit("import")); }
    if starts_with_at(bs, o, lit("include")) { lemma_starts_first(bs, o, lit("include")); }
    if starts_with_at(bs, o, lit("assert")) { lemma_starts_first(bs, o, lit("assert")); }
    if starts_with_at(bs, o, lit("out")) { lemma_starts_first(bs, o, lit("out")); }
    if starts_with_at(bs, o, lit("constraint")) { lemma_starts_first(bs, o, lit("constraint")); }
    if starts_with_at(bs, o, lit("convert")) { lemma_starts_first(bs, o, lit("convert")); }
    lemma_starts_2(bs, o, 0x61, 0x73);
    if starts_with_at(bs, o, lit("map")) { lemma_starts_first(bs, o, lit("map")); }
    if starts_with_at(bs, o, lit("filter")) { lemma_starts_first(bs, o, lit("filter")); }
    if starts_with_at(bs, o, lit("reduce")) { lemma_starts_first(bs, o, lit("reduce")); }
    if starts_with_at(bs, o, lit("NULL")) { lemma_starts_first(bs, o, lit("NULL")); }
    if starts_with_at(bs, o, lit("true")) { lemma_starts_first(bs, o, lit("true")); }
    if starts_with_at(bs, o, lit("false")) { lemma_starts_first(bs, o, lit("false")); }
}
// the token's text is the text at its position
pub open spec fn token_text(bs: Seq<u8>, o: int, e: int, tok: Token) -> bool {
    let f = encode_utf8(tok.fragment@);
    match tok.typ {
        // operators, punctuation, numbers, true/false, NULL: the token is exactly the source text it covers
        TokenType::PUNCT | TokenType::BOOLEAN | TokenType::EMPTY | TokenType::DIGIT =>
            f.len() > 0 && starts_with_at(bs, o, f) && e == o + f.len(),
        // words: exactly the source text; a keyword also covers the separator that must follow it
        TokenType::BAREWORD => f.len() > 0 && starts_with_at(bs, o, f) && o + f.len() <= e,
        TokenType::COMMENT => starts_comment(bs, o) && f == bs.subrange(o + 2, cmt_end(bs, o + 2)) && e == cmt_next(bs, cmt_end(bs, o + 2)),
        TokenType::WS => tok.fragment@.len() == 0 && e == ws_end(bs, o) && e > o,
        TokenType::END => tok.fragment@.len() == 0 && e == o && o >= bs.len(),
        // strings: from the opening to the closing quote (the VALUE is unit lit_roundtrip's contract)
        TokenType::QUOTED => o + 2 <= e && bs[o] == 0x22 && bs[e - 1] == 0x22,
        TokenType::PIPEQUOTE => false,
    }
}
// what every token satisfies, whichever recogniser made it
pub open spec fn token_shape<'a>(i: OffsetStrIter<'a>, rest: OffsetStrIter<'a>, tok: Token) -> bool {
    let bs = bytes_of(i); let o = off_of(i); let e = off_of(rest);
    // the rest is the same stepper further on, still reporting true positions
    &&& moved(i, rest, e) && o <= e <= bs.len()
    // the token reports the line, column and byte offset at which it really starts
    &&& pos_is(tok.pos, i)
    // progress: only the END token, at the end of the input, is empty
    &&& (e == o ==> tok.typ is END)
    // tokens end on character boundaries
    &&& (on_boundary(bs, o) ==> on_boundary(bs, e))
    &&& token_text(bs, o, e, tok)
}
// layout: whitespace, comments and the end of the input are recognised wherever they start
pub open spec fn token_layout<'a>(i: OffsetStrIter<'a>, r: Result<OffsetStrIter<'a>, Token>) -> bool {
    let bs = bytes_of(i); let o = off_of(i);
    &&& ws_end(bs, o) != o ==> (r matches Result::Complete(rest, tok) && tok.typ is WS)
    &&& starts_comment(bs, o) ==> (r matches Result::Complete(rest, tok) && tok.typ is COMMENT)
    &&& o >= bs.len() ==> (r matches Result::Complete(rest, tok) && tok.typ is END)
}
pub proof fn lemma_ws_first(bs: Seq<u8>, o: int)
    ensures ws_end(bs, o) != o ==> 0 <= o < bs.len() && (ws_ascii(bs[o]) || bs[o] == 0x85 || bs[o] == 0xA0),
        o >= bs.len() ==> ws_end(bs, o) == o,
{
    if 0 <= o < bs.len() { lemma_ws_dep_set(bs[o]); }
}
// "Adjacent characters always form the longest operator": wherever the input starts with the two-character operator
// `op`, the token IS `op` (not its one-character prefix), whatever follows
pub open spec fn longest_op<'a>(i: OffsetStrIter<'a>, r: Result<OffsetStrIter<'a>, Token>, op: &str) -> bool {
    starts_with_at(bytes_of(i), off_of(i), lit(op)) ==>
        (r matches Result::Complete(rest, tok) && tok.typ is PUNCT && tok.fragment@ == op@ && off_of(rest) == off_of(i) + 2)
}
pub proof fn lemma_subrange_starts(bs: Seq<u8>, o: int, e: int)
    requires 0 <= o <= e <= bs.len()
    ensures starts_with_at(bs, o, bs.subrange(o, e)), bs.subrange(o, e).len() == e - o
{
}

// `token` is one expression: an either! over 57 recognisers.  Its three groups of obligations are discharged on three
// extractions of the SAME function text (the second and third only renamed), so that each SMT query stays small:
//   token           every token has the shape demanded of a token (text, extent, position, progress); never Abort
//   token__layout   whitespace, comments and the end of input are recognised wherever they start
//   token__longest  the longest-operator rule
// In all three the recogniser contracts are used as they stand; `hide` only keeps Z3 from unfolding definitions that the
// step does not need.
//@ extract src/tokenizer/mod.rs :: fn token
//@   ret r
//@   sig <<<
    requires wf_osi(input)
    ensures
        !(r is Abort),
        r matches Result::Complete(rest, tok) ==> token_shape(input, rest, tok),
//@   >>>
//@   body_start <<<
    // every recogniser establishes token_shape itself: here it is only passed on
    hide(token_shape); hide(ws_end); hide(cmt_end); hide(run_end); hide(sep_at); hide(sep_end); hide(cmt_next); hide(sym_at); hide(ws_ascii_end);
//@   >>>
//@ end

//@ extract src/tokenizer/mod.rs :: fn token
//@   subst "fn token<'a>" => "fn token__layout<'a>"
//@   ret r
//@   sig <<<
    requires wf_osi(input)
    ensures token_layout(input, r)
//@   >>>
//@   body_start <<<
    hide(token_shape); hide(ws_end); hide(cmt_end); hide(run_end); hide(sep_at); hide(sep_end); hide(cmt_next); hide(sym_at); hide(ws_ascii_end);
    proof {
        let bs = bytes_of(input); let o = off_of(input);
        lemma_first_bytes(bs, o);
        lemma_ws_first(bs, o);
    }
//@   >>>
//@   mutant slash_before_comment "comment, slashtok," => "slashtok, comment," expect token__layout
//@   mutant whitespace_not_a_token "barewordtok, whitespace, end_of_input" => "barewordtok, end_of_input" expect token__layout
//@ end

//@ extract src/tokenizer/mod.rs :: fn token
//@   subst "fn token<'a>" => "fn token__longest<'a>"
//@   ret r
//@   sig <<<
    requires wf_osi(input)
    ensures
        longest_op(input, r, "=="), longest_op(input, r, "=>"), longest_op(input, r, ">="), longest_op(input, r, "<="),
        longest_op(input, r, ".."), longest_op(input, r, "::"), longest_op(input, r, "&&"), longest_op(input, r, "||"),
        longest_op(input, r, "%%"), longest_op(input, r, "!="), longest_op(input, r, "!~"),
//@   >>>
//@   body_start <<<
    hide(token_shape); hide(ws_end); hide(cmt_end); hide(run_end); hide(sep_at); hide(sep_end); hide(cmt_next); hide(sym_at); hide(ws_ascii_end);
    proof { lemma_first_bytes(bytes_of(input), off_of(input)); }
//@   >>>
//@   mutant eq_before_eqeq "eqeqtok, notequaltok," => "equaltok, eqeqtok, notequaltok," expect token__longest
//@   mutant dot_before_dotdot "dotdottok, dottok," => "dottok, dotdottok," expect token__longest
//@   mutant pipe_before_or "ortok, pipetok," => "pipetok, ortok," expect token__longest
//@   mutant gt_before_ge "complete!(\"Not >=\".to_string(), gtequaltok)," => "gttok, complete!(\"Not >=\".to_string(), gtequaltok)," expect token__longest
//@   mutant colon_before_dcolon "doublecolontok, colontok," => "colontok, doublecolontok," expect token__longest
//@ end

} // verus!

fn main() {}
