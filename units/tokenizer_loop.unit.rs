//@ unit tokenizer_loop
//@ serves C11 C04
//@ must_verify tokenize lemma_kept_push lemma_comments_push
//@ include prelude/head.rs
use vstd::utf8::*;
use std::rc::Rc;
use std::ops::Index;
use vstd::std_specs::cmp::{PartialEqSpec, PartialEqSpecImpl};

// C11, third part: `tokenize` (src/tokenizer/mod.rs), with `token` as a contracted callee (its contract is proved in
// units/tokenizer_alt.unit.rs: every token has its exact text, extent, TRUE position, and makes progress).
//   * the tokens `token` produces tile the input from the cursor to the end, each starting where the previous one ended;
//   * WS and COMMENT tokens are dropped from the stream, all others are kept, in order;
//   * exactly one END token, last, at the final position;
//   * every loop iteration makes progress (termination);
//   * with a comment map every COMMENT token lands in exactly one group, in order; without one the map is untouched.
// The `abortable_parser::Error` of the extracted text is the Error of this one-file crate.
mod abortable_parser { pub use crate::Error; }

verus! {
//@ include prelude/core.rs
//@ include prelude/stepper_iter.rs
//@ include prelude/tokenizer_spec.rs

//@ clone_spec Token
// R0: `#[derive(PartialEq)]` on TokenType (a field-less enum) is assumed structural.
impl PartialEqSpecImpl for TokenType {
    open spec fn obeys_eq_spec() -> bool { true }
    open spec fn eq_spec(&self, other: &TokenType) -> bool { *self == *other }
}
impl PartialEq for TokenType {
    #[verifier::external_body]
    fn eq(&self, other: &TokenType) -> bool { unimplemented!() }
}

// BuildError is only constructed from a parser error and returned (R5).
//@ opaque BuildError
impl BuildError {
    #[verifier::external_body]
    pub fn from<T>(e: T) -> Self { unimplemented!() }
}

// TRUSTED model of `CommentMap = BTreeMap<usize, Vec<Token>>`: a finite map; `insert` sets the key (std: "If the map
// did have this key present, the value is updated").
#[verifier::external_body]
pub struct CommentMap { _p: u8 }
impl View for CommentMap {
    type V = Map<usize, Seq<Token>>;
    uninterp spec fn view(&self) -> Map<usize, Seq<Token>>;
}
impl CommentMap {
    #[verifier::external_body]
    pub fn insert(&mut self, key: usize, value: Vec<Token>) -> (r: Option<Vec<Token>>)
        ensures final(self)@ == old(self)@.insert(key, value@)
    { unimplemented!() }
}

// `token`: contract proved in units/tokenizer_alt.unit.rs (first extraction of `token` there, same text).
//@ extract src/tokenizer/mod.rs :: fn token
//@   opaque_body
//@   ret r
//@   sig <<<
    requires wf_osi(input)
    ensures
        !(r is Abort),
        r matches Result::Complete(rest, tok) ==> token_shape(input, rest, tok),
//@   >>>
//@ end

// ---------- the oracle ----------
pub open spec fn is_layout(t: Token) -> bool { t.typ is WS || t.typ is COMMENT }
// the tokens the parser gets: everything but whitespace and comments, in order
pub open spec fn kept(toks: Seq<Token>) -> Seq<Token>
    decreases toks.len()
{
    if toks.len() == 0 { Seq::<Token>::empty() }
    else if is_layout(toks.last()) { kept(toks.drop_last()) }
    else { kept(toks.drop_last()).push(toks.last()) }
}
pub open spec fn comments(toks: Seq<Token>) -> Seq<Token>
    decreases toks.len()
{
    if toks.len() == 0 { Seq::<Token>::empty() }
    else if toks.last().typ is COMMENT { comments(toks.drop_last()).push(toks.last()) }
    else { comments(toks.drop_last()) }
}
pub proof fn lemma_kept_push(toks: Seq<Token>, t: Token)
    ensures kept(toks.push(t)) == (if is_layout(t) { kept(toks) } else { kept(toks).push(t) }),
{
    assert(toks.push(t).drop_last() =~= toks);
}
pub proof fn lemma_comments_push(toks: Seq<Token>, t: Token)
    ensures comments(toks.push(t)) == (if t.typ is COMMENT { comments(toks).push(t) } else { comments(toks) }),
{
    assert(toks.push(t).drop_last() =~= toks);
}
// the position the token that starts at byte offset a of i0's text must report
pub open spec fn pos_at(p: Position, i0: OffsetStrIter, a: int) -> bool {
    &&& p.file == i0.source_file
    &&& p.offset == a
    &&& p.line == true_line(bytes_of(i0), a) + i0.line_offset
    &&& p.column == true_column(bytes_of(i0), a) + i0.col_offset
}
// token t covers bytes a..b of the text: a real, non-empty token with exactly that text and the true position of a
pub open spec fn tok_at(i0: OffsetStrIter, t: Token, a: int, b: int) -> bool {
    &&& 0 <= a < b <= bytes_of(i0).len()
    &&& token_text(bytes_of(i0), a, b, t)
    &&& pos_at(t.pos, i0, a)
    &&& !(t.typ is END)
    &&& (on_boundary(bytes_of(i0), a) ==> on_boundary(bytes_of(i0), b))
}
// toks tile the text from the cursor of i0 on: token k covers offs[k]..offs[k+1]
pub open spec fn tiling(i0: OffsetStrIter, toks: Seq<Token>, offs: Seq<int>) -> bool {
    &&& offs.len() == toks.len() + 1 && offs[0] == off_of(i0)
    &&& forall|k: int| 0 <= k < toks.len() ==> tok_at(i0, #[trigger] toks[k], offs[k], offs[k + 1])
}
// comment groups: concatenated they are the COMMENT tokens in order; each goes into the map under the line of its last
// comment, in order
pub open spec fn flat(gs: Seq<Seq<Token>>) -> Seq<Token>
    decreases gs.len()
{
    if gs.len() == 0 { Seq::<Token>::empty() } else { flat(gs.drop_last()) + gs.last() }
}
pub open spec fn insert_groups(m: Map<usize, Seq<Token>>, gs: Seq<Seq<Token>>) -> Map<usize, Seq<Token>>
    decreases gs.len()
{
    if gs.len() == 0 { m } else { insert_groups(m, gs.drop_last()).insert(gs.last().last().pos.line, gs.last()) }
}
pub open spec fn tokenize_ok(input: OffsetStrIter, has_map: bool, m0: Map<usize, Seq<Token>>, m1: Map<usize, Seq<Token>>,
                             out: Seq<Token>, toks: Seq<Token>, offs: Seq<int>, groups: Seq<Seq<Token>>) -> bool {
    let n = bytes_of(input).len() as int;
    &&& tiling(input, toks, offs) && offs.last() == n
    // the stream: the non-layout tokens in order, then exactly one END token at the end position
    &&& out.len() == kept(toks).len() + 1 && out.drop_last() == kept(toks)
    &&& out.last().typ is END && out.last().fragment@.len() == 0 && pos_at(out.last().pos, input, n)
    // comments
    &&& if has_map {
            flat(groups) == comments(toks) && (forall|g: int| 0 <= g < groups.len() ==> (#[trigger] groups[g]).len() > 0)
            && m1 == insert_groups(m0, groups)
        } else {
            m1 == m0
        }
}

pub open spec fn tokenized(input: OffsetStrIter, has_map: bool, m0: Map<usize, Seq<Token>>, m1: Map<usize, Seq<Token>>, out: Seq<Token>) -> bool {
    exists|toks: Seq<Token>, offs: Seq<int>, groups: Seq<Seq<Token>>| #[trigger] tokenize_ok(input, has_map, m0, m1, out, toks, offs, groups)
}

// what the loop keeps about the comment groups: `groups` are in the map, `cur` is the open group, `last` its last comment
pub open spec fn group_inv(has_map: bool, m0: Map<usize, Seq<Token>>, m: Map<usize, Seq<Token>>, toks: Seq<Token>,
                           groups: Seq<Seq<Token>>, cur: Seq<Token>, last: Option<Token>) -> bool {
    if has_map {
        &&& flat(groups) + cur == comments(toks)
        &&& forall|g: int| 0 <= g < groups.len() ==> (#[trigger] groups[g]).len() > 0
        &&& m == insert_groups(m0, groups)
        &&& last matches Some(t) ==> cur.len() > 0 && t == cur.last()
        &&& last is None ==> cur.len() == 0
    } else {
        m == m0 && groups.len() == 0
    }
}

// R11-like: `mut comment_map: Option<&mut CommentMap>` (Verus has no `&mut` inside an Option) is the pair
// `has_map: bool, map: &mut CommentMap`; `Some(_)` / `Some(ref mut map)` / `None` in the patterns become `true` / `true` /
// `false`.  When has_map is false the map must come back unchanged.
//@ extract src/tokenizer/mod.rs :: fn tokenize
//@   rule R0
//@   subst "mut comment_map: Option<&mut CommentMap>," => "has_map: bool, map: &mut CommentMap,"
//@   subst "match (&mut comment_map, &tok.typ) {" => "match (has_map, &tok.typ) {"
//@   subst "(&mut Some(_), &TokenType::COMMENT) => {" => "(true, TokenType::COMMENT) => {"
//@   subst "(&mut Some(ref mut map), _) => {" => "(true, _) => {"
//@   subst "(None, TokenType::WS) | (None, TokenType::COMMENT) => continue," => "(false, TokenType::WS) | (false, TokenType::COMMENT) => continue,"
//@   subst "(None, _) => {" => "(false, _) => {"
//@   subst "if let Some(ref mut map) = comment_map {" => "if has_map {"
//@   ret r
//@   sig <<<
    requires wf_osi(input)
    ensures
        r matches Ok(out) ==> tokenized(input, has_map, old(map)@, final(map)@, out@),
//@   >>>
//@   before "loop {" <<<
    let ghost mut toks = Seq::<Token>::empty();
    let ghost mut offs = seq![off_of(input)];
    let ghost mut groups = Seq::<Seq<Token>>::empty();
    let ghost m0 = map@;
//@   >>>
//@   loop 1 <<<
        invariant
            wf_osi(input), wf_osi(i), same_frame(i, input),
            tiling(input, toks, offs), offs.last() == off_of(i),
            out@ == kept(toks),
            group_inv(has_map, m0, map@, toks, groups, comment_group@, comment_was_last),
        ensures
            wf_osi(input), wf_osi(i), same_frame(i, input),
            tiling(input, toks, offs), offs.last() == off_of(i), off_of(i) >= bytes_of(input).len(),
            out@ == kept(toks),
            group_inv(has_map, m0, map@, toks, groups, comment_group@, comment_was_last),
        decreases bytes_of(input).len() - off_of(i)
//@   >>>
//@   after "i = rest;" <<<
                proof {
                    let o = offs.last(); let e = off_of(i);
                    lemma_kept_push(toks, tok); lemma_comments_push(toks, tok);
                    let toks1 = toks.push(tok); let offs1 = offs.push(e);
                    assert(tok_at(input, tok, o, e));
                    assert forall|k: int| 0 <= k < toks1.len() implies tok_at(input, #[trigger] toks1[k], offs1[k], offs1[k + 1]) by {
                        if k < toks.len() { assert(toks1[k] == toks[k]); }
                    }
                    toks = toks1; offs = offs1;
                }
//@   >>>
//@   before "map.insert(tok.pos.line, comment_group);" <<<
                            let ghost g = comment_group@;
//@   >>>
//@   after "map.insert(tok.pos.line, comment_group);" <<<
                            proof {
                                assert(groups.push(g).drop_last() =~= groups);
                                groups = groups.push(g);
                                assert(flat(groups) + Seq::<Token>::empty() =~= flat(groups));
                            }
//@   >>>
//@   before "map.insert(line, comment_group);" <<<
            let ghost g = comment_group@;
//@   >>>
//@   after "map.insert(line, comment_group);" <<<
            proof {
                assert(groups.push(g).drop_last() =~= groups);
                groups = groups.push(g);
            }
//@   >>>
// (the first three are written against the text after the substitutions above)
//@   mutant comment_kept_without_map "| (false, TokenType::COMMENT)" => "" expect tokenize
//@   mutant ws_kept_with_map "if tok.typ != TokenType::WS { out.push(tok); }" => "{ out.push(tok); }" expect tokenize
//@   mutant map_touched_without_request "if has_map { if let Some(tok) = comment_group.last()" => "if true { if let Some(tok) = comment_group.last()" expect tokenize
//@   mutant end_token_is_ws "typ: TokenType::END," => "typ: TokenType::WS," expect tokenize
//@   mutant end_pos_at_start "pos: Position::from(&i)," => "pos: Position::from(&input)," expect tokenize
//@   mutant comment_not_grouped "comment_group.push(tok.clone());" => "" expect tokenize
//@   mutant group_keyed_by_first "if let Some(tok) = comment_group.last() {" => "if let Some(tok) = comment_group.first() {" expect tokenize
//@   mutant stops_at_first_comment "comment_was_last = Some(tok.clone()); continue;" => "comment_was_last = Some(tok.clone()); break;" expect tokenize
//@   before "Ok(out)" <<<
    proof {
        assert(out@.drop_last() =~= kept(toks));
        reveal_strlit("");
        assert(tokenize_ok(input, has_map, m0, map@, out@, toks, offs, groups));
    }
//@   >>>
//@ end

} // verus!

fn main() {}
