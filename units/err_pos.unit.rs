//@ unit err_pos
//@ serves C17
// C17 (narrow kernel, first half) - the position plumbing of RUN-TIME errors in the opcode VM.  Real code, verbatim:
//   error.rs   struct Error, Error::new / with_pos / push_call_stack, decorate_error!, decorate_call!, the four `From` impls,
//              Display (what `ucg build` prints: primary position first, then one VIA line per call site in push order);
//   pointer.rs OpPointer::pos / jump / idx;
//   vm.rs      every handler VM::run dispatches to except op_build_constraint (assumed): arithmetic (+ VM::add / sub / mul /
//              div / modulus), comparisons, `==`, not, && / ||, conditional jumps, select, fail, deref / get_binding,
//              bind / binding_push, index, field / element / merge_field_into_tuple, copy and module call (whole op_copy),
//              cast / do_cast, fcall / fcall_impl, new_scope, typ, render, thunk, push_self / pop_self, exist, func,
//              module, check_constraint, runtime;
//   runtime.rs Builtins::handle and the hooks regex, range, include (+ get_file_as_string / _bytes), map, filter, reduce.
// ONE contract shape per handler:  r matches Err(e) ==> e.pos == Some(<the position the source names: the `pos` argument
// = the position stored with the op (unit err_pos_run), or the position an operand was pushed with>) and no call sites;
// r is Ok ==> the value pushed carries <the op's position or an operand's> - never a default `Position::new(0, 0, 0)`,
// never a position from inside a callee.  Calls: a callee's error keeps its position and gets the call site appended.
// Nested interpreter runs (`VM::run` inside fcall_impl / op_copy / op_new_scope) are ASSUMED to return positioned errors;
// unit err_pos_run proves that of `run` from the handler contracts proved here (assume / guarantee).
// GENUINE DEFECTS of the pinned tree found by these contracts (reproduced on the real binary, fixed in the worktree,
// /scratch/patches/err_pos_<n>.patch; on the unfixed tree Builtins::regex, Builtins::include and VM::op_copy are VIOLATIONS):
//   1. `"abc" ~ "("`: the regex crate's error is converted by `?` (From<regex::Error>: pos None) and never decorated:
//      the diagnostic has NO position at all.
//   2. `include str "missing.txt"` (and every other include type): same with the io::Error of the unreadable file.
//   3. `10 / m{x=0}` where m is a module with an out-expression: op_copy pushed the module's result with the position
//      popped from the module's own VM - a position INSIDE THE MODULE DEFINITION - so a later fault on that value
//      (division by zero, failed cast, ...) is reported at the module definition, a different statement.
//   4. a fault inside a module's out-expression was not given the calling statement as VIA (the module BODY was).
//@ must_verify Error::new Error::with_pos Error::push_call_stack decorate_error_contract decorate_call_contract DisplayError::fmt FromRegex::from FromIo::from FromBuild::from FromConv::from q_regex q_io q_conv OpPointer::pos OpPointer::jump OpPointer::idx VM::push VM::pop VM::mul VM::div VM::sub VM::modulus VM::add VM::op_mod VM::op_sub VM::op_mul VM::op_div VM::op_add VM::op_gt VM::op_lt VM::op_gteq VM::op_lteq VM::op_equal VM::op_not VM::op_jump VM::op_and VM::op_or VM::op_jump_if_true VM::op_jump_if_false VM::op_select_jump VM::op_bang VM::get_binding VM::op_deref VM::binding_push VM::op_bind VM::op_index VM::merge_field_into_tuple VM::op_field VM::op_element VM::do_cast VM::op_cast VM::fcall_impl VM::op_fcall VM::op_new_scope VM::op_copy VM::op_typ VM::op_render VM::op_thunk VM::op_push_self VM::op_pop_self VM::op_exist VM::op_func VM::op_module VM::op_check_constraint Builtins::regex Builtins::range Builtins::get_file_as_string Builtins::get_file_as_bytes Builtins::include Builtins::map Builtins::filter Builtins::reduce Builtins::handle VM::op_runtime
//@ include prelude/head.rs
use std::rc::Rc;

verus! {
//@ include prelude/err_pos_core.rs
//@ include prelude/err_pos_types.rs
//@ include prelude/vmap.rs

impl VShapeMap { #[verifier::external_body] pub fn new() -> Self { unimplemented!() } }
impl VLinks { #[verifier::external_body] pub fn new() -> Self { unimplemented!() } }

// The environment cell is only handed on (R5): `RefCell<Environment<O, E>>` stays in the signatures, both types are
// opaque stand-ins; `std::io::Write` is declared to Verus as an external trait.
#[verifier::external_body]
#[verifier::accept_recursive_types(T)]
pub struct RefCell<T> { _p: core::marker::PhantomData<T> }
#[verifier::external_body]
#[verifier::accept_recursive_types(O)]
#[verifier::accept_recursive_types(E)]
pub struct Environment<O, E> { _p: core::marker::PhantomData<(O, E)> }
#[verifier::external_trait_specification]
pub trait ExIoWrite {
    type ExternalTraitSpecificationFor: std::io::Write;
}

//@ extract src/build/opcode/scope.rs :: struct Stack
//@   rule R0 RV
//@   subst "curr: BTreeMap<Rc<str>, (Rc<Value>, Position)>" => "curr: VMap"
//@ end
//@ extract src/build/opcode/runtime.rs :: struct Builtins
//@   rule R0 RV
//@   subst "import_path: Vec<PathBuf>" => "import_path: Vec<VPathBuf>"
//@ end

impl Position {
    // the default position `Position::new(0, 0, 0)`: an arbitrary position as far as the contracts know - a handler
    // that reports it instead of a position of the failing op / operand cannot meet its contract
    #[verifier::external_body]
    pub fn new(line: usize, column: usize, offset: usize) -> Self { unimplemented!() }
}

// =====================================================================================================================
// 1. error.rs: the error value - exact contracts on (pos, call_stack); the message is carried along untouched
// =====================================================================================================================
//@ extract src/build/opcode/error.rs :: struct Error
//@   rule R0 RV
//@ end
//@ extract src/build/opcode/error.rs :: impl Error :: fn new
//@   ret r
//@   sig <<<
        ensures r.message == msg, r.pos == Some(pos), r.call_stack@.len() == 0
//@   >>>
//@   mutant new_drops_pos "pos: Some(pos)," => "pos: None," expect new
//@ end
//@ extract src/build/opcode/error.rs :: impl Error :: fn with_pos
//@   rule R4
//@   ret r
//@   sig <<<
        ensures r.pos == Some(pos), r.message == self.message, r.call_stack == self.call_stack
//@   >>>
//@   mutant with_pos_drops_pos "self.pos = Some(pos);" => "self.pos = None;" expect with_pos
//@ end
//@ extract src/build/opcode/error.rs :: impl Error :: fn push_call_stack
//@   sig <<<
        ensures final(self).call_stack@ == old(self).call_stack@.push(pos),
            final(self).pos == old(self).pos, final(self).message == old(self).message
//@   >>>
//@   mutant push_call_stack_ignored "self.call_stack.push(pos);" => "" expect push_call_stack
//@ end


// decorate_error!(pos => result): an Err gets the position `pos` (REPLACING whatever it carried, see notes/C17.json), call sites kept
//@ extract src/build/opcode/error.rs :: macro decorate_error
//@   mutant decorate_error_keeps_missing_position "Err(e) => Err(e.with_pos($pos.clone()))," => "Err(e) => Err(e)," expect decorate_error_contract,op_cast
//@ end
// decorate_call!(pos => result): an Err gets `pos` appended to its call sites, its own position kept
//@ extract src/build/opcode/error.rs :: macro decorate_call
//@   mutant decorate_call_adds_nothing "e.push_call_stack($pos.clone());" => "" expect decorate_call_contract,op_fcall
//@   mutant decorate_call_overwrites_position "e.push_call_stack($pos.clone());" => "e.pos = Some($pos.clone());" expect decorate_call_contract,op_fcall
//@ end
// the two macros under contract, each expanded on an arbitrary result (the macro text is the extracted one)
pub fn decorate_error_contract(pos: Position, result: Result<u8, Error>) -> (r: Result<u8, Error>)
    ensures
        result matches Ok(v) ==> r == Ok::<u8, Error>(v),
        result matches Err(e) ==> (r matches Err(e2) && e2.pos == Some(pos) && e2.call_stack == e.call_stack && e2.message == e.message),
{
    decorate_error!(pos => result)
}
pub fn decorate_call_contract(pos: Position, result: Result<u8, Error>) -> (r: Result<u8, Error>)
    ensures
        result matches Ok(v) ==> r == Ok::<u8, Error>(v),
        result matches Err(e) ==> (r matches Err(e2) && e2.pos == e.pos && e2.call_stack@ == e.call_stack@.push(pos) && e2.message == e.message),
{
    decorate_call!(pos => result)
}

// ---------- Display: what `ucg build` prints ----------
// R2: `fmt::Formatter` is a ghost-logged stand-in; one stub per `write!` call site, whose literal pieces are:
//   "{} at {}"  - the message, then the PRIMARY position;   "{}" - the message alone;   "\nVIA: {}" - one call site
pub enum Piece { MsgAt(Rc<str>, Position), Msg(Rc<str>), Via(Position) }
pub struct VFormatter { pub log: Ghost<Seq<Piece>> }
pub struct VFmtError {}
pub mod fmt { pub type Result = core::result::Result<(), crate::VFmtError>; pub type Formatter<'a> = crate::VFormatter; }
#[verifier::external_body]
fn vw_msg_at(f: &mut VFormatter, message: &Rc<str>, pos: &Position) -> (r: fmt::Result)
    ensures r is Ok ==> final(f).log@ == old(f).log@.push(Piece::MsgAt(*message, *pos))
{ unimplemented!() }
#[verifier::external_body]
fn vw_msg(f: &mut VFormatter, message: &Rc<str>) -> (r: fmt::Result)
    ensures r is Ok ==> final(f).log@ == old(f).log@.push(Piece::Msg(*message))
{ unimplemented!() }
#[verifier::external_body]
fn vw_via(f: &mut VFormatter, p: &Position) -> (r: fmt::Result)
    ensures r is Ok ==> final(f).log@ == old(f).log@.push(Piece::Via(*p))
{ unimplemented!() }
// the diagnostic: the message with the primary position FIRST, then one `VIA:` line per call site, innermost call first
// (the order in which the calls were left = push order)
pub open spec fn rendered(e: Error) -> Seq<Piece> {
    seq![match e.pos { Some(p) => Piece::MsgAt(e.message, p), None => Piece::Msg(e.message) }]
        + Seq::new(e.call_stack@.len(), |i: int| Piece::Via(e.call_stack@[i]))
}
pub struct DisplayError {}
//@ extract src/build/opcode/error.rs :: impl Display for Error :: fn fmt
//@   impl_header impl DisplayError
//@   subst "fn fmt(&self, f: &mut fmt::Formatter<'_>) -> fmt::Result" => "pub fn fmt(self__: &Error, f: &mut fmt::Formatter<'_>) -> fmt::Result"
//@   subst all "self." => "self__."
// (R3 by hand: `Some(ref pos) = x` is `Some(pos) = &x`)
//@   subst "if let Some(ref pos) = self__.pos {" => "if let Some(pos) = &self__.pos {"
//@   subst "write!(f, \"{} at {}\", self__.message, pos)" => "vw_msg_at(f, &self__.message, pos)"
//@   subst "write!(f, \"{}\", self__.message)" => "vw_msg(f, &self__.message)"
//@   subst "write!(f, \"\\nVIA: {}\", p)" => "vw_via(f, p)"
//@   ret r
//@   sig <<<
        ensures r is Ok ==> final(f).log@ =~= old(f).log@ + rendered(*self__)
//@   >>>
//@   loop 1 iter it <<<
                invariant
                    it.seq().len() == self__.call_stack@.len(),
                    forall|k: int| 0 <= k < self__.call_stack@.len() ==> *it.seq()[k] == self__.call_stack@[k],
                    f.log@ =~= old(f).log@ + rendered(*self__).take(1 + it.index@),
//@   >>>
//@   loop_body_end 1 <<<
                assert(rendered(*self__).take(1 + it.index@ + 1) =~= rendered(*self__).take(1 + it.index@).push(Piece::Via(*p)));
//@   >>>
//@   before "if !self__.call_stack.is_empty() {" <<<
        assert(rendered(*self__).take(1) =~= seq![rendered(*self__)[0]]);
        assert(rendered(*self__).take(1 + self__.call_stack@.len() as int) =~= rendered(*self__));
//@   >>>
//@   mutant via_lines_reversed "for p in self__.call_stack.iter() {" => "for p in self__.call_stack.iter().rev() {" expect fmt
//@   mutant primary_position_not_printed "if let Some(pos) = &self__.pos {" => "if let Some(pos) = &None::<Position> {" expect fmt
//@ end

// ---------- the `From` impls: where an error of another layer becomes an opcode::Error ----------
// regex::Error, std::io::Error, convert::Error have NO position: the converted error has none (the raiser must add one);
// a BuildError (parser / type checker) keeps the position it has.  The foreign error types are opaque stand-ins.
#[verifier::external_body]
pub struct VRegexError { _p: u8 }
#[verifier::external_body]
pub struct VIoError { _p: u8 }
pub mod io { pub enum ErrorKind { NotFound, Other, Rest } }
impl VIoError {
    #[verifier::external_body]
    pub fn kind(&self) -> io::ErrorKind { unimplemented!() }
}
#[verifier::external_body]
pub struct ConvError { _p: u8 }
impl ConvError {
    #[verifier::external_body]
    pub fn message(&self) -> String { unimplemented!() }
}
#[verifier::external_body]
pub struct VErrorType { _p: u8 }
// crate::error::BuildError: the three fields the conversion reads (the fourth, `cause: Option<Box<dyn Error>>`, is not read)
pub struct BuildError { pub err_type: VErrorType, pub pos: Option<Position>, pub msg: String }

// what each conversion must do to (pos, call_stack)
pub open spec fn unpositioned(e: Error) -> bool { e.pos is None && e.call_stack@.len() == 0 }
// The `From` impls are placed in inherent impls of marker types (Verus gives `?` / `.into()` no contract of a local
// trait impl); the bodies are the extracted ones.
pub struct FromRegex {}
pub struct FromIo {}
pub struct FromBuild {}
pub struct FromConv {}
//@ extract src/build/opcode/error.rs :: impl From<regex::Error> for Error :: fn from
//@   impl_header impl FromRegex
//@   rule R1
//@   subst "fn from(e: regex::Error) -> Self" => "pub fn from(e: VRegexError) -> Error"
//@   ret r
//@   sig <<<
        ensures unpositioned(r)
//@   >>>
//@ end
//@ extract src/build/opcode/error.rs :: impl From<std::io::Error> for Error :: fn from
//@   impl_header impl FromIo
//@   rule R1
//@   subst "fn from(e: std::io::Error) -> Self" => "pub fn from(e: VIoError) -> Error"
// (R1 turned both `format!(..)` arms into the Rc<str> stub: the trailing String -> Rc<str> `.into()` goes with them)
//@   subst "} .into();" => "};"
//@   ret r
//@   sig <<<
        ensures unpositioned(r)
//@   >>>
//@ end
//@ extract src/build/opcode/error.rs :: impl From<crate::error::BuildError> for Error :: fn from
//@   impl_header impl FromBuild
//@   rule R1
//@   subst "fn from(e: crate::error::BuildError) -> Self" => "pub fn from(e: BuildError) -> Error"
//@   ret r
//@   sig <<<
        // a parser / type checker diagnostic keeps its position
        ensures r.pos == e.pos, r.call_stack@.len() == 0
//@   >>>
//@   mutant from_build_error_drops_pos "pos: e.pos," => "pos: None," expect from
//@ end
//@ extract src/build/opcode/error.rs :: impl From<convert::Error> for Error :: fn from
//@   impl_header impl FromConv
//@   subst "fn from(e: convert::Error) -> Self" => "pub fn from(e: ConvError) -> Error"
//@   ret r
//@   sig <<<
        ensures unpositioned(r)
//@   >>>
//@ end
// `x?` on a Result whose error type is not opcode::Error: std desugars it to
// `match x { Ok(v) => v, Err(e) => return Err(From::from(e)) }`; the From impl is the extracted one (R7).
pub fn q_regex<T>(x: Result<T, VRegexError>) -> (r: Result<T, Error>)
    ensures x matches Ok(v) ==> r == Ok::<T, Error>(v), x is Err ==> (r matches Err(e) && unpositioned(e))
{ match x { Ok(v) => Ok(v), Err(e) => Err(FromRegex::from(e)) } }
pub fn q_io<T>(x: Result<T, VIoError>) -> (r: Result<T, Error>)
    ensures x matches Ok(v) ==> r == Ok::<T, Error>(v), x is Err ==> (r matches Err(e) && unpositioned(e))
{ match x { Ok(v) => Ok(v), Err(e) => Err(FromIo::from(e)) } }
pub fn q_conv<T>(x: Result<T, ConvError>) -> (r: Result<T, Error>)
    ensures x matches Ok(v) ==> r == Ok::<T, Error>(v), x is Err ==> (r matches Err(e) && unpositioned(e))
{ match x { Ok(v) => Ok(v), Err(e) => Err(FromConv::from(e)) } }


// =====================================================================================================================
// 2. pointer.rs / vm.rs: every error a handler raises carries a position of the failing op or of one of its operands
// =====================================================================================================================
impl Value {
    // only used to build messages and to compare type names here (R1/R8; proved in unit vm_data)
    #[verifier::external_body]
    fn type_name(&self) -> &'static str { unimplemented!() }
    // `impl PartialEq for Value` (proved in unit vm_data): its outcome does not matter to positions
    #[verifier::external_body]
    fn eq(&self, other: &Value) -> bool { unimplemented!() }
}
//@ extract src/build/opcode/translate.rs :: impl OpsMap :: fn len
//@   ret r
//@   sig <<<
        ensures r == self.ops@.len()
//@   >>>
//@ end
//@ extract src/build/opcode/vm.rs :: struct VM
//@   rule R0 RV
//@   subst "working_dir: PathBuf" => "working_dir: VPathBuf"
//@   subst "runtime: runtime::Builtins" => "runtime: Builtins"
//@   subst "reserved_words: &'static BTreeSet<&'static str>" => "reserved_words: ReservedWords"
//@ end

// ---------- vocabulary ----------
// a freshly raised error: it carries exactly this position and no call sites
pub open spec fn raised_at(e: Error, p: Position) -> bool { e.pos == Some(p) && e.call_stack@.len() == 0 }
// the k-th entry from the top of the value stack (1 = top) and the position it was pushed with
pub open spec fn opnd(vm: VM, k: int) -> Value { *vm.stack@[vm.stack@.len() - k].0 }
pub open spec fn opnd_pos(vm: VM, k: int) -> Position { vm.stack@[vm.stack@.len() - k].1 }
// interpreter-loop invariant (proved in unit err_pos_run): a handler runs while the instruction pointer is at an op
// that has a position; `cur_pos` is the position stored with that op
pub open spec fn at_op(p: OpPointer) -> bool {
    p.ptr matches Some(i) && i < p.pos_map.ops@.len() && p.pos_map.pos@.len() == p.pos_map.ops@.len()
}
pub open spec fn cur_pos(p: OpPointer) -> Position { p.pos_map.pos@[p.ptr->0 as int] }
// nothing but the value stack and the `last` debugging slot changes
pub open spec fn frame(a: VM, b: VM) -> bool {
    a.symbols == b.symbols && a.self_stack == b.self_stack && a.ops == b.ops && a.import_stack == b.import_stack
    && a.working_dir == b.working_dir && a.runtime == b.runtime && a.reserved_words == b.reserved_words
}
// ... and the instruction pointer, inside the same program
pub open spec fn frame_jump(a: VM, b: VM) -> bool {
    a.symbols == b.symbols && a.self_stack == b.self_stack && a.import_stack == b.import_stack
    && a.working_dir == b.working_dir && a.runtime == b.runtime && a.reserved_words == b.reserved_words
    && a.ops.pos_map == b.ops.pos_map && a.ops.path == b.ops.path
}
// the value pushed by a handler carries position p
pub open spec fn pushed_at(b: VM, p: Position) -> bool { b.stack@.len() > 0 && b.stack@.last().1 == p }

//@ extract src/build/opcode/pointer.rs :: impl OpPointer :: fn pos
//@   ret r
//@   sig <<<
        ensures
            (self.ptr matches Some(i) && i < self.pos_map.pos@.len()) ==> r == Some(&self.pos_map.pos@[self.ptr->0 as int]),
            (self.ptr is None || self.ptr->0 >= self.pos_map.pos@.len()) ==> r is None,
//@   >>>
//@ end
// a jump out of the program is an internal fault of the translator; even so it is reported at the op that jumps
//@ extract src/build/opcode/pointer.rs :: impl OpPointer :: fn jump
//@   subst all ".into()" => ".v_into()"
//@   ret r
//@   sig <<<
        ensures
            final(self).pos_map == old(self).pos_map, final(self).path == old(self).path,
            r is Ok <==> ptr < old(self).pos_map.ops@.len(),
            r is Ok ==> final(self).ptr == Some(ptr),
            r is Err ==> final(self).ptr == old(self).ptr,
            at_op(*old(self)) ==> (r matches Err(e) ==> raised_at(e, cur_pos(*old(self)))),
//@   >>>
//@   mutant jump_fault_at_default_position "Some(pos) => pos.clone()," => "Some(pos) => Position::new(0, 0, 0)," expect jump
//@ end
//@ extract src/build/opcode/pointer.rs :: impl OpPointer :: fn idx
//@   subst all ".into()" => ".v_into()"
//@   ret r
//@   sig <<<
        // (the Err arm reports Position::new(0, 0, 0): unreachable from the interpreter loop, which only asks at an op)
        ensures self.ptr matches Some(i) ==> r == Ok::<usize, Error>(i),
//@   >>>
//@ end

//@ extract src/build/opcode/vm.rs :: impl VM :: fn push
//@   ret r
//@   sig <<<
        ensures r is Ok, final(self).stack@ == old(self).stack@.push((val, pos)),
            frame(*old(self), *final(self)),
//@   >>>
//@ end
//@ extract src/build/opcode/vm.rs :: impl VM :: fn pop
//@   subst "Some(v.clone())" => "Some((v.0.clone(), v.1.clone()))"
//@   ret r
//@   sig <<<
        requires old(self).stack@.len() > 0
        ensures r is Ok, r->Ok_0 == old(self).stack@.last(), final(self).stack@ == old(self).stack@.drop_last(),
            frame(*old(self), *final(self)),
//@   >>>
//@ end

// ---------- arithmetic: the error is at the RIGHT operand (second from the top), the result at the operator ----------
//@ extract src/build/opcode/vm.rs :: impl VM :: fn mul
//@   rule R1 R6(*f,*ff)
//@   ret r
//@   sig <<<
        ensures r matches Err(e) ==> raised_at(e, *pos)
//@   >>>
//@ end
//@ extract src/build/opcode/vm.rs :: impl VM :: fn div
//@   rule R1 R6(*f,*ff)
//@   ret r
//@   sig <<<
        ensures r matches Err(e) ==> raised_at(e, *pos)
//@   >>>
//@   mutant div_by_zero_at_default_position "None => { return Err(Error::new( verif_msg(), pos.clone(), )) }" => "None => { return Err(Error::new( verif_msg(), Position::new(0, 0, 0), )) }" expect div
//@ end
//@ extract src/build/opcode/vm.rs :: impl VM :: fn sub
//@   rule R1 R6(*f,*ff)
//@   ret r
//@   sig <<<
        ensures r matches Err(e) ==> raised_at(e, *pos)
//@   >>>
//@ end
//@ extract src/build/opcode/vm.rs :: impl VM :: fn modulus
//@   rule R1 R6(*f,*ff)
//@   ret r
//@   sig <<<
        ensures r matches Err(e) ==> raised_at(e, *pos)
//@   >>>
//@ end
//@ extract src/build/opcode/vm.rs :: impl VM :: fn add
//@   rule R1 R6(*f,*ff)
//@   subst "P(Str(ns.into()))" => "P(Str(verif_string_into_rcstr(ns)))"
//@   ret r
//@   sig <<<
        requires
            // representation invariant of list values: one position per element
            (*left matches C(List(a, ap)) ==> a@.len() <= ap@.len()),
            (*right matches C(List(b, bp)) ==> b@.len() <= bp@.len()),
            // two lists held in memory have fewer than 2^64 elements together
            (*left matches C(List(a, ap)) ==> (*right matches C(List(b, bp)) ==> a@.len() + b@.len() <= usize::MAX)),
        ensures r matches Err(e) ==> raised_at(e, *pos)
//@   >>>
//@   loop 1 iter it <<<
                    invariant
                        it.seq().len() == left_list@.len(), counter == it.index,
                        left_list@.len() <= left_pos_list@.len(), left_list@.len() <= usize::MAX,
//@   >>>
//@   loop 2 iter it <<<
                    invariant
                        it.seq().len() == right_list@.len(), counter == it.index,
                        right_list@.len() <= right_pos_list@.len(), right_list@.len() <= usize::MAX,
//@   >>>
//@ end
pub open spec fn binop_pos(a: VM, b: VM, pos: Position, r: Result<(), Error>) -> bool {
    &&& frame(a, b)
    &&& (r matches Err(e) ==> raised_at(e, opnd_pos(a, 2)))
    &&& (r is Ok ==> pushed_at(b, pos))
}
//@ extract src/build/opcode/vm.rs :: impl VM :: fn op_mod
//@   ret r
//@   sig <<<
        requires old(self).stack@.len() >= 2
        ensures binop_pos(*old(self), *final(self), pos, r)
//@   >>>
//@ end
//@ extract src/build/opcode/vm.rs :: impl VM :: fn op_sub
//@   ret r
//@   sig <<<
        requires old(self).stack@.len() >= 2
        ensures binop_pos(*old(self), *final(self), pos, r)
//@   >>>
//@ end
//@ extract src/build/opcode/vm.rs :: impl VM :: fn op_mul
//@   ret r
//@   sig <<<
        requires old(self).stack@.len() >= 2
        ensures binop_pos(*old(self), *final(self), pos, r)
//@   >>>
//@ end
//@ extract src/build/opcode/vm.rs :: impl VM :: fn op_div
//@   ret r
//@   sig <<<
        requires old(self).stack@.len() >= 2
        ensures binop_pos(*old(self), *final(self), pos, r)
//@   >>>
// the position of the operator's own result handed to the error instead of an operand's: still inside the statement,
// but not what the source says - rejected because the contract pins the operand
//@   mutant div_error_at_unpopped_operand "let (right, right_pos) = self.pop()?; self.push(Rc::new(P(self.div(&left, &right, &right_pos)?)), pos)?;" => "let (right, right_pos) = self.pop()?; let wrong = match self.stack.last() { Some(x) => x.1.clone(), None => right_pos.clone() }; self.push(Rc::new(P(self.div(&left, &right, &wrong)?)), pos)?;" expect op_div
//@ end
//@ extract src/build/opcode/vm.rs :: impl VM :: fn op_add
//@   ret r
//@   sig <<<
        requires old(self).stack@.len() >= 2,
            ({ let n = old(self).stack@.len() as int;
               (*old(self).stack@[n - 1].0 matches C(List(a, ap)) ==> a@.len() <= ap@.len())
               && (*old(self).stack@[n - 2].0 matches C(List(b, bp)) ==> b@.len() <= bp@.len())
               && (*old(self).stack@[n - 1].0 matches C(List(a, ap)) ==> (*old(self).stack@[n - 2].0 matches C(List(b, bp)) ==> a@.len() + b@.len() <= usize::MAX)) }),
        ensures binop_pos(*old(self), *final(self), pos, r)
//@   >>>
//@ end


// ---------- comparisons and `==`: a type mismatch is reported at the operator ----------
pub open spec fn cmp_pos(a: VM, b: VM, pos: Position, r: Result<(), Error>) -> bool {
    &&& frame(a, b)
    &&& (r matches Err(e) ==> raised_at(e, pos))
    &&& (r is Ok ==> pushed_at(b, pos))
}
//@ extract src/build/opcode/vm.rs :: impl VM :: fn op_gt
//@   rule R1 R3 R6(*f,*ff)
//@   ret r
//@   sig <<<
        requires old(self).stack@.len() >= 2
        ensures cmp_pos(*old(self), *final(self), *pos, r)
//@   >>>
//@ end
//@ extract src/build/opcode/vm.rs :: impl VM :: fn op_lt
//@   rule R1 R3 R6(*f,*ff)
//@   ret r
//@   sig <<<
        requires old(self).stack@.len() >= 2
        ensures cmp_pos(*old(self), *final(self), *pos, r)
//@   >>>
//@ end
//@ extract src/build/opcode/vm.rs :: impl VM :: fn op_gteq
//@   rule R1 R3 R6(*f,*ff)
//@   ret r
//@   sig <<<
        requires old(self).stack@.len() >= 2
        ensures cmp_pos(*old(self), *final(self), pos, r)
//@   >>>
//@ end
//@ extract src/build/opcode/vm.rs :: impl VM :: fn op_lteq
//@   rule R1 R3 R6(*f,*ff)
//@   ret r
//@   sig <<<
        requires old(self).stack@.len() >= 2
        ensures cmp_pos(*old(self), *final(self), pos, r)
//@   >>>
//@ end
//@ extract src/build/opcode/vm.rs :: impl VM :: fn op_equal
//@   rule R1
//@   subst? "left == right" => "left.as_ref().eq(right.as_ref())"
//@   subst? "right == left" => "right.as_ref().eq(left.as_ref())"
//@   ret r
//@   sig <<<
        requires old(self).stack@.len() >= 2
        ensures cmp_pos(*old(self), *final(self), pos, r)
//@   >>>
//@ end
// `not e`: the operand is at fault, and the result stands where the operand stood
//@ extract src/build/opcode/vm.rs :: impl VM :: fn op_not
//@   rule R1 R3
//@   ret r
//@   sig <<<
        requires old(self).stack@.len() >= 1
        ensures frame(*old(self), *final(self)),
            r matches Err(e) ==> raised_at(e, opnd_pos(*old(self), 1)),
            r is Ok ==> pushed_at(*final(self), opnd_pos(*old(self), 1)),
//@   >>>
//@   mutant not_error_without_operand_position "operand_pos, ))" => "Position::new(0, 0, 0), ))" expect op_not
//@ end

// ---------- control flow: a condition that is not a boolean is reported at the condition ----------
//@ extract src/build/opcode/vm.rs :: impl VM :: fn op_jump
//@   subst ".map(|v| (v as i32 + jp) as usize)" => ".map(|v: usize| -> (t: usize) requires v <= i32::MAX && 0 <= v + jp <= i32::MAX ensures t == v + jp { (v as i32 + jp) as usize })"
//@   ret r
//@   sig <<<
        requires at_op(old(self).ops),
            // translator invariant (caller obligation): programs are shorter than 2^31 ops, jumps stay inside
            old(self).ops.ptr->0 <= i32::MAX, 0 <= old(self).ops.ptr->0 + jp <= i32::MAX,
        ensures frame_jump(*old(self), *final(self)), final(self).stack == old(self).stack, at_op(final(self).ops),
            r matches Err(e) ==> raised_at(e, cur_pos(old(self).ops)),
//@   >>>
//@ end
pub open spec fn jump_pre(vm: VM, jp: i32) -> bool {
    at_op(vm.ops) && vm.ops.ptr->0 <= i32::MAX && 0 <= vm.ops.ptr->0 + jp <= i32::MAX
}
pub open spec fn is_bool(v: Value) -> bool { v matches P(p) && p is Bool }
// the condition on top of the stack decides; if it is no boolean the error is at the condition, otherwise only the jump
// can fail (internal fault: reported at the jumping op)
pub open spec fn cond_pos(a: VM, b: VM, r: Result<(), Error>) -> bool {
    &&& frame_jump(a, b) && at_op(b.ops)
    &&& (r matches Err(e) ==> raised_at(e, if is_bool(opnd(a, 1)) { cur_pos(a.ops) } else { opnd_pos(a, 1) }))
}
//@ extract src/build/opcode/vm.rs :: impl VM :: fn op_and
//@   rule R1 R3
//@   ret r
//@   sig <<<
        requires old(self).stack@.len() >= 1, jump_pre(*old(self), jp)
        ensures cond_pos(*old(self), *final(self), r)
//@   >>>
// (`pos`, the operator's position, is only printed in the message: pointing the error at it instead would still be
// inside the statement; the contract pins what the source does - the condition)
//@   mutant and_error_at_operator "cond_pos.clone(), ));" => "pos, ));" expect op_and
//@ end
//@ extract src/build/opcode/vm.rs :: impl VM :: fn op_or
//@   rule R1 R3
//@   subst "if cond {" => "if *cond {"
//@   ret r
//@   sig <<<
        requires old(self).stack@.len() >= 1, jump_pre(*old(self), jp)
        ensures cond_pos(*old(self), *final(self), r)
//@   >>>
//@ end
//@ extract src/build/opcode/vm.rs :: impl VM :: fn op_jump_if_true
//@   rule R1 R3
//@   subst "if cond {" => "if *cond {"
//@   ret r
//@   sig <<<
        requires old(self).stack@.len() >= 1, jump_pre(*old(self), jp)
        ensures cond_pos(*old(self), *final(self), r)
//@   >>>
//@ end
//@ extract src/build/opcode/vm.rs :: impl VM :: fn op_jump_if_false
//@   rule R1 R3
//@   ret r
//@   sig <<<
        requires old(self).stack@.len() >= 1, jump_pre(*old(self), jp)
        ensures cond_pos(*old(self), *final(self), r)
//@   >>>
//@   mutant jif_error_at_default_position "pos.clone(), ));" => "Position::new(0, 0, 0), ));" expect op_jump_if_false
//@ end
// select: comparing an arm's name with the searched value never fails by itself (an unhandled case is a `fail`
// compiled into the default arm, see op_bang); the searched value goes back with the position it had
//@ extract src/build/opcode/vm.rs :: impl VM :: fn op_select_jump
//@   rule R3
//@   subst "fname == sname" => "verif_rcstr_eq(fname, sname)"
//@   subst "== \"true\" && b" => "== \"true\" && *b"
//@   ret r
//@   sig <<<
        requires old(self).stack@.len() >= 2, jump_pre(*old(self), jp)
        ensures frame_jump(*old(self), *final(self)), at_op(final(self).ops),
            r matches Err(e) ==> raised_at(e, cur_pos(old(self).ops)),
            final(self).stack@.len() == old(self).stack@.len() - 1 ==> pushed_at(*final(self), opnd_pos(*old(self), 2)),
//@   >>>
//@ end
// `fail`: the user's message, at the position of the message expression
//@ extract src/build/opcode/vm.rs :: impl VM :: fn op_bang
//@   rule R3
//@   ret r
//@   sig <<<
        // translator invariant: `fail e` compiles to  e ; "UserDefined: " ; Add ; Bang: the top of the stack is a string
        requires old(self).stack@.len() >= 1, opnd(*old(self), 1) is P, opnd(*old(self), 1)->P_0 is Str,
        ensures frame(*old(self), *final(self)),
            r matches Err(e) && raised_at(e, opnd_pos(*old(self), 1)) && e.message == opnd(*old(self), 1)->P_0->Str_0,
//@   >>>
//@   mutant fail_at_default_position "Error::new(msg.clone(), err_pos)" => "Error::new(msg.clone(), Position::new(0, 0, 0))" expect op_bang
//@ end


// ---------- names ----------
//@ extract src/build/opcode/scope.rs :: impl Stack :: fn new
//@   subst "BTreeMap::new()" => "VMap::new()"
//@ end
//@ extract src/build/opcode/scope.rs :: impl Stack :: fn get
//@   subst "self.curr.get(name).cloned()" => "self.curr.get_cloned(name)"
//@ end
//@ extract src/build/opcode/scope.rs :: impl Stack :: fn is_bound
//@ end
//@ extract src/build/opcode/scope.rs :: impl Stack :: fn add
//@ end
//@ extract src/build/opcode/scope.rs :: impl Stack :: fn snapshot
//@ end
impl Clone for Stack {
    #[verifier::external_body]
    fn clone(&self) -> (r: Self) ensures r == *self { unimplemented!() }
}
// the &'static BTreeSet built by reserved_words() (its content: unit scope)
pub uninterp spec fn is_reserved(s: Seq<char>) -> bool;
impl ReservedWords {
    #[verifier::external_body]
    pub fn contains(&self, s: &str) -> (r: bool) ensures r == is_reserved(s@) { unimplemented!() }
}
impl Clone for ReservedWords {
    #[verifier::external_body]
    fn clone(&self) -> (r: Self) ensures r == *self { unimplemented!() }
}
impl Copy for ReservedWords {}
impl<T> RefCell<T> {
    #[verifier::external_body]
    pub fn borrow(&self) -> &T { unimplemented!() }
}
impl<O, E> Environment<O, E> {
    // environment.rs (unit env_lookup): the tuple of the process environment
    #[verifier::external_body]
    pub fn get_env_vars_tuple(&self) -> Value { unimplemented!() }
}
// Vec::last().cloned() on (Rc<Value>, Position) pairs (tuple clone; R9' model)
#[verifier::external_body]
pub fn verif_last_cloned(v: &Vec<(Rc<Value>, Position)>) -> (r: Option<(Rc<Value>, Position)>)
    ensures v@.len() > 0 ==> r == Some(v@.last()), v@.len() == 0 ==> r is None
{ v.last().cloned() }

// an unknown name is reported where the name is USED
//@ extract src/build/opcode/vm.rs :: impl VM :: fn get_binding
//@   rule R1
//@   subst "self.self_stack.last().cloned()" => "verif_last_cloned(&self.self_stack)"
//@   ret r
//@   sig <<<
        ensures r matches Err(e) ==> raised_at(e, *pos)
//@   >>>
//@   mutant unknown_name_at_default_position "Err(Error::new( verif_msg(), pos.clone(), ))" => "Err(Error::new( verif_msg(), Position::new(0, 0, 0), ))" expect get_binding
//@ end
// ... and the value of a name is pushed with the position of that use - not with the position of its definition
// (another statement) and not with the default position the `env` tuple is given
//@ extract src/build/opcode/vm.rs :: impl VM :: fn op_deref
//@   subst "let (val, _) = self.get_binding(&name, env, pos)?.clone();" => "let (val, _) = self.get_binding(&name, env, pos)?;"
//@   ret r
//@   sig <<<
        ensures frame(*old(self), *final(self)),
            r matches Err(e) ==> raised_at(e, *pos),
            r is Ok ==> pushed_at(*final(self), *pos),
//@   >>>
//@   mutant deref_pushes_definition_position "let (val, _) = self.get_binding(&name, env, pos)?; self.push(val, pos.clone())" => "let (val, dpos) = self.get_binding(&name, env, pos)?; self.push(val, dpos)" expect op_deref
//@ end
//@ extract src/build/opcode/vm.rs :: impl VM :: fn binding_push
//@   rule R1
//@   ret r
//@   sig <<<
        ensures
            final(self).stack == old(self).stack && final(self).ops == old(self).ops,
            // a reserved word is reported at the name, a rebinding at the value
            r matches Err(e) ==> raised_at(e, if is_reserved(name@) { *name_pos } else { *pos }),
//@   >>>
//@ end
//@ extract src/build/opcode/vm.rs :: impl VM :: fn op_bind
//@   ret r
//@   sig <<<
        // translator invariant: the name (a symbol), then the value's code
        requires old(self).stack@.len() >= 2, opnd(*old(self), 2) is S,
        ensures
            r matches Err(e) ==> raised_at(e, if is_reserved(opnd(*old(self), 2)->S_0@) { opnd_pos(*old(self), 2) } else { opnd_pos(*old(self), 1) }),
//@   >>>
//@   mutant bind_positions_swapped "strict, &val_pos, &name_pos" => "strict, &name_pos, &val_pos" expect op_bind
//@ end

// ---------- selectors: a missing field / index is reported at the selector op; a found value stands at the index ----------
//@ extract src/build/opcode/vm.rs :: impl VM :: fn op_index
//@   rule R1 R3
//@   subst "if key == s {" => "if verif_rcstr_eq(key, s) {"
//@   subst "match *right.as_ref() {" => "match right.as_ref() {"
//@   arm_rebind "P(Int(i)) =>" i
//@   ret r
//@   sig <<<
        requires old(self).stack@.len() >= 2
        ensures
            r matches Err(e) ==> raised_at(e, pos),
            r is Ok ==> pushed_at(*final(self), pos) || pushed_at(*final(self), opnd_pos(*old(self), 1)),
//@   >>>
//@   loop 1 iter it <<<
                        invariant
                            self.stack@ =~= old(self).stack@.subrange(0, old(self).stack@.len() - 2), old(self).stack@.len() >= 2,
                            right_pos == opnd_pos(*old(self), 1),
//@   >>>
//@   after "if let C(List(elems, _)) = left.as_ref() {" <<<
                    proof { axiom_vec_len_isize(elems); }
//@   >>>
//@   mutant missing_field_at_default_position "Err(Error::new( verif_msg(), pos, ))" => "Err(Error::new( verif_msg(), Position::new(0, 0, 0), ))" expect op_index
//@ end

// ---------- tuples and lists ----------
pub open spec fn tuple_wf(v: Value) -> bool { v matches C(Tuple(f, p)) && f@.len() == p@.len() }
pub open spec fn field_name(v: Value) -> Option<Rc<str>> { match v { S(s) => Some(s), P(Str(s)) => Some(s), _ => None } }
// a field that changes its type is reported at the NEW value
//@ extract src/build/opcode/vm.rs :: impl VM :: fn merge_field_into_tuple
//@   rule R1
// R13': `iter_mut().enumerate()` has no Verus model; the same walk as an indexed loop over the same vector
//@   subst "for (counter, fld) in src_fields.iter_mut().enumerate() {" => "let n__ = src_fields.len(); let mut i__: usize = 0; while i__ < n__ { let counter = i__; i__ += 1; let fld = &mut src_fields[counter];"
//@   subst "fld.0 == name" => "verif_rcstr_eq(&fld.0, &name)"
//@   ret r
//@   sig <<<
        requires old(src_fields)@.len() == old(pos_fields)@.len(),
        ensures
            r matches Err(e) ==> raised_at(e, *val_pos),
            final(src_fields)@.len() == final(pos_fields)@.len(),
//@   >>>
//@   loop 1 <<<
            invariant n__ == src_fields@.len(), i__ <= n__, src_fields@.len() == pos_fields@.len(),
            decreases n__ - i__
//@   >>>
//@   mutant field_type_change_at_name "return Err(Error::new( verif_msg(), val_pos.clone(), ));" => "return Err(Error::new( verif_msg(), name_pos.clone(), ));" expect merge_field_into_tuple
//@ end
//@ extract src/build/opcode/vm.rs :: impl VM :: fn op_field
//@   rule R3
//@   ret r
//@   sig <<<
        requires
            // translator invariant (caller obligation): InitTuple (or a copy's base), the field name, then the value's code
            old(self).stack@.len() >= 3, field_name(opnd(*old(self), 2)) is Some, tuple_wf(opnd(*old(self), 3)),
        ensures
            r matches Err(e) ==> raised_at(e, opnd_pos(*old(self), 1)),
            r is Ok ==> pushed_at(*final(self), opnd_pos(*old(self), 3)) && tuple_wf(opnd(*final(self), 1)),
//@   >>>
//@   body_start <<<
        broadcast use clax::group_clone_axioms;
//@   >>>
//@ end
//@ extract src/build/opcode/vm.rs :: impl VM :: fn op_element
//@   rule R3
//@   ret r
//@   sig <<<
        requires old(self).stack@.len() >= 2, opnd(*old(self), 2) is C, opnd(*old(self), 2)->C_0 is List,
        ensures r is Ok, pushed_at(*final(self), opnd_pos(*old(self), 2)),
            // the element keeps the position it was evaluated at
            opnd(*final(self), 1) matches C(List(_, p2)) && p2@.len() > 0 && p2@.last() == opnd_pos(*old(self), 1),
//@   >>>
//@   body_start <<<
        broadcast use clax::group_clone_axioms;
//@   >>>
//@ end

// ---------- casts: a failed cast is reported at the operand ----------
// `p.try_into()`: std's blanket TryInto picks the `TryFrom<&Primitive>` impl of convert.rs by the expected type (proved
// in unit vm_data); whether it fails does not matter here, only that its error (convert::Error) has no position
pub trait CastTo<T> { fn cast_to(&self) -> Result<T, ConvError>; }
impl CastTo<i64> for Primitive { #[verifier::external_body] fn cast_to(&self) -> Result<i64, ConvError> { unimplemented!() } }
impl CastTo<f64> for Primitive { #[verifier::external_body] fn cast_to(&self) -> Result<f64, ConvError> { unimplemented!() } }
impl CastTo<bool> for Primitive { #[verifier::external_body] fn cast_to(&self) -> Result<bool, ConvError> { unimplemented!() } }
impl VIntoRcStr for &Primitive {
    uninterp spec fn v_text(&self) -> Seq<char>;
    #[verifier::external_body]
    fn v_into(self) -> (r: Rc<str>) { unimplemented!() }
}
//@ extract src/build/opcode/vm.rs :: impl VM :: fn do_cast
//@   rule R1
//@   subst all "p.try_into()?" => "q_conv(p.cast_to())?"
//@   subst "p.into()" => "p.v_into()"
//@   ret r
//@   sig <<<
        ensures frame(*old(self), *final(self)),
            // the conversion's own error has no position yet (op_cast adds it), the "not a primitive" error has
            r matches Err(e) ==> unpositioned(e) || raised_at(e, pos),
            r is Ok ==> pushed_at(*final(self), pos),
//@   >>>
//@ end
//@ extract src/build/opcode/vm.rs :: impl VM :: fn op_cast
//@   ret r
//@   sig <<<
        requires old(self).stack@.len() >= 1
        ensures frame(*old(self), *final(self)),
            r matches Err(e) ==> raised_at(e, opnd_pos(*old(self), 1)),
            r is Ok ==> pushed_at(*final(self), opnd_pos(*old(self), 1)),
//@   >>>
// the pinned form of the defect class: the conversion error travels up without a position
//@   mutant cast_error_not_decorated "decorate_error!(pos => self.do_cast(t, &val, pos.clone()))" => "self.do_cast(t, &val, pos.clone())" expect op_cast
//@ end


// ---------- calls: a fault inside the callee keeps its position and gets the call site appended ----------
// `positioned`: what every error that comes out of a nested interpreter run is (assume / guarantee: unit err_pos_run
// proves it of VM::run from the handler contracts of this unit)
pub open spec fn positioned(e: Error) -> bool { e.pos is Some }
// the error went through a call made at `site`: its own position is still there, `site` is the last call site listed
pub open spec fn called_via(e: Error, site: Position) -> bool {
    e.pos is Some && e.call_stack@.len() > 0 && e.call_stack@.last() == site
}
// ENVIRONMENT (not a fault of the program, outside C17): `std::env::current_dir()` fails when the process has lost its
// working directory, `File::create` / `write_all` of an `out` artifact fail on a full or read-only disk; such an
// io::Error becomes an error WITHOUT position (From<io::Error>).  Every contract downstream of VM::fcall_impl and of the
// `out` hook is stated for a process whose environment does not fail in these ways.
pub uninterp spec fn env_ok() -> bool;
#[verifier::external_body]
fn verif_current_dir() -> (r: Result<VPathBuf, VIoError>) ensures env_ok() ==> r is Ok { unimplemented!() }
// slice::to_vec: only the import stack is copied with it
pub assume_specification<T: Clone> [<[T]>::to_vec] (s: &[T]) -> (r: Vec<T>);
impl Builtins {
    #[verifier::external_body]
    pub fn new(strict: bool) -> (r: Self) ensures r.strict == strict { unimplemented!() }
    #[verifier::external_body]
    pub fn clone(&self) -> (r: Self) ensures r == *self { unimplemented!() }
}
#[verifier::external_body]
fn reserved_words() -> ReservedWords { unimplemented!() }
//@ extract src/build/opcode/vm.rs :: impl VM :: fn with_pointer
//@   subst "with_pointer<P: Into<PathBuf>>(strict: bool, ops: OpPointer, working_dir: P)" => "with_pointer(strict: bool, ops: OpPointer, working_dir: VPathBuf)"
//@   subst "working_dir: working_dir.into()," => "working_dir: working_dir,"
//@   subst "runtime::Builtins::new(strict)" => "Builtins::new(strict)"
//@   ret r
//@   sig <<<
        ensures r.stack@.len() == 0, r.ops == ops
//@   >>>
//@ end
//@ extract src/build/opcode/vm.rs :: impl VM :: fn to_scoped
//@   rule R4
//@   ret r
//@   sig <<<
        ensures r.stack == self.stack, r.ops == self.ops
//@   >>>
//@ end
//@ extract src/build/opcode/vm.rs :: impl VM :: fn with_import_stack
//@   rule R4
//@   ret r
//@   sig <<<
        ensures r.stack == self.stack, r.ops == self.ops
//@   >>>
//@ end
//@ extract src/build/opcode/vm.rs :: impl VM :: fn to_new_pointer
//@   rule R4
//@   ret r
//@   sig <<<
        ensures r.stack == self.stack, r.ops == ops
//@   >>>
//@ end
//@ extract src/build/opcode/vm.rs :: impl VM :: fn clean_copy
//@   ret r
//@   sig <<<
        ensures r.stack@.len() == 0, r.ops == self.ops
//@   >>>
//@ end
// VM::run (the interpreter loop) - ASSUMED here, proved in unit err_pos_run from the handler contracts of this unit:
// whatever error comes out of a run has a position.  (`r is Ok ==> a result is on the stack`: translator invariant, as
// in units scope / vm_data_call.)
//@ extract src/build/opcode/vm.rs :: impl VM :: fn run
//@   opaque_body
//@   ret r
//@   sig <<<
        ensures r is Ok ==> final(self).stack@.len() > 0,
            env_ok() ==> (r matches Err(e) ==> positioned(e)),
            // a run never swaps the program it runs
            final(self).ops.pos_map == old(self).ops.pos_map,
//@   >>>
//@ end
//@ extract src/build/opcode/vm.rs :: impl VM :: fn fcall_impl
//@   rule R1
//@   subst "std::env::current_dir()?" => "q_io(verif_current_dir())?"
//@   subst "let Func { ptr, bindings, snapshot, } = f;" => "let ptr = &f.ptr; let bindings = &f.bindings; let snapshot = &f.snapshot;"
//@   ret r
//@   sig <<<
        requires
            // translator invariant (caller obligation): one value per parameter is on the stack
            old(stack)@.len() >= f.bindings@.len(),
        ensures
            // an argument bound to a reserved name is reported at the argument; everything else comes out of the body
            env_ok() ==> (r matches Err(e) ==> positioned(e)),
//@   >>>
//@   loop 1 iter it <<<
            invariant
                it.seq().len() == bindings@.len(), bindings@ == f.bindings@,
                stack@.len() + it.index@ == old(stack)@.len(), old(stack)@.len() >= f.bindings@.len(),
//@   >>>
//@ end
pub open spec fn fcall_pre(vm: VM) -> bool {
    // translator invariant (translate.rs Call arm): arguments, `Val(Int(count))`, the callee's code, FCall
    vm.stack@.len() >= 2 && (opnd(vm, 2) matches P(Int(c)) && 0 <= c <= vm.stack@.len() - 2)
}
//@ extract src/build/opcode/vm.rs :: impl VM :: fn op_fcall
//@   rule R1 R3(arg_length)
//@   ret r
//@   sig <<<
        requires fcall_pre(*old(self))
        ensures
            // not a function / wrong number of arguments: at the call; a fault inside the callee: its own position,
            // with the call site - the position of the callee expression `f` in `f(..)` - listed last
            env_ok() ==> (r matches Err(e) ==> raised_at(e, pos) || called_via(e, opnd_pos(*old(self), 1))),
            // the call's value stands at the call - not at a position inside the function body
            r is Ok ==> pushed_at(*final(self), pos),
//@   >>>
//@   before "let arity =" <<<
                proof { axiom_vec_len_isize(&f.bindings); }
//@   >>>
//@   mutant call_site_not_recorded "decorate_call!(f_pos => Self::fcall_impl(f, self.runtime.strict, &mut self.stack, env, &self.import_stack))?" => "Self::fcall_impl(f, self.runtime.strict, &mut self.stack, env, &self.import_stack)?" expect op_fcall
//@   mutant call_site_replaces_fault_position "decorate_call!(f_pos =>" => "decorate_error!(f_pos =>" expect op_fcall
//@   mutant call_result_at_body_position "let (val, _) = decorate_call!" => "let (val, pos) = decorate_call!" expect op_fcall
//@ end
// a nested scope (format strings, ...) runs the same program: its faults are not calls, nothing is appended
//@ extract src/build/opcode/vm.rs :: impl VM :: fn op_new_scope
//@   ret r
//@   sig <<<
        requires jump_pre(*old(self), jp)
        ensures env_ok() ==> (r matches Err(e) ==> positioned(e)),
//@   >>>
//@ end


// ---------- copies `base{..}` and module calls: VM::op_copy ----------
// VM::symbols_to_tuple (proved in unit vm_data_call): builds the tuple of a module's bindings, cannot fail
//@ extract src/build/opcode/vm.rs :: impl VM :: fn symbols_to_tuple
//@   opaque_body
//@ end
// the positions op_copy itself may report: the copy op, the override tuple, the value of one of the overriding fields
pub open spec fn is_override_pos(a: VM, p: Position) -> bool {
    exists|k: int| 0 <= k < opnd(a, 1)->C_0->Tuple_1@.len() && (#[trigger] opnd(a, 1)->C_0->Tuple_1@[k]).1 == p
}
pub open spec fn copy_own_pos(a: VM, pos: Position, p: Position) -> bool {
    p == pos || p == opnd_pos(a, 1) || is_override_pos(a, p)
}
//@ extract src/build/opcode/vm.rs :: impl VM :: fn op_copy
//@   rule R1 R3
//@   subst "fn op_copy<O, E>(" => "#[verifier::loop_isolation(false)] fn op_copy<O, E>("
//@   subst "match *tgt.as_ref() {" => "match tgt.as_ref() {"
// `into_iter().enumerate()` (consuming) has no Verus model: the same elements in the same order by reference + clone
//@   subst all "for (counter, (name, val)) in overrides.into_iter().enumerate() {" => "for (counter, (name__r, val__r)) in overrides.iter().enumerate() { let name = name__r.clone(); let val = val__r.clone();"
//@   subst all ".into()" => ".v_into()"
//@   ret r
//@   sig <<<
        requires
            // translator invariant (caller obligation, translate_copy): the base's code, then the override tuple
            old(self).stack@.len() >= 2, tuple_wf(opnd(*old(self), 1)),
            // value invariants of the base
            opnd(*old(self), 2) is C ==> tuple_wf(opnd(*old(self), 2)) || opnd(*old(self), 2)->C_0 is List,
            opnd(*old(self), 2) matches M(m) ==> m.flds@.len() == m.flds_pos_list@.len()
                // (op_thunk / op_module: the out-expression of a module lies inside the module's program)
                && (m.result_ptr matches Some(i) ==> i < m.ptr.pos_map.ops@.len()),
        ensures ({
            let a = *old(self); let b = *final(self);
            match opnd(a, 2) {
                // a tuple: an override that changes a field's type is reported at the overriding VALUE; the copy stands
                // where the base stood
                C(Tuple(_, _)) => (r matches Err(e) ==> e.call_stack@.len() == 0 && e.pos is Some && is_override_pos(a, e.pos->0))
                    && (r is Ok ==> pushed_at(b, opnd_pos(a, 2))),
                // a module call: op_copy's own complaints are at its own positions; a fault in the module's body or in its
                // out-expression keeps its position and gets the call listed (`pkg_ptr is None`: the `mod.pkg`
                // constructor of a module declared in a file is run undecorated - it only builds a function value);
                // the call's value stands AT THE CALL, whichever way the module produces it
                M(m) => env_ok() ==> (r matches Err(e) ==> positioned(e)
                            && (m.pkg_ptr is None ==> (e.call_stack@.len() == 0 && copy_own_pos(a, pos, e.pos->0)) || called_via(e, pos)))
                        && (r is Ok ==> pushed_at(b, pos)),
                // anything else cannot be copied: reported at the copy
                _ => r matches Err(e) && raised_at(e, pos),
            }
        })
//@   >>>
//@   body_start <<<
        broadcast use clax::group_clone_axioms;
//@   >>>
//@   before "match tgt.as_ref() {" <<<
        assert(override_pos_list@ == opnd(*old(self), 1)->C_0->Tuple_1@ && overrides@.len() == override_pos_list@.len());
        assert(val_pos == opnd_pos(*old(self), 1) && tgt_pos == opnd_pos(*old(self), 2));
//@   >>>
//@   loop 1 indexed <<<
                    invariant i__1 <= it__1@.len(), it__1@ == overrides@, flds@.len() == pos_list@.len(),
                    decreases it__1@.len() - i__1
//@   >>>
//@   loop 2 indexed <<<
                    invariant i__2 <= it__2@.len(), it__2@ == overrides@, flds@.len() == flds_pos_list@.len(),
                    decreases it__2@.len() - i__2
//@   >>>
//@   before "self.merge_field_into_tuple(" nth 1 <<<
                    assert(is_override_pos(*old(self), val_pos)) by { assert(opnd(*old(self), 1)->C_0->Tuple_1@[counter as int].1 == val_pos); }
//@   >>>
//@   before "self.merge_field_into_tuple(" nth 2 <<<
                    assert(is_override_pos(*old(self), val_pos)) by { assert(opnd(*old(self), 1)->C_0->Tuple_1@[counter as int].1 == val_pos); }
//@   >>>
// the pinned tree's behaviour (defects 3 and 4)
//@   mutant module_result_at_position_inside_module "let (result_val, _) = vm.pop()?; self.push(result_val, pos)?;" => "let (result_val, result_pos) = vm.pop()?; self.push(result_val, result_pos)?;" expect op_copy
//@   mutant module_out_expr_call_site_not_recorded "decorate_call!(pos => vm.run(env))?; let (result_val, _) = vm.pop()?;" => "vm.run(env)?; let (result_val, _) = vm.pop()?;" expect op_copy
//@   mutant module_call_site_not_recorded "decorate_call!(pos => vm.run(env))?; if let Some(ptr) = result_ptr {" => "vm.run(env)?; if let Some(ptr) = result_ptr {" expect op_copy
//@   mutant copy_of_scalar_at_default_position "_ => { return Err(Error::new( verif_msg(), pos, )); }" => "_ => { return Err(Error::new( verif_msg(), Position::new(0, 0, 0), )); }" expect op_copy
//@   mutant tuple_copy_at_override_position "self.push(Rc::new(C(Tuple(flds, pos_list))), tgt_pos.clone())?;" => "self.push(Rc::new(C(Tuple(flds, pos_list))), val_pos.clone())?;" expect op_copy
//@ end


// ---------- the remaining data handlers ----------
//@ extract src/build/opcode/vm.rs :: impl VM :: fn op_typ
//@   subst "typ_name.into()" => "verif_str_into_rcstr(typ_name)"
//@   ret r
//@   sig <<<
        requires old(self).stack@.len() >= 1
        ensures r is Ok, pushed_at(*final(self), opnd_pos(*old(self), 1)),
//@   >>>
//@ end
impl VIntoRcStr for &Value {
    // convert.rs `impl From<&Value> for Rc<str>` (proved in unit vm_data): the text of a value
    uninterp spec fn v_text(&self) -> Seq<char>;
    #[verifier::external_body]
    fn v_into(self) -> (r: Rc<str>) { unimplemented!() }
}
//@ extract src/build/opcode/vm.rs :: impl VM :: fn op_render
//@   subst "val.as_ref().into()" => "val.as_ref().v_into()"
//@   ret r
//@   sig <<<
        requires old(self).stack@.len() >= 1
        ensures r is Ok, pushed_at(*final(self), opnd_pos(*old(self), 1)),
//@   >>>
//@ end
//@ extract src/build/opcode/vm.rs :: impl VM :: fn op_thunk
//@   ret r
//@   sig <<<
        requires jump_pre(*old(self), jp)
        ensures frame_jump(*old(self), *final(self)), at_op(final(self).ops),
            r matches Err(e) ==> raised_at(e, cur_pos(old(self).ops)),
            pushed_at(*final(self), pos),
//@   >>>
//@ end
//@ extract src/build/opcode/vm.rs :: impl VM :: fn op_push_self
//@   ret r
//@   sig <<<
        requires old(self).stack@.len() >= 1
        ensures r is Ok, final(self).stack@ =~= old(self).stack@,
//@   >>>
//@   body_start <<<
        broadcast use clax::group_clone_axioms;
//@   >>>
//@ end
//@ extract src/build/opcode/vm.rs :: impl VM :: fn op_pop_self
//@   ret r
//@   sig <<<
        ensures r is Ok, final(self).stack == old(self).stack,
//@   >>>
//@ end
// std `str::contains(&str)` (R9' model): its outcome does not matter to positions
#[verifier::external_body]
pub fn verif_str_contains(s: &Rc<str>, part: &Rc<str>) -> bool { s.contains(part.as_ref()) }
// `in`: a needle that cannot be a field name is reported at the needle, a container that cannot contain at the container
//@ extract src/build/opcode/vm.rs :: impl VM :: fn op_exist
//@   rule R1 R3
//@   subst "match *left.as_ref() {" => "match left.as_ref() {"
//@   subst "for (nm, _) in flds {" => "for (nm, _) in flds.iter() {"
//@   subst "for e in elems {" => "for e in elems.iter() {"
//@   subst "nm == name" => "verif_rcstr_eq(nm, name)"
//@   subst? "e == &right" => "e.as_ref().eq(right.as_ref())"
//@   subst? "e == &left" => "e.as_ref().eq(left.as_ref())"
//@   subst "s.contains(part.as_ref())" => "verif_str_contains(s, part)"
//@   ret r
//@   sig <<<
        requires old(self).stack@.len() >= 2
        ensures
            r matches Err(e) ==> raised_at(e, opnd_pos(*old(self), 1)) || raised_at(e, opnd_pos(*old(self), 2)),
            r is Ok ==> pushed_at(*final(self), pos),
//@   >>>
//@   loop 1 iter it <<<
                        invariant true,
//@   >>>
//@   loop 2 iter it <<<
                    invariant true,
//@   >>>
//@ end
// slice::reverse (std): reverses in place
pub assume_specification<T> [<[T]>::reverse] (s: &mut [T])
    ensures final(s)@ == old(s)@.reverse();
// `func (..) => ..`: a parameter list that is none is an internal fault, reported at the parameter list
//@ extract src/build/opcode/vm.rs :: impl VM :: fn op_func
//@   rule R1 R3
//@   subst all ".into()" => ".v_into()"
//@   subst "let mut bindings = Vec::new();" => "let mut bindings: Vec<Rc<str>> = Vec::new();"
//@   subst "for e in elems {" => "for e in elems.iter() {"
//@   ret r
//@   sig <<<
        requires old(self).stack@.len() >= 1, jump_pre(*old(self), jptr)
        ensures
            r matches Err(e) ==> raised_at(e, opnd_pos(*old(self), 1)) || raised_at(e, cur_pos(old(self).ops)),
            r is Ok ==> pushed_at(*final(self), pos),
//@   >>>
//@   loop 1 iter it <<<
                invariant self.stack@ =~= old(self).stack@.drop_last(), args_pos == opnd_pos(*old(self), 1), self.ops == old(self).ops,
//@   >>>
//@ end
#[verifier::external_body]
pub fn verif_path_text(p: &VPathBuf) -> Rc<str> { unimplemented!() }
//@ extract src/build/opcode/translate.rs :: impl OpsMap :: fn new
//@   subst "shape_map: BTreeMap::new()," => "shape_map: VShapeMap::new(),"
//@   subst "links: BTreeMap::new()," => "links: VLinks::new(),"
//@ end
//@ extract src/build/opcode/translate.rs :: impl OpsMap :: fn with_ops
//@   rule R4
//@ end
//@ extract src/build/opcode/pointer.rs :: impl OpPointer :: fn new
//@ end
// `module {..} => ..`: parameters that are no tuple are reported at what stands in their place
//@ extract src/build/opcode/vm.rs :: impl VM :: fn op_module
//@   rule R1 R3
//@   subst "match *mod_val.as_ref() {" => "match mod_val.as_ref() {"
//@   arm_rebind "T(ptr) =>" ptr
//@   subst "if let Some(path) = self.ops.path {" => "if let Some(path) = &self.ops.path {"
//@   subst "path.to_string_lossy().into()" => "verif_path_text(path)"
//@   ret r
//@   sig <<<
        requires
            old(self).stack@.len() >= 1, (opnd(*old(self), 1) is T ==> old(self).stack@.len() >= 2),
            jump_pre(*old(self), jptr),
        ensures
            r matches Err(e) ==> raised_at(e, opnd_pos(*old(self), 1)) || raised_at(e, opnd_pos(*old(self), 2)) || raised_at(e, cur_pos(old(self).ops)),
            r is Ok ==> pushed_at(*final(self), pos),
//@   >>>
//@   body_start <<<
        broadcast use clax::group_clone_axioms;
//@   >>>
//@ end


// ---------- constraints ----------
// the paths the extracted handler names; ir::Val and ConstraintVal are only handed on here (unit constraint_vm)
#[verifier::external_body]
pub struct Val { _p: u8 }
impl Val {
    #[verifier::external_body]
    pub fn from(v: &Value) -> Val { unimplemented!() }
}
impl ConstraintVal {
    #[verifier::external_body]
    pub fn contains_self_ref(&self) -> bool { unimplemented!() }
    #[verifier::external_body]
    pub fn check(&self, v: &Val) -> bool { unimplemented!() }
}
pub mod build { pub mod ir { pub use crate::{ConstraintVal, Val}; } }
// a value that does not satisfy its constraint is reported at the VALUE (left under the constraint on the stack)
//@ extract src/build/opcode/vm.rs :: impl VM :: fn op_check_constraint
//@   rule R1
//@   subst "let ir_val: crate::build::ir::Val = val.as_ref().into();" => "let ir_val: crate::build::ir::Val = Val::from(val.as_ref());"
//@   subst "self.stack.last().unwrap().clone()" => "{ let t__ = self.stack.last().unwrap(); (t__.0.clone(), t__.1.clone()) }"
//@   ret r
//@   sig <<<
        requires old(self).stack@.len() >= 1
        ensures
            r matches Err(e) ==> (if old(self).stack@.len() >= 2 { raised_at(e, opnd_pos(*old(self), 2)) } else { raised_at(e, pos) }),
//@   >>>
//@   mutant constraint_failure_at_constraint "val_pos, ));" => "_constraint_pos, ));" expect op_check_constraint
//@ end
// VM::op_build_constraint (unit constraint_vm) - NOT under contract here (its two loops over a consuming iterator need
// that unit's whole apparatus): ASSUMED from reading - its one `Error::new(.., pos)` and its one `push(.., pos)`
//@ extract src/build/opcode/vm.rs :: impl VM :: fn op_build_constraint
//@   opaque_body
//@   subst "arm_types: Vec<super::ConstraintArmType>" => "arm_types: Vec<ConstraintArmType>"
//@   ret r
//@   sig <<<
        ensures r matches Err(e) ==> raised_at(e, pos), r is Ok ==> pushed_at(*final(self), pos),
//@   >>>
//@ end


// =====================================================================================================================
// 3. runtime.rs: the hooks behind Op::Runtime
// =====================================================================================================================
// regex::Regex (external): only whether the pattern compiles matters here
#[verifier::external_body]
pub struct VRegex { _p: u8 }
#[verifier::external_body]
pub struct VMatch { _p: u8 }
impl VRegex {
    #[verifier::external_body]
    pub fn new(re: &str) -> Result<VRegex, VRegexError> { unimplemented!() }
    #[verifier::external_body]
    pub fn find(&self, hay: &str) -> Option<VMatch> { unimplemented!() }
}
// `a ~ b`: an operand that is no string is reported at that operand; a pattern that does not compile AT THE OPERATOR.
// (On the pinned tree `Regex::new(..)?` let the regex crate's error travel up WITHOUT any position - defect 1.)
//@ extract src/build/opcode/runtime.rs :: impl Builtins :: fn regex
//@   rule R1 R3
//@   subst? "Regex::new(&right_str)?" => "q_regex(VRegex::new(&right_str))?"
//@   subst? "Regex::new(&right_str)" => "VRegex::new(&right_str)"
//@   subst? "Error::from(e)" => "FromRegex::from(e)"
// the pinned tree's behaviour (defect 1)
//@   mutant bad_pattern_without_position "return Err(Error::from(e).with_pos(pos))" => "return Err(Error::from(e))" expect regex
//@   ret r
//@   sig <<<
        // translator invariant (else: panic!, C04): both operands were pushed
        requires old(stack)@.len() >= 2
        ensures ({
            let n = old(stack)@.len() as int;
            &&& (r matches Err(e) ==> raised_at(e, old(stack)@[n - 1].1) || raised_at(e, old(stack)@[n - 2].1) || raised_at(e, pos))
            &&& (r is Ok ==> final(stack)@.len() > 0 && final(stack)@.last().1 == pos)
        })
//@   >>>
//@ end
// `start:step:end`
//@ extract src/build/opcode/runtime.rs :: impl Builtins :: fn range
//@   rule R1 R3(start,step,end)
//@   subst "\"Ranges can only be created with Ints\".to_string().into()" => "verif_msg()"
//@   subst "let mut elems = Vec::new();" => "let mut elems: Vec<Rc<Value>> = Vec::new();"
//@   subst "let mut pos_list = Vec::new();" => "let mut pos_list: Vec<Position> = Vec::new();"
//@   subst "fn range(" => "#[verifier::exec_allows_no_decreases_clause] fn range("
//@   ret r
//@   sig <<<
        requires old(stack)@.len() >= 3
        ensures r matches Err(e) ==> raised_at(e, pos),
            r is Ok ==> final(stack)@.len() > 0 && final(stack)@.last().1 == pos,
//@   >>>
//@   loop 1 <<<
                    invariant true,
                    ensures true,
//@   >>>
//@ end


// `include TYPE "path"`: std::fs and the importer registry are external (unit include_hook models them); here only:
// opening / reading may fail with an io::Error, an importer may refuse the bytes
#[verifier::external_body]
pub struct File { _p: u8 }
impl File {
    #[verifier::external_body]
    pub fn open(path: &str) -> Result<File, VIoError> { unimplemented!() }
    #[verifier::external_body]
    pub fn read_to_string(&mut self, buf: &mut String) -> Result<usize, VIoError> { unimplemented!() }
    #[verifier::external_body]
    pub fn read_to_end(&mut self, buf: &mut Vec<u8>) -> Result<usize, VIoError> { unimplemented!() }
}
#[verifier::external_body]
pub struct VImporter { _p: u8 }
#[verifier::external_body]
pub struct VImportError { _p: u8 }
impl VImporter {
    #[verifier::external_body]
    pub fn import(&self, bytes: &Vec<u8>) -> Result<Rc<Val>, VImportError> { unimplemented!() }
}
impl<O, E> Environment<O, E> {
    // `env.borrow().importer_registry.get_importer(..)`
    #[verifier::external_body]
    pub fn get_importer(&self, typ: &str) -> Option<&VImporter> { unimplemented!() }
}
impl Value {
    // convert.rs `impl From<Rc<Val>> for Value`
    #[verifier::external_body]
    pub fn from_rc_val(v: Rc<Val>) -> Value { unimplemented!() }
}
#[verifier::external_body]
pub fn verif_str_eq(a: &str, b: &str) -> (r: bool) ensures r == (a@ == b@) { a == b }
//@ extract src/build/opcode/runtime.rs :: impl Builtins :: fn get_file_as_string
//@   subst "File::open(path)?" => "q_io(File::open(path))?"
//@   subst "f.read_to_string(&mut contents)?" => "q_io(f.read_to_string(&mut contents))?"
//@   ret r
//@   sig <<<
        // an io::Error has no position: the caller must add one
        ensures r matches Err(e) ==> unpositioned(e)
//@   >>>
//@ end
//@ extract src/build/opcode/runtime.rs :: impl Builtins :: fn get_file_as_bytes
//@   subst "File::open(path)?" => "q_io(File::open(path))?"
//@   subst "f.read_to_end(&mut contents)?" => "q_io(f.read_to_end(&mut contents))?"
//@   ret r
//@   sig <<<
        ensures r matches Err(e) ==> unpositioned(e)
//@   >>>
//@ end
// a path / type operand that is no string is reported at that operand; a file that cannot be read, an unknown type and
// bytes the importer refuses AT THE INCLUDE.  (On the pinned tree `self.get_file_as_string(&path)?` /
// `self.get_file_as_bytes(&path)?` let the io::Error travel up WITHOUT any position - defect 2.)
//@ extract src/build/opcode/runtime.rs :: impl Builtins :: fn include
//@   rule R1 R3
//@   subst "env.borrow().importer_registry.get_importer(&typ)" => "env.borrow().get_importer(&typ)"
//@   subst "Ok(v) => v.into()," => "Ok(v) => Value::from_rc_val(v),"
//@   subst "typ.as_ref() == \"str\"" => "verif_str_eq(typ.as_ref(), \"str\")"
// the pinned tree's behaviour (defect 2)
//@   mutant unreadable_file_without_position "decorate_error!(pos => self.get_file_as_string(&path))?" => "self.get_file_as_string(&path)?" expect include
//@   mutant unreadable_data_file_without_position "decorate_error!(pos => self.get_file_as_bytes(&path))?" => "self.get_file_as_bytes(&path)?" expect include
//@   ret r
//@   sig <<<
        // translator invariant (else: panic!, C04): the type and the path were pushed
        requires old(stack)@.len() >= 2
        ensures ({
            let n = old(stack)@.len() as int;
            &&& (r matches Err(e) ==> raised_at(e, old(stack)@[n - 1].1) || raised_at(e, old(stack)@[n - 2].1) || raised_at(e, pos))
            &&& (r is Ok ==> final(stack)@.len() > 0 && final(stack)@.last().1 == pos)
        })
//@   >>>
//@ end


// The hooks NOT under contract here (import: unit import_hook; assert: assert_hook; convert / out: out_hook; trace) -
// ASSUMED from reading, listed in notes/C17.json: each raises only `Error::new(.., <pos or an operand's position>)`,
// decorates what `get_ops_for_path` reports with the import's position and lets a nested run's error through unchanged
// (import), or - `out` only - lets an io::Error of creating / writing the artifact through (environment, see env_ok).
//@ extract src/build/opcode/runtime.rs :: impl Builtins :: fn import
//@   opaque_body
//@   ret r
//@   sig <<<
        ensures env_ok() ==> (r matches Err(e) ==> positioned(e))
//@   >>>
//@ end
//@ extract src/build/opcode/runtime.rs :: impl Builtins :: fn assert
//@   opaque_body
//@   ret r
//@   sig <<<
        ensures r is Ok
//@   >>>
//@ end
//@ extract src/build/opcode/runtime.rs :: impl Builtins :: fn convert
//@   opaque_body
//@   ret r
//@   sig <<<
        ensures r matches Err(e) ==> positioned(e)
//@   >>>
//@ end
//@ extract src/build/opcode/runtime.rs :: impl Builtins :: fn out
//@   opaque_body
//@   subst "P: AsRef<Path> + Debug," => ""
//@   ret r
//@   sig <<<
        ensures env_ok() ==> (r matches Err(e) ==> positioned(e))
//@   >>>
//@ end
//@ extract src/build/opcode/runtime.rs :: impl Builtins :: fn trace
//@   opaque_body
//@   ret r
//@   sig <<<
        ensures r matches Err(e) ==> positioned(e)
//@   >>>
//@ end
// ---------- map / filter / reduce: a fault inside the function keeps its position and gets the position of the
// map / filter / reduce expression listed as call site; their own complaints (raised with no call site) are at the
// function operand, at the function's result, or at the expression ----------
pub open spec fn wf_top(v: Value) -> bool {
    match v { C(List(elems, pos)) => pos@.len() == elems@.len(), C(Tuple(flds, pos)) => pos@.len() == flds@.len(), _ => true }
}
pub open spec fn functional_err(e: Error, pos: Position) -> bool {
    positioned(e) && (e.call_stack@.len() > 0 ==> e.call_stack@.last() == pos)
}
impl VIntoRcStr for String {
    open spec fn v_text(&self) -> Seq<char> { self@ }
    fn v_into(self) -> (r: Rc<str>) { verif_string_into_rcstr(self) }
}
pub mod strax {
    use super::*;
    // `char::to_string()` is the one-character string (std Display for char)
    pub broadcast axiom fn axiom_char_to_string(c: char, s: String)
        ensures #[trigger] vstd::string::to_string_from_display_ensures::<char>(&c, s) ==> s@ == seq![c];
}
//@ extract src/build/opcode/runtime.rs :: impl Builtins :: fn map
//@   rule R1 R3
//@   subst all ".into()" => ".v_into()"
//@   subst "match *list.as_ref() {" => "match list.as_ref() {"
//@   subst "let mut result_elems = Vec::new();" => "let mut result_elems: Vec<Rc<Value>> = Vec::new();"
//@   subst "let mut pos_elems = Vec::new();" => "let mut pos_elems: Vec<Position> = Vec::new();"
//@   subst "let mut new_fields = Vec::new();" => "let mut new_fields: Vec<(Rc<str>, Rc<Value>)> = Vec::new();"
//@   subst "let mut new_flds_pos_list = Vec::new();" => "let mut new_flds_pos_list: Vec<(Position, Position)> = Vec::new();"
//@   ret r
//@   sig <<<
        requires old(stack)@.len() >= 2, wf_top(*old(stack)@[old(stack)@.len() - 1].0),
        ensures env_ok() ==> (r matches Err(e) ==> functional_err(e, pos)),
//@   >>>
//@   loop 1 indexed <<<
                    invariant i__1 <= it__1@.len(), it__1@ == elems@, elems_pos_list@.len() == elems@.len(), f.bindings@.len() == 1,
                    decreases it__1@.len() - i__1
//@   >>>
//@   loop 2 indexed <<<
                    invariant i__2 <= it__2@.len(), it__2@ == flds@, flds_pos_list@.len() == flds@.len(), f.bindings@.len() == 2,
                    decreases it__2@.len() - i__2
//@   >>>
//@   loop 3 indexed <<<
                    invariant i__3 <= it__3@.len(), f.bindings@.len() == 1,
                    decreases it__3@.len() - i__3
//@   >>>
//@   mutant map_call_site_not_recorded "let (result, result_pos) = decorate_call!(pos => VM::fcall_impl(f, self.strict, stack, env, import_stack))?; pos_elems.push(result_pos);" => "let (result, result_pos) = VM::fcall_impl(f, self.strict, stack, env, import_stack)?; pos_elems.push(result_pos);" expect map
//@ end
//@ extract src/build/opcode/runtime.rs :: impl Builtins :: fn filter
//@   rule R1 R3
//@   subst all ".into()" => ".v_into()"
//@   subst "match *list.as_ref() {" => "match list.as_ref() {"
//@   subst "let mut result_elems = Vec::new();" => "let mut result_elems: Vec<Rc<Value>> = Vec::new();"
//@   subst "let mut pos_elems = Vec::new();" => "let mut pos_elems: Vec<Position> = Vec::new();"
//@   subst "let mut new_fields = Vec::new();" => "let mut new_fields: Vec<(Rc<str>, Rc<Value>)> = Vec::new();"
//@   subst "let mut new_flds_pos_list = Vec::new();" => "let mut new_flds_pos_list: Vec<(Position, Position)> = Vec::new();"
//@   ret r
//@   sig <<<
        requires old(stack)@.len() >= 2, wf_top(*old(stack)@[old(stack)@.len() - 1].0),
        ensures env_ok() ==> (r matches Err(e) ==> functional_err(e, pos)),
//@   >>>
//@   loop 1 indexed <<<
                    invariant i__1 <= it__1@.len(), it__1@ == elems@, elems_pos_list@.len() == elems@.len(), f.bindings@.len() == 1,
                    decreases it__1@.len() - i__1
//@   >>>
//@   loop 2 indexed <<<
                    invariant i__2 <= it__2@.len(), it__2@ == flds@, pos_list@.len() == flds@.len(), f.bindings@.len() == 2,
                    decreases it__2@.len() - i__2
//@   >>>
//@   loop 3 indexed <<<
                    invariant i__3 <= it__3@.len(), f.bindings@.len() == 1,
                    decreases it__3@.len() - i__3
//@   >>>
//@ end
//@ extract src/build/opcode/runtime.rs :: impl Builtins :: fn reduce
//@   rule R1 R3
//@   subst all ".into()" => ".v_into()"
//@   subst "match *list.as_ref() {" => "match list.as_ref() {"
//@   ret r
//@   sig <<<
        requires old(stack)@.len() >= 3, wf_top(*old(stack)@[old(stack)@.len() - 1].0),
        ensures env_ok() ==> (r matches Err(e) ==> functional_err(e, pos)),
            r is Ok ==> final(stack)@.len() > 0 && final(stack)@.last().1 == pos,
//@   >>>
//@   loop 1 indexed <<<
                    invariant i__1 <= it__1@.len(), it__1@ == elems@, elems_pos_list@.len() == elems@.len(), f.bindings@.len() == 2,
                    decreases it__1@.len() - i__1
//@   >>>
//@   loop 2 indexed <<<
                    invariant i__2 <= it__2@.len(), it__2@ == _flds@, flds_pos_list@.len() == _flds@.len(), f.bindings@.len() == 3,
                    decreases it__2@.len() - i__2
//@   >>>
//@   loop 3 indexed <<<
                    invariant i__3 <= it__3@.len(), f.bindings@.len() == 2,
                    decreases it__3@.len() - i__3
//@   >>>
//@   mutant reduce_call_site_replaces_position "let (new_acc, new_acc_pos) = decorate_call!(pos => VM::fcall_impl(f, self.strict, stack, env, import_stack))?; acc = new_acc; acc_pos = new_acc_pos; } } C(Tuple" => "let (new_acc, new_acc_pos) = decorate_error!(pos => VM::fcall_impl(f, self.strict, stack, env, import_stack))?; acc = new_acc; acc_pos = new_acc_pos; } } C(Tuple" expect reduce
//@ end
pub open spec fn hook_pre(h: Hook, st: Seq<(Rc<Value>, Position)>) -> bool {
    // translator invariant (else the hooks panic!, C04): the operands of the hook were pushed
    match h {
        Hook::Regex => st.len() >= 2, Hook::Range => st.len() >= 3, Hook::Include => st.len() >= 2,
        // + value invariant: one position per element / field of the processed value
        Hook::Map | Hook::Filter => st.len() >= 2 && wf_top(*st[st.len() - 1].0),
        Hook::Reduce => st.len() >= 3 && wf_top(*st[st.len() - 1].0),
        _ => true,
    }
}
// the hook dispatcher: it adds nothing to and takes nothing from what the hook reports; every hook gets the position of
// the Runtime op (`trace` the one the translator stored in the hook itself)
//@ extract src/build/opcode/runtime.rs :: impl Builtins :: fn handle
//@   subst "P: AsRef<Path> + Debug," => ""
//@   ret r
//@   sig <<<
        requires hook_pre(h, old(stack)@)
        ensures env_ok() ==> (r matches Err(e) ==> positioned(e)),
            // the two hooks whose defects this unit found: nothing comes out of them without a position
            (h is Regex || h is Include) ==> ({
                let n = old(stack)@.len() as int;
                r matches Err(e) ==> raised_at(e, old(stack)@[n - 1].1) || raised_at(e, old(stack)@[n - 2].1) || raised_at(e, pos) }),
            h is Range ==> (r matches Err(e) ==> raised_at(e, pos)),
            (h is Map || h is Filter || h is Reduce) ==> (env_ok() ==> (r matches Err(e) ==> functional_err(e, pos))),
//@   >>>
//@ end
//@ extract src/build/opcode/vm.rs :: impl VM :: fn op_runtime
//@   ret r
//@   sig <<<
        requires hook_pre(h, old(self).stack@)
        ensures env_ok() ==> (r matches Err(e) ==> positioned(e)),
            (h is Regex || h is Include) ==> (r matches Err(e) ==> raised_at(e, opnd_pos(*old(self), 1)) || raised_at(e, opnd_pos(*old(self), 2)) || raised_at(e, pos)),
            h is Range ==> (r matches Err(e) ==> raised_at(e, pos)),
            (h is Map || h is Filter || h is Reduce) ==> (env_ok() ==> (r matches Err(e) ==> functional_err(e, pos))),
//@   >>>
//@   mutant runtime_hook_gets_default_position "import_stack, pos, )" => "import_stack, Position::new(0, 0, 0), )" expect op_runtime
//@ end

} // verus!

fn main() {}
