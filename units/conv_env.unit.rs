//@ unit conv_env
//@ serves C08
//@ must_verify EnvConverter::convert_tuple EnvConverter::convert_list EnvConverter::write shell_escape_single_quoted verif_replace_char lemma_env_str_line_one_word lemma_plain_prefix lemma_plain_word lemma_bool_words_plain
//@ include prelude/head.rs
use std::rc::Rc;

verus! {
//@ include prelude/core.rs
//@ include prelude/sh_escape_models.rs
//@ include prelude/sh_escape_posix.rs
//@ include prelude/sh_escape_fns.rs
//@ include prelude/conv_env_types.rs
//@ include prelude/conv_env_words.rs

// ---------- R2: one stub per write!/writeln! call site of env.rs; the literal pieces of the format string
// are in the stub's spec, the arguments are the call site's arguments ----------
// write!(w, "{}=", name)
#[verifier::external_body]
fn vw_env_name_eq(w: &mut VWriter, name: &Rc<str>) -> (r: ConvertResult)
    ensures vw_wrote(*old(w), *final(w), name@ + seq!['='], r)
{ unimplemented!() }
// writeln!(w, "{}", <&str>)
#[verifier::external_body]
fn vw_env_ln_str(w: &mut VWriter, s: &str) -> (r: ConvertResult)
    ensures vw_wrote(*old(w), *final(w), s@ + nl(), r)
{ unimplemented!() }
// writeln!(w, "{}", f)
#[verifier::external_body]
fn vw_env_ln_f64(w: &mut VWriter, f: &f64) -> (r: ConvertResult)
    ensures vw_wrote(*old(w), *final(w), disp_f64(*f) + nl(), r)
{ unimplemented!() }
// writeln!(w, "{}", i)
#[verifier::external_body]
fn vw_env_ln_i64(w: &mut VWriter, i: &i64) -> (r: ConvertResult)
    ensures vw_wrote(*old(w), *final(w), disp_i64(*i) + nl(), r)
{ unimplemented!() }
// writeln!(w, "'{}'", <String>)
#[verifier::external_body]
fn vw_env_ln_quoted(w: &mut VWriter, s: String) -> (r: ConvertResult)
    ensures vw_wrote(*old(w), *final(w), seq!['\''] + s@ + seq!['\''] + nl(), r)
{ unimplemented!() }

// ---------- the property's contract ----------
// What a scalar value contributes after `NAME=`: its text and the newline that ends the assignment.
// A string is the single-quoted form that the POSIX oracle reads back as exactly the value
// (lemma_squote_one_word, lemma_env_str_line_one_word below).
pub open spec fn env_scalar(v: Val) -> Option<Seq<char>> {
    match v {
        Val::Boolean(b) => Some(bool_word(b) + nl()),
        Val::Int(i) => Some(disp_i64(i) + nl()),
        Val::Float(f) => Some(disp_f64(f) + nl()),
        Val::Str(s) => Some(sh_squote(s@) + nl()),
        _ => None,
    }
}

// line(f): a scalar field gives NAME=<value>\n, every other field (nested tuple, NULL, list, env,
// constraint) gives the EMPTY text.
pub open spec fn env_line(name: Seq<char>, v: Val) -> Seq<char> {
    match env_scalar(v) {
        Some(t) => name + seq!['='] + t,
        None => Seq::<char>::empty(),
    }
}

// the concatenation of line(f) over the fields IN ORDER
pub open spec fn env_lines(flds: Seq<(Rc<str>, Rc<Val>)>) -> Seq<char>
    decreases flds.len()
{
    if flds.len() == 0 {
        Seq::<char>::empty()
    } else {
        env_lines(flds.drop_last()) + env_line(flds.last().0@, *flds.last().1)
    }
}

// what `write` emits for a value: the lines of a tuple; a bare scalar gives its text; anything else nothing
pub open spec fn env_text(v: Val) -> Seq<char> {
    match v {
        Val::Tuple(flds) => env_lines(flds@),
        _ => match env_scalar(v) { Some(t) => t, None => Seq::<char>::empty() },
    }
}

// ---------- composition with the POSIX oracle ----------
// For ALL names made of ordinary characters, ALL string values s and ANY following text: the shell reads
// the line written for (name, Str(s)) as the single assignment word `name=s` (value unaltered, nothing
// expanded) and stops at the line's own newline - so the next line starts a fresh word.
pub proof fn lemma_env_str_line_one_word(name: Seq<char>, s: Seq<char>, following: Seq<char>)
    requires sh_all_plain(name)
    ensures sh_yields(sh_word(name + seq!['='] + (sh_squote(s) + nl()) + following), name + seq!['='] + s, nl() + following)
{
    let p = name + seq!['='];
    let suf = nl() + following;
    assert(sh_plain('='));
    assert(sh_all_plain(p));
    assert(sh_at_delim(suf)) by { assert(suf[0] == '\n'); }
    lemma_squote_one_word(s, suf);
    lemma_plain_prefix(p, sh_squote(s) + suf);
    assert(name + seq!['='] + (sh_squote(s) + nl()) + following =~= p + (sh_squote(s) + suf));
}

//@ extract src/convert/env.rs :: struct EnvConverter
//@   rule R0
//@ end

// `for (name, val) in flds.iter() {` is rewritten to the equivalent indexed `while` (same elements, same
// order): Verus' `for` does not support `continue`.
//@ extract src/convert/env.rs :: impl EnvConverter :: fn convert_tuple
//@   rule R1 R3
//@   subst "&mut dyn IOWrite" => "&mut VWriter"
//@   subst "for (name, val) in flds.iter() {" => "let mut i__: usize = 0; while i__ < flds.len() { let (name, val) = (&flds[i__].0, &flds[i__].1); i__ += 1;"
//@   subst "write!(w, \"{}=\", name)" => "vw_env_name_eq(w, name)"
//@   ret r
//@   sig <<<
        ensures vw_wrote(*old(w), *final(w), env_lines(flds@), r)
        decreases 1int
//@   >>>
//@   loop 1 <<<
            invariant
                0 <= i__ <= flds@.len(),
                w.out@ =~= old(w).out@ + env_lines(flds@.take(i__ as int)),
                w.failed@ == old(w).failed@,
                i__ == flds@.len() ==> flds@.take(i__ as int) =~= flds@,
            decreases flds@.len() - i__
//@   >>>
//@   after "i__ += 1;" <<<
            proof {
                assert(flds@.take(i__ as int).drop_last() =~= flds@.take(i__ - 1));
                assert(flds@.take(i__ as int).last() == flds@[i__ - 1]);
            }
//@   >>>
//@   mutant tuple_field_ends_output "\"Skipping embedded tuple...\"); continue;" => "\"Skipping embedded tuple...\"); return Ok(());" expect convert_tuple
//@   mutant null_field_ends_output "name); continue;" => "name); return Ok(());" expect convert_tuple
//@   mutant list_leaves_dangling_name "Val::List(_) | Val::Env(_)" => "Val::Env(_)" expect convert_tuple
//@   mutant value_before_name "write!(w, \"{}=\", name)?; self.write(val, w)?;" => "self.write(val, w)?; write!(w, \"{}=\", name)?;" expect convert_tuple
//@ end

//@ extract src/convert/env.rs :: impl EnvConverter :: fn convert_list
//@   rule R1
//@   subst "&mut dyn IOWrite" => "&mut VWriter"
//@   ret r
//@   sig <<<
        ensures r is Ok, *final(_w) == *old(_w)
//@   >>>
//@ end

//@ extract src/convert/env.rs :: impl EnvConverter :: fn write
//@   rule R1 R3
//@   subst "&mut dyn IOWrite" => "&mut VWriter"
//@   subst "writeln!(w, \"{}\", if b { \"true\" } else { \"false\" })" => "vw_env_ln_str(w, if *b { \"true\" } else { \"false\" })"
//@   subst "writeln!(w, \"{}\", f)" => "vw_env_ln_f64(w, f)"
//@   subst "writeln!(w, \"{}\", i)" => "vw_env_ln_i64(w, i)"
//@   subst "writeln!(w, \"'{}'\", super::shell_escape_single_quoted(s))" => "vw_env_ln_quoted(w, shell_escape_single_quoted(s))"
//@   ret r
//@   sig <<<
        ensures vw_wrote(*old(w), *final(w), env_text(*v), r)
        decreases (if *v is Tuple { 2int } else { 0int })
//@   >>>
//@   mutant string_not_escaped "shell_escape_single_quoted(s)" => "verif_rcstr_to_string(s)" expect write
//@   mutant bool_swapped "{ \"true\" } else { \"false\" }" => "{ \"false\" } else { \"true\" }" expect write
//@ end

// used by a seeded mutant only (the value written without escaping)
#[verifier::external_body]
fn verif_rcstr_to_string(s: &Rc<str>) -> (r: String)
    ensures r@ == s@
{ unimplemented!() }

} // verus!

fn main() {}
