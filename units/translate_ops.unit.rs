//@ unit translate_ops
//@ serves C01
//@ must_verify OpsMap::push OpsMap::replace OpsMap::len lemma_appended_is_prefix translate_template_part translate_stmt translate_value translate_copy bin_add_arm bin_sub_arm bin_div_arm bin_mul_arm bin_mod_arm bin_equal_arm bin_gt_arm bin_lt_arm bin_gteq_arm bin_lteq_arm bin_noteq_arm bin_rematch_arm bin_notrematch_arm bin_is_arm bin_and_arm bin_or_arm not_arm grouped_arm cast_arm fail_arm range_arm convert_arm map_arm filter_arm reduce_arm func_arm select_arm format_single_arm module_arm include_arm import_arm simple_arm copy_arm call_arm bin_dot_arm bin_in_arm constraint_arm
//@ include prelude/head.rs
use std::rc::Rc;

// C01, the translator's side: the STRUCTURE of the opcode sequence each arm of AST::translate_expr /
// AST::translate_stmt emits - operand order, the operator's op, and where every relative jump continues.
// The VM's side of each op is under contract in units vm_arith / vm_ctrl (left operand on top of the stack;
// a relative jump `j` at index i moves the pointer to i + j and the run loop then advances by one, i.e.
// execution continues at i + j + 1).
// Every arm is extracted from the real source as a function of its free variables; the recursive call is an
// assumed stub whose contract is the induction hypothesis (appends >= 1 op, never touches what is there) and
// every arm is proved to re-establish it (`appended`).

verus! {
//@ include prelude/core.rs
//@ include prelude/translate_ops_base.rs

//@ extract src/build/opcode/translate.rs :: impl AST :: fn translate_expr :: arm "BinaryExprType::Add =>"
//@   wrap <<<
fn bin_add_arm(def: BinaryOpDef, ops: &mut OpsMap, root: &VPath)
$BODY
//@   >>>
//@   subst all "Self::translate_expr" => "translate_expr"
//@   sig <<<
        ensures binary_emits(*old(ops), *final(ops), *def.left, *def.right, seq![Op::Add])
//@   >>>
//@   mutant bin_add_arm_swapped "Self::translate_expr(*def.right, ops, root); Self::translate_expr(*def.left, ops, root);" => "Self::translate_expr(*def.left, ops, root); Self::translate_expr(*def.right, ops, root);" expect bin_add_arm
//@   mutant bin_add_arm_wrong_op "ops.push(Op::Add, def.pos);" => "ops.push(Op::Sub, def.pos);" expect bin_add_arm
//@ end

//@ extract src/build/opcode/translate.rs :: impl AST :: fn translate_expr :: arm "BinaryExprType::Sub =>"
//@   wrap <<<
fn bin_sub_arm(def: BinaryOpDef, ops: &mut OpsMap, root: &VPath)
$BODY
//@   >>>
//@   subst all "Self::translate_expr" => "translate_expr"
//@   sig <<<
        ensures binary_emits(*old(ops), *final(ops), *def.left, *def.right, seq![Op::Sub])
//@   >>>
//@   mutant bin_sub_arm_swapped "Self::translate_expr(*def.right, ops, root); Self::translate_expr(*def.left, ops, root);" => "Self::translate_expr(*def.left, ops, root); Self::translate_expr(*def.right, ops, root);" expect bin_sub_arm
//@   mutant bin_sub_arm_wrong_op "ops.push(Op::Sub, def.pos);" => "ops.push(Op::Add, def.pos);" expect bin_sub_arm
//@ end

//@ extract src/build/opcode/translate.rs :: impl AST :: fn translate_expr :: arm "BinaryExprType::Div =>"
//@   wrap <<<
fn bin_div_arm(def: BinaryOpDef, ops: &mut OpsMap, root: &VPath)
$BODY
//@   >>>
//@   subst all "Self::translate_expr" => "translate_expr"
//@   sig <<<
        ensures binary_emits(*old(ops), *final(ops), *def.left, *def.right, seq![Op::Div])
//@   >>>
//@   mutant bin_div_arm_swapped "Self::translate_expr(*def.right, ops, root); Self::translate_expr(*def.left, ops, root);" => "Self::translate_expr(*def.left, ops, root); Self::translate_expr(*def.right, ops, root);" expect bin_div_arm
//@   mutant bin_div_arm_wrong_op "ops.push(Op::Div, def.pos);" => "ops.push(Op::Mod, def.pos);" expect bin_div_arm
//@ end

//@ extract src/build/opcode/translate.rs :: impl AST :: fn translate_expr :: arm "BinaryExprType::Mul =>"
//@   wrap <<<
fn bin_mul_arm(def: BinaryOpDef, ops: &mut OpsMap, root: &VPath)
$BODY
//@   >>>
//@   subst all "Self::translate_expr" => "translate_expr"
//@   sig <<<
        ensures binary_emits(*old(ops), *final(ops), *def.left, *def.right, seq![Op::Mul])
//@   >>>
//@   mutant bin_mul_arm_swapped "Self::translate_expr(*def.right, ops, root); Self::translate_expr(*def.left, ops, root);" => "Self::translate_expr(*def.left, ops, root); Self::translate_expr(*def.right, ops, root);" expect bin_mul_arm
//@   mutant bin_mul_arm_wrong_op "ops.push(Op::Mul, def.pos);" => "ops.push(Op::Div, def.pos);" expect bin_mul_arm
//@ end

//@ extract src/build/opcode/translate.rs :: impl AST :: fn translate_expr :: arm "BinaryExprType::Mod =>"
//@   wrap <<<
fn bin_mod_arm(def: BinaryOpDef, ops: &mut OpsMap, root: &VPath)
$BODY
//@   >>>
//@   subst all "Self::translate_expr" => "translate_expr"
//@   sig <<<
        ensures binary_emits(*old(ops), *final(ops), *def.left, *def.right, seq![Op::Mod])
//@   >>>
//@   mutant bin_mod_arm_swapped "Self::translate_expr(*def.right, ops, root); Self::translate_expr(*def.left, ops, root);" => "Self::translate_expr(*def.left, ops, root); Self::translate_expr(*def.right, ops, root);" expect bin_mod_arm
//@   mutant bin_mod_arm_wrong_op "ops.push(Op::Mod, def.pos);" => "ops.push(Op::Div, def.pos);" expect bin_mod_arm
//@ end

//@ extract src/build/opcode/translate.rs :: impl AST :: fn translate_expr :: arm "BinaryExprType::Equal =>"
//@   wrap <<<
fn bin_equal_arm(def: BinaryOpDef, ops: &mut OpsMap, root: &VPath)
$BODY
//@   >>>
//@   subst all "Self::translate_expr" => "translate_expr"
//@   sig <<<
        ensures binary_emits(*old(ops), *final(ops), *def.left, *def.right, seq![Op::Equal])
//@   >>>
//@   mutant bin_equal_arm_swapped "Self::translate_expr(*def.right, ops, root); Self::translate_expr(*def.left, ops, root);" => "Self::translate_expr(*def.left, ops, root); Self::translate_expr(*def.right, ops, root);" expect bin_equal_arm
//@   mutant bin_equal_arm_wrong_op "ops.push(Op::Equal, def.pos);" => "ops.push(Op::Equal, def.pos.clone()); ops.push(Op::Not, def.pos);" expect bin_equal_arm
//@ end

//@ extract src/build/opcode/translate.rs :: impl AST :: fn translate_expr :: arm "BinaryExprType::GT =>"
//@   wrap <<<
fn bin_gt_arm(def: BinaryOpDef, ops: &mut OpsMap, root: &VPath)
$BODY
//@   >>>
//@   subst all "Self::translate_expr" => "translate_expr"
//@   sig <<<
        ensures binary_emits(*old(ops), *final(ops), *def.left, *def.right, seq![Op::Gt])
//@   >>>
//@   mutant bin_gt_arm_swapped "Self::translate_expr(*def.right, ops, root); Self::translate_expr(*def.left, ops, root);" => "Self::translate_expr(*def.left, ops, root); Self::translate_expr(*def.right, ops, root);" expect bin_gt_arm
//@   mutant bin_gt_arm_wrong_op "ops.push(Op::Gt, def.pos);" => "ops.push(Op::GtEq, def.pos);" expect bin_gt_arm
//@ end

//@ extract src/build/opcode/translate.rs :: impl AST :: fn translate_expr :: arm "BinaryExprType::LT =>"
//@   wrap <<<
fn bin_lt_arm(def: BinaryOpDef, ops: &mut OpsMap, root: &VPath)
$BODY
//@   >>>
//@   subst all "Self::translate_expr" => "translate_expr"
//@   sig <<<
        ensures binary_emits(*old(ops), *final(ops), *def.left, *def.right, seq![Op::Lt])
//@   >>>
//@   mutant bin_lt_arm_swapped "Self::translate_expr(*def.right, ops, root); Self::translate_expr(*def.left, ops, root);" => "Self::translate_expr(*def.left, ops, root); Self::translate_expr(*def.right, ops, root);" expect bin_lt_arm
//@   mutant bin_lt_arm_wrong_op "ops.push(Op::Lt, def.pos);" => "ops.push(Op::Gt, def.pos);" expect bin_lt_arm
//@ end

//@ extract src/build/opcode/translate.rs :: impl AST :: fn translate_expr :: arm "BinaryExprType::GTEqual =>"
//@   wrap <<<
fn bin_gteq_arm(def: BinaryOpDef, ops: &mut OpsMap, root: &VPath)
$BODY
//@   >>>
//@   subst all "Self::translate_expr" => "translate_expr"
//@   sig <<<
        ensures binary_emits(*old(ops), *final(ops), *def.left, *def.right, seq![Op::GtEq])
//@   >>>
//@   mutant bin_gteq_arm_swapped "Self::translate_expr(*def.right, ops, root); Self::translate_expr(*def.left, ops, root);" => "Self::translate_expr(*def.left, ops, root); Self::translate_expr(*def.right, ops, root);" expect bin_gteq_arm
//@   mutant bin_gteq_arm_wrong_op "ops.push(Op::GtEq, def.pos);" => "ops.push(Op::Gt, def.pos);" expect bin_gteq_arm
//@ end

//@ extract src/build/opcode/translate.rs :: impl AST :: fn translate_expr :: arm "BinaryExprType::LTEqual =>"
//@   wrap <<<
fn bin_lteq_arm(def: BinaryOpDef, ops: &mut OpsMap, root: &VPath)
$BODY
//@   >>>
//@   subst all "Self::translate_expr" => "translate_expr"
//@   sig <<<
        ensures binary_emits(*old(ops), *final(ops), *def.left, *def.right, seq![Op::LtEq])
//@   >>>
//@   mutant bin_lteq_arm_swapped "Self::translate_expr(*def.right, ops, root); Self::translate_expr(*def.left, ops, root);" => "Self::translate_expr(*def.left, ops, root); Self::translate_expr(*def.right, ops, root);" expect bin_lteq_arm
//@   mutant bin_lteq_arm_wrong_op "ops.push(Op::LtEq, def.pos);" => "ops.push(Op::GtEq, def.pos);" expect bin_lteq_arm
//@ end

//@ extract src/build/opcode/translate.rs :: impl AST :: fn translate_expr :: arm "BinaryExprType::NotEqual =>"
//@   wrap <<<
fn bin_noteq_arm(def: BinaryOpDef, ops: &mut OpsMap, root: &VPath)
$BODY
//@   >>>
//@   subst all "Self::translate_expr" => "translate_expr"
//@   sig <<<
        ensures binary_emits(*old(ops), *final(ops), *def.left, *def.right, seq![Op::Equal, Op::Not])
//@   >>>
//@   mutant bin_noteq_arm_swapped "Self::translate_expr(*def.right, ops, root); Self::translate_expr(*def.left, ops, root);" => "Self::translate_expr(*def.left, ops, root); Self::translate_expr(*def.right, ops, root);" expect bin_noteq_arm
//@   mutant bin_noteq_arm_wrong_op "ops.push(Op::Not, def.pos);" => "ops.push(Op::Noop, def.pos);" expect bin_noteq_arm
//@ end

//@ extract src/build/opcode/translate.rs :: impl AST :: fn translate_expr :: arm "BinaryExprType::REMatch =>"
//@   wrap <<<
fn bin_rematch_arm(def: BinaryOpDef, ops: &mut OpsMap, root: &VPath)
$BODY
//@   >>>
//@   subst all "Self::translate_expr" => "translate_expr"
//@   sig <<<
        ensures binary_emits(*old(ops), *final(ops), *def.left, *def.right, seq![Op::Runtime(Hook::Regex)])
//@   >>>
//@   mutant bin_rematch_arm_swapped "Self::translate_expr(*def.right, ops, root); Self::translate_expr(*def.left, ops, root);" => "Self::translate_expr(*def.left, ops, root); Self::translate_expr(*def.right, ops, root);" expect bin_rematch_arm
//@   mutant bin_rematch_arm_wrong_op "ops.push(Op::Runtime(Hook::Regex), def.pos);" => "ops.push(Op::Equal, def.pos);" expect bin_rematch_arm
//@ end

//@ extract src/build/opcode/translate.rs :: impl AST :: fn translate_expr :: arm "BinaryExprType::NotREMatch =>"
//@   wrap <<<
fn bin_notrematch_arm(def: BinaryOpDef, ops: &mut OpsMap, root: &VPath)
$BODY
//@   >>>
//@   subst all "Self::translate_expr" => "translate_expr"
//@   sig <<<
        ensures binary_emits(*old(ops), *final(ops), *def.left, *def.right, seq![Op::Runtime(Hook::Regex), Op::Not])
//@   >>>
//@   mutant bin_notrematch_arm_swapped "Self::translate_expr(*def.right, ops, root); Self::translate_expr(*def.left, ops, root);" => "Self::translate_expr(*def.left, ops, root); Self::translate_expr(*def.right, ops, root);" expect bin_notrematch_arm
//@   mutant bin_notrematch_arm_wrong_op "ops.push(Op::Not, def.pos);" => "ops.push(Op::Noop, def.pos);" expect bin_notrematch_arm
//@ end

//@ extract src/build/opcode/translate.rs :: impl AST :: fn translate_expr :: arm "BinaryExprType::IS =>"
//@   wrap <<<
fn bin_is_arm(def: BinaryOpDef, ops: &mut OpsMap, root: &VPath)
$BODY
//@   >>>
//@   subst all "Self::translate_expr" => "translate_expr"
//@   sig <<<
        ensures binary_emits(*old(ops), *final(ops), *def.left, *def.right, seq![Op::Typ, Op::Equal])
//@   >>>
//@   mutant bin_is_arm_swapped "Self::translate_expr(*def.right, ops, root); Self::translate_expr(*def.left, ops, root);" => "Self::translate_expr(*def.left, ops, root); Self::translate_expr(*def.right, ops, root);" expect bin_is_arm
//@   mutant bin_is_arm_wrong_op "ops.push(Op::Typ, def.pos.clone()); ops.push(Op::Equal, def.pos);" => "ops.push(Op::Equal, def.pos.clone()); ops.push(Op::Typ, def.pos);" expect bin_is_arm
//@ end
//@ extract src/build/opcode/translate.rs :: impl AST :: fn translate_expr :: arm "BinaryExprType::AND =>"
//@   wrap <<<
fn bin_and_arm(def: BinaryOpDef, ops: &mut OpsMap, root: &VPath)
$BODY
//@   >>>
//@   subst all "Self::translate_expr" => "translate_expr"
//@   sig <<<
        ensures short_circuit_emits(*old(ops), *final(ops), *def.left, *def.right, true)
//@   >>>
//@   mutant and_offset_plus_one "let jptr = (ops.len() - 1 - idx) as i32;" => "let jptr = (ops.len() - idx) as i32;" expect bin_and_arm
//@   mutant and_offset_absolute "let jptr = (ops.len() - 1 - idx) as i32;" => "let jptr = (ops.len() - 1) as i32;" expect bin_and_arm
//@   mutant and_emits_or "ops.replace(idx, Op::And(jptr));" => "ops.replace(idx, Op::Or(jptr));" expect bin_and_arm
//@   mutant and_right_first "Self::translate_expr(*def.left, ops, root); ops.push(Op::Noop, def.pos); let idx = ops.len() - 1; Self::translate_expr(*def.right, ops, root);" => "Self::translate_expr(*def.right, ops, root); ops.push(Op::Noop, def.pos); let idx = ops.len() - 1; Self::translate_expr(*def.left, ops, root);" expect bin_and_arm
//@ end

//@ extract src/build/opcode/translate.rs :: impl AST :: fn translate_expr :: arm "BinaryExprType::OR =>"
//@   wrap <<<
fn bin_or_arm(def: BinaryOpDef, ops: &mut OpsMap, root: &VPath)
$BODY
//@   >>>
//@   subst all "Self::translate_expr" => "translate_expr"
//@   sig <<<
        ensures short_circuit_emits(*old(ops), *final(ops), *def.left, *def.right, false)
//@   >>>
//@   mutant or_offset_minus_one "let jptr = (ops.len() - 1 - idx) as i32;" => "let jptr = (ops.len() - 1 - idx - 1) as i32;" expect bin_or_arm
//@   mutant or_idx_before_push "ops.push(Op::Noop, def.pos); let idx = ops.len() - 1;" => "let idx = ops.len() - 1; ops.push(Op::Noop, def.pos);" expect bin_or_arm
//@   mutant or_emits_and "ops.replace(idx, Op::Or(jptr));" => "ops.replace(idx, Op::And(jptr));" expect bin_or_arm
//@ end

// ---------- not / grouping / cast / fail / range / convert / map-filter-reduce ----------
//@ extract src/build/opcode/translate.rs :: impl AST :: fn translate_expr :: arm "Expression::Not(def) =>"
//@   wrap <<<
fn not_arm(def: NotDef, ops: &mut OpsMap, root: &VPath)
$BODY
//@   >>>
//@   subst all "Self::translate_expr" => "translate_expr"
//@   sig <<<
        ensures unary_emits(*old(ops), *final(ops), *def.expr, seq![Op::Not])
//@   >>>
//@   mutant not_dropped "ops.push(Op::Not, def.pos);" => "ops.push(Op::Noop, def.pos);" expect not_arm
//@   mutant not_before_operand "Self::translate_expr(*def.expr, ops, root); ops.push(Op::Not, def.pos);" => "ops.push(Op::Not, def.pos.clone()); Self::translate_expr(*def.expr, ops, root);" expect not_arm
//@ end

// `( e )` is exactly the code of e
//@ extract src/build/opcode/translate.rs :: impl AST :: fn translate_expr :: arm "Expression::Grouped(expr, _) =>"
//@   wrap <<<
fn grouped_arm(expr: Box<Expression>, ops: &mut OpsMap, root: &VPath)
$BODY
//@   >>>
//@   subst all "Self::translate_expr" => "translate_expr"
//@   sig <<<
        ensures unary_emits(*old(ops), *final(ops), *expr, Seq::<Op>::empty())
//@   >>>
//@   mutant grouped_extra_op "Self::translate_expr(*expr, ops, root);" => "let p = expr.pos().clone(); Self::translate_expr(*expr, ops, root); ops.push(Op::Pop, p);" expect grouped_arm
//@   mutant grouped_noop_before "Self::translate_expr(*expr, ops, root);" => "ops.push(Op::Noop, expr.pos().clone()); Self::translate_expr(*expr, ops, root);" expect grouped_arm
//@ end

//@ extract src/build/opcode/translate.rs :: impl AST :: fn translate_expr :: arm "Expression::Cast(cast_def) =>"
//@   wrap <<<
fn cast_arm(cast_def: CastDef, ops: &mut OpsMap, root: &VPath)
$BODY
//@   >>>
//@   subst all "Self::translate_expr" => "translate_expr"
//@   sig <<<
        ensures unary_emits(*old(ops), *final(ops), *cast_def.target, seq![Op::Cast(cast_def.cast_type)])
//@   >>>
//@   mutant cast_wrong_type "ops.push(Op::Cast(cast_def.cast_type), cast_def.pos);" => "ops.push(Op::Cast(CastType::Str), cast_def.pos);" expect cast_arm
//@   mutant cast_before_target "Self::translate_expr(*cast_def.target, ops, root); ops.push(Op::Cast(cast_def.cast_type), cast_def.pos);" => "ops.push(Op::Cast(cast_def.cast_type), cast_def.pos); Self::translate_expr(*cast_def.target, ops, root);" expect cast_arm
//@ end

// `fail msg`: the message, then the prefix string ON TOP (so that `Add` yields prefix + message: left operand on
// top), `Add`, `Bang` (raises the string on top of the stack).
pub open spec fn fail_emits(a: OpsMap, b: OpsMap, msg: Expression) -> bool {
    let n0 = a.ops@.len() as int;
    let n = b.ops@.len() as int;
    &&& appended(a, b)
    &&& code_at(msg, b.ops@, n0, n - 3)
    &&& (b.ops@[n - 3] matches Op::Val(Primitive::Str(s)) && s@ == "UserDefined: "@)
    &&& b.ops@[n - 2] == Op::Add
    &&& b.ops@[n - 1] == Op::Bang
}
//@ extract src/build/opcode/translate.rs :: impl AST :: fn translate_expr :: arm "Expression::Fail(def) =>"
//@   wrap <<<
fn fail_arm(def: FailDef, ops: &mut OpsMap, root: &VPath)
$BODY
//@   >>>
//@   subst all "Self::translate_expr" => "translate_expr"
//@   subst all ".into()" => ".vinto()"
//@   sig <<<
        ensures fail_emits(*old(ops), *final(ops), *def.message)
//@   >>>
//@   mutant fail_prefix_below_message "Self::translate_expr(*def.message, ops, root); ops.push(Op::Val(Primitive::Str(\"UserDefined: \".into())), msg_pos);" => "ops.push(Op::Val(Primitive::Str(\"UserDefined: \".into())), msg_pos); Self::translate_expr(*def.message, ops, root);" expect fail_arm
//@   mutant fail_no_bang "ops.push(Op::Bang, def.pos);" => "ops.push(Op::Pop, def.pos);" expect fail_arm
//@   mutant fail_no_add "ops.push(Op::Add, def.pos.clone());" => "" expect fail_arm
//@ end

// `start:step:end`: the range hook (runtime.rs `range`, unit rt_range) pops start, then step, then end; a missing
// step is the Empty value.  So: code(end), code(step) | Val(Empty), code(start), Runtime(Range).
pub open spec fn range_emits(a: OpsMap, b: OpsMap, def: RangeDef) -> bool {
    let n0 = a.ops@.len() as int;
    let n = b.ops@.len() as int;
    &&& appended(a, b)
    &&& exists|m1: int, m2: int, m3: int| #![trigger frag(*def.end, n0, m1), frag(*def.start, m2, m3)]
            m3 == n - 1
            && code_at(*def.end, b.ops@, n0, m1)
            && (match def.step {
                    Some(st) => code_at(*st, b.ops@, m1, m2),
                    None => m2 == m1 + 1 && b.ops@[m1] == Op::Val(Primitive::Empty),
               })
            && code_at(*def.start, b.ops@, m2, m3)
    &&& b.ops@[n - 1] == Op::Runtime(Hook::Range)
}
//@ extract src/build/opcode/translate.rs :: impl AST :: fn translate_expr :: arm "Expression::Range(def) =>"
//@   wrap <<<
fn range_arm(def: RangeDef, ops: &mut OpsMap, root: &VPath)
$BODY
//@   >>>
//@   subst all "Self::translate_expr" => "translate_expr"
//@   sig <<<
        ensures range_emits(*old(ops), *final(ops), def)
//@   >>>
//@   mutant range_start_end_swapped "Self::translate_expr(*def.end, ops, root); if let Some(expr) = def.step { Self::translate_expr(*expr, ops, root); } else { ops.push(Op::Val(Primitive::Empty), def.pos.clone()); } Self::translate_expr(*def.start, ops, root);" => "Self::translate_expr(*def.start, ops, root); if let Some(expr) = def.step { Self::translate_expr(*expr, ops, root); } else { ops.push(Op::Val(Primitive::Empty), def.pos.clone()); } Self::translate_expr(*def.end, ops, root);" expect range_arm
//@   mutant range_step_first "Self::translate_expr(*def.end, ops, root); if let Some(expr) = def.step { Self::translate_expr(*expr, ops, root); } else { ops.push(Op::Val(Primitive::Empty), def.pos.clone()); }" => "if let Some(expr) = def.step { Self::translate_expr(*expr, ops, root); } else { ops.push(Op::Val(Primitive::Empty), def.pos.clone()); } Self::translate_expr(*def.end, ops, root);" expect range_arm
//@   mutant range_hook_before_start "Self::translate_expr(*def.start, ops, root); ops.push(Op::Runtime(Hook::Range), def.pos);" => "ops.push(Op::Runtime(Hook::Range), def.pos); Self::translate_expr(*def.start, ops, root);" expect range_arm
//@   mutant range_default_step_missing "ops.push(Op::Val(Primitive::Empty), def.pos.clone());" => "" expect range_arm
//@   mutant range_wrong_hook "Op::Runtime(Hook::Range)" => "Op::Runtime(Hook::Map)" expect range_arm
//@ end

// `convert NAME expr`: the converter's name, the target, the hook
//@ extract src/build/opcode/translate.rs :: impl AST :: fn translate_expr :: arm "Expression::Convert(def) =>"
//@   wrap <<<
fn convert_arm(def: ConvertDef, ops: &mut OpsMap, root: &VPath)
$BODY
//@   >>>
//@   subst all "Self::translate_expr" => "translate_expr"
//@   sig <<<
        ensures bracketed_emits(*old(ops), *final(ops), Op::Val(Primitive::Str(def.converter.fragment)), *def.target, Op::Runtime(Hook::Convert))
//@   >>>
//@   mutant convert_wrong_hook "Op::Runtime(Hook::Convert)" => "Op::Runtime(Hook::Out)" expect convert_arm
//@   mutant convert_name_after_target "ops.push( Op::Val(Primitive::Str(def.converter.fragment)), def.converter.pos, ); Self::translate_expr(*def.target, ops, root);" => "Self::translate_expr(*def.target, ops, root); ops.push(Op::Val(Primitive::Str(def.converter.fragment)), def.converter.pos);" expect convert_arm
//@ end

// map / filter / reduce: function, [accumulator,] target, hook (runtime.rs pops target, [acc,] func)
pub open spec fn funcop2_emits(a: OpsMap, b: OpsMap, f: Expression, target: Expression, hook: Hook) -> bool {
    let n0 = a.ops@.len() as int;
    let n = b.ops@.len() as int;
    &&& appended(a, b)
    &&& exists|m: int| #[trigger] frag(f, n0, m) && code_at(f, b.ops@, n0, m) && code_at(target, b.ops@, m, n - 1)
    &&& b.ops@[n - 1] == Op::Runtime(hook)
}
pub open spec fn funcop3_emits(a: OpsMap, b: OpsMap, f: Expression, acc: Expression, target: Expression, hook: Hook) -> bool {
    let n0 = a.ops@.len() as int;
    let n = b.ops@.len() as int;
    &&& appended(a, b)
    &&& exists|m1: int, m2: int, m3: int| #![trigger frag(f, n0, m1), frag(target, m2, m3)]
            m3 == n - 1 && code_at(f, b.ops@, n0, m1) && code_at(acc, b.ops@, m1, m2) && code_at(target, b.ops@, m2, m3)
    &&& b.ops@[n - 1] == Op::Runtime(hook)
}
//@ extract src/build/opcode/translate.rs :: impl AST :: fn translate_expr :: arm "FuncOpDef::Map(def) =>"
//@   wrap <<<
fn map_arm(def: MapFilterOpDef, ops: &mut OpsMap, root: &VPath)
$BODY
//@   >>>
//@   subst all "Self::translate_expr" => "translate_expr"
//@   sig <<<
        ensures funcop2_emits(*old(ops), *final(ops), *def.func, *def.target, Hook::Map)
//@   >>>
//@   mutant map_is_filter "Op::Runtime(Hook::Map)" => "Op::Runtime(Hook::Filter)" expect map_arm
//@   mutant map_target_first "Self::translate_expr(*def.func, ops, root); Self::translate_expr(*def.target, ops, root);" => "Self::translate_expr(*def.target, ops, root); Self::translate_expr(*def.func, ops, root);" expect map_arm
//@ end
//@ extract src/build/opcode/translate.rs :: impl AST :: fn translate_expr :: arm "FuncOpDef::Filter(def) =>"
//@   wrap <<<
fn filter_arm(def: MapFilterOpDef, ops: &mut OpsMap, root: &VPath)
$BODY
//@   >>>
//@   subst all "Self::translate_expr" => "translate_expr"
//@   sig <<<
        ensures funcop2_emits(*old(ops), *final(ops), *def.func, *def.target, Hook::Filter)
//@   >>>
//@   mutant filter_is_map "Op::Runtime(Hook::Filter)" => "Op::Runtime(Hook::Map)" expect filter_arm
//@   mutant filter_target_first "Self::translate_expr(*def.func, ops, root); Self::translate_expr(*def.target, ops, root);" => "Self::translate_expr(*def.target, ops, root); Self::translate_expr(*def.func, ops, root);" expect filter_arm
//@ end
//@ extract src/build/opcode/translate.rs :: impl AST :: fn translate_expr :: arm "FuncOpDef::Reduce(def) =>"
//@   wrap <<<
fn reduce_arm(def: ReduceOpDef, ops: &mut OpsMap, root: &VPath)
$BODY
//@   >>>
//@   subst all "Self::translate_expr" => "translate_expr"
//@   sig <<<
        ensures funcop3_emits(*old(ops), *final(ops), *def.func, *def.acc, *def.target, Hook::Reduce)
//@   >>>
//@   mutant reduce_acc_target_swapped "Self::translate_expr(*def.acc, ops, root); Self::translate_expr(*def.target, ops, root);" => "Self::translate_expr(*def.target, ops, root); Self::translate_expr(*def.acc, ops, root);" expect reduce_arm
//@   mutant reduce_wrong_hook "Op::Runtime(Hook::Reduce)" => "Op::Runtime(Hook::Map)" expect reduce_arm
//@ end

// ---------- func ----------
// `func (a, b) => body`: an empty list, each parameter name appended to it (`Sym`, `Element`), then `Func(j)` at index i
// (vm.rs `op_func`: pops the name list, remembers i as the function's entry and jumps by j), the body's code,
// `Return`.  The jump must skip the body: i + j is the `Return`, execution continues behind it at the end.
pub open spec fn param_op(argdefs: Seq<(PositionedItem<Rc<str>>, Option<Expression>)>, r: int) -> Op {
    if r % 2 == 0 { Op::Sym(argdefs[r / 2].0.val) } else { Op::Element }
}
pub open spec fn func_emits(a: OpsMap, b: OpsMap, def: FuncDef) -> bool {
    let n0 = a.ops@.len() as int;
    let n = b.ops@.len() as int;
    let i = n0 + 1 + 2 * def.argdefs@.len();
    &&& appended(a, b)
    &&& b.ops@[n0] == Op::InitList
    &&& forall|q: int| n0 + 1 <= q < i ==> (#[trigger] b.ops@[q]) == param_op(def.argdefs@, q - (n0 + 1))
    &&& (b.ops@[i] matches Op::Func(j) && (small(b.ops@) ==> continues_at(i, j, n)))
    &&& code_at(*def.fields, b.ops@, i + 1, n - 1)
    &&& b.ops@[n - 1] == Op::Return
}
//@ extract src/build/opcode/translate.rs :: impl AST :: fn translate_expr :: arm "Expression::Func(def) =>"
//@   wrap <<<
fn func_arm(def: FuncDef, ops: &mut OpsMap, root: &VPath)
$BODY
//@   >>>
//@   subst all "Self::translate_expr" => "translate_expr"
//@   sig <<<
        ensures func_emits(*old(ops), *final(ops), def)
//@   >>>
//@   loop 1 iter it
//@   loop 1 <<<
                    invariant
                        it.seq() == def.argdefs@,
                        extends(*old(ops), *ops),
                        ops.ops@.len() == old(ops).ops@.len() + 1 + 2 * it.index@,
                        ops.ops@[old(ops).ops@.len() as int] == Op::InitList,
                        forall|q: int| old(ops).ops@.len() + 1 <= q < ops.ops@.len() ==>
                            (#[trigger] ops.ops@[q]) == param_op(def.argdefs@, q - (old(ops).ops@.len() + 1)),
//@   >>>
//@   mutant func_offset_plus_one "let jptr = ops.len() - 1 - idx;" => "let jptr = ops.len() - idx;" expect func_arm
//@   mutant func_offset_before_return "ops.push(Op::Return, def.pos); let jptr = ops.len() - 1 - idx;" => "let jptr = ops.len() - 1 - idx; ops.push(Op::Return, def.pos);" expect func_arm
//@   mutant func_no_return "ops.push(Op::Return, def.pos);" => "ops.push(Op::Noop, def.pos);" expect func_arm
//@   mutant func_param_order "ops.push(Op::Sym(b.val), b.pos.clone()); ops.push(Op::Element, b.pos);" => "ops.push(Op::Element, b.pos.clone()); ops.push(Op::Sym(b.val), b.pos);" expect func_arm
//@   mutant func_patches_wrong_slot "ops.replace(idx, Op::Func(jptr as i32));" => "ops.replace(idx - 1, Op::Func(jptr as i32));" expect func_arm
//@ end

// ---------- select ----------
// `select (val, default) => { k1 = e1, .. }` (reference: the field named by val, else the default, else a failure).
// code(val); then per case c, starting at st_c:  Sym(k_c) | SelectJump(j) | code(e_c) | Jump(j')
//   - vm_ctrl `op_select_jump`: on a match both the name and the searched value are popped and the case body runs;
//     otherwise the searched value stays and the jump is taken: it must continue at the NEXT case's `Sym`
//     (st_{c+1}), or behind the last case at the `Pop` that drops the searched value before the default;
//   - the `Jump` behind the body must continue behind the whole select (the end of the fragment);
// then `Pop`, then code(default), or - no default - a string and `Bang`.
// `js[c]` is the index of case c's exit jump (the translator's own `jumps` list).
pub open spec fn case_start(v: int, js: Seq<usize>, c: int) -> int { if c <= 0 { v } else { js[c - 1] + 1 } }
pub open spec fn increasing(js: Seq<usize>) -> bool {
    forall|c1: int, c2: int| 0 <= c1 < c2 < js.len() ==> js[c1] < js[c2]
}
// case c occupies s[st ..= e]; the first `patched` exit jumps have been filled in, the others are still `Noop`
pub open spec fn case_ok(cases: Seq<(Token, Option<Expression>, Expression)>, s: Seq<Op>, v: int, st: int, e: int, c: int, patched: int) -> bool {
    &&& 0 <= v <= st && st + 2 < e < s.len()
    &&& s[st] == Op::Sym(cases[c].0.fragment)
    &&& (s[st + 1] matches Op::SelectJump(j) && (small(s) ==> continues_at(st + 1, j, e + 1)))
    &&& code_at(cases[c].2, s, st + 2, e)
    &&& if c < patched { s[e] matches Op::Jump(j) && (small(s) ==> continues_at(e, j, s.len() as int)) } else { s[e] == Op::Noop }
}
// after `done` cases (first loop)
pub open spec fn select_cases(def: SelectDef, s: Seq<Op>, n0: int, v: int, js: Seq<usize>, done: int) -> bool {
    let cases = def.tuple@;
    &&& js.len() == done && 0 <= done <= cases.len()
    &&& code_at(*def.val, s, n0, v)
    &&& increasing(js)
    &&& forall|c: int| 0 <= c < done && #[trigger] case_no(c) ==> case_ok(cases, s, v, case_start(v, js, c), js[c] as int, c, 0)
    &&& v <= s.len() == case_start(v, js, done)
}
// the whole select, with the first `patched` exit jumps filled in
pub open spec fn select_layout(def: SelectDef, s: Seq<Op>, n0: int, v: int, js: Seq<usize>, patched: int) -> bool {
    let cases = def.tuple@;
    let p = case_start(v, js, cases.len() as int);
    let n = s.len() as int;
    &&& js.len() == cases.len() && 0 <= patched <= cases.len()
    &&& code_at(*def.val, s, n0, v)
    &&& increasing(js)
    &&& forall|c: int| 0 <= c < cases.len() && #[trigger] case_no(c) ==> case_ok(cases, s, v, case_start(v, js, c), js[c] as int, c, patched)
    &&& v <= p < n && s[p] == Op::Pop
    &&& match def.default {
            Some(d) => code_at(*d, s, p + 1, n),
            None => n == p + 3 && (s[p + 1] matches Op::Val(Primitive::Str(_))) && s[p + 2] == Op::Bang,
        }
}
pub open spec fn select_emits(a: OpsMap, b: OpsMap, def: SelectDef) -> bool {
    &&& appended(a, b)
    &&& exists|v: int, js: Seq<usize>| #[trigger] select_layout(def, b.ops@, a.ops@.len() as int, v, js, def.tuple@.len() as int)
}
//@ extract src/build/opcode/translate.rs :: impl AST :: fn translate_expr :: arm "Expression::Select(def) =>"
//@   wrap <<<
fn select_arm(def: SelectDef, ops: &mut OpsMap, root: &VPath)
$BODY
//@   >>>
//@   subst all "Self::translate_expr" => "translate_expr"
//@   sig <<<
        ensures select_emits(*old(ops), *final(ops), def)
//@   >>>
//@   loop 1 iter it
//@   loop 1 <<<
                    invariant
                        it.seq() == def.tuple@,
                        appended(*old(ops), *ops),
                        exists|v: int| #[trigger] frag(*def.val, old(ops).ops@.len() as int, v)
                            && select_cases(def, ops.ops@, old(ops).ops@.len() as int, v, jumps@, it.index@),
//@   >>>
//@   loop 2 iter it2
//@   loop 2 <<<
                    invariant
                        it2.seq() == jumps@,
                        appended(*old(ops), *ops),
                        end + 1 == ops.ops@.len(),
                        case_no(it2.index@),    // (true) makes the prover look at the case whose jump is patched next
                        exists|v: int| #[trigger] frag(*def.val, old(ops).ops@.len() as int, v)
                            && select_layout(def, ops.ops@, old(ops).ops@.len() as int, v, jumps@, it2.index@),
//@   >>>
//@   mutant select_next_case_offset_plus_one "let jptr = ops.len() - idx - 1;" => "let jptr = ops.len() - idx;" expect select_arm
//@   mutant select_next_case_lands_on_exit_jump "let jptr = ops.len() - idx - 1;" => "let jptr = ops.len() - idx - 2;" expect select_arm
//@   mutant select_exit_offset_plus_one "let idx = end - i;" => "let idx = end - i + 1;" expect select_arm
//@   mutant select_exit_from_start "let idx = end - i;" => "let idx = end;" expect select_arm
//@   mutant select_exit_slot_off "jumps.push(ops.len() - 1);" => "jumps.push(ops.len() - 2);" expect select_arm
//@   mutant select_value_not_dropped "ops.push(Op::Pop, def.pos.clone());" => "" expect select_arm
//@   mutant select_name_after_test "ops.push(Op::Sym(key.fragment), key.pos.clone()); ops.push(Op::Noop, key.pos);" => "ops.push(Op::Noop, key.pos.clone()); ops.push(Op::Sym(key.fragment), key.pos);" expect select_arm
//@   mutant select_exit_conditional "ops.replace(i, Op::Jump(idx as i32));" => "ops.replace(i, Op::JumpIfTrue(idx as i32));" expect select_arm
//@   mutant select_default_before_cases "Self::translate_expr(*default, ops, root);" => "ops.push(Op::Noop, def.pos.clone()); Self::translate_expr(*default, ops, root);" expect select_arm
//@ end

// ---------- format string with a single argument:  "..@{item.x}.." % expr ----------
//@ include prelude/translate_ops_fmt.rs

// vm.rs `op_new_scope`: `NewScope(j)` at index i runs the ops behind it in a child VM (a snapshot of the current
// bindings) up to the `Return`, takes that VM's result and jumps by j: i + j must be the `Return`, so that
// execution continues behind it.  Inside the scope `item` is bound to the argument with `BindOver` - the reference
// gives `item` this meaning whatever else it names outside, so the strict `Bind` (an error if `item` is already
// bound) would be wrong - and the rendered template pieces follow.  A template that does not parse compiles to a
// failure: a message and `Bang`.
pub open spec fn format_single_emits(a: OpsMap, b: OpsMap, def: FormatDef, expr: Expression) -> bool {
    let n0 = a.ops@.len() as int;
    let n = b.ops@.len() as int;
    &&& appended(a, b)
    &&& if !expr_template_ok(def.template@) {
            n == n0 + 2 && (b.ops@[n0] matches Op::Val(Primitive::Str(_))) && b.ops@[n0 + 1] == Op::Bang
        } else {
            &&& (b.ops@[n0] matches Op::NewScope(j) && (small(b.ops@) ==> continues_at(n0, j, n)))
            &&& (b.ops@[n0 + 1] matches Op::Sym(s) && s@ == "item"@)
            &&& exists|a1: int, m: int| #[trigger] frag(expr, a1, m) && a1 == n0 + 2 && code_at(expr, b.ops@, a1, m)
                    && b.ops@[m] == Op::BindOver && m + 1 < n - 1
            &&& b.ops@[n - 1] == Op::Return
        }
}
// what the loop over the template pieces must keep intact
pub open spec fn format_single_head(a: OpsMap, s: Seq<Op>, expr: Expression) -> bool {
    let n0 = a.ops@.len() as int;
    &&& s[n0] == Op::Noop
    &&& (s[n0 + 1] matches Op::Sym(t) && t@ == "item"@)
    &&& exists|a1: int, m: int| #[trigger] frag(expr, a1, m) && a1 == n0 + 2 && code_at(expr, s, a1, m)
            && s[m] == Op::BindOver && m + 1 < s.len()
}
//@ extract src/build/opcode/translate.rs :: impl AST :: fn translate_expr :: arm "FormatArgs::Single(expr) =>"
//@   wrap <<<
fn format_single_arm(def: FormatDef, expr: Box<Expression>, ops: &mut OpsMap, root: &VPath)
$BODY
//@   >>>
//@   rule R1
//@   subst "let mut parts_iter = parts.drain(0..);" => "let mut parts_iter = verif_drain_all(&mut parts);"
//@   subst "let mut elems = Vec::new();" => "let mut elems: Vec<Expression> = Vec::new();"
//@   subst "let mut elems_iter = elems.drain(0..);" => "let mut elems_iter = verif_drain_all(&mut elems);"
//@   subst "for p in parts_iter {" => "while let Some(p) = parts_iter.next() {"
//@   subst all "Self::translate_template_part" => "translate_template_part"
//@   subst all "Self::translate_expr" => "translate_expr"
//@   subst all ".into()" => ".vinto()"
//@   subst all "verif_msg()" => "verif_msg().vinto()"
//@   sig <<<
        ensures format_single_emits(*old(ops), *final(ops), def, *expr)
//@   >>>
//@   loop 1 <<<
                            invariant
                                no_ph_parts(parts_iter.rest@),
                                appended(*old(ops), *ops),
                                scope_idx == old(ops).ops@.len(),
                                format_single_head(*old(ops), ops.ops@, *expr),
                            decreases parts_iter.rest@.len()
//@   >>>
//@   mutant fmt_scope_offset_plus_one "let jump_idx = (ops.len() - 1 - scope_idx) as i32;" => "let jump_idx = (ops.len() - scope_idx) as i32;" expect format_single_arm
//@   mutant fmt_scope_offset_before_return "ops.push(Op::Return, expr_pos); let jump_idx = (ops.len() - 1 - scope_idx) as i32;" => "let jump_idx = (ops.len() - 1 - scope_idx) as i32; ops.push(Op::Return, expr_pos);" expect format_single_arm
//@   mutant fmt_item_strict_bind "ops.push(Op::BindOver, expr_pos.clone());" => "ops.push(Op::Bind, expr_pos.clone());" expect format_single_arm
//@   mutant fmt_item_sym_after_value "ops.push(Op::Sym(\"item\".into()), expr.pos().clone()); Self::translate_expr(*expr, ops, root);" => "let item_pos = expr.pos().clone(); Self::translate_expr(*expr, ops, root); ops.push(Op::Sym(\"item\".into()), item_pos);" expect format_single_arm
//@   mutant fmt_wrong_scope_op "ops.replace(scope_idx, Op::NewScope(jump_idx));" => "ops.replace(scope_idx, Op::Jump(jump_idx));" expect format_single_arm
//@ end

// ---------- module ----------
// AST::translate_stmts (R8) - ASSUMED: it only appends (possibly nothing); labelled like an expression's code.
pub uninterp spec fn stmts_frag(st: Vec<Statement>, a: int, b: int) -> bool;
pub uninterp spec fn stmts_op_at(st: Vec<Statement>, a: int, b: int, k: int, op: Op) -> bool;
pub open spec fn stmts_code_at(st: Vec<Statement>, s: Seq<Op>, a: int, b: int) -> bool {
    &&& stmts_frag(st, a, b)
    &&& 0 <= a <= b <= s.len()
    &&& forall|k: int| a <= k < b ==> stmts_op_at(st, a, b, k, #[trigger] s[k])
}
#[verifier::external_body]
fn translate_stmts(stmts: Vec<Statement>, ops: &mut OpsMap, root: &VPath)
    ensures
        extends(*old(ops), *final(ops)),
        stmts_code_at(stmts, final(ops).ops@, old(ops).ops@.len() as int, final(ops).ops@.len() as int),
{ unimplemented!() }

// `module { params } => (out) { statements }`:
//   InitTuple, then per parameter  Sym(name) | code(default) | Field  (the parameter tuple);
//   with an out expression: InitThunk(j) | code(out) | Return - vm.rs `op_thunk` pushes the thunk's own index (the
//     module later runs the out expression from there up to that `Return`) and jumps: it must continue exactly at
//     the `Module` op;
//   Module(j) | Bind | code(statements) | Return - vm.rs `op_module` records its own index as the module's entry (a
//     module instance runs from the `Bind`, which binds `mod`, to the `Return`) and jumps: it must continue behind the
//     `Return`, the end of the fragment.
// `bs[c]` is the index behind parameter c's `Field` (see `fields_at`).
pub open spec fn module_tail(def: ModuleDef, s: Seq<Op>, t1: int) -> bool {
    let n = s.len() as int;
    &&& 0 <= t1 && t1 + 2 < n
    &&& (s[t1] matches Op::Module(j) && (small(s) ==> continues_at(t1, j, n)))
    &&& s[t1 + 1] == Op::Bind
    &&& stmts_code_at(def.statements, s, t1 + 2, n - 1)
    &&& s[n - 1] == Op::Return
}
pub open spec fn module_emits(a: OpsMap, b: OpsMap, def: ModuleDef) -> bool {
    let n0 = a.ops@.len() as int;
    let s = b.ops@;
    &&& appended(a, b)
    &&& s[n0] == Op::InitTuple
    &&& exists|bs: Seq<int>| #[trigger] ends(bs) && fields_at(def.arg_set@, s, n0 + 1, bs, def.arg_set@.len() as int) && {
            let t0 = seg_start(n0 + 1, bs, def.arg_set@.len() as int);
            match def.out_expr {
                None => module_tail(def, s, t0),
                Some(e) => exists|a1: int, m: int| #[trigger] frag(*e, a1, m) && a1 == t0 + 1
                    && (s[t0] matches Op::InitThunk(j) && (small(s) ==> continues_at(t0, j, m + 1)))
                    && code_at(*e, s, a1, m) && s[m] == Op::Return && module_tail(def, s, m + 1),
            }
        }
}
//@ extract src/build/opcode/translate.rs :: impl AST :: fn translate_expr :: arm "Expression::Module(def) =>"
//@   wrap <<<
fn module_arm(def: ModuleDef, ops: &mut OpsMap, root: &VPath)
{
    let ghost mut bs: Seq<int> = Seq::empty();      // ghost: where each parameter's ops end
$BODY
}
//@   >>>
//@   subst all "Self::translate_expr" => "translate_expr"
//@   subst all "Self::translate_stmts" => "translate_stmts"
//@   sig <<<
        ensures module_emits(*old(ops), *final(ops), def)
//@   >>>
//@   loop 1 iter it
//@   loop 1 <<<
                    invariant
                        it.seq() == def.arg_set@,
                        appended(*old(ops), *ops),
                        ops.ops@[old(ops).ops@.len() as int] == Op::InitTuple,
                        ends(bs),
                        fields_at(def.arg_set@, ops.ops@, (old(ops).ops@.len() + 1) as int, bs, it.index@),
                        ops.ops@.len() == seg_start((old(ops).ops@.len() + 1) as int, bs, it.index@),
//@   >>>
//@   after "ops.push(Op::Field, t.pos);" <<<
                    proof { bs = bs.push(ops.ops@.len() as int); }
//@   >>>
//@   mutant module_offset_plus_one "let jptr = ops.len() - idx - 1; ops.replace(idx, Op::Module(jptr as i32));" => "let jptr = ops.len() - idx; ops.replace(idx, Op::Module(jptr as i32));" expect module_arm
//@   mutant module_thunk_offset_short "let jptr = ops.len() - idx - 1; ops.replace(idx, Op::InitThunk(jptr as i32));" => "let jptr = ops.len() - idx - 2; ops.replace(idx, Op::InitThunk(jptr as i32));" expect module_arm
//@   mutant module_thunk_behind_module "ops.replace(idx, Op::InitThunk(jptr as i32)); } ops.push(Op::Noop, def.pos.clone()); let idx = ops.len() - 1;" => "ops.replace(idx, Op::InitThunk(jptr as i32)); } let idx = ops.len() - 1; ops.push(Op::Noop, def.pos.clone());" expect module_arm
//@   mutant module_mod_not_bound "ops.push(Op::Bind, def.pos.clone()); Self::translate_stmts" => "ops.push(Op::Pop, def.pos.clone()); Self::translate_stmts" expect module_arm
//@   mutant module_out_no_return "ops.push(Op::Return, expr_pos.clone());" => "ops.push(Op::Noop, expr_pos.clone());" expect module_arm
//@   mutant module_param_field_before_value "Self::translate_expr(e, ops, root); ops.push(Op::Field, t.pos);" => "ops.push(Op::Field, t.pos); Self::translate_expr(e, ops, root);" expect module_arm
//@ end

// ---------- include / import (no operands) ----------
// exactly three ops: the importer's name, the path (on top), the hook (runtime.rs `include` pops path, then type)
pub open spec fn include_emits(a: OpsMap, b: OpsMap, def: IncludeDef) -> bool {
    let n0 = a.ops@.len() as int;
    &&& appended(a, b)
    &&& b.ops@.len() == n0 + 3
    &&& b.ops@[n0] == Op::Val(Primitive::Str(def.typ.fragment))
    &&& b.ops@[n0 + 1] == Op::Val(Primitive::Str(def.path.fragment))
    &&& b.ops@[n0 + 2] == Op::Runtime(Hook::Include)
}
//@ extract src/build/opcode/translate.rs :: impl AST :: fn translate_expr :: arm "Expression::Include(def) =>"
//@   wrap <<<
fn include_arm(def: IncludeDef, ops: &mut OpsMap, root: &VPath)
$BODY
//@   >>>
//@   sig <<<
        ensures include_emits(*old(ops), *final(ops), def)
//@   >>>
//@   mutant include_type_path_swapped "ops.push(Op::Val(Primitive::Str(def.typ.fragment)), def.typ.pos); ops.push(Op::Val(Primitive::Str(def.path.fragment)), def.path.pos);" => "ops.push(Op::Val(Primitive::Str(def.path.fragment)), def.path.pos); ops.push(Op::Val(Primitive::Str(def.typ.fragment)), def.typ.pos);" expect include_arm
//@   mutant include_wrong_hook "Op::Runtime(Hook::Include)" => "Op::Runtime(Hook::Import)" expect include_arm
//@ end

// OpsMap::add_link records the import for the link table (a BTreeMap, opaque here - R5); ASSUMED: it touches nothing else.
//@ extract src/build/opcode/translate.rs :: impl OpsMap :: fn add_link
//@   opaque_body
//@   sig <<<
        ensures final(self).ops == old(self).ops, final(self).pos == old(self).pos, final(self).shape_map == old(self).shape_map
//@   >>>
//@ end
pub open spec fn import_emits(a: OpsMap, b: OpsMap, def: ImportDef) -> bool {
    let n0 = a.ops@.len() as int;
    &&& appended(a, b)
    &&& b.ops@.len() == n0 + 2
    &&& b.ops@[n0] == Op::Val(Primitive::Str(def.path.fragment))
    &&& b.ops@[n0 + 1] == Op::Runtime(Hook::Import)
}
//@ extract src/build/opcode/translate.rs :: impl AST :: fn translate_expr :: arm "Expression::Import(def) =>"
//@   wrap <<<
fn import_arm(def: ImportDef, ops: &mut OpsMap, root: &VPath)
$BODY
//@   >>>
//@   sig <<<
        ensures import_emits(*old(ops), *final(ops), def)
//@   >>>
//@   mutant import_wrong_hook "Op::Runtime(Hook::Import)" => "Op::Runtime(Hook::Include)" expect import_arm
//@   mutant import_no_path "ops.push(Op::Val(Primitive::Str(def.path.fragment)), def.path.pos);" => "ops.push(Op::Val(Primitive::Empty), def.path.pos);" expect import_arm
//@ end

// ---------- statements ----------
// `let name [:: constraint] = value;` (reference: "Any collisions in binding names inside a file are treated as compile
// errors. Bindings are immutable and once bound they can't be modified."):  Sym(name), code(value),
// [code(constraint), CheckConstraint (vm.rs: pops the constraint, leaves the value),] and the STRICT `Bind`
// (vm.rs `op_bind(true)`: an existing binding is an error), never `BindOver`.
pub open spec fn let_emits(a: OpsMap, b: OpsMap, def: LetDef) -> bool {
    let n0 = a.ops@.len() as int;
    let n = b.ops@.len() as int;
    &&& appended(a, b)
    &&& b.ops@[n0] == Op::Sym(def.name.fragment)
    &&& exists|a1: int, m: int| #[trigger] frag(def.value, a1, m) && a1 == n0 + 1 && code_at(def.value, b.ops@, a1, m)
            && (match def.constraint {
                    Some(c) => code_at(c, b.ops@, m, n - 2) && b.ops@[n - 2] == Op::CheckConstraint,
                    None => m == n - 1,
               })
    &&& b.ops@[n - 1] == Op::Bind
}
// `constraint name = expr;`: the name is first bound STRICTLY (so a collision with an existing binding is an error,
// as for `let`) to an empty constraint, then the value is evaluated (it may refer to the name) and only this
// statement's own pre-binding is overwritten with `BindOver`.
pub open spec fn constraint_stmt_emits(a: OpsMap, b: OpsMap, def: ConstraintBindingDef) -> bool {
    let n0 = a.ops@.len() as int;
    let n = b.ops@.len() as int;
    &&& appended(a, b)
    &&& b.ops@[n0] == Op::Sym(def.name.fragment)
    &&& (b.ops@[n0 + 1] matches Op::BuildConstraint(arms) && arms@.len() == 0)
    &&& b.ops@[n0 + 2] == Op::Bind
    &&& b.ops@[n0 + 3] == Op::Sym(def.name.fragment)
    &&& code_at(def.value, b.ops@, n0 + 4, n - 1)
    &&& b.ops@[n - 1] == Op::BindOver
}
// The whole statement translator: which layout each kind of statement gets.
//   expression statement: the value is computed and dropped (`Pop`);  assert: the value, then the assert hook;
//   out: the converter's name, the value, the out hook.
//@ extract src/build/opcode/translate.rs :: impl AST :: fn translate_stmt
//@   no_impl
//@   subst "root: &Path" => "root: &VPath"
//@   subst all "Self::translate_expr" => "translate_expr"
//@   sig <<<
        ensures
            match stmt {
                Statement::Expression(e) => unary_emits(*old(ops), *final(ops), e, seq![Op::Pop]),
                Statement::Assert(_, e) => unary_emits(*old(ops), *final(ops), e, seq![Op::Runtime(Hook::Assert)]),
                Statement::Let(def) => let_emits(*old(ops), *final(ops), *def),
                Statement::Constraint(def) => constraint_stmt_emits(*old(ops), *final(ops), def),
                Statement::Output(_, tok, e) => bracketed_emits(*old(ops), *final(ops), Op::Val(Primitive::Str(tok.fragment)), e, Op::Runtime(Hook::Out)),
            },
//@   >>>
//@   mutant let_bind_over "ops.push(Op::Bind, def.pos);" => "ops.push(Op::BindOver, def.pos);" expect translate_stmt
//@   mutant let_value_before_name "ops.push(Op::Sym(binding), def.name.pos); Self::translate_expr(def.value, ops, root); if" => "Self::translate_expr(def.value, ops, root); ops.push(Op::Sym(binding), def.name.pos); if" expect translate_stmt
//@   mutant let_constraint_unchecked "ops.push(Op::CheckConstraint, def.pos.clone());" => "" expect translate_stmt
//@   mutant let_check_after_bind "ops.push(Op::CheckConstraint, def.pos.clone()); } ops.push(Op::Bind, def.pos);" => "ops.push(Op::Bind, def.pos.clone()); ops.push(Op::CheckConstraint, def.pos); return; } ops.push(Op::Bind, def.pos);" expect translate_stmt
//@   mutant constraint_prebind_over "ops.push(Op::Bind, def.pos.clone());" => "ops.push(Op::BindOver, def.pos.clone());" expect translate_stmt
//@   mutant constraint_rebind_strict "ops.push(Op::BindOver, def.pos);" => "ops.push(Op::Bind, def.pos);" expect translate_stmt
//@   mutant stmt_expr_not_popped "ops.push(Op::Pop, expr_pos);" => "ops.push(Op::Noop, expr_pos);" expect translate_stmt
//@   mutant stmt_assert_wrong_hook "Op::Runtime(Hook::Assert)" => "Op::Runtime(Hook::Out)" expect translate_stmt
//@   mutant stmt_out_wrong_hook "Op::Runtime(Hook::Out)" => "Op::Runtime(Hook::Convert)" expect translate_stmt
//@   mutant stmt_out_name_after_value "ops.push(Op::Val(Primitive::Str(tok.fragment)), tok.pos); Self::translate_expr(expr, ops, root);" => "Self::translate_expr(expr, ops, root); ops.push(Op::Val(Primitive::Str(tok.fragment)), tok.pos);" expect translate_stmt
//@ end

// ---------- values, copy, call, selector ----------
// A literal is one `Val`, a name one `DeRef`; a tuple literal is InitTuple and its fields, a list literal InitList and
// its elements each followed by `Element`.
pub open spec fn value_code_at(v: Value, s: Seq<Op>, a: int, b: int) -> bool {
    &&& 0 <= a < b <= s.len()
    &&& match v {
            Value::Int(x) => b == a + 1 && s[a] == Op::Val(Primitive::Int(x.val)),
            Value::Float(x) => b == a + 1 && s[a] == Op::Val(Primitive::Float(x.val)),
            Value::Str(x) => b == a + 1 && s[a] == Op::Val(Primitive::Str(x.val)),
            Value::Empty(_) => b == a + 1 && s[a] == Op::Val(Primitive::Empty),
            Value::Boolean(x) => b == a + 1 && s[a] == Op::Val(Primitive::Bool(x.val)),
            Value::Symbol(x) => b == a + 1 && s[a] == Op::DeRef(x.val),
            Value::Tuple(flds) => s[a] == Op::InitTuple
                && exists|bs: Seq<int>| #[trigger] ends(bs) && fields_at(flds.val@, s, a + 1, bs, flds.val@.len() as int)
                        && seg_start(a + 1, bs, flds.val@.len() as int) == b,
            Value::List(def) => s[a] == Op::InitList
                && exists|bs: Seq<int>| #[trigger] ends(bs) && exprs_at(def.elems@, s, a + 1, bs, def.elems@.len() as int, true)
                        && seg_start(a + 1, bs, def.elems@.len() as int) == b,
        }
}
//@ extract src/build/opcode/translate.rs :: impl AST :: fn translate_value
//@   no_impl
//@   subst "root: &Path" => "root: &VPath"
//@   subst all "Self::translate_expr" => "translate_expr"
//@   sig <<<
        ensures
            appended(*old(ops), *final(ops)),
            at(final(ops).ops@.len() as int),
            value_code_at(value, final(ops).ops@, old(ops).ops@.len() as int, final(ops).ops@.len() as int),
//@   >>>
//@   body_start <<<
        let ghost mut bs: Seq<int> = Seq::empty();      // ghost: where each field's / element's ops end
//@   >>>
//@   loop 1 iter it
//@   loop 1 <<<
                    invariant
                        it.seq() == flds.val@,
                        appended(*old(ops), *ops),
                        ops.ops@[old(ops).ops@.len() as int] == Op::InitTuple,
                        ends(bs),
                        fields_at(flds.val@, ops.ops@, (old(ops).ops@.len() + 1) as int, bs, it.index@),
                        ops.ops@.len() == seg_start((old(ops).ops@.len() + 1) as int, bs, it.index@),
//@   >>>
//@   after "ops.push(Op::Field, k.pos.clone());" <<<
                    proof { bs = bs.push(ops.ops@.len() as int); }
//@   >>>
//@   loop 2 iter it
//@   loop 2 <<<
                    invariant
                        it.seq() == els.elems@,
                        appended(*old(ops), *ops),
                        ops.ops@[old(ops).ops@.len() as int] == Op::InitList,
                        ends(bs),
                        exprs_at(els.elems@, ops.ops@, (old(ops).ops@.len() + 1) as int, bs, it.index@, true),
                        ops.ops@.len() == seg_start((old(ops).ops@.len() + 1) as int, bs, it.index@),
//@   >>>
//@   after "ops.push(Op::Element, el_pos);" <<<
                    proof { bs = bs.push(ops.ops@.len() as int); }
//@   >>>
//@   mutant value_symbol_as_string "ops.push(Op::DeRef(s.val), s.pos);" => "ops.push(Op::Val(Primitive::Str(s.val)), s.pos);" expect translate_value
//@   mutant value_tuple_field_before_value "Self::translate_expr(v, ops, root); ops.push(Op::Field, k.pos.clone());" => "ops.push(Op::Field, k.pos.clone()); Self::translate_expr(v, ops, root);" expect translate_value
//@   mutant value_list_element_before_value "Self::translate_expr(el, ops, root); ops.push(Op::Element, el_pos);" => "ops.push(Op::Element, el_pos); Self::translate_expr(el, ops, root);" expect translate_value
//@   mutant value_list_is_tuple "ops.push(Op::InitList, els.pos);" => "ops.push(Op::InitTuple, els.pos);" expect translate_value
//@   mutant value_tuple_is_list "ops.push(Op::InitTuple, flds.pos);" => "ops.push(Op::InitList, flds.pos);" expect translate_value
//@ end

// `base{ f = e, .. }` behind the base's code: PushSelf (the base becomes `self`), InitTuple and the override fields,
// Cp (vm.rs `op_copy` pops the overrides and the base), PopSelf.
pub open spec fn copy_code_at(flds: Seq<(Token, Option<Expression>, Expression)>, s: Seq<Op>, a: int, b: int) -> bool {
    &&& 0 <= a && a + 4 <= b <= s.len()
    &&& s[a] == Op::PushSelf
    &&& s[a + 1] == Op::InitTuple
    &&& exists|bs: Seq<int>| #[trigger] ends(bs) && fields_at(flds, s, a + 2, bs, flds.len() as int) && seg_start(a + 2, bs, flds.len() as int) == b - 2
    &&& s[b - 2] == Op::Cp
    &&& s[b - 1] == Op::PopSelf
}
//@ extract src/build/opcode/translate.rs :: impl AST :: fn translate_copy
//@   no_impl
//@   subst "root: &Path" => "root: &VPath"
//@   subst all "Self::translate_expr" => "translate_expr"
//@   sig <<<
        ensures
            appended(*old(ops), *final(ops)),
            at(final(ops).ops@.len() as int),
            copy_code_at(flds@, final(ops).ops@, old(ops).ops@.len() as int, final(ops).ops@.len() as int),
//@   >>>
//@   body_start <<<
        let ghost mut bs: Seq<int> = Seq::empty();      // ghost: where each field's ops end
//@   >>>
//@   loop 1 iter it
//@   loop 1 <<<
            invariant
                it.seq() == flds@,
                appended(*old(ops), *ops),
                ops.ops@[old(ops).ops@.len() as int] == Op::PushSelf,
                ops.ops@[(old(ops).ops@.len() + 1) as int] == Op::InitTuple,
                ends(bs),
                fields_at(flds@, ops.ops@, (old(ops).ops@.len() + 2) as int, bs, it.index@),
                ops.ops@.len() == seg_start((old(ops).ops@.len() + 2) as int, bs, it.index@),
//@   >>>
//@   after "ops.push(Op::Field, t.pos.clone());" <<<
            proof { bs = bs.push(ops.ops@.len() as int); }
//@   >>>
//@   mutant copy_no_self "ops.push(Op::PushSelf, pos.clone());" => "ops.push(Op::Noop, pos.clone());" expect translate_copy
//@   mutant copy_popself_before_cp "ops.push(Op::Cp, pos.clone()); ops.push(Op::PopSelf, pos);" => "ops.push(Op::PopSelf, pos.clone()); ops.push(Op::Cp, pos);" expect translate_copy
//@   mutant copy_name_after_value "ops.push(Op::Sym(t.fragment), t.pos.clone()); Self::translate_expr(e, ops, root);" => "Self::translate_expr(e, ops, root); ops.push(Op::Sym(t.fragment), t.pos.clone());" expect translate_copy
//@ end

//@ extract src/build/opcode/translate.rs :: impl AST :: fn translate_expr :: arm "Expression::Simple(v) =>"
//@   wrap <<<
fn simple_arm(v: Value, ops: &mut OpsMap, root: &VPath)
$BODY
//@   >>>
//@   subst all "Self::translate_value" => "translate_value"
//@   sig <<<
        ensures appended(*old(ops), *final(ops)),
            value_code_at(v, final(ops).ops@, old(ops).ops@.len() as int, final(ops).ops@.len() as int),
//@   >>>
//@ end

// `base{..}`: the base's code, then the copy
//@ extract src/build/opcode/translate.rs :: impl AST :: fn translate_expr :: arm "Expression::Copy(def) =>"
//@   wrap <<<
fn copy_arm(def: CopyDef, ops: &mut OpsMap, root: &VPath)
$BODY
//@   >>>
//@   subst all "Self::translate_value" => "translate_value"
//@   subst all "Self::translate_copy" => "translate_copy"
//@   sig <<<
        ensures appended(*old(ops), *final(ops)),
            exists|m: int| #[trigger] at(m) && value_code_at(def.selector, final(ops).ops@, old(ops).ops@.len() as int, m)
                && copy_code_at(def.fields@, final(ops).ops@, m, final(ops).ops@.len() as int),
//@   >>>
//@   mutant copy_base_after_fields "Self::translate_value(def.selector, ops, root); Self::translate_copy(ops, def.fields, def.pos, root);" => "Self::translate_copy(ops, def.fields, def.pos.clone(), root); Self::translate_value(def.selector, ops, root);" expect copy_arm
//@ end

// `f(a, b)`: the arguments' code in order, the argument count, the function, FCall (vm.rs `op_fcall` pops the function,
// then the count; `fcall_impl` pops the arguments last to first).
pub open spec fn call_emits(a: OpsMap, b: OpsMap, def: CallDef) -> bool {
    let n0 = a.ops@.len() as int;
    let n = b.ops@.len() as int;
    let s = b.ops@;
    let argc = def.arglist@.len() as int;
    &&& appended(a, b)
    &&& exists|bs: Seq<int>| #[trigger] ends(bs) && exprs_at(def.arglist@, s, n0, bs, argc, false) && {
            let t = seg_start(n0, bs, argc);
            &&& s[t] == Op::Val(Primitive::Int(argc as i64))
            &&& value_code_at(def.funcref, s, t + 1, n - 1)
        }
    &&& s[n - 1] == Op::FCall
}
//@ extract src/build/opcode/translate.rs :: impl AST :: fn translate_expr :: arm "} } Expression::Call(call_def) =>"
//@   wrap <<<
fn call_arm(call_def: CallDef, ops: &mut OpsMap, root: &VPath)
{
    let ghost mut bs: Seq<int> = Seq::empty();      // ghost: where each argument's ops end
    proof { axiom_vec_len_isize(&call_def.arglist); }
$BODY
}
//@   >>>
//@   subst all "Self::translate_expr" => "translate_expr"
//@   subst all "Self::translate_value" => "translate_value"
//@   sig <<<
        ensures call_emits(*old(ops), *final(ops), call_def)
//@   >>>
//@   loop 1 iter it
//@   loop 1 <<<
                    invariant
                        it.seq() == call_def.arglist@,
                        extends(*old(ops), *ops),
                        ends(bs),
                        exprs_at(call_def.arglist@, ops.ops@, old(ops).ops@.len() as int, bs, it.index@, false),
                        ops.ops@.len() == seg_start(old(ops).ops@.len() as int, bs, it.index@),
//@   >>>
//@   after "translate_expr(e, ops, root);" <<<
                    proof { bs = bs.push(ops.ops@.len() as int); }
//@   >>>
//@   mutant call_count_after_func "ops.push(Op::Val(Primitive::Int(count)), call_def.pos.clone());" => "" expect call_arm
//@   mutant call_count_off_by_one "let count = call_def.arglist.len() as i64;" => "let count = call_def.arglist.len() as i64 + 1;" expect call_arm
//@   mutant call_no_fcall "ops.push(Op::FCall, func_pos);" => "ops.push(Op::Noop, func_pos);" expect call_arm
//@ end

// ---------- selector `left.right` ----------
// vm.rs `op_index` pops the index (top), then the indexed value: code(left), then the selector, then `Index`.
// A bare word on the right is a field NAME (a string), not a variable.  `left.f{..}` indexes, then copies;
// `left.f(args)` pushes the arguments and their count first, then indexes, then calls.
pub open spec fn sel_ok(v: Value) -> bool { v is Str || v is Symbol || v is Int }
pub open spec fn sel_op(v: Value) -> Op {
    match v {
        Value::Str(x) => Op::Val(Primitive::Str(x.val)),
        Value::Symbol(x) => Op::Val(Primitive::Str(x.val)),
        Value::Int(x) => Op::Val(Primitive::Int(x.val)),
        _ => Op::Noop,
    }
}
pub open spec fn dot_emits(a: OpsMap, b: OpsMap, def: BinaryOpDef) -> bool {
    let n0 = a.ops@.len() as int;
    let n = b.ops@.len() as int;
    let s = b.ops@;
    &&& appended(a, b)
    &&& match *def.right {
            Expression::Copy(cd) => exists|m: int| #[trigger] frag(*def.left, n0, m) && code_at(*def.left, s, n0, m)
                && s[m] == sel_op(cd.selector) && s[m + 1] == Op::Index && copy_code_at(cd.fields@, s, m + 2, n),
            Expression::Call(cd) => exists|bs: Seq<int>| #[trigger] ends(bs) && exprs_at(cd.arglist@, s, n0, bs, cd.arglist@.len() as int, false) && {
                    let t = seg_start(n0, bs, cd.arglist@.len() as int);
                    &&& s[t] == Op::Val(Primitive::Int(cd.arglist@.len() as i64))
                    &&& exists|a1: int, m: int| #[trigger] frag(*def.left, a1, m) && a1 == t + 1 && code_at(*def.left, s, a1, m)
                            && m + 3 == n && s[m] == sel_op(cd.funcref) && s[m + 1] == Op::Index && s[m + 2] == Op::FCall
                },
            Expression::Simple(Value::Symbol(name)) => exists|m: int| #[trigger] frag(*def.left, n0, m) && code_at(*def.left, s, n0, m)
                && code_at(Expression::Simple(Value::Str(name)), s, m, n - 1) && s[n - 1] == Op::Index,
            other => exists|m: int| #[trigger] frag(*def.left, n0, m) && code_at(*def.left, s, n0, m)
                && code_at(other, s, m, n - 1) && s[n - 1] == Op::Index,
        }
}
//@ extract src/build/opcode/translate.rs :: impl AST :: fn translate_expr :: arm "BinaryExprType::DOT =>"
//@   wrap <<<
fn bin_dot_arm(def: BinaryOpDef, ops: &mut OpsMap, root: &VPath)
{
    let ghost mut bs: Seq<int> = Seq::empty();      // ghost: where each call argument's ops end
    proof { if *def.right is Call { axiom_vec_len_isize(&(*def.right)->Call_0.arglist); } }
$BODY
}
//@   >>>
//@   subst all "Self::translate_expr" => "translate_expr"
//@   subst all "Self::translate_copy" => "translate_copy"
//@   sig <<<
        requires
            // the two `unreachable!()`s: the parser only builds copy / call selectors from a symbol (parse/mod.rs)
            *def.right matches Expression::Copy(cd) ==> sel_ok(cd.selector),
            *def.right matches Expression::Call(cd) ==> sel_ok(cd.funcref),
        ensures dot_emits(*old(ops), *final(ops), def)
//@   >>>
//@   loop 1 iter it
//@   loop 1 <<<
                                    invariant
                                        it.seq() == call_def.arglist@,
                                        extends(*old(ops), *ops),
                                        ends(bs),
                                        exprs_at(call_def.arglist@, ops.ops@, old(ops).ops@.len() as int, bs, it.index@, false),
                                        ops.ops@.len() == seg_start(old(ops).ops@.len() as int, bs, it.index@),
//@   >>>
//@   after "translate_expr(e, ops, root);" <<<
                                    proof { bs = bs.push(ops.ops@.len() as int); }
//@   >>>
//@   mutant dot_right_first "Self::translate_expr(*def.left, ops, root); Self::translate_expr(expr, ops, root);" => "Self::translate_expr(expr, ops, root); Self::translate_expr(*def.left, ops, root);" expect bin_dot_arm
//@   mutant dot_symbol_dereferenced "Expression::Simple(Value::Str(name)), ops, root," => "Expression::Simple(Value::Symbol(name)), ops, root," expect bin_dot_arm
//@   mutant dot_no_index "} } ops.push(Op::Index, def.pos);" => "} } ops.push(Op::Noop, def.pos);" expect bin_dot_arm
//@   mutant dot_call_before_index "ops.push(Op::Index, def.pos); ops.push(Op::FCall, func_pos);" => "ops.push(Op::FCall, func_pos); ops.push(Op::Index, def.pos);" expect bin_dot_arm
//@   mutant dot_copy_without_index "ops.push(Op::Index, copy_def.pos.clone());" => "" expect bin_dot_arm
//@   mutant dot_call_left_before_count "ops.push(Op::Val(Primitive::Int(count)), call_def.pos.clone()); Self::translate_expr(*def.left, ops, root);" => "Self::translate_expr(*def.left, ops, root); ops.push(Op::Val(Primitive::Int(count)), call_def.pos.clone());" expect bin_dot_arm
//@ end

// ---------- `left in right` ----------
// vm.rs `op_exist` pops the key (top), then the container: code(right), then the key, then `Exist`.  A bare word on the
// left is a field NAME when the container is a tuple and a variable otherwise; the translator expresses that by
// compiling, in place of the left operand, the expression
//     select (right is "tuple", <the word as a variable>) => { true = "<the word as a string>" }
// ast constructors (R7: their generic `Into` parameters monomorphised to what these call sites pass) - ASSUMED:
impl<T> PositionedItem<T> {
    #[verifier::external_body]
    pub fn new(v: T, p: Position) -> (r: Self) ensures r.val == v { unimplemented!() }
}
impl Token {
    #[verifier::external_body]
    pub fn new(f: &str, typ: TokenType, p: &Position) -> (r: Self) ensures r.fragment@ == f@, r.typ == typ { unimplemented!() }
}
// R0: derived Clone is structural (Rc::clone is a pointer copy)
impl<T: Clone> Clone for PositionedItem<T> {
    #[verifier::external_body]
    fn clone(&self) -> (r: Self) ensures r == *self { unimplemented!() }
}
pub open spec fn in_desugar(ne: Expression, name: PositionedItem<Rc<str>>, right: Expression) -> bool {
    &&& ne matches Expression::Select(sd)
        && (*sd.val matches Expression::Binary(bd) && bd.kind is IS && *bd.left == right
                && (*bd.right matches Expression::Simple(Value::Str(t)) && t.val@ == "tuple"@))
        && (sd.default matches Some(d) && (*d matches Expression::Simple(Value::Symbol(n2)) && n2.val == name.val))
        && sd.tuple@.len() == 1 && sd.tuple@[0].0.fragment@ == "true"@
        && (sd.tuple@[0].2 matches Expression::Simple(Value::Str(n3)) && n3.val == name.val)
}
pub open spec fn in_emits(a: OpsMap, b: OpsMap, def: BinaryOpDef) -> bool {
    let n0 = a.ops@.len() as int;
    let n = b.ops@.len() as int;
    let s = b.ops@;
    &&& appended(a, b)
    &&& exists|m: int| #[trigger] frag(*def.right, n0, m) && code_at(*def.right, s, n0, m) && (match *def.left {
            Expression::Simple(Value::Symbol(name)) =>
                exists|ne: Expression, a1: int, m2: int| #[trigger] frag(ne, a1, m2) && a1 == m && m2 == n - 1
                    && code_at(ne, s, a1, m2) && in_desugar(ne, name, *def.right),
            other => code_at(other, s, m, n - 1),
        })
    &&& s[n - 1] == Op::Exist
}
//@ extract src/build/opcode/translate.rs :: impl AST :: fn translate_expr :: arm "BinaryExprType::IN =>"
//@   wrap <<<
fn bin_in_arm(def: BinaryOpDef, ops: &mut OpsMap, root: &VPath)
$BODY
//@   >>>
//@   subst all "Self::translate_expr" => "translate_expr"
//@   subst all ".into()" => ".vinto()"
//@   sig <<<
        ensures in_emits(*old(ops), *final(ops), def)
//@   >>>
//@   mutant in_left_instead_of_right "Self::translate_expr(*def.right.clone(), ops, root);" => "Self::translate_expr(*def.left.clone(), ops, root);" expect bin_in_arm
//@   mutant in_no_exist "ops.push(Op::Exist, def.pos.clone());" => "ops.push(Op::Index, def.pos.clone());" expect bin_in_arm
//@   mutant in_word_always_string "default: Some(Box::new(Expression::Simple(Value::Symbol( name.clone(), )))), tuple: vec![( Token::new(\"true\", TokenType::BAREWORD, def.right.pos()), None, Expression::Simple(Value::Str(name)), )]," => "default: Some(Box::new(Expression::Simple(Value::Str( name.clone(), )))), tuple: vec![( Token::new(\"true\", TokenType::BAREWORD, def.right.pos()), None, Expression::Simple(Value::Str(name)), )]," expect bin_in_arm
//@   mutant in_tests_wrong_type "\"tuple\".into()" => "\"list\".into()" expect bin_in_arm
//@   mutant in_selects_on_false "Token::new(\"true\", TokenType::BAREWORD, def.right.pos())" => "Token::new(\"false\", TokenType::BAREWORD, def.right.pos())" expect bin_in_arm
//@ end

// ---------- constraint expression `in a..b | shape | ..` ----------
// opcode/mod.rs: "BuildConstraint: each Range arm expects 2 values (start, end - Empty if open-ended), each Exact arm
// expects 1 value"; unit constraint_vm assumes "the translator pushes the arms' values in source order, start before
// end".  This is that assumption: per arm, in source order, code(start) | Val(Empty), code(end) | Val(Empty) for a
// range, the expression's code for a shape; then BuildConstraint with one arm type per arm, Range for ranges.
pub open spec fn bound_code_at(o: Option<Box<Expression>>, s: Seq<Op>, a: int, b: int) -> bool {
    match o {
        Some(e) => code_at(*e, s, a, b),
        None => 0 <= a && b == a + 1 && b <= s.len() && s[a] == Op::Val(Primitive::Empty),
    }
}
pub open spec fn arm_type_of(arm: ConstraintArm) -> ConstraintArmType {
    match arm { ConstraintArm::Range(_) => ConstraintArmType::Range, ConstraintArm::Shape(_) => ConstraintArmType::Exact }
}
pub open spec fn arms_at(arms: Seq<ConstraintArm>, s: Seq<Op>, start: int, bs: Seq<int>, types: Seq<ConstraintArmType>, done: int) -> bool {
    &&& bs.len() == done && types.len() == done && 0 <= done <= arms.len()
    &&& forall|c: int| 0 <= c < done && #[trigger] case_no(c) ==> {
            let st = seg_start(start, bs, c);
            &&& start <= st < bs[c] <= s.len()
            &&& types[c] == arm_type_of(arms[c])
            &&& match arms[c] {
                    ConstraintArm::Shape(e) => code_at(*e, s, st, bs[c]),
                    ConstraintArm::Range(r) => match r.start {
                        None => s[st] == Op::Val(Primitive::Empty) && bound_code_at(r.end, s, st + 1, bs[c]),
                        Some(e) => exists|a1: int, mid: int| #[trigger] frag(*e, a1, mid) && a1 == st && code_at(*e, s, a1, mid)
                                        && bound_code_at(r.end, s, mid, bs[c]),
                    },
                }
        }
    &&& 0 <= start <= seg_start(start, bs, done) <= s.len()
}
pub open spec fn constraint_emits(a: OpsMap, b: OpsMap, def: ConstraintDef) -> bool {
    let n0 = a.ops@.len() as int;
    let n = b.ops@.len() as int;
    let s = b.ops@;
    &&& appended(a, b)
    &&& s[n - 1] matches Op::BuildConstraint(types)
        && exists|bs: Seq<int>| #[trigger] ends(bs) && arms_at(def.arms@, s, n0, bs, types@, def.arms@.len() as int)
                && seg_start(n0, bs, def.arms@.len() as int) == n - 1
}
//@ extract src/build/opcode/translate.rs :: impl AST :: fn translate_expr :: arm "Expression::Constraint(def) =>"
//@   wrap <<<
fn constraint_arm(def: ConstraintDef, ops: &mut OpsMap, root: &VPath)
{
    let ghost mut bs: Seq<int> = Seq::empty();      // ghost: where each arm's ops end
$BODY
}
//@   >>>
//@   subst all "Self::translate_expr" => "translate_expr"
//@   sig <<<
        ensures constraint_emits(*old(ops), *final(ops), def)
//@   >>>
//@   loop 1 iter it
//@   loop 1 <<<
                    invariant
                        it.seq() == def.arms@,
                        extends(*old(ops), *ops),
                        ends(bs),
                        arms_at(def.arms@, ops.ops@, old(ops).ops@.len() as int, bs, arm_types@, it.index@),
                        ops.ops@.len() == seg_start(old(ops).ops@.len() as int, bs, it.index@),
//@   >>>
//@   before "arm_types.push" nth 1 <<<
                            proof { bs = bs.push(ops.ops@.len() as int); }
//@   >>>
//@   before "arm_types.push" nth 2 <<<
                            proof { bs = bs.push(ops.ops@.len() as int); }
//@   >>>
//@   mutant constraint_end_before_start "if let Some(start) = rdef.start { Self::translate_expr(*start, ops, root); } else { ops.push(Op::Val(Primitive::Empty), rdef.pos.clone()); } if let Some(end) = rdef.end { Self::translate_expr(*end, ops, root); } else { ops.push(Op::Val(Primitive::Empty), rdef.pos); }" => "if let Some(end) = rdef.end { Self::translate_expr(*end, ops, root); } else { ops.push(Op::Val(Primitive::Empty), rdef.pos.clone()); } if let Some(start) = rdef.start { Self::translate_expr(*start, ops, root); } else { ops.push(Op::Val(Primitive::Empty), rdef.pos); }" expect constraint_arm
//@   mutant constraint_open_start_dropped "ops.push(Op::Val(Primitive::Empty), rdef.pos.clone());" => "" expect constraint_arm
//@   mutant constraint_range_as_exact "arm_types.push(ConstraintArmType::Range);" => "arm_types.push(ConstraintArmType::Exact);" expect constraint_arm
//@   mutant constraint_shape_as_range "arm_types.push(ConstraintArmType::Exact);" => "arm_types.push(ConstraintArmType::Range);" expect constraint_arm
//@ end

} // verus!

fn main() {}
