#!/bin/bash
cd /verif
for p in C02 C09 C12 C20 C18 C14 C16 C10 C13 C06 C17 C05 C08 C11 C15 C03 C04 C01; do
  s=$(date +%s); nice -n 5 ./check $p thorough > /tmp/t_$p.log 2>&1; echo "$p rc=$? $(( $(date +%s)-s ))s $(tail -1 /tmp/t_$p.log)"
done
