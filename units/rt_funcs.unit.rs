//@ unit rt_funcs
//@ serves C01 C04
//@ must_verify Builtins::map Builtins::filter Builtins::reduce lemma_call_on_stack lemma_filter_example lemma_reduce_example lemma_map_str_example
// C01/C04 — the functional operators: `Builtins::map`, `Builtins::filter`, `Builtins::reduce`
// (src/build/opcode/runtime.rs) verbatim, with `decorate_call!` (opcode/error.rs) verbatim.
//
// Oracle: docsite/site/content/reference/expressions.md, "Functional processing expressions":
//   map    list: f takes one argument, element i becomes f(element i); tuple: f takes (name, value) and returns the
//          two item list [new name (a string), new value] that REPLACES the field; string: f takes each character
//          (as a string) and returns a string, the results are concatenated.
//   filter an item / field / character is filtered out iff f returns false or NULL; any other value keeps it.
//   reduce acc_0 = the initial accumulator, acc_{i+1} = f(acc_i, item_i) (tuples: f(acc_i, name_i, value_i)); result acc_n.
//   "Whether the build fails" (C01): it fails iff a call fails, an operand has the wrong kind, the function does not
//   take the number of arguments the reference prescribes, or a map function's result cannot replace the item.
// ASSUMED: calling a function value (VM::fcall_impl is verified in unit `scope`; the interpreter loop is outside):
//   it pops one argument per parameter and its outcome is `call_result(f, arguments in parameter order)`, an
//   uninterpreted function - UCG functions are pure - whose value None stands for "the call fails the build".
// C04: the three `BUG: stack underflow` panics per hook are unreachable under the translator invariant in `requires`
//   (operands pushed); `elems_pos_list[counter]` etc. are in range under the value invariant `wf_top` (one position
//   per element), which the hooks re-establish for their results; every fcall_impl call meets its stack-depth
//   precondition BECAUSE of the arity check.
// Genuine defects found on the pinned tree (fixed in the worktree, /scratch/patches/rt_funcs*.patch):
//   1. no arity check: `let y = map(func(a, b) => a, [1]);` panics (exit 101); a function with too FEW parameters leaves
//      its surplus arguments on the value stack.  On the unfixed tree the loop invariant `arity(*f) == ..` fails before
//      the loops, i.e. fcall_impl's precondition cannot be established.
//   2. tuple map: a field whose function result is not a list silently disappears (`map(func(n, v) => 1, t)` = {});
//      the reference says the result "will replace the element or field" and the neighbouring malformed results
//      (wrong length, non-string name) are build errors.  Contract: build error.  The pinned behaviour is the seeded
//      mutant `map_tuple_nonlist_dropped`.
//@ include prelude/head.rs
use std::rc::Rc;

verus! {
//@ include prelude/core.rs
//@ opaque Position VPathBuf OpPointer Stack Module ConstraintVal VM
//@ clone_spec Position

// The environment cell is only handed on to the function call (R5): `RefCell<Environment<O, E>>` stays in the
// signatures, both types are opaque stand-ins; `std::io::Write` is declared to Verus as an external trait.
#[verifier::external_body]
#[verifier::accept_recursive_types(T)]
pub struct RefCell<T> { _p: core::marker::PhantomData<T> }
#[verifier::external_body]
#[verifier::accept_recursive_types(O)]
#[verifier::accept_recursive_types(E)]
pub struct Environment<O, E> { _p: core::marker::PhantomData<(O, E)> }
#[verifier::external_trait_specification]
pub trait ExIoWrite {
    type ExternalTraitSpecificationFor: std::io::Write;
}

// opcode::Error is only constructed, decorated and propagated here (R5); message text dropped (R1).
#[verifier::external_body]
pub struct Error { _p: u8 }
impl Error {
    #[verifier::external_body]
    pub fn new(msg: String, pos: Position) -> Self { unimplemented!() }
    #[verifier::external_body]
    pub fn push_call_stack(&mut self, pos: Position) { unimplemented!() }
}
//@ extract src/build/opcode/mod.rs :: enum Primitive
//@   rule R0
//@ end
//@ extract src/build/opcode/mod.rs :: enum Composite
//@   rule R0
//@ end
//@ extract src/build/opcode/mod.rs :: enum Value
//@   rule R0
//@ end
//@ extract src/build/opcode/mod.rs :: struct Func
//@   rule R0 RV
//@ end
use Primitive::{Bool, Empty, Float, Int, Str};
use Composite::{List, Tuple};
use Value::{C, F, K, M, P, S, T};

//@ extract src/build/opcode/runtime.rs :: struct Builtins
//@   rule R0 RV
//@   subst "import_path: Vec<PathBuf>" => "import_path: Vec<VPathBuf>"
//@ end

//@ extract src/build/opcode/error.rs :: macro decorate_call
//@ end

// ---------- std models ----------
// `String -> Rc<str>` (`buf.into()`): std `impl From<String> for Rc<str>`, content preserved.
pub assume_specification [<Rc<str> as From<String>>::from] (s: String) -> (r: Rc<str>)
    ensures r@ == s@;

pub mod strax {
    use super::*;
    // `char::to_string()` is the one-character string (std Display for char).
    pub broadcast axiom fn axiom_char_to_string(c: char, s: String)
        ensures #[trigger] vstd::string::to_string_from_display_ensures::<char>(&c, s) ==> s@ == seq![c];
    // A str IS its character sequence: the view is injective (rcstr_of is its inverse).
    pub uninterp spec fn rcstr_of(s: Seq<char>) -> Rc<str>;
    pub broadcast axiom fn axiom_rcstr_view_injective(r: Rc<str>)
        ensures rcstr_of(#[trigger] r@) == r;
}
use strax::*;
broadcast use {strax::axiom_char_to_string, strax::axiom_rcstr_view_injective};

// ---------- ASSUMED: the meaning of calling a function value ----------
// UCG functions are pure: the outcome of a call depends only on the function value and its arguments.
// None = the call fails (the build fails with a diagnostic).
pub uninterp spec fn call_result(f: Func, args: Seq<Value>) -> Option<Value>;

// the k values on top of the value stack, deepest first = arguments in parameter order
// (`Func.bindings` is stored reversed by op_func: its first entry is the LAST parameter and is popped first)
pub open spec fn top_args(st: Seq<(Rc<Value>, Position)>, k: int) -> Seq<Value> {
    Seq::new(k as nat, |j: int| *st[st.len() - k + j].0)
}
// the same, spelled out for the arities the functional operators use (lemma_call_on_stack: it IS the same)
pub open spec fn call_on_stack(f: Func, st: Seq<(Rc<Value>, Position)>) -> Option<Value> {
    let k = f.bindings@.len() as int; let n = st.len() as int;
    if k == 1 { call_result(f, seq![*st[n - 1].0]) }
    else if k == 2 { call_result(f, seq![*st[n - 2].0, *st[n - 1].0]) }
    else if k == 3 { call_result(f, seq![*st[n - 3].0, *st[n - 2].0, *st[n - 1].0]) }
    else { call_result(f, top_args(st, k)) }
}
proof fn lemma_call_on_stack(f: Func, st: Seq<(Rc<Value>, Position)>)
    requires st.len() >= f.bindings@.len()
    ensures call_on_stack(f, st) == call_result(f, top_args(st, f.bindings@.len() as int))
{
    let k = f.bindings@.len() as int; let n = st.len() as int;
    if k == 1 { assert(top_args(st, k) =~= seq![*st[n - 1].0]); }
    else if k == 2 { assert(top_args(st, k) =~= seq![*st[n - 2].0, *st[n - 1].0]); }
    else if k == 3 { assert(top_args(st, k) =~= seq![*st[n - 3].0, *st[n - 2].0, *st[n - 1].0]); }
}

// VM::fcall_impl: signature from the source, body ASSUMED (contract below; verified against its real body in unit `scope`).
//@ extract src/build/opcode/vm.rs :: impl VM :: fn fcall_impl
//@   opaque_body
//@   ret r
//@   sig <<<
        requires
            // one value per parameter is on the stack (`stack.pop().unwrap()` per parameter)
            old(stack)@.len() >= f.bindings@.len(),
        ensures
            r is Ok <==> call_on_stack(*f, old(stack)@) is Some,
            r matches Ok(v) ==> Some(*v.0) == call_on_stack(*f, old(stack)@)
                && final(stack)@ == old(stack)@.subrange(0, old(stack)@.len() - f.bindings@.len()),
//@   >>>
//@ end

// ---------- value invariant the hooks rely on (and re-establish for their results) ----------
// a list value carries one position per element, a tuple value one position pair per field
pub open spec fn wf_top(v: Value) -> bool {
    match v {
        C(List(elems, pos)) => pos@.len() == elems@.len(),
        C(Tuple(flds, pos)) => pos@.len() == flds@.len(),
        _ => true,
    }
}

// ---------- oracle (reference: Functional processing expressions) ----------
// the k-th value from the top of the value stack (1 = top)
pub open spec fn opnd(st: Seq<(Rc<Value>, Position)>, k: int) -> Value { *st[st.len() - k].0 }
// "All of them can process a string, list, or tuple."
pub open spec fn functional_target(v: Value) -> bool { v is C || (v matches P(p) && p is Str) }
pub open spec fn arity(f: Func) -> int { f.bindings@.len() as int }

// the argument lists the reference prescribes
pub open spec fn elem_args(e: Rc<Value>) -> Seq<Value> { seq![*e] }
pub open spec fn field_args(fld: (Rc<str>, Rc<Value>)) -> Seq<Value> { seq![P(Str(fld.0)), *fld.1] }
pub open spec fn char_args(c: char) -> Seq<Value> { seq![P(Str(rcstr_of(seq![c])))] }

// --- map ---
// "[field, value]": a two item list whose first item is a string
pub open spec fn pair_of(v: Value) -> Option<(Rc<str>, Rc<Value>)> {
    match v {
        C(List(fv, _)) => if fv@.len() == 2 { match *fv@[0] { P(Str(s)) => Some((s, fv@[1])), _ => None } } else { None },
        _ => None,
    }
}
pub open spec fn map_field_ok(f: Func, fld: (Rc<str>, Rc<Value>)) -> bool {
    call_result(f, field_args(fld)) matches Some(v) && pair_of(v) is Some
}
pub open spec fn map_char_ok(f: Func, c: char) -> bool { call_result(f, char_args(c)) matches Some(P(Str(_))) }
pub open spec fn map_char_piece(f: Func, c: char) -> Seq<char> {
    match call_result(f, char_args(c)) { Some(P(Str(t))) => t@, _ => Seq::<char>::empty() }
}
// the mapped pieces of the first k characters, concatenated in order
pub open spec fn map_str(f: Func, s: Seq<char>, k: int) -> Seq<char>
    decreases k
{
    if k <= 0 { Seq::<char>::empty() } else { map_str(f, s, k - 1) + map_char_piece(f, s[k - 1]) }
}

// what `map(f, target)` must do, per kind of target (r: outcome, out: the value left on top of the stack)
pub open spec fn map_list_post(f: Func, elems: Seq<Rc<Value>>, r: Result<(), Error>, out: Value) -> bool {
    // a list: the function takes one argument; element i becomes f(element i)
    &&& arity(f) != 1 ==> r is Err
    &&& arity(f) == 1 ==> (r is Ok <==> forall|i: int| 0 <= i < elems.len() ==> call_elem_ok(f, #[trigger] elems[i]))
    &&& arity(f) == 1 && r is Ok ==> (out matches C(List(res, _)) && res@.len() == elems.len()
            && forall|i: int| 0 <= i < elems.len() ==> Some(*(#[trigger] res@[i])) == call_result(f, elem_args(elems[i])))
}
pub open spec fn map_tuple_post(f: Func, flds: Seq<(Rc<str>, Rc<Value>)>, r: Result<(), Error>, out: Value) -> bool {
    // a tuple: the function takes (name, value) and returns [new name, new value], which replaces the field
    &&& arity(f) != 2 ==> r is Err
    &&& arity(f) == 2 ==> (r is Ok <==> forall|i: int| 0 <= i < flds.len() ==> map_field_ok(f, #[trigger] flds[i]))
    &&& arity(f) == 2 && r is Ok ==> (out matches C(Tuple(res, _)) && res@.len() == flds.len()
            && forall|i: int| 0 <= i < flds.len() ==> Some(#[trigger] res@[i]) == pair_of(call_result(f, field_args(flds[i]))->0))
}
// loop invariant of the tuple arm: the first i fields have each been replaced by the pair their call returned
pub open spec fn map_tuple_inv(f: Func, flds: Seq<(Rc<str>, Rc<Value>)>, out: Seq<(Rc<str>, Rc<Value>)>, out_pos_len: int, i: int) -> bool {
    &&& out.len() == i && out_pos_len == i
    &&& forall|j: int| 0 <= j < i ==> map_field_ok(f, #[trigger] flds[j]) && Some(out[j]) == pair_of(call_result(f, field_args(flds[j]))->0)
}
pub open spec fn map_str_post(f: Func, s: Seq<char>, r: Result<(), Error>, out: Value) -> bool {
    // a string: the function takes each character (as a string) and returns a string; the results are concatenated
    &&& arity(f) != 1 ==> r is Err
    &&& arity(f) == 1 ==> (r is Ok <==> forall|i: int| 0 <= i < s.len() ==> map_char_ok(f, #[trigger] s[i]))
    &&& arity(f) == 1 && r is Ok ==> (out matches P(Str(res)) && res@ == map_str(f, s, s.len() as int))
}

// --- filter ---
// "false or NULL" filters the item out, "any other value" keeps it
pub open spec fn keeps(v: Value) -> bool { v != P(Empty) && v != P(Bool(false)) }
pub open spec fn kept_elems(f: Func, elems: Seq<Rc<Value>>, k: int) -> Seq<Rc<Value>>
    decreases k
{
    if k <= 0 { Seq::<Rc<Value>>::empty() }
    else if keeps(call_result(f, elem_args(elems[k - 1]))->0) { kept_elems(f, elems, k - 1).push(elems[k - 1]) }
    else { kept_elems(f, elems, k - 1) }
}
pub open spec fn kept_fields(f: Func, flds: Seq<(Rc<str>, Rc<Value>)>, k: int) -> Seq<(Rc<str>, Rc<Value>)>
    decreases k
{
    if k <= 0 { Seq::<(Rc<str>, Rc<Value>)>::empty() }
    else if keeps(call_result(f, field_args(flds[k - 1]))->0) { kept_fields(f, flds, k - 1).push(flds[k - 1]) }
    else { kept_fields(f, flds, k - 1) }
}
pub open spec fn kept_chars(f: Func, s: Seq<char>, k: int) -> Seq<char>
    decreases k
{
    if k <= 0 { Seq::<char>::empty() }
    else if keeps(call_result(f, char_args(s[k - 1]))->0) { kept_chars(f, s, k - 1).push(s[k - 1]) }
    else { kept_chars(f, s, k - 1) }
}
pub open spec fn call_elem_ok(f: Func, e: Rc<Value>) -> bool { call_result(f, elem_args(e)) is Some }
pub open spec fn call_field_ok(f: Func, fld: (Rc<str>, Rc<Value>)) -> bool { call_result(f, field_args(fld)) is Some }
pub open spec fn call_char_ok(f: Func, c: char) -> bool { call_result(f, char_args(c)) is Some }

pub open spec fn filter_list_post(f: Func, elems: Seq<Rc<Value>>, r: Result<(), Error>, out: Value) -> bool {
    &&& arity(f) != 1 ==> r is Err
    &&& arity(f) == 1 ==> (r is Ok <==> forall|i: int| 0 <= i < elems.len() ==> call_elem_ok(f, #[trigger] elems[i]))
    &&& arity(f) == 1 && r is Ok ==> (out matches C(List(res, _)) && res@ == kept_elems(f, elems, elems.len() as int))
}
pub open spec fn filter_tuple_post(f: Func, flds: Seq<(Rc<str>, Rc<Value>)>, r: Result<(), Error>, out: Value) -> bool {
    &&& arity(f) != 2 ==> r is Err
    &&& arity(f) == 2 ==> (r is Ok <==> forall|i: int| 0 <= i < flds.len() ==> call_field_ok(f, #[trigger] flds[i]))
    &&& arity(f) == 2 && r is Ok ==> (out matches C(Tuple(res, _)) && res@ == kept_fields(f, flds, flds.len() as int))
}
pub open spec fn filter_str_post(f: Func, s: Seq<char>, r: Result<(), Error>, out: Value) -> bool {
    &&& arity(f) != 1 ==> r is Err
    &&& arity(f) == 1 ==> (r is Ok <==> forall|i: int| 0 <= i < s.len() ==> call_char_ok(f, #[trigger] s[i]))
    &&& arity(f) == 1 && r is Ok ==> (out matches P(Str(res)) && res@ == kept_chars(f, s, s.len() as int))
}

// --- reduce ---
// acc_0 = initial, acc_{i+1} = f(acc_i, item_i)  (tuples: f(acc_i, name_i, value_i))
pub open spec fn or_null(o: Option<Value>) -> Value { match o { Some(v) => v, None => P(Empty) } }
pub open spec fn acc_elems(f: Func, init: Value, elems: Seq<Rc<Value>>, k: int) -> Value
    decreases k
{
    if k <= 0 { init } else { or_null(call_result(f, seq![acc_elems(f, init, elems, k - 1), *elems[k - 1]])) }
}
pub open spec fn acc_fields(f: Func, init: Value, flds: Seq<(Rc<str>, Rc<Value>)>, k: int) -> Value
    decreases k
{
    if k <= 0 { init } else { or_null(call_result(f, seq![acc_fields(f, init, flds, k - 1), P(Str(flds[k - 1].0)), *flds[k - 1].1])) }
}
pub open spec fn acc_chars(f: Func, init: Value, s: Seq<char>, k: int) -> Value
    decreases k
{
    if k <= 0 { init } else { or_null(call_result(f, seq![acc_chars(f, init, s, k - 1), P(Str(rcstr_of(seq![s[k - 1]])))])) }
}

pub open spec fn red_elem_ok(f: Func, acc: Value, e: Rc<Value>) -> bool { call_result(f, seq![acc, *e]) is Some }
pub open spec fn red_field_ok(f: Func, acc: Value, fld: (Rc<str>, Rc<Value>)) -> bool { call_result(f, seq![acc, P(Str(fld.0)), *fld.1]) is Some }
pub open spec fn red_char_ok(f: Func, acc: Value, c: char) -> bool { call_result(f, seq![acc, P(Str(rcstr_of(seq![c])))]) is Some }
pub open spec fn reduce_list_post(f: Func, init: Value, elems: Seq<Rc<Value>>, r: Result<(), Error>, out: Value) -> bool {
    &&& arity(f) != 2 ==> r is Err
    &&& arity(f) == 2 ==> (r is Ok <==> forall|i: int| 0 <= i < elems.len() ==> red_elem_ok(f, acc_elems(f, init, elems, i), #[trigger] elems[i]))
    &&& arity(f) == 2 && r is Ok ==> out == acc_elems(f, init, elems, elems.len() as int)
}
pub open spec fn reduce_tuple_post(f: Func, init: Value, flds: Seq<(Rc<str>, Rc<Value>)>, r: Result<(), Error>, out: Value) -> bool {
    &&& arity(f) != 3 ==> r is Err
    &&& arity(f) == 3 ==> (r is Ok <==> forall|i: int| 0 <= i < flds.len() ==> red_field_ok(f, acc_fields(f, init, flds, i), #[trigger] flds[i]))
    &&& arity(f) == 3 && r is Ok ==> out == acc_fields(f, init, flds, flds.len() as int)
}
pub open spec fn reduce_str_post(f: Func, init: Value, s: Seq<char>, r: Result<(), Error>, out: Value) -> bool {
    &&& arity(f) != 2 ==> r is Err
    &&& arity(f) == 2 ==> (r is Ok <==> forall|i: int| 0 <= i < s.len() ==> red_char_ok(f, acc_chars(f, init, s, i), #[trigger] s[i]))
    &&& arity(f) == 2 && r is Ok ==> out == acc_chars(f, init, s, s.len() as int)
}

// ---------- the hooks ----------
//@ extract src/build/opcode/runtime.rs :: impl Builtins :: fn map
//@   rule R1 R3
//@   subst "match *list.as_ref() {" => "match list.as_ref() {"
//@   subst "let mut result_elems = Vec::new();" => "let mut result_elems: Vec<Rc<Value>> = Vec::new();"
//@   subst "let mut pos_elems = Vec::new();" => "let mut pos_elems: Vec<Position> = Vec::new();"
//@   subst "let mut new_fields = Vec::new();" => "let mut new_fields: Vec<(Rc<str>, Rc<Value>)> = Vec::new();"
//@   subst "let mut new_flds_pos_list = Vec::new();" => "let mut new_flds_pos_list: Vec<(Position, Position)> = Vec::new();"
//@   mutant map_reversed "result_elems.push(result);" => "result_elems.insert(0, result);" expect map
//@   mutant map_last_dropped "stack.push((Rc::new(C(List(result_elems, pos_elems))), list_pos));" => "result_elems.pop(); pos_elems.pop(); stack.push((Rc::new(C(List(result_elems, pos_elems))), list_pos));" expect map
//@   mutant map_tuple_old_name "new_fields.push((name, fval[1].clone()));" => "new_fields.push((flds[counter].0.clone(), fval[1].clone()));" expect map
//@   mutant map_tuple_args_swapped "stack.push((Rc::new(P(Str(name.clone()))), name_pos)); stack.push((val.clone(), val_pos));" => "stack.push((val.clone(), val_pos)); stack.push((Rc::new(P(Str(name.clone()))), name_pos));" expect map
// the pinned tree's behaviour: a field whose function result is not a list silently disappears
//@   mutant map_tuple_nonlist_dropped "else { return Err(Error::new( \"Map Functions over tuples must return a list of two items\".into(), result_pos, )); }" => "else { }" expect map
//@   mutant map_arity_too_few_accepted "if f.bindings.len() != arg_count {" => "if f.bindings.len() > arg_count {" expect map
//@   mutant map_arity_off_by_one "{ 2 } else { 1 }" => "{ 3 } else { 2 }" expect map
//@   ret r
//@   sig <<<
        requires
            // translator invariant (caller obligation): the function and the target were pushed
            old(stack)@.len() >= 2,
            // value invariant: one position per element / field
            wf_top(opnd(old(stack)@, 1)),
        ensures
            // the result replaces the two operands; everything below is untouched
            r is Ok ==> final(stack)@.len() == old(stack)@.len() - 1
                && final(stack)@.drop_last() =~= old(stack)@.subrange(0, old(stack)@.len() - 2)
                && wf_top(opnd(final(stack)@, 1)),
            !(opnd(old(stack)@, 2) is F) ==> r is Err,
            opnd(old(stack)@, 2) matches F(f) ==> (opnd(old(stack)@, 1) matches C(List(elems, _)) ==> map_list_post(f, elems@, r, opnd(final(stack)@, 1))),
            opnd(old(stack)@, 2) matches F(f) ==> (opnd(old(stack)@, 1) matches C(Tuple(flds, _)) ==> map_tuple_post(f, flds@, r, opnd(final(stack)@, 1))),
            opnd(old(stack)@, 2) matches F(f) ==> (opnd(old(stack)@, 1) matches P(Str(s)) ==> map_str_post(f, s@, r, opnd(final(stack)@, 1))),
            !functional_target(opnd(old(stack)@, 1)) ==> r is Err,
//@   >>>
//@   loop 1 indexed <<<
                    invariant
                        i__1 <= it__1@.len(), it__1@ == elems@, elems_pos_list@.len() == elems@.len(),
                        old(stack)@.len() >= 2, opnd(old(stack)@, 2) == F(*f),
                        opnd(old(stack)@, 1) == C(List(*elems, *elems_pos_list)),
                        arity(*f) == 1,
                        stack@ =~= old(stack)@.subrange(0, old(stack)@.len() - 2),
                        result_elems@.len() == i__1, pos_elems@.len() == i__1,
                        forall|j: int| 0 <= j < i__1 ==> call_elem_ok(*f, #[trigger] elems@[j]),
                        forall|j: int| 0 <= j < i__1 ==> Some(*(#[trigger] result_elems@[j])) == call_result(*f, elem_args(elems@[j])),
                    decreases it__1@.len() - i__1
//@   >>>
//@   loop 2 indexed <<<
                    invariant
                        i__2 <= it__2@.len(), it__2@ == flds@, flds_pos_list@.len() == flds@.len(),
                        old(stack)@.len() >= 2, opnd(old(stack)@, 2) == F(*f),
                        opnd(old(stack)@, 1) == C(Tuple(*flds, *flds_pos_list)),
                        arity(*f) == 2,
                        stack@ =~= old(stack)@.subrange(0, old(stack)@.len() - 2),
                        // every field processed so far was replaced by exactly one field
                        map_tuple_inv(*f, flds@, new_fields@, new_flds_pos_list@.len() as int, i__2 as int),
                    decreases it__2@.len() - i__2
//@   >>>
//@   loop 3 indexed <<<
                    invariant
                        i__3 <= it__3@.len(), it__3@ == s@,
                        old(stack)@.len() >= 2, opnd(old(stack)@, 2) == F(*f),
                        opnd(old(stack)@, 1) == P(Str(*s)),
                        arity(*f) == 1,
                        stack@ =~= old(stack)@.subrange(0, old(stack)@.len() - 2),
                        forall|j: int| 0 <= j < i__3 ==> map_char_ok(*f, #[trigger] s@[j]),
                        buf@ == map_str(*f, s@, i__3 as int),
                    decreases it__3@.len() - i__3
//@   >>>
//@ end

//@ extract src/build/opcode/runtime.rs :: impl Builtins :: fn filter
//@   rule R1 R3
//@   subst "match *list.as_ref() {" => "match list.as_ref() {"
//@   subst "let mut result_elems = Vec::new();" => "let mut result_elems: Vec<Rc<Value>> = Vec::new();"
//@   subst "let mut pos_elems = Vec::new();" => "let mut pos_elems: Vec<Position> = Vec::new();"
//@   subst "let mut new_fields = Vec::new();" => "let mut new_fields: Vec<(Rc<str>, Rc<Value>)> = Vec::new();"
//@   subst "let mut new_flds_pos_list = Vec::new();" => "let mut new_flds_pos_list: Vec<(Position, Position)> = Vec::new();"
//@   mutant filter_keeps_only_true "&P(Empty) | &P(Bool(false)) => { continue; } _ => { result_elems" => "&P(Bool(true)) => { } _ => { continue; } } match condition.as_ref() { _ => { result_elems" expect filter
//@   mutant filter_drops_null_only "&P(Empty) | &P(Bool(false)) => { continue; } _ => { new_fields" => "&P(Empty) => { continue; } _ => { new_fields" expect filter
//@   mutant filter_str_drops_false_only "&P(Empty) | &P(Bool(false)) => { continue; } _ => buf.push(c)," => "&P(Bool(false)) => { continue; } _ => buf.push(c)," expect filter
//@   mutant filter_pushes_condition "result_elems.push(e.clone());" => "result_elems.push(condition.clone());" expect filter
//@   mutant filter_tuple_arity_one "{ 2 } else { 1 }" => "{ 1 } else { 1 }" expect filter
//@   ret r
//@   sig <<<
        requires
            // translator invariant (caller obligation): the function and the target were pushed
            old(stack)@.len() >= 2,
            // value invariant: one position per element / field
            wf_top(opnd(old(stack)@, 1)),
        ensures
            // the result replaces the two operands; everything below is untouched
            r is Ok ==> final(stack)@.len() == old(stack)@.len() - 1
                && final(stack)@.drop_last() =~= old(stack)@.subrange(0, old(stack)@.len() - 2)
                && wf_top(opnd(final(stack)@, 1)),
            !(opnd(old(stack)@, 2) is F) ==> r is Err,
            opnd(old(stack)@, 2) matches F(f) ==> (opnd(old(stack)@, 1) matches C(List(elems, _)) ==> filter_list_post(f, elems@, r, opnd(final(stack)@, 1))),
            opnd(old(stack)@, 2) matches F(f) ==> (opnd(old(stack)@, 1) matches C(Tuple(flds, _)) ==> filter_tuple_post(f, flds@, r, opnd(final(stack)@, 1))),
            opnd(old(stack)@, 2) matches F(f) ==> (opnd(old(stack)@, 1) matches P(Str(s)) ==> filter_str_post(f, s@, r, opnd(final(stack)@, 1))),
            !functional_target(opnd(old(stack)@, 1)) ==> r is Err,
//@   >>>
//@   loop 1 indexed <<<
                    invariant
                        i__1 <= it__1@.len(), it__1@ == elems@, elems_pos_list@.len() == elems@.len(),
                        old(stack)@.len() >= 2, opnd(old(stack)@, 2) == F(*f),
                        opnd(old(stack)@, 1) == C(List(*elems, *elems_pos_list)),
                        arity(*f) == 1,
                        stack@ =~= old(stack)@.subrange(0, old(stack)@.len() - 2),
                        forall|j: int| 0 <= j < i__1 ==> call_elem_ok(*f, #[trigger] elems@[j]),
                        result_elems@ == kept_elems(*f, elems@, i__1 as int), pos_elems@.len() == result_elems@.len(),
                    decreases it__1@.len() - i__1
//@   >>>
//@   loop 2 indexed <<<
                    invariant
                        i__2 <= it__2@.len(), it__2@ == flds@, pos_list@.len() == flds@.len(),
                        old(stack)@.len() >= 2, opnd(old(stack)@, 2) == F(*f),
                        opnd(old(stack)@, 1) == C(Tuple(*flds, *pos_list)),
                        arity(*f) == 2,
                        stack@ =~= old(stack)@.subrange(0, old(stack)@.len() - 2),
                        forall|j: int| 0 <= j < i__2 ==> call_field_ok(*f, #[trigger] flds@[j]),
                        new_fields@ == kept_fields(*f, flds@, i__2 as int), new_flds_pos_list@.len() == new_fields@.len(),
                    decreases it__2@.len() - i__2
//@   >>>
//@   loop 3 indexed <<<
                    invariant
                        i__3 <= it__3@.len(), it__3@ == s@,
                        old(stack)@.len() >= 2, opnd(old(stack)@, 2) == F(*f),
                        opnd(old(stack)@, 1) == P(Str(*s)),
                        arity(*f) == 1,
                        stack@ =~= old(stack)@.subrange(0, old(stack)@.len() - 2),
                        forall|j: int| 0 <= j < i__3 ==> call_char_ok(*f, #[trigger] s@[j]),
                        buf@ == kept_chars(*f, s@, i__3 as int),
                    decreases it__3@.len() - i__3
//@   >>>
//@ end

//@ extract src/build/opcode/runtime.rs :: impl Builtins :: fn reduce
//@   rule R1 R3
//@   subst "match *list.as_ref() {" => "match list.as_ref() {"
//@   mutant reduce_args_swapped "stack.push((acc.clone(), acc_pos.clone())); stack.push((e.clone(), e_pos.clone()));" => "stack.push((e.clone(), e_pos.clone())); stack.push((acc.clone(), acc_pos.clone()));" expect reduce
//@   mutant reduce_restarts_from_initial "for (counter, e) in elems.iter().enumerate() { let e_pos = elems_pos_list[counter].clone();" => "let init__ = acc.clone(); for (counter, e) in elems.iter().enumerate() { let e_pos = elems_pos_list[counter].clone(); acc = init__.clone();" expect reduce
//@   mutant reduce_tuple_name_value_swapped "stack.push((Rc::new(P(Str(name.clone()))), name_pos)); stack.push((val.clone(), val_pos));" => "stack.push((val.clone(), val_pos)); stack.push((Rc::new(P(Str(name.clone()))), name_pos));" expect reduce
//@   mutant reduce_arity_off_by_one "{ 3 } else { 2 }" => "{ 2 } else { 2 }" expect reduce
//@   mutant reduce_arity_too_many_accepted "if f.bindings.len() != arg_count {" => "if f.bindings.len() < arg_count {" expect reduce
//@   mutant reduce_str_keeps_first_acc "acc = new_acc; acc_pos = new_acc_pos; } } _ =>" => "acc_pos = new_acc_pos; } } _ =>" expect reduce
//@   ret r
//@   sig <<<
        requires
            // translator invariant (caller obligation): the function, the initial accumulator and the target were pushed
            old(stack)@.len() >= 3,
            // value invariant: one position per element / field
            wf_top(opnd(old(stack)@, 1)),
        ensures
            // the result replaces the three operands; everything below is untouched
            r is Ok ==> final(stack)@.len() == old(stack)@.len() - 2
                && final(stack)@.drop_last() =~= old(stack)@.subrange(0, old(stack)@.len() - 3),
            !(opnd(old(stack)@, 3) is F) ==> r is Err,
            opnd(old(stack)@, 3) matches F(f) ==> (opnd(old(stack)@, 1) matches C(List(elems, _)) ==> reduce_list_post(f, opnd(old(stack)@, 2), elems@, r, opnd(final(stack)@, 1))),
            opnd(old(stack)@, 3) matches F(f) ==> (opnd(old(stack)@, 1) matches C(Tuple(flds, _)) ==> reduce_tuple_post(f, opnd(old(stack)@, 2), flds@, r, opnd(final(stack)@, 1))),
            opnd(old(stack)@, 3) matches F(f) ==> (opnd(old(stack)@, 1) matches P(Str(s)) ==> reduce_str_post(f, opnd(old(stack)@, 2), s@, r, opnd(final(stack)@, 1))),
            !functional_target(opnd(old(stack)@, 1)) ==> r is Err,
//@   >>>
//@   loop 1 indexed <<<
                    invariant
                        i__1 <= it__1@.len(), it__1@ == elems@, elems_pos_list@.len() == elems@.len(),
                        old(stack)@.len() >= 3, opnd(old(stack)@, 3) == F(*f),
                        opnd(old(stack)@, 1) == C(List(*elems, *elems_pos_list)),
                        arity(*f) == 2,
                        stack@ =~= old(stack)@.subrange(0, old(stack)@.len() - 3),
                        forall|j: int| 0 <= j < i__1 ==> red_elem_ok(*f, acc_elems(*f, opnd(old(stack)@, 2), elems@, j), #[trigger] elems@[j]),
                        *acc == acc_elems(*f, opnd(old(stack)@, 2), elems@, i__1 as int),
                    decreases it__1@.len() - i__1
//@   >>>
//@   loop 2 indexed <<<
                    invariant
                        i__2 <= it__2@.len(), it__2@ == _flds@, flds_pos_list@.len() == _flds@.len(),
                        old(stack)@.len() >= 3, opnd(old(stack)@, 3) == F(*f),
                        opnd(old(stack)@, 1) == C(Tuple(*_flds, *flds_pos_list)),
                        arity(*f) == 3,
                        stack@ =~= old(stack)@.subrange(0, old(stack)@.len() - 3),
                        forall|j: int| 0 <= j < i__2 ==> red_field_ok(*f, acc_fields(*f, opnd(old(stack)@, 2), _flds@, j), #[trigger] _flds@[j]),
                        *acc == acc_fields(*f, opnd(old(stack)@, 2), _flds@, i__2 as int),
                    decreases it__2@.len() - i__2
//@   >>>
//@   loop 3 indexed <<<
                    invariant
                        i__3 <= it__3@.len(), it__3@ == s@,
                        old(stack)@.len() >= 3, opnd(old(stack)@, 3) == F(*f),
                        opnd(old(stack)@, 1) == P(Str(*s)),
                        arity(*f) == 2,
                        stack@ =~= old(stack)@.subrange(0, old(stack)@.len() - 3),
                        forall|j: int| 0 <= j < i__3 ==> red_char_ok(*f, acc_chars(*f, opnd(old(stack)@, 2), s@, j), #[trigger] s@[j]),
                        *acc == acc_chars(*f, opnd(old(stack)@, 2), s@, i__3 as int),
                    decreases it__3@.len() - i__3
//@   >>>
//@ end

// ---------- the oracle on the reference's examples (sanity of the spec functions) ----------
// filter: false and NULL are filtered out, every other value (0, "", ...) keeps the item, order preserved
proof fn lemma_filter_example(f: Func, a: Rc<Value>, b: Rc<Value>, c: Rc<Value>, d: Rc<Value>, e: Rc<str>)
    requires
        call_result(f, elem_args(a)) == Some(P(Int(0))), call_result(f, elem_args(b)) == Some(P(Bool(false))),
        call_result(f, elem_args(c)) == Some(P(Empty)), call_result(f, elem_args(d)) == Some(P(Str(e))),
    ensures kept_elems(f, seq![a, b, c, d], 4) == seq![a, d]
{
    reveal_with_fuel(kept_elems, 5);
    assert(kept_elems(f, seq![a, b, c, d], 4) =~= seq![a, d]);
}
// reduce(f, i, [a, b]) = f(f(i, a), b)
proof fn lemma_reduce_example(f: Func, i: Value, a: Rc<Value>, b: Rc<Value>, x: Value, y: Value)
    requires call_result(f, seq![i, *a]) == Some(x), call_result(f, seq![x, *b]) == Some(y),
    ensures acc_elems(f, i, seq![a, b], 2) == y
{
    reveal_with_fuel(acc_elems, 3);
}
// map(f, "ab") = f("a") + f("b")
proof fn lemma_map_str_example(f: Func, x: Rc<str>, y: Rc<str>)
    requires call_result(f, char_args('a')) == Some(P(Str(x))), call_result(f, char_args('b')) == Some(P(Str(y))),
    ensures map_str(f, seq!['a', 'b'], 2) == x@ + y@
{
    reveal_with_fuel(map_str, 3);
    assert(map_str(f, seq!['a', 'b'], 2) =~= x@ + y@);
}

} // verus!

fn main() {}
