// ---- prelude/core.rs: trusted models of std pieces every unit needs (inside verus!) ----
pub assume_specification<T: ?Sized, A: std::alloc::Allocator> [<std::boxed::Box<T, A> as std::convert::AsRef<T>>::as_ref] (b: &std::boxed::Box<T, A>) -> (r: &T)
    ensures r == &**b;

pub assume_specification<T: ?Sized, A: std::alloc::Allocator> [<std::rc::Rc<T, A> as std::convert::AsRef<T>>::as_ref] (b: &std::rc::Rc<T, A>) -> (r: &T)
    ensures r == &**b;

// R1: message text is dropped; a message is an opaque String.
#[verifier::external_body]
pub fn verif_msg() -> String { unimplemented!() }

#[verifier::external_body]
pub fn verif_print() { }

// A slice's length is a usize (true of every Rust slice; vstd does not export it as a lemma).
#[verifier::external_body]
pub proof fn axiom_slice_len_bound<T>(s: &[T])
    ensures s@.len() <= usize::MAX
{ }

#[verifier::external_body]
pub proof fn axiom_vec_len_bound<T>(v: &Vec<T>)
    ensures v@.len() <= usize::MAX
{ }

// std: "Vec never allocates more than isize::MAX bytes" - for non-zero-sized T the length fits an isize.
#[verifier::external_body]
pub proof fn axiom_vec_len_isize<T>(v: &Vec<T>)
    ensures v@.len() <= isize::MAX
{ }

// R13 helpers: the sequence a `for` loop walks, as an indexable value.
pub fn verif_as_slice<T>(v: &Vec<T>) -> (r: &[T])
    ensures r@ == v@
{ v.as_slice() }
// `s.chars()` yields the chars of s in order (std); the model materialises them.
#[verifier::external_body]
pub fn verif_chars_vec(s: &str) -> (r: Vec<char>)
    ensures r@ == s@
{ s.chars().collect() }
