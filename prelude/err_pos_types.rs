// ---- prelude/err_pos_types.rs: the opcode VM's value and program types for unit err_pos ----
// A COPY of prelude/vm_data_types.rs WITHOUT its model of opcode::Error (the unit extracts the real one).
// Extracted: Primitive, Composite, Value, Func, Module, CastType, Hook, ConstraintArmType, Op, OpsMap, OpPointer.
// The including unit declares `Stack` and `Builtins` itself (opaque, or extracted when it looks inside).
//@ opaque Position VPathBuf ConstraintVal ReservedWords VShapeMap VLinks
//@ clone_spec Position VPathBuf

// opcode::Error is NOT modelled here: unit err_pos extracts the real struct and its methods from error.rs.
//@ extract src/build/opcode/mod.rs :: enum Primitive
//@   rule R0
//@ end
//@ extract src/build/opcode/mod.rs :: enum Composite
//@   rule R0
//@ end
//@ extract src/build/opcode/mod.rs :: enum Value
//@   rule R0
//@ end
//@ extract src/build/opcode/mod.rs :: struct Func
//@   rule R0 RV
//@ end
//@ extract src/build/opcode/mod.rs :: struct Module
//@   rule R0 RV
//@ end
use Primitive::{Bool, Empty, Float, Int, Str};
use Composite::{List, Tuple};
use Value::{C, F, K, M, P, S, T};

//@ extract src/ast/mod.rs :: enum CastType
//@   rule R0
//@ end
//@ extract src/build/opcode/mod.rs :: enum Hook
//@   rule R0
//@ end
//@ extract src/build/opcode/mod.rs :: enum ConstraintArmType
//@   rule R0
//@ end
//@ extract src/build/opcode/mod.rs :: enum Op
//@   rule R0
//@ end
//@ extract src/build/opcode/translate.rs :: struct OpsMap
//@   rule R0
//@   subst "shape_map: BTreeMap<Rc<str>, Shape>" => "shape_map: VShapeMap"
//@   subst "links: BTreeMap<Rc<str>, Position>" => "links: VLinks"
//@ end
//@ extract src/build/opcode/pointer.rs :: struct OpPointer
//@   rule R0
//@   subst "path: Option<PathBuf>" => "path: Option<VPathBuf>"
//@ end

// R0: derived Clone is assumed structural; Rc::clone is a pointer copy.
impl Clone for Value {
    #[verifier::external_body]
    fn clone(&self) -> (r: Self)
        ensures r == *self
    { unimplemented!() }
}
impl Clone for OpPointer {
    #[verifier::external_body]
    fn clone(&self) -> (r: Self)
        ensures r == *self
    { unimplemented!() }
}

// std: cloning an Rc is a pointer copy, cloning a pair clones its components (Position: clone_spec above).
// vstd states `Vec::clone` through `cloned(a, b)` per element; these axioms say what `cloned` is for the element
// types the VM keeps in vectors.  Used function-locally (`broadcast use` in the body) only.
pub mod clax {
    use super::*;
    pub broadcast axiom fn axiom_cloned_rc_value(a: Rc<Value>, b: Rc<Value>)
        ensures #[trigger] cloned::<Rc<Value>>(a, b) ==> a == b;
    pub broadcast axiom fn axiom_cloned_field(a: (Rc<str>, Rc<Value>), b: (Rc<str>, Rc<Value>))
        ensures #[trigger] cloned::<(Rc<str>, Rc<Value>)>(a, b) ==> a == b;
    pub broadcast axiom fn axiom_cloned_pos_pair(a: (Position, Position), b: (Position, Position))
        ensures #[trigger] cloned::<(Position, Position)>(a, b) ==> a == b;
    pub broadcast axiom fn axiom_cloned_val_pos(a: (Rc<Value>, Position), b: (Rc<Value>, Position))
        ensures #[trigger] cloned::<(Rc<Value>, Position)>(a, b) ==> a == b;
    pub broadcast axiom fn axiom_cloned_rcstr(a: Rc<str>, b: Rc<str>)
        ensures #[trigger] cloned::<Rc<str>>(a, b) ==> a == b;
    pub broadcast group group_clone_axioms {
        axiom_cloned_rc_value, axiom_cloned_field, axiom_cloned_pos_pair, axiom_cloned_val_pos, axiom_cloned_rcstr,
    }
}

// `&str -> Rc<str>` / `String -> Rc<str>` (`.into()`): std `From` impls, content preserved.
// (the &str impl has an anonymous impl lifetime that `assume_specification` cannot name: call sites are rewritten)
#[verifier::external_body]
pub fn verif_str_into_rcstr(s: &str) -> (r: Rc<str>)
    ensures r@ == s@
{ s.into() }
pub assume_specification [<Rc<str> as From<String>>::from] (s: String) -> (r: Rc<str>)
    ensures r@ == s@;

// `x.into()` producing an Rc<str>: rewritten to `x.v_into()`, whose impl is chosen by the receiver's type exactly as
// rustc chooses the `From` impl (Verus does not resolve `.into()` to a local impl with a usable contract).
pub trait VIntoRcStr { spec fn v_text(&self) -> Seq<char>; fn v_into(self) -> (r: Rc<str>) ensures r@ == self.v_text(); }
impl VIntoRcStr for &str {
    open spec fn v_text(&self) -> Seq<char> { self@ }
    fn v_into(self) -> (r: Rc<str>) { verif_str_into_rcstr(self) }
}

// Rc<str> == Rc<str> compares contents (std; no vstd spec) - R9' model.
#[verifier::external_body]
pub fn verif_rcstr_eq(a: &Rc<str>, b: &Rc<str>) -> (r: bool)
    ensures r == (a@ == b@)
{ a == b }

// (from prelude/vm_values.rs)
// R6: float arithmetic is uninterpreted (operand order is still pinned by the contracts).
pub uninterp spec fn f64_add(a: f64, b: f64) -> f64;
pub uninterp spec fn f64_sub(a: f64, b: f64) -> f64;
pub uninterp spec fn f64_mul(a: f64, b: f64) -> f64;
pub uninterp spec fn f64_div(a: f64, b: f64) -> f64;
pub uninterp spec fn f64_rem(a: f64, b: f64) -> f64;
#[verifier::external_body] pub fn verif_f64_add(a: f64, b: f64) -> (r: f64) ensures r == f64_add(a, b) { a + b }
#[verifier::external_body] pub fn verif_f64_sub(a: f64, b: f64) -> (r: f64) ensures r == f64_sub(a, b) { a - b }
#[verifier::external_body] pub fn verif_f64_mul(a: f64, b: f64) -> (r: f64) ensures r == f64_mul(a, b) { a * b }
#[verifier::external_body] pub fn verif_f64_div(a: f64, b: f64) -> (r: f64) ensures r == f64_div(a, b) { a / b }
#[verifier::external_body] pub fn verif_f64_rem(a: f64, b: f64) -> (r: f64) ensures r == f64_rem(a, b) { a % b }

// exec float comparisons are unconstrained in Verus; same treatment (operand order pinned).
pub uninterp spec fn f64_gt(a: f64, b: f64) -> bool;
pub uninterp spec fn f64_lt(a: f64, b: f64) -> bool;
pub uninterp spec fn f64_ge(a: f64, b: f64) -> bool;
pub uninterp spec fn f64_le(a: f64, b: f64) -> bool;
#[verifier::external_body] pub fn verif_f64_gt(a: f64, b: f64) -> (r: bool) ensures r == f64_gt(a, b) { a > b }
#[verifier::external_body] pub fn verif_f64_lt(a: f64, b: f64) -> (r: bool) ensures r == f64_lt(a, b) { a < b }
#[verifier::external_body] pub fn verif_f64_ge(a: f64, b: f64) -> (r: bool) ensures r == f64_ge(a, b) { a >= b }
#[verifier::external_body] pub fn verif_f64_le(a: f64, b: f64) -> (r: bool) ensures r == f64_le(a, b) { a <= b }

// String -> Rc<str> (`.into()`): content preserved.
#[verifier::external_body]
pub fn verif_string_into_rcstr(s: String) -> (r: Rc<str>)
    ensures r@ == s@
{ s.into() }
