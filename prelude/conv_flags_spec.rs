// ---- prelude/conv_flags_spec.rs: what the flags converter must emit (inside verus!; needs conv_env_types.rs, sh_escape_posix.rs) ----
// ---------- the property's contract ----------
// the flag word: `--<pfx><name> ` for long names or a non-empty prefix, `-<n> ` for one-character names
pub open spec fn flag_name_text(pfx: Seq<char>, name: Seq<char>) -> Seq<char> {
    if name.len() > 1 || pfx.len() > 0 { seq!['-', '-'] + pfx + name + sp() } else { seq!['-'] + name + sp() }
}

// what follows the flag word: a scalar gives exactly one word (a string: the single-quoted form the POSIX
// oracle reads back as the value) and the separating blank; NULL gives nothing (the documented bare flag);
// None: the item is skipped altogether (tuple, list inside a list, env, constraint).
pub open spec fn flag_value_text(v: Val) -> Option<Seq<char>> {
    match v {
        Val::Boolean(b) => Some(bool_word(b) + sp()),
        Val::Int(i) => Some(disp_i64(i) + sp()),
        Val::Float(f) => Some(disp_f64(f) + sp()),
        Val::Str(s) => Some(sh_squote(s@) + sp()),
        Val::Empty => Some(Seq::<char>::empty()),
        _ => None,
    }
}

// one scalar field / one list item: flag word then value word; a skipped item emits NOTHING
pub open spec fn flag_item(pfx: Seq<char>, name: Seq<char>, v: Val) -> Seq<char> {
    match flag_value_text(v) {
        Some(t) => flag_name_text(pfx, name) + t,
        None => Seq::<char>::empty(),
    }
}

// a list field: its items in order, the flag word repeated for each
pub open spec fn flag_list(pfx: Seq<char>, name: Seq<char>, items: Seq<Rc<Val>>) -> Seq<char>
    decreases items.len()
{
    if items.len() == 0 {
        Seq::<char>::empty()
    } else {
        flag_list(pfx, name, items.drop_last()) + flag_item(pfx, name, *items.last())
    }
}

pub open spec fn flag_field(pfx: Seq<char>, name: Seq<char>, v: Val) -> Seq<char> {
    match v {
        Val::List(items) => flag_list(pfx, name, items@),
        _ => flag_item(pfx, name, v),
    }
}

// the concatenation over the fields IN ORDER
pub open spec fn flag_fields(pfx: Seq<char>, flds: Seq<(Rc<str>, Rc<Val>)>) -> Seq<char>
    decreases flds.len()
{
    if flds.len() == 0 {
        Seq::<char>::empty()
    } else {
        flag_fields(pfx, flds.drop_last()) + flag_field(pfx, flds.last().0@, *flds.last().1)
    }
}

