//@ unit vm_arith
//@ serves C01 C04
//@ must_verify VM::mul VM::div VM::sub VM::modulus VM::add VM::push VM::pop VM::op_add VM::op_sub VM::op_mul VM::op_div VM::op_mod
//@ include prelude/head.rs
use std::rc::Rc;

verus! {
//@ include prelude/core.rs
//@ include prelude/vm_types.rs

impl Value {
    // type_name is only used to build error messages here (R1/R8).
    #[verifier::external_body]
    fn type_name(&self) -> &'static str { unimplemented!() }
}

//@ extract src/build/opcode/vm.rs :: struct VM
//@   rule R0 RV
//@   subst "working_dir: PathBuf" => "working_dir: VPathBuf"
//@   subst "runtime: runtime::Builtins" => "runtime: Builtins"
//@   subst "reserved_words: &'static BTreeSet<&'static str>" => "reserved_words: ReservedWords"
//@ end

// ---------- oracle: the reference's arithmetic on values ----------
pub open spec fn fits(x: int) -> bool { i64::MIN <= x <= i64::MAX }

pub enum ArithOp { Add, Sub, Mul, Div, Mod }

// truncating division / remainder of the reference (round toward zero, remainder has the sign of the
// dividend), on mathematical integers; `/` and `%` below are Verus' Euclidean operators on int.
pub open spec fn tdiv(a: int, b: int) -> int
    recommends b != 0
{
    if a >= 0 { a / b } else { -((-a) / b) }
}
pub open spec fn trem(a: int, b: int) -> int
    recommends b != 0
{
    if a >= 0 { a % b } else { -((-a) % b) }
}

// The mathematical result of `a OP b`, or None when the reference gives none (division by zero).
pub open spec fn int_result(op: ArithOp, a: int, b: int) -> Option<int> {
    match op {
        ArithOp::Add => Some(a + b),
        ArithOp::Sub => Some(a - b),
        ArithOp::Mul => Some(a * b),
        ArithOp::Div => if b == 0 { None } else { Some(tdiv(a, b)) },
        ArithOp::Mod => if b == 0 { None } else { Some(trem(a, b)) },
    }
}

// i64::MIN / -1 is the only quotient of two i64 that does not fit (it is 2^63).
pub open spec fn int_fits(op: ArithOp, a: int, b: int, x: int) -> bool {
    match op {
        ArithOp::Div => !(a == i64::MIN && b == -1),
        ArithOp::Mod => true,
        _ => fits(x),
    }
}

proof fn lemma_min_div_minus_one()
    ensures tdiv(i64::MIN as int, -1) == i64::MAX + 1, trem(i64::MIN as int, -1) == 0
{ }

pub open spec fn float_result(op: ArithOp, a: f64, b: f64) -> f64 {
    match op {
        ArithOp::Add => f64_add(a, b),
        ArithOp::Sub => f64_sub(a, b),
        ArithOp::Mul => f64_mul(a, b),
        ArithOp::Div => f64_div(a, b),
        ArithOp::Mod => f64_rem(a, b),
    }
}

// What `left OP right` must be for the scalar operators: a value, or a failed build (None).
// Never a panic (C04), never a wrapped result.
pub open spec fn prim_arith(op: ArithOp, l: Value, r: Value) -> Option<Primitive> {
    match (l, r) {
        (P(Int(a)), P(Int(b))) => match int_result(op, a as int, b as int) {
            Some(x) => if int_fits(op, a as int, b as int, x) { Some(Int(x as i64)) } else { None },
            None => None,
        },
        (P(Float(a)), P(Float(b))) => Some(Float(float_result(op, a, b))),
        _ => None,
    }
}

pub open spec fn prim_contract(op: ArithOp, l: Value, r: Value, res: Result<Primitive, Error>) -> bool {
    match prim_arith(op, l, r) {
        Some(p) => res == Ok::<Primitive, Error>(p),
        None => res is Err,
    }
}

// `+` additionally concatenates strings and lists.
pub open spec fn add_spec(l: Value, r: Value, out: Value) -> bool {
    match (l, r) {
        (P(Str(a)), P(Str(b))) => out matches P(Str(c)) && c@ =~= a@ + b@,
        (C(List(a, ap)), C(List(b, bp))) => out matches C(List(c, cp)) && c@ =~= a@ + b@ && cp@ =~= ap@.take(a@.len() as int) + bp@.take(b@.len() as int),
        _ => prim_arith(ArithOp::Add, l, r) == Some(out->P_0) && out is P,
    }
}
pub open spec fn add_defined(l: Value, r: Value) -> bool {
    match (l, r) {
        (P(Str(a)), P(Str(b))) => true,
        (C(List(a, ap)), C(List(b, bp))) => true,
        _ => prim_arith(ArithOp::Add, l, r) is Some,
    }
}

//@ extract src/build/opcode/vm.rs :: impl VM :: fn mul
//@   rule R1 R6(*f,*ff)
//@   ret r
//@   sig <<<
        ensures prim_contract(ArithOp::Mul, *left, *right, r)
//@   >>>
//@ end
//@ extract src/build/opcode/vm.rs :: impl VM :: fn div
//@   rule R1 R6(*f,*ff)
//@   mutant div_swapped "i.checked_div(*ii)" => "ii.checked_div(*i)" expect div
//@   mutant fdiv_swapped "verif_f64_div(*f, *ff)" => "verif_f64_div(*ff, *f)" expect div
//@   ret r
//@   sig <<<
        ensures prim_contract(ArithOp::Div, *left, *right, r)
//@   >>>
//@ end
//@ extract src/build/opcode/vm.rs :: impl VM :: fn sub
//@   rule R1 R6(*f,*ff)
//@   ret r
//@   sig <<<
        ensures prim_contract(ArithOp::Sub, *left, *right, r)
//@   >>>
//@   mutant sub_swapped "i.checked_sub(*ii)" => "ii.checked_sub(*i)" expect sub
//@ end
//@ extract src/build/opcode/vm.rs :: impl VM :: fn modulus
//@   rule R1 R6(*f,*ff)
//@   mutant mod_min "None if *ii == -1 => Int(0)" => "None if *ii == -1 => Int(1)" expect modulus
//@   ret r
//@   sig <<<
        ensures prim_contract(ArithOp::Mod, *left, *right, r)
//@   >>>
//@ end
//@ extract src/build/opcode/vm.rs :: impl VM :: fn add
//@   rule R1 R6(*f,*ff)
//@   subst "P(Str(ns.into()))" => "P(Str(verif_string_into_rcstr(ns)))"
//@   ret r
//@   sig <<<
        requires
            // representation invariant of list values: one position per element
            (*left matches C(List(a, ap)) ==> a@.len() <= ap@.len()),
            (*right matches C(List(b, bp)) ==> b@.len() <= bp@.len()),
            // two lists held in memory have fewer than 2^64 elements together
            (*left matches C(List(a, ap)) ==> (*right matches C(List(b, bp)) ==> a@.len() + b@.len() <= usize::MAX)),
        ensures
            add_defined(*left, *right) ==> r is Ok && add_spec(*left, *right, r->Ok_0),
            !add_defined(*left, *right) ==> r is Err,
//@   >>>
//@   loop 1 iter it <<<
                    invariant
                        it.seq().len() == left_list@.len(),
                        forall|k: int| 0 <= k < left_list@.len() ==> *it.seq()[k] == left_list@[k],
                        counter == it.index,
                        left_list@.len() <= left_pos_list@.len(), left_list@.len() <= usize::MAX,
                        new_list@ == left_list@.take(it.index as int),
                        new_pos_list@ == left_pos_list@.take(it.index as int),
//@   >>>
//@   loop 2 iter it <<<
                    invariant
                        it.seq().len() == right_list@.len(),
                        forall|k: int| 0 <= k < right_list@.len() ==> *it.seq()[k] == right_list@[k],
                        counter == it.index,
                        right_list@.len() <= right_pos_list@.len(), right_list@.len() <= usize::MAX,
                        new_list@ == left_list@ + right_list@.take(it.index as int),
                        new_pos_list@ == left_pos_list@.take(left_list@.len() as int) + right_pos_list@.take(it.index as int),
//@   >>>
//@ end

//@ extract src/build/opcode/vm.rs :: impl VM :: fn push
//@   ret r
//@   sig <<<
        ensures r is Ok, final(self).stack@ == old(self).stack@.push((val, pos)),
            frame(*old(self), *final(self)),
//@   >>>
//@ end
//@ extract src/build/opcode/vm.rs :: impl VM :: fn pop
//@   subst "Some(v.clone())" => "Some((v.0.clone(), v.1.clone()))"
//@   ret r
//@   sig <<<
        requires old(self).stack@.len() > 0
        ensures r is Ok, r->Ok_0 == old(self).stack@.last(), final(self).stack@ == old(self).stack@.drop_last(),
            frame(*old(self), *final(self)),
//@   >>>
//@ end

// nothing but the value stack (and the `last` debugging slot) changes
pub open spec fn frame(a: VM, b: VM) -> bool {
    a.symbols == b.symbols && a.self_stack == b.self_stack && a.ops == b.ops && a.import_stack == b.import_stack
    && a.working_dir == b.working_dir && a.runtime == b.runtime && a.reserved_words == b.reserved_words
}

// Stack discipline of a binary operator: the LEFT operand is the top of the stack, the RIGHT one below it.
pub open spec fn binop_stack(old_s: Seq<(Rc<Value>, Position)>, new_s: Seq<(Rc<Value>, Position)>, out: Value, pos: Position) -> bool {
    let n = old_s.len() as int;
    new_s.len() == n - 1 && new_s.subrange(0, n - 2) =~= old_s.subrange(0, n - 2)
    && *new_s[n - 2].0 == out && new_s[n - 2].1 == pos
}

pub open spec fn op_prim_contract(op: ArithOp, old_vm: VM, new_vm: VM, pos: Position, r: Result<(), Error>) -> bool {
    let n = old_vm.stack@.len() as int;
    let top = *old_vm.stack@[n - 1].0; let second = *old_vm.stack@[n - 2].0;
    &&& frame(old_vm, new_vm)
    &&& match prim_arith(op, top, second) {
        Some(p) => r is Ok && binop_stack(old_vm.stack@, new_vm.stack@, P(p), pos),
        None => r is Err,
    }
}

//@ extract src/build/opcode/vm.rs :: impl VM :: fn op_mod
//@   ret r
//@   sig <<<
        requires old(self).stack@.len() >= 2
        ensures op_prim_contract(ArithOp::Mod, *old(self), *final(self), pos, r)
//@   >>>
//@ end
//@ extract src/build/opcode/vm.rs :: impl VM :: fn op_sub
//@   ret r
//@   sig <<<
        requires old(self).stack@.len() >= 2
        ensures op_prim_contract(ArithOp::Sub, *old(self), *final(self), pos, r)
//@   >>>
//@   mutant op_sub_swapped "self.sub(&left, &right, &right_pos)" => "self.sub(&right, &left, &right_pos)" expect op_sub
//@ end
//@ extract src/build/opcode/vm.rs :: impl VM :: fn op_mul
//@   ret r
//@   sig <<<
        requires old(self).stack@.len() >= 2
        ensures op_prim_contract(ArithOp::Mul, *old(self), *final(self), pos, r)
//@   >>>
//@ end
//@ extract src/build/opcode/vm.rs :: impl VM :: fn op_div
//@   ret r
//@   sig <<<
        requires old(self).stack@.len() >= 2
        ensures op_prim_contract(ArithOp::Div, *old(self), *final(self), pos, r)
//@   >>>
//@   mutant op_div_swapped "self.div(&left, &right, &right_pos)" => "self.div(&right, &left, &right_pos)" expect op_div
//@ end
//@ extract src/build/opcode/vm.rs :: impl VM :: fn op_add
//@   ret r
//@   sig <<<
        requires old(self).stack@.len() >= 2,
            ({ let n = old(self).stack@.len() as int;
               (*old(self).stack@[n - 1].0 matches C(List(a, ap)) ==> a@.len() <= ap@.len())
               && (*old(self).stack@[n - 2].0 matches C(List(b, bp)) ==> b@.len() <= bp@.len())
               && (*old(self).stack@[n - 1].0 matches C(List(a, ap)) ==> (*old(self).stack@[n - 2].0 matches C(List(b, bp)) ==> a@.len() + b@.len() <= usize::MAX)) }),
        ensures ({
            let n = old(self).stack@.len() as int;
            let top = *old(self).stack@[n - 1].0; let second = *old(self).stack@[n - 2].0;
            &&& frame(*old(self), *final(self))
            &&& (add_defined(top, second) ==> r is Ok && final(self).stack@.len() == n - 1
                    && final(self).stack@.subrange(0, n - 2) =~= old(self).stack@.subrange(0, n - 2)
                    && add_spec(top, second, *final(self).stack@[n - 2].0) && final(self).stack@[n - 2].1 == pos)
            &&& (!add_defined(top, second) ==> r is Err)
        })
//@   >>>
//@ end

} // verus!

fn main() {}
