//@ unit vm_dispatch
//@ serves C01 C18
//@ must_verify VM::run
//@ include prelude/head.rs
use std::rc::Rc;

verus! {
//@ include prelude/core.rs
//@ include prelude/vm_values.rs
//@ opaque VShapeMap VLinks VEnvCell
//@ extract src/ast/mod.rs :: enum CastType
//@   rule R0
//@ end
//@ extract src/build/opcode/mod.rs :: enum Hook
//@   rule R0
//@ end
//@ extract src/build/opcode/mod.rs :: enum ConstraintArmType
//@   rule R0
//@ end
//@ extract src/build/opcode/mod.rs :: enum Op
//@   rule R0
//@ end
//@ clone_spec Op Primitive CastType Hook
//@ extract src/build/opcode/translate.rs :: struct OpsMap
//@   rule R0
//@   subst "shape_map: BTreeMap<Rc<str>, Shape>" => "shape_map: VShapeMap"
//@   subst "links: BTreeMap<Rc<str>, Position>" => "links: VLinks"
//@ end
//@ extract src/build/opcode/pointer.rs :: struct OpPointer
//@   rule R0
//@   subst "path: Option<PathBuf>" => "path: Option<VPathBuf>"
//@ end
impl Clone for OpPointer {
    #[verifier::external_body]
    fn clone(&self) -> (r: Self) ensures r == *self { unimplemented!() }
}
// the struct Builtins of runtime.rs: only `strict` is read by the dispatch loop
pub struct VBuiltins { pub strict: bool }

// ---------- what one handler invocation is: the oracle's vocabulary ----------
// One variant per handler of the VM, with the arguments the dispatch loop hands to it.
pub enum Call {
    Push(Value, Position), Cast(CastType), DeRef(Rc<str>, Position),
    Add(Position), Mod(Position), Sub(Position), Mul(Position), Div(Position),
    Bind(bool), Equal(Position), Not(Position), Gt(Position), Lt(Position), GtEq(Position), LtEq(Position),
    Field, Element, Index(bool, Position), Exist(Position), Copy(Position), Bang, Thunk(usize, i32, Position),
    Jump(i32), JumpIfTrue(i32), JumpIfFalse(i32), SelectJump(i32), And(i32, Position), Or(i32, Position),
    Module(usize, i32, Position), Func(usize, i32, Position), FCall(Position), NewScope(i32, OpPointer),
    Pop, Typ, Runtime(Hook, Position), Render, PushSelf, PopSelf, CheckConstraint(Position),
    BuildConstraint(Vec<ConstraintArmType>, Position),
    // oracle-only: a list / tuple literal starts EMPTY
    PushEmptyList(Position), PushEmptyTuple(Position),
}

// The reference meaning of each opcode (src/build/opcode/mod.rs documents them): which handler runs, with which
// arguments. `strict` is the VM's strictness: a plain selector lookup (`Index`) is SAFE (NULL on a miss) exactly when
// the VM is NOT strict; `SafeIndex` is always safe; `Bind` is the strict bind of `let`, `BindOver` may shadow.
pub open spec fn call_for(op: Op, pos: Position, idx: usize, strict: bool, ptr_after_fetch: OpPointer) -> Option<Call> {
    match op {
        Op::Val(p) => Some(Call::Push(P(p), pos)),
        Op::Cast(t) => Some(Call::Cast(t)),
        Op::Sym(s) => Some(Call::Push(S(s), pos)),
        Op::DeRef(s) => Some(Call::DeRef(s, pos)),
        Op::Add => Some(Call::Add(pos)), Op::Mod => Some(Call::Mod(pos)), Op::Sub => Some(Call::Sub(pos)),
        Op::Mul => Some(Call::Mul(pos)), Op::Div => Some(Call::Div(pos)),
        Op::Bind => Some(Call::Bind(true)), Op::BindOver => Some(Call::Bind(false)),
        Op::Equal => Some(Call::Equal(pos)), Op::Not => Some(Call::Not(pos)),
        Op::Gt => Some(Call::Gt(pos)), Op::Lt => Some(Call::Lt(pos)), Op::GtEq => Some(Call::GtEq(pos)), Op::LtEq => Some(Call::LtEq(pos)),
        Op::InitList => Some(Call::PushEmptyList(pos)),
        Op::InitTuple => Some(Call::PushEmptyTuple(pos)),
        Op::Field => Some(Call::Field), Op::Element => Some(Call::Element),
        Op::Index => Some(Call::Index(!strict, pos)), Op::SafeIndex => Some(Call::Index(true, pos)),
        Op::Exist => Some(Call::Exist(pos)), Op::Cp => Some(Call::Copy(pos)), Op::Bang => Some(Call::Bang),
        Op::InitThunk(jp) => Some(Call::Thunk(idx, jp, pos)),
        Op::Noop => None,
        Op::Jump(jp) => Some(Call::Jump(jp)), Op::JumpIfTrue(jp) => Some(Call::JumpIfTrue(jp)), Op::JumpIfFalse(jp) => Some(Call::JumpIfFalse(jp)),
        Op::SelectJump(jp) => Some(Call::SelectJump(jp)), Op::And(jp) => Some(Call::And(jp, pos)), Op::Or(jp) => Some(Call::Or(jp, pos)),
        Op::Module(mptr) => Some(Call::Module(idx, mptr, pos)), Op::Func(jptr) => Some(Call::Func(idx, jptr, pos)),
        Op::FCall => Some(Call::FCall(pos)), Op::NewScope(jp) => Some(Call::NewScope(jp, ptr_after_fetch)),
        Op::Return => None,
        Op::Pop => Some(Call::Pop), Op::Typ => Some(Call::Typ), Op::Runtime(h) => Some(Call::Runtime(h, pos)),
        Op::Render => Some(Call::Render), Op::PushSelf => Some(Call::PushSelf), Op::PopSelf => Some(Call::PopSelf),
        Op::CheckConstraint => Some(Call::CheckConstraint(pos)), Op::BuildConstraint(a) => Some(Call::BuildConstraint(a, pos)),
    }
}

pub open spec fn call_matches(want: Call, got: Call) -> bool {
    match (want, got) {
        (Call::PushEmptyList(p), Call::Push(C(List(b, bp)), q)) => b@.len() == 0 && bp@.len() == 0 && p == q,
        (Call::PushEmptyTuple(p), Call::Push(C(Tuple(b, bp)), q)) => b@.len() == 0 && bp@.len() == 0 && p == q,
        _ => want == got,
    }
}

pub open spec fn step_ok(op: Op, pos: Position, idx: usize, strict: bool, ptr: OpPointer, t0: Seq<Call>, t1: Seq<Call>) -> bool {
    match call_for(op, pos, idx, strict, ptr) {
        Some(c) => t1.len() == t0.len() + 1 && t1.subrange(0, t0.len() as int) =~= t0 && call_matches(c, t1.last()),
        None => t1 =~= t0,
    }
}

//@ extract src/build/opcode/vm.rs :: struct VM
//@   rule R0 RV
//@   subst "working_dir: PathBuf" => "working_dir: VPathBuf"
//@   subst "runtime: runtime::Builtins" => "runtime: VBuiltins"
//@   subst "reserved_words: &'static BTreeSet<&'static str>" => "reserved_words: ReservedWords"
//@   subst "pub struct VM {" => "pub struct VM { pub trace: Ghost<Seq<Call>>,"
//@ end

pub open spec fn ops_wf(p: OpPointer) -> bool {
    (p.ptr matches Some(i) ==> i < p.pos_map.ops@.len()) && p.pos_map.pos@.len() == p.pos_map.ops@.len()
}
// what every handler leaves intact as far as the dispatch loop is concerned (R8; the handlers are under contract in
// vm_arith, vm_ctrl, scope, env_lookup, constraint_vm, rt_funcs, vm_data): the program itself, a well-formed
// instruction pointer, and the strictness flag.  Everything else is havocked here.
pub open spec fn handler_frame(a: VM, b: VM, c: Call) -> bool {
    b.trace@ == a.trace@.push(c) && b.ops.pos_map == a.ops.pos_map && ops_wf(b.ops) && b.runtime.strict == a.runtime.strict
}

impl OpPointer {
    // proved in unit vm_ctrl (same contract)
    #[verifier::external_body]
    pub fn next(&mut self) -> (r: Option<&Op>)
        requires ops_wf(*old(self))
        ensures ops_wf(*final(self)), final(self).pos_map == old(self).pos_map, final(self).path == old(self).path,
            r matches Some(o) ==> (final(self).ptr matches Some(i) && *o == final(self).pos_map.ops@[i as int]),
    { unimplemented!() }
    #[verifier::external_body]
    pub fn pos(&self) -> (r: Option<&Position>)
        ensures (self.ptr matches Some(i) && i < self.pos_map.pos@.len()) ==> r == Some(&self.pos_map.pos@[self.ptr->0 as int]),
    { unimplemented!() }
    #[verifier::external_body]
    pub fn idx(&self) -> (r: Result<usize, Error>)
        ensures self.ptr matches Some(i) ==> r == Ok::<usize, Error>(i),
    { unimplemented!() }
}

impl VM {
    #[verifier::external_body]
    fn op_cast(&mut self, t: CastType) -> (r: Result<(), Error>)
        requires ops_wf(old(self).ops) ensures handler_frame(*old(self), *final(self), Call::Cast(t)) { unimplemented!() }
    #[verifier::external_body]
    fn op_add(&mut self, pos: Position) -> (r: Result<(), Error>)
        requires ops_wf(old(self).ops) ensures handler_frame(*old(self), *final(self), Call::Add(pos)) { unimplemented!() }
    #[verifier::external_body]
    fn op_mod(&mut self, pos: Position) -> (r: Result<(), Error>)
        requires ops_wf(old(self).ops) ensures handler_frame(*old(self), *final(self), Call::Mod(pos)) { unimplemented!() }
    #[verifier::external_body]
    fn op_sub(&mut self, pos: Position) -> (r: Result<(), Error>)
        requires ops_wf(old(self).ops) ensures handler_frame(*old(self), *final(self), Call::Sub(pos)) { unimplemented!() }
    #[verifier::external_body]
    fn op_mul(&mut self, pos: Position) -> (r: Result<(), Error>)
        requires ops_wf(old(self).ops) ensures handler_frame(*old(self), *final(self), Call::Mul(pos)) { unimplemented!() }
    #[verifier::external_body]
    fn op_div(&mut self, pos: Position) -> (r: Result<(), Error>)
        requires ops_wf(old(self).ops) ensures handler_frame(*old(self), *final(self), Call::Div(pos)) { unimplemented!() }
    #[verifier::external_body]
    fn op_bind(&mut self, strict: bool) -> (r: Result<(), Error>)
        requires ops_wf(old(self).ops) ensures handler_frame(*old(self), *final(self), Call::Bind(strict)) { unimplemented!() }
    #[verifier::external_body]
    fn op_equal(&mut self, pos: Position) -> (r: Result<(), Error>)
        requires ops_wf(old(self).ops) ensures handler_frame(*old(self), *final(self), Call::Equal(pos)) { unimplemented!() }
    #[verifier::external_body]
    fn op_gteq(&mut self, pos: Position) -> (r: Result<(), Error>)
        requires ops_wf(old(self).ops) ensures handler_frame(*old(self), *final(self), Call::GtEq(pos)) { unimplemented!() }
    #[verifier::external_body]
    fn op_lteq(&mut self, pos: Position) -> (r: Result<(), Error>)
        requires ops_wf(old(self).ops) ensures handler_frame(*old(self), *final(self), Call::LtEq(pos)) { unimplemented!() }
    #[verifier::external_body]
    fn op_field(&mut self) -> (r: Result<(), Error>)
        requires ops_wf(old(self).ops) ensures handler_frame(*old(self), *final(self), Call::Field) { unimplemented!() }
    #[verifier::external_body]
    fn op_element(&mut self) -> (r: Result<(), Error>)
        requires ops_wf(old(self).ops) ensures handler_frame(*old(self), *final(self), Call::Element) { unimplemented!() }
    #[verifier::external_body]
    fn op_index(&mut self, safe: bool, pos: Position) -> (r: Result<(), Error>)
        requires ops_wf(old(self).ops) ensures handler_frame(*old(self), *final(self), Call::Index(safe, pos)) { unimplemented!() }
    #[verifier::external_body]
    fn op_exist(&mut self, pos: Position) -> (r: Result<(), Error>)
        requires ops_wf(old(self).ops) ensures handler_frame(*old(self), *final(self), Call::Exist(pos)) { unimplemented!() }
    #[verifier::external_body]
    fn op_bang(&mut self) -> (r: Result<(), Error>)
        requires ops_wf(old(self).ops) ensures handler_frame(*old(self), *final(self), Call::Bang) { unimplemented!() }
    #[verifier::external_body]
    fn op_thunk(&mut self, idx: usize, jp: i32, pos: Position) -> (r: Result<(), Error>)
        requires ops_wf(old(self).ops) ensures handler_frame(*old(self), *final(self), Call::Thunk(idx, jp, pos)) { unimplemented!() }
    #[verifier::external_body]
    fn op_jump(&mut self, jp: i32) -> (r: Result<(), Error>)
        requires ops_wf(old(self).ops) ensures handler_frame(*old(self), *final(self), Call::Jump(jp)) { unimplemented!() }
    #[verifier::external_body]
    fn op_jump_if_true(&mut self, jp: i32) -> (r: Result<(), Error>)
        requires ops_wf(old(self).ops) ensures handler_frame(*old(self), *final(self), Call::JumpIfTrue(jp)) { unimplemented!() }
    #[verifier::external_body]
    fn op_jump_if_false(&mut self, jp: i32) -> (r: Result<(), Error>)
        requires ops_wf(old(self).ops) ensures handler_frame(*old(self), *final(self), Call::JumpIfFalse(jp)) { unimplemented!() }
    #[verifier::external_body]
    fn op_select_jump(&mut self, jp: i32) -> (r: Result<(), Error>)
        requires ops_wf(old(self).ops) ensures handler_frame(*old(self), *final(self), Call::SelectJump(jp)) { unimplemented!() }
    #[verifier::external_body]
    fn op_and(&mut self, jp: i32, pos: Position) -> (r: Result<(), Error>)
        requires ops_wf(old(self).ops) ensures handler_frame(*old(self), *final(self), Call::And(jp, pos)) { unimplemented!() }
    #[verifier::external_body]
    fn op_or(&mut self, jp: i32, pos: Position) -> (r: Result<(), Error>)
        requires ops_wf(old(self).ops) ensures handler_frame(*old(self), *final(self), Call::Or(jp, pos)) { unimplemented!() }
    #[verifier::external_body]
    fn op_module(&mut self, idx: usize, jptr: i32, pos: Position) -> (r: Result<(), Error>)
        requires ops_wf(old(self).ops) ensures handler_frame(*old(self), *final(self), Call::Module(idx, jptr, pos)) { unimplemented!() }
    #[verifier::external_body]
    fn op_func(&mut self, idx: usize, jptr: i32, pos: Position) -> (r: Result<(), Error>)
        requires ops_wf(old(self).ops) ensures handler_frame(*old(self), *final(self), Call::Func(idx, jptr, pos)) { unimplemented!() }
    #[verifier::external_body]
    fn op_typ(&mut self) -> (r: Result<(), Error>)
        requires ops_wf(old(self).ops) ensures handler_frame(*old(self), *final(self), Call::Typ) { unimplemented!() }
    #[verifier::external_body]
    fn op_render(&mut self) -> (r: Result<(), Error>)
        requires ops_wf(old(self).ops) ensures handler_frame(*old(self), *final(self), Call::Render) { unimplemented!() }
    #[verifier::external_body]
    fn op_push_self(&mut self) -> (r: Result<(), Error>)
        requires ops_wf(old(self).ops) ensures handler_frame(*old(self), *final(self), Call::PushSelf) { unimplemented!() }
    #[verifier::external_body]
    fn op_pop_self(&mut self) -> (r: Result<(), Error>)
        requires ops_wf(old(self).ops) ensures handler_frame(*old(self), *final(self), Call::PopSelf) { unimplemented!() }
    #[verifier::external_body]
    fn op_check_constraint(&mut self, pos: Position) -> (r: Result<(), Error>)
        requires ops_wf(old(self).ops) ensures handler_frame(*old(self), *final(self), Call::CheckConstraint(pos)) { unimplemented!() }
    #[verifier::external_body]
    fn op_build_constraint(&mut self, arm_types: Vec<ConstraintArmType>, pos: Position) -> (r: Result<(), Error>)
        requires ops_wf(old(self).ops) ensures handler_frame(*old(self), *final(self), Call::BuildConstraint(arm_types, pos)) { unimplemented!() }
    #[verifier::external_body]
    fn op_not(&mut self, pos: &Position) -> (r: Result<(), Error>)
        requires ops_wf(old(self).ops) ensures handler_frame(*old(self), *final(self), Call::Not(*pos)) { unimplemented!() }
    #[verifier::external_body]
    fn op_gt(&mut self, pos: &Position) -> (r: Result<(), Error>)
        requires ops_wf(old(self).ops) ensures handler_frame(*old(self), *final(self), Call::Gt(*pos)) { unimplemented!() }
    #[verifier::external_body]
    fn op_lt(&mut self, pos: &Position) -> (r: Result<(), Error>)
        requires ops_wf(old(self).ops) ensures handler_frame(*old(self), *final(self), Call::Lt(*pos)) { unimplemented!() }
    #[verifier::external_body]
    fn op_deref(&mut self, name: Rc<str>, env: &VEnvCell, pos: &Position) -> (r: Result<(), Error>)
        requires ops_wf(old(self).ops) ensures handler_frame(*old(self), *final(self), Call::DeRef(name, *pos)) { unimplemented!() }
    #[verifier::external_body]
    fn op_copy(&mut self, pos: Position, env: &VEnvCell) -> (r: Result<(), Error>)
        requires ops_wf(old(self).ops) ensures handler_frame(*old(self), *final(self), Call::Copy(pos)) { unimplemented!() }
    #[verifier::external_body]
    fn op_fcall(&mut self, pos: Position, env: &VEnvCell) -> (r: Result<(), Error>)
        requires ops_wf(old(self).ops) ensures handler_frame(*old(self), *final(self), Call::FCall(pos)) { unimplemented!() }
    #[verifier::external_body]
    fn op_new_scope(&mut self, jp: i32, ptr: OpPointer, env: &VEnvCell) -> (r: Result<(), Error>)
        requires ops_wf(old(self).ops) ensures handler_frame(*old(self), *final(self), Call::NewScope(jp, ptr)) { unimplemented!() }
    #[verifier::external_body]
    fn op_runtime(&mut self, h: Hook, pos: Position, env: &VEnvCell) -> (r: Result<(), Error>)
        requires ops_wf(old(self).ops) ensures handler_frame(*old(self), *final(self), Call::Runtime(h, pos)) { unimplemented!() }
    #[verifier::external_body]
    fn push(&mut self, val: Rc<Value>, pos: Position) -> (r: Result<(), Error>)
        requires ops_wf(old(self).ops) ensures handler_frame(*old(self), *final(self), Call::Push(*val, pos)) { unimplemented!() }
    #[verifier::external_body]
    pub fn pop(&mut self) -> (r: Result<(Rc<Value>, Position), Error>)
        requires ops_wf(old(self).ops) ensures handler_frame(*old(self), *final(self), Call::Pop) { unimplemented!() }
}

// `p.to_string_lossy().into()` for the import stack entry pushed when a file has been run to its end
#[verifier::external_body]
pub fn verif_path_to_rcstr(p: &VPathBuf) -> Rc<str> { unimplemented!() }

// The dispatch loop: every opcode reaches the handler the opcode's documentation names, with the arguments it carries.
// Termination of the loop is NOT proved (relative jumps are data; it is the translator's business that programs end).
//@ extract src/build/opcode/vm.rs :: impl VM :: fn run
//@   subst "pub fn run<O, E>(&mut self, env: &RefCell<Environment<O, E>>)" => "#[verifier::exec_allows_no_decreases_clause] pub fn run(&mut self, env: &VEnvCell)"
//@   subst "where O: std::io::Write + Clone, E: std::io::Write + Clone," => ""
//@   subst "p.to_string_lossy().into()" => "verif_path_to_rcstr(p)"
//@   ret r
//@   sig <<<
        requires ops_wf(old(self).ops)
//@   >>>
//@   loop 1 <<<
            invariant ops_wf(self.ops)
//@   >>>
//@   after "let idx = self.ops.idx()?;" <<<
            let ghost t0 = self.trace@;
            let ghost strict0 = self.runtime.strict;
            let ghost ptr0 = self.ops;
            let ghost op0 = op;
//@   >>>
//@   loop_body_end 1 <<<
            // the handler this opcode must reach, with the arguments it must get
            assert(step_ok(op0, pos, idx, strict0, ptr0, t0, self.trace@));
//@   >>>
//@   mutant gt_runs_lt "Op::Gt => self.op_gt(&pos)?" => "Op::Gt => self.op_lt(&pos)?" expect run
//@   mutant bind_not_strict "Op::Bind => self.op_bind(true)?" => "Op::Bind => self.op_bind(false)?" expect run
//@   mutant index_strict_inverted "Op::Index => self.op_index(!self.runtime.strict, pos)?" => "Op::Index => self.op_index(self.runtime.strict, pos)?" expect run
//@   mutant safe_index_unsafe "Op::SafeIndex => self.op_index(true, pos)?" => "Op::SafeIndex => self.op_index(false, pos)?" expect run
//@   mutant sub_runs_add "Op::Sub => self.op_sub(pos)?" => "Op::Sub => self.op_add(pos)?" expect run
//@   mutant jif_runs_jit "Op::JumpIfFalse(jp) => self.op_jump_if_false(jp)?" => "Op::JumpIfFalse(jp) => self.op_jump_if_true(jp)?" expect run
//@   mutant sym_pushed_as_str "Op::Sym(s) => self.push(Rc::new(S(s.clone())), pos)?" => "Op::Sym(s) => self.push(Rc::new(P(Str(s.clone()))), pos)?" expect run
//@ end

} // verus!

fn main() {}
