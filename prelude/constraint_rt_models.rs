// ---- prelude/constraint_rt_models.rs: std models used by the run-time constraint check (inside verus!) ----
use vstd::std_specs::cmp::{eq_ensures, ge_ensures, le_ensures, PartialEqSpec, PartialEqSpecImpl};

// std: Option::is_none_or(f) — true for None, f(x) for Some(x).
pub assume_specification<T, F: FnOnce(T) -> bool> [std::option::Option::<T>::is_none_or] (o: std::option::Option<T>, f: F) -> (r: bool)
    requires o matches Some(x) ==> f.requires((x,)),
    ensures o is None ==> r, o matches Some(x) ==> f.ensures((x,), r);

// std: Result::unwrap_or(default) — the Ok payload, else the default.
pub assume_specification<T, E> [std::result::Result::<T, E>::unwrap_or] (res: std::result::Result<T, E>, default: T) -> (r: T)
    ensures r == (match res { Ok(t) => t, Err(_) => default });

// R9': std `slice.iter().any(f)` behaves as this loop (short-circuit, left to right). The model is VERIFIED;
// the assumption is only that std's `any` behaves like it.
pub fn verif_any<T, F: Fn(&T) -> bool>(s: &[T], f: F) -> (r: bool)
    requires forall|k: int| 0 <= k < s@.len() ==> f.requires((&#[trigger] s@[k],)),
    ensures
        r ==> exists|k: int| 0 <= k < s@.len() && f.ensures((&#[trigger] s@[k],), true),
        !r ==> forall|k: int| 0 <= k < s@.len() ==> f.ensures((&#[trigger] s@[k],), false),
{
    let mut i: usize = 0;
    while i < s.len()
        invariant
            i <= s@.len(),
            forall|k: int| 0 <= k < s@.len() ==> f.requires((&#[trigger] s@[k],)),
            forall|k: int| 0 <= k < i ==> f.ensures((&#[trigger] s@[k],), false),
        decreases s@.len() - i
    {
        if f(&s[i]) { return true; }
        i += 1;
    }
    false
}

// IEEE-754 comparisons of f64. vstd specifies `a >= b`, `a <= b`, `a == b` on f64 only as relations
// `ge_ensures(a, b, out)` ...; the assumption made here is that each is a FUNCTION of its operands
// (which functions is left open: NaN compares false, -0.0 == 0.0 — nothing below depends on that).
pub mod constraint_rt_axioms {
use super::*;
pub uninterp spec fn f64_ge(a: f64, b: f64) -> bool;
pub uninterp spec fn f64_le(a: f64, b: f64) -> bool;
pub uninterp spec fn f64_eq(a: f64, b: f64) -> bool;

#[verifier::external_body]
pub broadcast proof fn axiom_f64_ge_fn(a: f64, b: f64, o: bool)
    ensures #[trigger] ge_ensures::<f64>(a, b, o) ==> o == f64_ge(a, b)
{ }
#[verifier::external_body]
pub broadcast proof fn axiom_f64_le_fn(a: f64, b: f64, o: bool)
    ensures #[trigger] le_ensures::<f64>(a, b, o) ==> o == f64_le(a, b)
{ }
// `==` between two `&f64` goes through `<&f64 as PartialEq>::eq`, specified by vstd via `eq_spec`.
#[verifier::external_body]
pub broadcast proof fn axiom_f64_obeys_eq()
    ensures #[trigger] <f64 as PartialEqSpec<f64>>::obeys_eq_spec()
{ }
#[verifier::external_body]
pub broadcast proof fn axiom_f64_eq_fn(a: f64, b: f64)
    ensures #[trigger] a.eq_spec(&b) == f64_eq(a, b)
{ }
// std: `Rc<str> == Rc<str>` compares the string contents.
#[verifier::external_body]
pub broadcast proof fn axiom_rc_str_obeys_eq()
    ensures #[trigger] <Rc<str> as PartialEqSpec<Rc<str>>>::obeys_eq_spec()
{ }
#[verifier::external_body]
pub broadcast proof fn axiom_rc_str_eq(a: Rc<str>, b: Rc<str>)
    ensures #[trigger] a.eq_spec(&b) == (a@ == b@)
{ }
pub broadcast group group_constraint_rt_models {
    axiom_f64_ge_fn, axiom_f64_le_fn, axiom_f64_obeys_eq, axiom_f64_eq_fn, axiom_rc_str_obeys_eq, axiom_rc_str_eq,
}
} // mod constraint_rt_axioms
pub use constraint_rt_axioms::*;
broadcast use constraint_rt_axioms::group_constraint_rt_models;
