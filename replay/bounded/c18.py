"""C18 bounded stand-ins: the real `ucg` binary is started with exactly a generated environment (`env=` of subprocess, nothing inherited).

Oracle (property statement + reference/expressions.md "The environment symbol"):
  * `env.NAME` (quoted selector `env."NAME"` when NAME is no UCG symbol or is a reserved word) is the variable's value as a string - read back
    from `out json {...}` with a JSON parser;
  * a name that is not set (random, or a near miss of a set one: other case, prefix, suffix added): strict mode -> that file does not build,
    exit status != 0, the output names the variable and contains no value (nor the distinctive token embedded in a value) of any variable;
    `--no-strict` -> builds, the expression is NULL (json null);
  * `let env = ...;` does not build; `{env = 1}.env`, `t.env`, `t.inner.env.X` are the tuple's fields even when the environment has such a variable.
Bounded: the generated environments named in `bound`.

Stand-ins: env_random (names / values / near misses, four program shapes, one directory, files named on the command line),
env_positions (WHERE the read happens: 39 program positions + 11 ways of reaching the read through imports) and env_routes (HOW the file is
reached: the CLI routes of `ucg build` and `ucg test` - files relative / absolute, directories, -r with files 0..2 levels down, no input,
several inputs in every order) - the set / unset+strict / unset+--no-strict behaviour must be the same everywhere (see the second half of this file)."""
import json
import os
import random
import shutil
import string
import tempfile

import realcode as R

NAMECH = string.ascii_letters + string.digits + '_'
PIECES = ['é', '日本', '😀', "'", '"', ' ', '  ', '=', '==', '\n', '\t', '\\', '$', '`', 'a', 'Z', '0', '-', '/', ':', ';', '#', '%', '{', '}', '[', ']', '*', '&', '|', '<', '>',
          '\x01', '\x7f', '​', 'ß', 'Ω', 'я', '\r', '$(id)', '${HOME}', 'NULL', 'env.', ' ', ' ']
# names that would change how the binary itself starts / behaves are not generated
AVOID = ('UCG', 'RUST', 'LD_', 'MALLOC', 'GLIBC', 'TMPDIR', 'HOME', 'PATH', 'LANG', 'LC_')

# always included: empty values, lower / mixed case names that differ only in case (with different values), digits and underscores
FIXED = {'EMPTY': '', 'empty_too': '', 'http_proxy': 'http://proxy.example:3128/?a=b&c=d', 'Token': 'mixed-Tfixed0000001', 'TOKEN': 'upper-Tfixed0000002', 'token': 'lower-Tfixed0000003',
         'A1_b2__C3': 'digits and underscores', '_LEAD': '_ first', '9DIG': 'digit first', '__': 'only underscores', 'x': 'one letter', 'X': 'ONE LETTER', 'BLANK': ' ', 'EQ': '=', 'NL': '\n'}

# environments on which the real code violates the property (none on the pinned HEAD)
KNOWN = []


def reserved():
    try:
        from bounded import base
        return set(base.doc_reserved())
    except Exception:
        return set(['self', 'assert', 'true', 'false', 'let', 'import', 'as', 'include', 'select', 'func', 'module', 'env', 'map', 'filter', 'reduce', 'convert', 'NULL', 'out', 'in', 'is',
                    'not', 'fail', 'constraint', 'trace'])


def sel(name, rnd, rsv):
    """Selector text for the variable: bare when it is a UCG symbol (starts with an ASCII letter) and not reserved; otherwise (and at random) quoted."""
    bare_ok = name[0] in string.ascii_letters and name not in rsv
    if bare_ok and rnd.random() < 0.7:
        return 'env.%s' % name
    return 'env."%s"' % name


def token(rnd):
    return 'T' + ''.join(rnd.choice(string.ascii_letters + string.digits) for _ in range(11)) + 'k'


def gen_env(rnd, nvars):
    """-> (dict name -> value, dict name -> token embedded in the value or None)"""
    env, toks = {}, {}
    while len(env) < nvars:
        nm = ''.join(rnd.choice(NAMECH) for _ in range(rnd.choice([1, 2, 3, 5, 8, 12, 20])))
        if nm in env or nm.upper().startswith(AVOID):
            continue
        k = rnd.choice([0, 0, 1, 2, 3, 5, 8, 13, 20])
        parts = [rnd.choice(PIECES) for _ in range(k)]
        tk = None
        if rnd.random() < 0.6:
            tk = token(rnd)
            parts.insert(rnd.randint(0, len(parts)), tk)
        env[nm] = ''.join(parts)
        toks[nm] = tk
    return env, toks


def unset_names(rnd, env):
    res = []
    for nm in list(env)[:3]:
        for cand in (nm.swapcase(), nm[:-1], nm + '_X', nm + '0'):
            if cand and cand not in env and cand not in res and cand != nm:
                res.append(cand)
                break
    # one long name: a diagnostic must still NAME the variable (not a prefix of it)
    res = res[:3]
    res.append('VERIF_LONG_' + ''.join(rnd.choice(NAMECH) for _ in range(rnd.choice([22, 30, 53, 120]))))
    while len(res) < 4:
        cand = 'VERIF_' + ''.join(rnd.choice(NAMECH) for _ in range(rnd.randint(1, 10)))
        if cand not in env and cand not in res:
            res.append(cand)
    return res[:4]


def viol(bound, n, detail, **inp):
    return dict(name='env_random', bound=bound, cases=n, status='violation', detail=detail[:700], input=inp)


def show_env(env):
    return ' '.join('%s=%r' % kv for kv in env.items())


def standin_env_random(tier, seed):
    rnd = random.Random(seed)
    rsv = reserved()
    sizes = [0, 3, 10] if tier != 'thorough' else list(range(0, 11)) * 3
    bound = ('1 fixed environment (empty values, http_proxy, Token/TOKEN/token with different values, digits/underscores, leading _ and digit) + %d random environments of %s variables (names over [A-Za-z0-9_] of 1..20 chars incl. leading digit/underscore, lower case, reserved words; values of 0..20 pieces of Unicode, quotes, blanks, `=`, newlines, '
             'control characters, 60%% with an embedded distinctive token), each: every variable read in strict and --no-strict mode (all in one tuple literal, and again one statement per variable rotating through plain let / function body / module body / map callback), 4 unset names (near misses of set names + random; same four program shapes) in both modes, '
             'tuple fields named env; + 4 programs with a parameter named env; + 4 `let env` programs') % (len(sizes), '0..10' if tier == 'thorough' else '/'.join(map(str, sizes)))
    work = tempfile.mkdtemp(prefix='verif_c18_')
    n = 0
    try:
        for ei, size in enumerate(['fixed'] + sizes):
            if size == 'fixed':
                env = dict(FIXED)
                toks = {k: ('Tfixed' + v.split('Tfixed')[1][:8] if 'Tfixed' in v else None) for k, v in env.items()}
            else:
                env, toks = gen_env(rnd, size)
            if ei == 2:
                env['env'] = 'a variable called env'       # env.env is that variable
                toks['env'] = None
            names = list(env)
            if show_env(env) in KNOWN:
                continue
            sels = [sel(nm, rnd, rsv) for nm in names]
            hit = 'out json {%s};\n' % ', '.join(['n = 1'] + ['v%d = %s' % (i, s) for i, s in enumerate(sels)])
            k = names[0] if names else 'X'
            kq = '"%s"' % k
            fld = ('let t = {env = 1, inner = {env = {%s = "field"}}};\nlet lit = {env = {%s = "lit"}}.env;\nout json {a = {env = 1}.env, b = t.env, c = t.inner.env.%s, d = lit.%s, e = {env = "s"}.env};\n'
                   % (kq, kq, kq, kq))
            fld_exp = {'a': 1, 'b': 1, 'c': 'field', 'd': 'lit', 'e': 's'}
            misses = unset_names(rnd, env)
            files = {'hit.ucg': hit, 'fld.ucg': fld}
            # the same reads in other program shapes: one statement per variable; inside a function body, a module body, a map callback
            def wrapped(i, s_):
                k_ = i % 4
                if k_ == 0:
                    return 'let v%d = %s;\n' % (i, s_)
                if k_ == 1:
                    return 'let f%d = func(x) => %s;\nlet v%d = f%d(1);\n' % (i, s_, i, i)
                if k_ == 2:
                    return 'let m%d = module {} => (r) { let r = %s; };\nlet v%d = m%d{};\n' % (i, s_, i, i)
                return 'let l%d = map(func(x) => %s, [1]);\nlet v%d = l%d.0;\n' % (i, s_, i, i)
            rot = rnd.randint(0, 3)
            hit2 = ''.join(wrapped(i + rot, s_) for i, s_ in enumerate(sels))
            hit2 += 'out json {%s};\n' % ', '.join(['n = 1'] + ['v%d = v%d' % (i, i + rot) for i in range(len(sels))])
            files['hit2.ucg'] = hit2
            for j, u in enumerate(misses):
                su = sel(u, rnd, rsv)
                shape = (j + ei) % 4
                if shape == 0:
                    files['miss%d.ucg' % j] = 'let x = %s;\nout json {v = x};\n' % su
                elif shape == 1:
                    files['miss%d.ucg' % j] = 'let f = func(a) => %s;\nlet x = f(1);\nout json {v = x};\n' % su
                elif shape == 2:
                    files['miss%d.ucg' % j] = 'let m = module {} => (r) { let r = %s; };\nlet x = m{};\nout json {v = x};\n' % su
                else:
                    files['miss%d.ucg' % j] = 'let l = map(func(a) => %s, [1]);\nlet x = l.0;\nout json {v = x};\n' % su
            for f, src in files.items():
                open(os.path.join(work, f), 'w', encoding='utf-8').write(src)
            envs = 'environment (exactly): ' + (show_env(env) or '(empty)')
            for mode, flags in (('strict', []), ('--no-strict', ['--no-strict'])):
                for f in files:
                    p = os.path.join(work, f[:-4] + '.json')
                    if os.path.exists(p):
                        os.remove(p)
                rc, so, se = R.run_ucg(flags + ['build'] + list(files), work, env=env)
                out = so + se
                how = '`ucg %sbuild %s` started with %s' % (' '.join(flags) + ' ' if flags else '', ' '.join(files), envs)

                def js(f):
                    p = os.path.join(work, f[:-4] + '.json')
                    if not os.path.exists(p):
                        return None
                    try:
                        return json.load(open(p, encoding='utf-8'))
                    except Exception as e:           # noqa
                        return 'unparsable: %r' % open(p, 'rb').read()[:200]
                # set variables
                got = js('hit.ucg')
                exp = dict([('n', 1)] + [('v%d' % i, env[nm]) for i, nm in enumerate(names)])
                n += max(1, len(names))
                if not isinstance(got, dict):
                    return viol(bound, n, '%s mode: the program that reads every set variable does not build: %s' % (mode, ' '.join(([x for x in out.split('Building ') if x.startswith('hit.ucg')] or [out])[0][-400:].split())), source=hit, env=env, expected=exp,
                                observed=out[-600:], how=how)
                if got != exp:
                    bad = [(names[i], sels[i]) for i in range(len(names)) if not isinstance(got, dict) or got.get('v%d' % i) != env[names[i]]]
                    return viol(bound, n, '%s mode: %s evaluates to %r, the variable holds %r' % (
                        mode, bad[0][1] if bad else 'the program', got.get('v%d' % names.index(bad[0][0])) if bad and isinstance(got, dict) else got, env[bad[0][0]] if bad else exp),
                        source=hit, env=env, expected=exp, observed=got if got is not None else out[-400:], how=how)
                got = js('hit2.ucg')
                n += max(1, len(names))
                if got != exp:
                    return viol(bound, n, '%s mode: the same variables read one statement at a time / inside a function, a module, a map callback: %s' % (
                        mode, ('artifact %r, expected %r' % (got, exp)) if got is not None else 'the program does not build: ' + ' '.join(([x for x in out.split('Building ') if x.startswith('hit2.ucg')] or [out])[0][-400:].split())),
                        source=hit2, env=env, expected=exp, observed=got if got is not None else out[-600:], how=how)
                # fields named env
                got = js('fld.ucg')
                n += 1
                if got != fld_exp:
                    return viol(bound, n, '%s mode: tuple fields named env: %r, expected %r' % (mode, got, fld_exp), source=fld, env=env, expected=fld_exp, observed=got if got is not None else out[-400:], how=how)
                # unset variables
                for j, u in enumerate(misses):
                    n += 1
                    got = js('miss%d.ucg' % j)
                    src = files['miss%d.ucg' % j]
                    if mode == 'strict':
                        if got is not None or rc == 0:
                            return viol(bound, n, 'strict mode: %s is not set, yet the file builds (exit status %d, artifact %r)' % (u, rc, got), source=src, env=env, expected='build error, exit status != 0',
                                        observed='rc=%d artifact=%r' % (rc, got), how=how)
                        if u not in out:
                            return viol(bound, n, 'strict mode: the diagnostic for the unset variable %s does not name it: %s' % (u, out[-300:]), source=src, env=env, expected='a message naming %s' % u, observed=out[-600:], how=how)
                    else:
                        if got != {'v': None}:
                            return viol(bound, n, '--no-strict: unset %s must evaluate to NULL, observed %s' % (u, got if got is not None else 'a failed build: ' + out[-200:]), source=src, env=env,
                                        expected={'v': None}, observed=got if got is not None else out[-400:], how=how)
                if mode == '--no-strict' and rc != 0:
                    return viol(bound, n, '--no-strict: exit status %d: %s' % (rc, out[-300:]), source=dict(files), env=env, expected='exit 0', observed=out[-600:], how=how)
                # nothing of any value may show up in what the build prints
                for nm in names:
                    n += 1
                    for needle in (toks[nm], env[nm] if len(env[nm]) >= 8 else None):
                        if needle and needle in out and needle not in work and not any(needle in s_ for s_ in files.values()):
                            return viol(bound, n, '%s mode: the build output discloses the value of %s (%r found): ...%s' % (mode, nm, needle, out[max(0, out.find(needle) - 120):out.find(needle) + 60]),
                                        source=dict(files), env=env, expected='no value of any variable in the output', observed=out[-1200:], how=how)
        # a parameter named env: either refused, or `env.NAME` inside still is the variable (never the argument)
        shadow = ['let f = func (env) => env.HOME;\nlet x = f({HOME = "forged"});\nout json {v = x};\n',
                  'let l = map(func (env) => env.HOME, [{HOME = "forged"}]);\nout json {v = l.0};\n',
                  'let l = reduce(func (acc, env) => env.HOME, "", [{HOME = "forged"}]);\nout json {v = l};\n',
                  'let f = func (a, env) => env.HOME;\nlet x = f(1, {HOME = "forged"});\nout json {v = x};\n']
        for i, src in enumerate(shadow):
            open(os.path.join(work, 'sh%d.ucg' % i), 'w').write(src)
            if os.path.exists(os.path.join(work, 'sh%d.json' % i)):
                os.remove(os.path.join(work, 'sh%d.json' % i))
            rc, so, se = R.run_ucg(['build', 'sh%d.ucg' % i], work, env={'HOME': '/home/verif'})
            n += 1
            art = None
            if os.path.exists(os.path.join(work, 'sh%d.json' % i)):
                try:
                    art = json.load(open(os.path.join(work, 'sh%d.json' % i)))
                except Exception:
                    art = 'unparsable'
            if rc == 0 and art != {'v': '/home/verif'}:
                return viol(bound, n, 'inside a function whose parameter is called env, env.HOME evaluates to %r; HOME is /home/verif' % (art,), source=src, env={'HOME': '/home/verif'},
                            expected='a build error, or {"v": "/home/verif"}', observed='rc=0 artifact=%r' % (art,), how='`ucg build sh%d.ucg` started with HOME=/home/verif' % i)
        # `env` cannot be bound by let
        lets = ['let env = 1;\n', 'let env = {HOME = "x"};\nout json {v = env.HOME};\n', 'let a = 1;\nlet env = a;\nout json {v = env};\n', 'let env = env;\n']
        for i, src in enumerate(lets):
            open(os.path.join(work, 'le%d.ucg' % i), 'w').write(src)
        for flags in ([], ['--no-strict']):
            rc, so, se = R.run_ucg(flags + ['build'] + ['le%d.ucg' % i for i in range(len(lets))], work, env={'HOME': '/home/verif'})
            n += len(lets)
            arts = [f for f in os.listdir(work) if f.startswith('le') and not f.endswith('.ucg')]
            if rc == 0 or arts:
                return viol(bound, n, '`let env = ...` builds (exit status %d, artifacts %s)' % (rc, arts), source=lets, expected='every file is a build error', observed='rc=%d %s' % (rc, (so + se)[-300:]),
                            how='`ucg %s build le0.ucg ... le3.ucg`' % ' '.join(flags))
            if tier != 'thorough':
                break
        rc, so, se = R.run_ucg(['build', 'le0.ucg'], work, env={})
        n += 1
        if rc == 0:
            return viol(bound, n, '`let env = 1;` builds', source=lets[0], expected='build error', observed='rc=0 ' + (so + se)[-200:], how='`ucg build le0.ucg`')
    finally:
        shutil.rmtree(work, ignore_errors=True)
    return dict(name='env_random', bound=bound, cases=n, status='ok')




# =====================================================================================================================
# Strictness plumbing.  The clause "a variable that is not set is a build error naming that variable in strict mode and evaluates to NULL in
# non-strict mode" (and "env.NAME is the variable's value") quantifies over every place a program can read the variable from and every way
# the `ucg` command line can reach the file.  Two more dimensions are enumerated here:
#   (a) the program position of the read (POSITIONS below) - in the file itself or in a file it imports (IMPORTS below),
#   (b) the CLI route to the file (routes() below), for `ucg build` and `ucg test`; `--no-strict` is a flag of `ucg` itself (see `ucg help`:
#       "ucg [FLAGS] [SUBCOMMAND]"), it goes in front of the sub-command and so applies to build and test alike.
# Oracle per reading file (the reference: expressions.md "The environment symbol", "Filter expressions" - false or NULL drops the item -,
# "Conditionals", "Format Expressions", "Modules"; converters.md - NULL is json null):
#   variable set                 -> the artifact holds the value expected for the position, in both modes;
#   variable unset, strict       -> no artifact for that file, exit status != 0, the output names the variable;
#   variable unset, --no-strict  -> exit status 0 and the artifact holds what the position yields for NULL (ANY: how a NULL renders inside a
#                                   format string is not specified, only "the file builds" is demanded there);
#   no value of any variable (a secret that no program reads is always planted) shows up in what ucg prints.
ANY = '<any value>'
WORKERS = 4


def _positions():
    """The targets of map / filter / reduce over a tuple or a string are handed in as a function argument: the type checker of the pinned HEAD refuses
    such a target when it knows its shape ("map target must be a list, got tuple") - a defect outside this property, reported separately.
    (id, code binding `r` - @S@ is the selector `env.NAME` / `env."NAME"`, @F@ its field part -, r when the variable holds v, r when it is unset
    and the build is not strict, selector must be bare)"""
    I = lambda v: v                                               # noqa: E731
    return [
        ('let', 'let r = @S@;', I, None, False),
        ('parenthesised', 'let r = (@S@);', I, None, False),
        ('function body', 'let f = func(a) => @S@;\nlet r = f(1);', I, None, False),
        ('function called by a function', 'let f = func(a) => @S@;\nlet g = func(b) => f(b);\nlet r = g(2);', I, None, False),
        ('callback nested in a function', 'let f = func(a) => map(func(b) => @S@, [a]);\nlet r = f(1);', lambda v: [v], [None], False),
        ('module body', 'let m = module {} => (q) { let q = @S@; };\nlet r = m{};', I, None, False),
        ('module out expression', 'let m = module {} => (@S@) { let q = 1; };\nlet r = m{};', I, None, False),
        ('module parameter default', 'let m = module {a = @S@} => (q) { let q = mod.a; };\nlet r = m{};', I, None, False),
        ('module argument', 'let m = module {a = ""} => (q) { let q = mod.a; };\nlet r = m{a = @S@};', I, None, False),
        ('function in a module body', 'let m = module {} => (q) { let f = func(a) => @S@; let q = f(1); };\nlet r = m{};', I, None, False),
        ('module in a module body', 'let m = module {} => (q) { let inner = module {} => (z) { let z = @S@; }; let q = inner{}; };\nlet r = m{};', I, None, False),
        ('module instantiated in a function', 'let m = module {} => (q) { let q = @S@; };\nlet f = func(a) => m{};\nlet r = f(1);', I, None, False),
        ('map callback (list)', 'let r = map(func(a) => @S@, [1, 2]);', lambda v: [v, v], [None, None], False),
        ('map callback (tuple)', 'let f = func(t) => map(func(k, x) => [k, @S@], t);\nlet r = f({a = 1, b = 2});', lambda v: {'a': v, 'b': v}, {'a': None, 'b': None}, False),
        ('map callback (string)', 'let f = func(s) => map(func(c) => select (@S@ == NULL, "?") => {true = "N", false = @S@}, s);\nlet r = f("ab");', lambda v: v + v, 'NN', False),
        ('filter predicate (list)', 'let r = filter(func(a) => @S@, [1, 2]);', lambda v: [1, 2], [], False),
        ('filter predicate (tuple)', 'let f = func(t) => filter(func(k, x) => @S@, t);\nlet r = f({a = 1, b = 2});', lambda v: {'a': 1, 'b': 2}, {}, False),
        ('filter predicate (string)', 'let f = func(s) => filter(func(c) => @S@, s);\nlet r = f("ab");', lambda v: 'ab', '', False),
        ('filter predicate (named function)', 'let keep = func(h) => h != @S@;\nlet r = filter(keep, ["x", "y"]);', lambda v: ['x', 'y'], ['x', 'y'], False),
        ('reduce callback (list)', 'let r = reduce(func(acc, a) => acc + [@S@], [], [1, 2]);', lambda v: [v, v], [None, None], False),
        ('reduce callback (tuple)', 'let f = func(t) => reduce(func(acc, k, x) => acc + [@S@], [], t);\nlet r = f({a = 1});', lambda v: [v], [None], False),
        ('reduce callback (string)', 'let f = func(s) => reduce(func(acc, c) => @S@, "", s);\nlet r = f("ab");', I, None, False),
        ('reduce accumulator', 'let r = reduce(func(acc, a) => acc, @S@, [1]);', I, None, False),
        ('select arm', 'let r = select ("a", "d") => {a = @S@, b = "x"};', I, None, False),
        ('select default', 'let r = select ("zz", @S@) => {a = "x"};', I, None, False),
        ('select condition', 'let r = select (@S@ == NULL, "d") => {true = "unset", false = "set"};', lambda v: 'set', 'unset', False),
        ('format template expression', 'let r = "@{@S@}" % {};', I, ANY, True),
        ('format template item', 'let r = "@{item.a}" % {a = @S@};', I, ANY, False),
        ('format argument', 'let r = "@" % (@S@);', I, ANY, False),
        ('format argument list', 'let r = "@-@" % (1, @S@);', lambda v: '1-' + v, ANY, False),
        ('copy expression field', 'let t = {a = 1};\nlet r = t{b = @S@}.b;', I, None, False),
        ('copy expression override', 'let t = {a = "", c = 1};\nlet r = t{a = @S@}.a;', I, None, False),
        ('list literal', 'let r = [1, @S@];', lambda v: [1, v], [1, None], False),
        ('tuple literal', 'let r = {a = {b = @S@}};', lambda v: {'a': {'b': v}}, {'a': {'b': None}}, False),
        ('selector on a tuple literal', 'let r = {a = @S@}.a;', I, None, False),
        ('comparison', 'let r = @S@ == NULL;', lambda v: False, True, False),
        ('negated comparison', 'let r = not (@S@ == NULL);', lambda v: True, False, False),
        ('env bound to a name', 'let e = env;\nlet r = e.@F@;', I, None, False),
        ('let, then used twice', 'let x = @S@;\nlet r = [x, x == NULL];', lambda v: [v, False], [None, True], False),
    ]


def _imports():
    """(id, fn(base name, code of an importable file that binds r, selector) -> (importer code binding r, {path relative to the importer: source}),
    environment variables ucg itself reads: @ROOT@ is the directory the command is run below)"""
    def simple(main):
        return lambda b, code, S: (main.replace('@L@', b + '_lib.ucg'), {b + '_lib.ucg': code + '\n'})
    return [
        ('import bound by let', simple('let l = import "@L@";\nlet r = l.r;'), {}),
        ('import expression', simple('let r = (import "@L@").r;'), {}),
        ('import in a function body', simple('let f = func(a) => (import "@L@").r;\nlet r = f(1);'), {}),
        ('import in a module body', simple('let m = module {} => (q) { let l = import "@L@"; let q = l.r; };\nlet r = m{};'), {}),
        ('import in a map callback', simple('let l0 = map(func(a) => (import "@L@").r, [1]);\nlet r = l0.0;'), {}),
        ('the same file imported twice', simple('let l1 = import "@L@";\nlet l2 = import "@L@";\nlet r = select (l1.r == l2.r, NULL) => {true = l2.r};'), {}),
        ('import chain of depth 2', lambda b, code, S: ('let l = import "%s_lib.ucg";\nlet r = l.r;' % b,
                                                         {b + '_lib.ucg': 'let l2 = import "%s_lib2.ucg";\nlet r = l2.r;\n' % b, b + '_lib2.ucg': code + '\n'}), {}),
        ('import from a sub-directory', lambda b, code, S: ('let l = import "%s_libs/lib.ucg";\nlet r = l.r;' % b, {b + '_libs/lib.ucg': code + '\n'}), {}),
        ('import chain down and up again', lambda b, code, S: ('let l = import "%s_libs/one.ucg";\nlet r = l.r;' % b,
                                                                  {b + '_libs/one.ucg': 'let l2 = (import "../%s_two.ucg");\nlet r = l2.r;\n' % b, b + '_two.ucg': code + '\n'}), {}),
        ('function of an imported file', lambda b, code, S: ('let l = import "%s_lib.ucg";\nlet ff = l.f;\nlet r = ff(1);' % b, {b + '_lib.ucg': 'let f = func(a) => %s;\n' % S}), {}),
        ('module of an imported file', lambda b, code, S: ('let l = import "%s_lib.ucg";\nlet mm = l.m;\nlet r = mm{};' % b, {b + '_lib.ucg': 'let m = module {} => (q) { let q = %s; };\n' % S}), {}),
    ]


def _new_name(rnd, taken, forbidden, bare, rsv):
    while True:
        first = rnd.choice(string.ascii_letters) if bare or rnd.random() < 0.8 else rnd.choice('_0123456789')
        nm = first + ''.join(rnd.choice(NAMECH) for _ in range(rnd.choice([5, 6, 8, 11, 17]))) + rnd.choice(string.digits + '_')
        if nm.upper().startswith(AVOID) or nm in rsv or nm in forbidden:
            continue
        if any(nm in t or t in nm for t in taken):
            continue
        taken.append(nm)
        return nm


def _new_val(rnd, plain=False):
    tk = token(rnd)
    if plain:
        parts = [rnd.choice(['a', 'Z', '0', ' ', '-', '/', ':', 'é', 'ß', '日本', '_', '.', '=']) for _ in range(rnd.choice([0, 1, 3, 6]))]
    else:
        parts = [rnd.choice(PIECES) for _ in range(rnd.choice([0, 0, 1, 2, 4, 8]))]
    parts.insert(rnd.randint(0, len(parts)), tk)
    return ''.join(parts), tk


def _ucg_lit(v):
    """UCG literal of an expected value (only for values made by _new_val(plain=True))"""
    if v is None:
        return 'NULL'
    if v is True or v is False:
        return 'true' if v else 'false'
    if isinstance(v, int):
        return str(v)
    if isinstance(v, str):
        return '"%s"' % v.replace('\\', '\\\\').replace('"', '\\"')
    if isinstance(v, list):
        return '[%s]' % ', '.join(_ucg_lit(x) for x in v)
    return '{%s}' % ', '.join('%s = %s' % (k, _ucg_lit(x)) for k, x in v.items())


class Reader(object):
    """One file that reads one variable at one position (possibly through imports), placed somewhere in the tree."""

    def __init__(self, rnd, base, pos, imp, taken, forbidden, rsv, plain=False, test=None):
        pid, tpl, fset, enull, bare = pos
        self.var = _new_name(rnd, taken, forbidden, bare, rsv)
        self.val, self.tok = _new_val(rnd, plain)
        field = self.var if (self.var[0] in string.ascii_letters and (bare or rnd.random() < 0.7)) else '"%s"' % self.var
        self.sel = 'env.' + field
        code = tpl.replace('@S@', self.sel).replace('@F@', field)
        self.exp_set, self.exp_null = fset(self.val), enull
        self.where = pid
        self.ucgenv = {}
        libs = {}
        if imp is not None:
            iid, fn, uenv = imp
            if iid in ('function of an imported file', 'module of an imported file'):
                self.exp_set, self.exp_null = self.val, None
                self.where = iid
            else:
                self.where = '%s; the imported file reads it at: %s' % (iid, pid)
            code, libs = fn(base, code, self.sel)
            self.ucgenv = dict(uenv)
        self.base = base
        self.dir = ''
        self.test = test                    # None: a file for `ucg build`; 'set' / 'unset': a *_test.ucg file whose assertion expects that state
        if test is None:
            self.name = base + '.ucg'
            main = code + '\nout json {v = r};\n'
        else:
            self.name = base + '_test.ucg'
            main = code + '\nassert {ok = r == %s, desc = "the value read"};\n' % _ucg_lit(self.exp_set if test == 'set' else self.exp_null)
        self.main = main
        self.libs = libs

    def rel(self):
        return os.path.join(self.dir, self.name)

    def artifact(self):
        return os.path.join(self.dir, self.base + '.json')

    def files(self):
        res = {self.rel(): self.main}
        for k, v in self.libs.items():
            res[k[1:] if k.startswith('/') else os.path.join(self.dir, k)] = v
        return res


def _under(d, top):
    return d == top or d.startswith(top + '/')


def routes(cmd, readers, rnd, which):
    """The CLI routes to the files of a tree (all readers live in or below proj/): -> [(id, cwd, args after the sub-command, reached readers)]"""
    proj = [r for r in readers]
    by_dir = lambda top, rec: [r for r in proj if (_under(r.dir, top) if rec else r.dir == top)]     # noqa: E731
    order = list(proj)
    rnd.shuffle(order)
    subs = sorted(set(r.dir for r in proj if r.dir != 'proj'))
    sub = rnd.choice(subs) if subs else 'proj'
    deep = max(subs, key=lambda d: d.count('/')) if subs else 'proj'
    one = rnd.choice(proj)
    others = [d for d in subs if not _under(d, deep) and not _under(deep, d)] or ['proj']
    other = rnd.choice(others)
    res = {
        'recursive, directory named': ('.', ['-r', 'proj'], by_dir('proj', True)),
        'recursive, no input (current directory)': ('proj', ['-r'], by_dir('proj', True)),
        'recursive, `.`': ('proj', ['-r', '.'], by_dir('proj', True)),
        'recursive, absolute directory': ('.', ['-r', '@ROOT@/proj'], by_dir('proj', True)),
        'recursive, sub-directory named': ('.', ['-r', sub], by_dir(sub, True)),
        'recursive, sub-directory relative to the current directory': ('proj', ['-r', os.path.relpath(sub, 'proj')], by_dir(sub, True)),
        'directory named': ('.', ['proj'], by_dir('proj', False)),
        'directory named with a trailing slash': ('.', ['proj/'], by_dir('proj', False)),
        'no input (current directory)': ('proj', [], by_dir('proj', False)),
        'sub-directory named': ('.', [sub], by_dir(sub, False)),
        'every file named, relative': ('.', [r.rel() for r in order], order),
        'every file named, absolute': ('.', ['@ROOT@/' + r.rel() for r in order], order),
        'every file named, relative and absolute mixed': ('.', [('@ROOT@/' if i % 2 else '') + r.rel() for i, r in enumerate(order)], order),
        'every file named, relative to a sub-directory': (deep, [os.path.relpath(r.rel(), deep) for r in order], order),
        'every file named, with ./ and ../ segments': ('.', [('./' + r.rel()) if i % 2 else os.path.join(r.dir, '..', os.path.basename(r.dir), r.name) for i, r in enumerate(order)], order),
        'one file named': ('.', [one.rel()], [one]),
        'one file named, absolute': ('.', ['@ROOT@/' + one.rel()], [one]),
        'recursive, a directory, a file and another directory': ('.', ['-r', deep, one.rel(), other],
                                                                 [r for r in proj if _under(r.dir, deep) or r is one or _under(r.dir, other)]),
        'a file, then a directory': ('.', [one.rel(), sub], [r for r in proj if r is one or r.dir == sub]),
    }
    n = len(order)
    for k in range(1, min(n, 4)):
        rot = order[k:] + order[:k]
        res['every file named, rotated by %d' % k] = ('.', [r.rel() for r in rot], rot)
    return [(rid, cwd, [cmd] + args, reached) for rid, (cwd, args, reached) in res.items() if which is None or rid in which]


def _job(readers, cwd, args, flags, setvars, secret):
    """An invocation: the tree of all `readers`, the command, the environment (exactly: the variables in `setvars` + a secret + what ucg itself reads)."""
    files, env = {}, {}
    for r in readers:
        files.update(r.files())
        env.update(r.ucgenv)
        if r.var in setvars:
            env[r.var] = r.val
        elif r.near:
            env[r.near[0]] = r.near[1]
    env[secret[0]] = secret[1]
    return dict(files=files, cwd=cwd, flags=list(flags), args=list(args), env=env, strict=not flags)


def _run_job(base, idx, job):
    root = os.path.join(base, 'j%04d' % idx)
    for rel, src in job['files'].items():
        p = os.path.join(root, rel)
        os.makedirs(os.path.dirname(p), exist_ok=True)
        with open(p, 'w', encoding='utf-8') as fh:
            fh.write(src)
    os.makedirs(os.path.join(root, job['cwd']), exist_ok=True)
    args = [a.replace('@ROOT@', root) for a in job['flags'] + job['args']]
    env = dict((k, v.replace('@ROOT@', root)) for k, v in job['env'].items())
    try:
        rc, so, se = R.run_ucg(args, os.path.join(root, job['cwd']), env=env, timeout=60)
    except Exception as e:          # a hang is a finding as well
        rc, so, se = -999, '', 'the command did not finish: %r' % (e,)
    arts = {}
    for d, _, fs in os.walk(root):
        for f in fs:
            if not f.endswith('.ucg'):
                p = os.path.join(d, f)
                try:
                    arts[os.path.relpath(p, root)] = json.load(open(p, encoding='utf-8'))
                except Exception:
                    arts[os.path.relpath(p, root)] = 'unparsable: %r' % open(p, 'rb').read()[:200]
    shutil.rmtree(root, ignore_errors=True)
    return dict(rc=rc, out=so + se, arts=arts, root=root)


def _run_all(base, jobs):
    R.ucg_binary()
    if len(jobs) <= 1 or WORKERS <= 1:
        return [_run_job(base, i, j) for i, j in enumerate(jobs)]
    from concurrent.futures import ThreadPoolExecutor
    with ThreadPoolExecutor(max_workers=WORKERS) as ex:
        return list(ex.map(lambda ij: _run_job(base, ij[0], ij[1]), enumerate(jobs)))


def _judge(job, res, reached, setvars, secret, all_readers):
    """-> None, or (reader, one line, expected, observed)"""
    rc, out, arts = res['rc'], res['out'], res['arts']
    mode = 'strict mode (the default)' if job['strict'] else '--no-strict'
    istest = any(r.test for r in reached)
    unset = [r for r in reached if r.var not in setvars]
    for r in reached:
        if r.test:
            continue
        art = arts.get(r.artifact())
        if r.var in setvars:
            if art != {'v': r.exp_set}:
                return (r, '%s: %s is set, %s holds %s' % (mode, r.var, r.artifact(), 'no artifact (the file did not build)' if art is None else repr(art)), {'v': r.exp_set}, art)
        elif job['strict']:
            if art is not None:
                return (r, '%s: %s is not set, yet %s builds: artifact %r' % (mode, r.var, r.rel(), art), 'a build error naming %s, no artifact' % r.var, art)
        else:
            if art is None:
                return (r, '%s: %s is not set and must read as NULL, but %s does not build' % (mode, r.var, r.rel()), {'v': r.exp_null}, 'no artifact')
            if (r.exp_null == ANY and not (isinstance(art, dict) and 'v' in art)) or (r.exp_null != ANY and art != {'v': r.exp_null}):
                return (r, '%s: %s is not set and must read as NULL; artifact %r' % (mode, r.var, art), {'v': r.exp_null}, art)
    if job['strict']:
        for r in unset:
            if r.var not in out:
                return (r, '%s: %s is not set; %s' % (mode, r.var, ('exit status %d and ' % rc if rc == 0 else '') + 'nothing in the output names the variable'),
                        'exit status != 0 and a diagnostic naming %s' % r.var, 'exit status %d' % rc)
        if unset and rc == 0:
            return (unset[0], '%s: %s is not set, the exit status is 0' % (mode, ', '.join(r.var for r in unset)), 'exit status != 0', 'exit status 0')
    if (not job['strict'] or not unset) and rc != 0:
        # which reader is it about? the one the output names, else the first unset one
        named = [r for r in reached if r.var in out] or unset or reached
        return (named[0], '%s: exit status %d although %s' % (mode, rc, 'an unset variable is NULL when not strict' if unset else 'every variable read is set'), 'exit status 0', 'exit status %d' % rc)
    for r in list(all_readers):
        for nm, val, tk in ((r.var, r.val, r.tok),) + (((r.near[0], r.near[1], r.near[2]),) if r.near else ()):
            if nm in job['env'] and tk in out and not (istest and r.test):
                return (r, '%s: the output discloses the value of %s' % (mode, nm), 'no value of any variable in the output', '...' + out[max(0, out.find(tk) - 150):out.find(tk) + 40])
    if secret[2] in out:
        return (reached[0], '%s: the output discloses the value of %s, which no program reads' % (mode, secret[0]), 'no value of any variable in the output',
                '...' + out[max(0, out.find(secret[2]) - 150):out.find(secret[2]) + 40])
    return None


def _shq(v):
    """the value as a /bin/bash word"""
    if v and all(c.isprintable() for c in v):
        return "'" + v.replace("'", "'\\''") + "'"
    return "$'" + ''.join(c if c.isprintable() and c not in "'\\" else ('\\x%02x' % ord(c) if ord(c) < 128 else '\\u%04x' % ord(c)) for c in v) + "'"


def _show_cmd(job, root='<root>'):
    return '`cd %s && env -i %s ucg %s`' % (os.path.normpath(os.path.join(root, job['cwd'])), ' '.join('%s=%s' % (k, _shq(v.replace('@ROOT@', root))) for k, v in job['env'].items()),
                                            ' '.join(a.replace('@ROOT@', root) for a in job['flags'] + job['args']))


def _report(name, bound, n, base, job, res, verdict, route_id, remake, first):
    """Violation record; first tries to reproduce it with the tree reduced to the one reading file (and what it imports), then to that file and the
    first file of the command; if neither shows the failure the whole tree is given."""
    r, line, exp, obs = verdict
    reduced = False
    for keep in ([r], [first, r] if first is not r else None):
        if keep is None:
            continue
        sjob, sreached, ssetvars, ssecret = remake(keep)
        sres = _run_job(base, 9000 + len(keep), sjob)
        sv = _judge(sjob, sres, sreached, ssetvars, ssecret, sreached)
        if sv is not None and sv[0] is r:
            job, res, (r, line, exp, obs), reduced = sjob, sres, sv, True
            break
    out = res['out'].replace(res['root'], '<root>')
    return dict(name=name, bound=bound, cases=n, status='violation',
                detail=('%s [read at: %s; route: %s] %s' % (line, r.where, route_id, _show_cmd(job)))[:900],
                input=dict(source=dict((k, v) for k, v in job['files'].items() if reduced or len(job['files']) <= 80 or k in r.files()), failing_file=r.rel(), files_in_the_tree=sorted(job['files']), expected=exp, observed=obs,
                           output=out[-1500:], how='files written below an empty directory <root>; ' + _show_cmd(job) + '; artifacts are read back with a JSON parser',
                           read_at=r.where, route=route_id, variable=r.var, set=r.var in job['env'], mode='strict' if job['strict'] else '--no-strict'))


def _mk_secret(rnd, taken, forbidden, rsv):
    nm = _new_name(rnd, taken, forbidden, True, rsv)
    v, tk = _new_val(rnd)
    return ('SECRET_' + nm, v, tk)


def _near(rnd, r, taken):
    """a near miss of the unset variable that IS set (other case / one character more), for a third of the readers"""
    r.near = None
    if rnd.random() < 0.34:
        cand = r.var.swapcase() if rnd.random() < 0.5 and r.var.swapcase() != r.var else r.var + rnd.choice('_0x')
        if not cand.upper().startswith(AVOID) and cand not in taken:
            v, tk = _new_val(rnd)
            r.near = (cand, v, tk)


def standin_env_positions(tier, seed):
    """dimension (a): every position / import flavour, each file named on one command line"""
    rnd = random.Random(seed * 7919 + 18)
    rsv = reserved()
    pos, imps = _positions(), _imports()
    rounds = 1 if tier != 'thorough' else 5
    per_imp = 1 if tier != 'thorough' else 2
    bound = ('%d round(s) of one directory with %d files that each read ONE variable of their own (random name, 20%% needing the quoted selector; random Unicode value) at one of %d program positions '
             '(%s) + %d x %d files that reach the read through imports (%s; the imported file reads at a random position), all named on one `ucg [--no-strict] build` command line; '
             '2 complementary halves of the variables set x strict / --no-strict; a third of the unset variables have a set near miss; one secret variable nobody reads'
             % (rounds, len(pos), len(pos), ', '.join(p[0] for p in pos), len(imps), per_imp, ', '.join(i[0] for i in imps)))
    base = tempfile.mkdtemp(prefix='verif_c18p_')
    n = 0
    try:
        for rd in range(rounds):
            taken = []
            readers = []
            for i, p in enumerate(pos):
                readers.append(Reader(rnd, 'p%02d' % i, p, None, taken, base, rsv))
            k = 0
            for imp in imps:
                for _ in range(per_imp):
                    readers.append(Reader(rnd, 'i%02d' % k, rnd.choice(pos), imp, taken, base, rsv))
                    k += 1
            # two files that import ONE shared file, on the same command line
            sh = Reader(rnd, 'sh0', pos[0], imps[0], taken, base, rsv)
            sh2 = Reader(rnd, 'sh1', pos[0], None, taken, base, rsv)
            sh2.var, sh2.val, sh2.tok, sh2.sel = sh.var, sh.val, sh.tok, sh.sel
            sh2.main = 'let l = import "sh0_lib.ucg";\nlet r = [l.r, %s];\nout json {v = r};\n' % sh.sel
            sh2.libs = dict(sh.libs)
            sh2.exp_set, sh2.exp_null, sh2.where = [sh.val, sh.val], [None, None], 'a file imported by two files of the same command line; and a plain let'
            readers += [sh, sh2]
            for r in readers:
                _near(rnd, r, taken)
            secret = _mk_secret(rnd, taken, base, rsv)
            rnd.shuffle(readers)
            names = sorted(set(r.var for r in readers))
            half = set(rnd.sample(names, len(names) // 2))
            jobs, meta = [], []
            for setvars in (half, set(names) - half):
                for flags in ([], ['--no-strict']):
                    args = ['build'] + [r.rel() for r in readers]
                    jobs.append(_job(readers, '.', args, flags, setvars, secret))
                    meta.append(setvars)
            results = _run_all(base, jobs)
            for job, res, setvars in zip(jobs, results, meta):
                n += len(readers)
                v = _judge(job, res, readers, setvars, secret, readers)
                if v is not None:
                    def remake(keep, job=job, setvars=setvars):
                        return (_job(keep, '.', ['build'] + [k.rel() for k in keep], job['flags'], setvars, secret), keep, setvars, secret)
                    return _report('env_positions', bound, n, base, job, res, v, 'files named on the command line', remake, readers[0])
    finally:
        shutil.rmtree(base, ignore_errors=True)
    return dict(name='env_positions', bound=bound, cases=n, status='ok')


def _tree(rnd, pos, imps, taken, base, rsv, test=False, simple=True):
    """8 reading files in proj/, proj/<d1>/, proj/<d1>/<d2>/ and proj/<e1>/ (two per directory), positions / import flavours at random"""
    d1, d2, e1 = rnd.choice(['s1', 'conf', 'a-b', 'x_y']), rnd.choice(['s2', 'deep', 'k8s']), rnd.choice(['t1', 'other', 'z'])
    dirs = ['proj', 'proj', 'proj/' + d1, 'proj/' + d1, 'proj/%s/%s' % (d1, d2), 'proj/%s/%s' % (d1, d2), 'proj/' + e1, 'proj/' + e1]
    well = [p for p in pos if p[3] != ANY]
    easy = [p for p in pos if p[0] in ('let', 'function body', 'module body', 'map callback (list)', 'filter predicate (list)', 'select default', 'copy expression field')]
    readers = []
    for i, d in enumerate(dirs):
        p = rnd.choice(easy if simple else (well if test else pos))
        imp = rnd.choice(imps) if rnd.random() < (0.25 if simple else 0.4) else None
        r = Reader(rnd, '%s%d' % (rnd.choice('abcdefgh'), i), p, imp, taken, base, rsv, plain=test, test=(('set', 'unset')[i % 2] if test else None))
        r.dir = d
        _near(rnd, r, taken)
        readers.append(r)
    return readers


QUICK_ROUTES = [['recursive, directory named'],
                ['recursive, no input (current directory)', 'no input (current directory)'],
                ['recursive, `.`', 'recursive, absolute directory', 'recursive, sub-directory named', 'recursive, sub-directory relative to the current directory'],
                ['directory named', 'directory named with a trailing slash', 'sub-directory named'],
                ['every file named, relative and absolute mixed'],
                ['every file named, relative', 'every file named, absolute', 'every file named, relative to a sub-directory', 'every file named, with ./ and ../ segments', 'every file named, rotated by 1',
                 'every file named, rotated by 2', 'every file named, rotated by 3'],
                ['recursive, a directory, a file and another directory', 'a file, then a directory', 'one file named', 'one file named, absolute']]


def standin_env_routes(tier, seed):
    """dimension (b): every CLI route of `ucg build` and `ucg test` to files in and below a directory"""
    rnd = random.Random(seed * 104729 + 18)
    rsv = reserved()
    pos, imps = _positions(), _imports()
    thorough = tier == 'thorough'
    rounds = 1 if not thorough else 2
    all_routes = [x[0] for x in routes('build', _tree(random.Random(0), pos, imps, [], '', rsv), random.Random(0), None)]
    bound = ('%d tree(s) proj/, proj/D1/, proj/D1/D2/, proj/E1/ with two reading files each (one variable per file; position of the read and import flavour at random, see env_positions), built over %s: %s; '
             'per route strict and --no-strict (flag in front of the sub-command) with one variable of every directory set and the other unset%s; '
             'the same for `ucg test` on trees of *_test.ucg files whose assertion states the expected value (set variable: its value; unset: what NULL gives), routes: %s, '
             'plus a strict run over the files that read set variables only'
             % (rounds, 'every route' if thorough else 'one route of each of %d groups' % len(QUICK_ROUTES), ', '.join(all_routes), ' and the other way round' if thorough else '',
                'all' if thorough else '4 at random'))
    base = tempfile.mkdtemp(prefix='verif_c18r_')
    n = 0
    try:
        for rd in range(rounds):
            # ---- ucg build
            taken = []
            readers = _tree(rnd, pos, imps, taken, base, rsv, simple=not thorough or rd == 0)
            secret = _mk_secret(rnd, taken, base, rsv)
            a_set = set(r.var for i, r in enumerate(readers) if i % 2 == (rd % 2))
            b_set = set(r.var for r in readers) - a_set
            which = None if thorough else set(rnd.choice(g) for g in QUICK_ROUTES)
            jobs, meta = [], []
            for rid, cwd, args, reached in routes('build', readers, rnd, which):
                for setvars in ((a_set, b_set) if thorough else (a_set,)):
                    for flags in ([], ['--no-strict']):
                        jobs.append(_job(readers, cwd, args, flags, setvars, secret))
                        meta.append((rid, reached, setvars, cwd, args))
            # ---- ucg test: a tree of test files; the files reading set variables alone must pass in strict mode
            ttaken = []
            treaders = _tree(rnd, pos, imps, ttaken, base, rsv, test=True, simple=not thorough)
            tsecret = _mk_secret(rnd, ttaken, base, rsv)
            tset = set(r.var for r in treaders if r.test == 'set')
            twhich = None if thorough else set([rnd.choice(QUICK_ROUTES[0] + QUICK_ROUTES[2]), rnd.choice(QUICK_ROUTES[1]), rnd.choice(QUICK_ROUTES[3] + QUICK_ROUTES[6]), rnd.choice(QUICK_ROUTES[4] + QUICK_ROUTES[5])])
            for rid, cwd, args, reached in routes('test', treaders, rnd, twhich):
                for flags in ([], ['--no-strict']):
                    jobs.append(_job(treaders, cwd, args, flags, tset, tsecret))
                    meta.append((rid, reached, tset, cwd, args))
            onlyset = [r for r in treaders if r.test == 'set']
            for rid, cwd, args, reached in routes('test', onlyset, rnd, None if thorough else set([rnd.choice(QUICK_ROUTES[0] + QUICK_ROUTES[1] + QUICK_ROUTES[2])])):
                jobs.append(_job(onlyset, cwd, args, [], tset, tsecret))
                meta.append((rid + ' (only the files that read set variables)', reached, tset, cwd, args))
            results = _run_all(base, jobs)
            for job, res, (rid, reached, setvars, cwd, args) in zip(jobs, results, meta):
                n += max(1, len(reached))
                if not reached:
                    continue
                sec = tsecret if reached[0].test else secret
                allr = treaders if reached[0].test else readers
                v = _judge(job, res, reached, setvars, sec, allr)
                if v is not None:
                    def remake(keep, job=job, setvars=setvars, sec=sec, reached=reached):
                        # the same command on a tree that holds only these files (and what they import); arguments naming files / directories that are gone are dropped
                        files = {}
                        for k in keep:
                            files.update(k.files())
                        a2 = []
                        for a in job['args'][1:]:
                            rel = os.path.normpath(a[len('@ROOT@/'):] if a.startswith('@ROOT@/') else os.path.join(job['cwd'], a))
                            if a.startswith('-') or (any(rel == k.rel() for k in keep) if a.endswith('.ucg') else (rel == '.' or any(f.startswith(rel + '/') for f in files))):
                                a2.append(a)
                        return (_job(keep, job['cwd'], job['args'][:1] + a2, job['flags'], setvars, sec), [k for k in keep if k in reached], setvars, sec)
                    return _report('env_routes', bound, n, base, job, res, v, '`ucg %s`: %s' % ('test' if reached[0].test else 'build', rid), remake, reached[0])
    finally:
        shutil.rmtree(base, ignore_errors=True)
    return dict(name='env_routes', bound=bound, cases=n, status='ok')


STANDINS = [standin_env_random, standin_env_positions, standin_env_routes]
