//@ unit lower_val
//@ serves C03
//@ must_verify LowerRef::from LowerRc::from vtree ltree
//@ include prelude/head.rs
use std::rc::Rc;

verus! {
//@ include prelude/core.rs
//@ include prelude/vm_types.rs

// C03, the step before every converter: the VM's result value is lowered to a `Val`
// (`impl From<&Value> for Val`, `impl From<Rc<Value>> for Val`, src/build/opcode/convert.rs).
// For ALL VM values: the Val has the same tree - same scalars (integers and floats untouched, strings
// identical), lists of the same length in the same order, tuples with the same field names in the same order
// (duplicates included), constraint values kept (the converters then refuse them).
// Binding symbols, thunks, FUNCTIONS and MODULES become NULL: that is what the code does and what is stated
// here; C03 quantifies over data values only (see the report: `out json {f = func (x) => x}` prints
// `"f": null`, silently).

//@ extract src/build/ir.rs :: enum Val
//@   rule R0
//@ end

// ---------- the common tree of a VM value and of a Val ----------
pub enum L {
    Empty,
    Bool(bool),
    Int(i64),
    Float(f64),
    Str(Seq<char>),
    List(Seq<L>),
    Tuple(Seq<(Seq<char>, L)>),
    Env(Seq<(Seq<char>, Seq<char>)>),
    Constraint(ConstraintVal),
}

pub open spec fn vtree(v: Value) -> L
    decreases v, 0int
{
    match v {
        Value::P(Primitive::Int(i)) => L::Int(i),
        Value::P(Primitive::Float(f)) => L::Float(f),
        Value::P(Primitive::Str(s)) => L::Str(s@),
        Value::P(Primitive::Bool(b)) => L::Bool(b),
        Value::P(Primitive::Empty) => L::Empty,
        Value::C(Composite::Tuple(fs, _)) => L::Tuple(vfields(fs@)),
        Value::C(Composite::List(elems, _)) => L::List(velems(elems@)),
        Value::K(cv) => L::Constraint(cv),
        // not data: a binding name, a thunk, a function, a module
        Value::S(_) | Value::T(_) | Value::F(_) | Value::M(_) => L::Empty,
    }
}

pub open spec fn velems(e: Seq<Rc<Value>>) -> Seq<L>
    decreases e, 1int
{
    Seq::new(e.len(), |i: int| if 0 <= i < e.len() { vtree(*e[i]) } else { L::Empty })
}

pub open spec fn vfields(fs: Seq<(Rc<str>, Rc<Value>)>) -> Seq<(Seq<char>, L)>
    decreases fs, 1int
{
    Seq::new(fs.len(), |i: int| if 0 <= i < fs.len() { (fs[i].0@, vtree(*fs[i].1)) } else { (Seq::<char>::empty(), L::Empty) })
}

pub open spec fn ltree(v: Val) -> L
    decreases v, 0int
{
    match v {
        Val::Empty => L::Empty,
        Val::Boolean(b) => L::Bool(b),
        Val::Int(i) => L::Int(i),
        Val::Float(f) => L::Float(f),
        Val::Str(s) => L::Str(s@),
        Val::List(l) => L::List(lelems(l@)),
        Val::Tuple(t) => L::Tuple(lfields(t@)),
        Val::Env(e) => L::Env(Seq::new(e@.len(), |i: int| (e@[i].0@, e@[i].1@))),
        Val::Constraint(cv) => L::Constraint(cv),
    }
}

pub open spec fn lelems(e: Seq<Rc<Val>>) -> Seq<L>
    decreases e, 1int
{
    Seq::new(e.len(), |i: int| if 0 <= i < e.len() { ltree(*e[i]) } else { L::Empty })
}

pub open spec fn lfields(fs: Seq<(Rc<str>, Rc<Val>)>) -> Seq<(Seq<char>, L)>
    decreases fs, 1int
{
    Seq::new(fs.len(), |i: int| if 0 <= i < fs.len() { (fs[i].0@, ltree(*fs[i].1)) } else { (Seq::<char>::empty(), L::Empty) })
}

// the first n lowered fields / elements carry the names and trees of the first n VM fields / elements
pub open spec fn fields_agree(flds: Seq<(Rc<str>, Rc<Val>)>, fs: Seq<(Rc<str>, Rc<Value>)>, n: int) -> bool {
    forall|j: int| 0 <= j < n ==> (#[trigger] flds[j]).0@ == fs[j].0@ && ltree(*flds[j].1) == vtree(*fs[j].1)
}

pub open spec fn elems_agree(els: Seq<Rc<Val>>, elems: Seq<Rc<Value>>, n: int) -> bool {
    forall|j: int| 0 <= j < n ==> ltree(*(#[trigger] els[j])) == vtree(*elems[j])
}

// R0: `#[derive(Clone)]` on ConstraintVal assumed structural.
//@ clone_spec ConstraintVal

// The two `From` impls call each other through `Into::into`; Verus does not follow recursion through trait
// dispatch, so each `fn from` is placed in an inherent impl of a marker type (`impl_header`) and the three
// `.into()` calls are resolved by hand to the impl rustc selects (R7):
//   `v.into()`, `e.into()`  (Rc<Value> -> Val)  = <Val as From<Rc<Value>>>::from  -> LowerRc::from
//   `val.as_ref().into()`   (&Value -> Val)     = <Val as From<&Value>>::from     -> LowerRef::from
pub struct LowerRef {}
pub struct LowerRc {}

//@ extract src/build/opcode/convert.rs :: impl From<Rc<Value>> for Val :: fn from
//@   impl_header impl LowerRc
//@   subst "val.as_ref().into()" => "LowerRef::from(val.as_ref())"
//@   ret r
//@   sig <<<
        ensures ltree(r) == vtree(*val)
        decreases *val, 1int
//@   >>>
//@ end

//@ extract src/build/opcode/convert.rs :: impl From<&Value> for Val :: fn from
//@   impl_header impl LowerRef
//@   subst "v.into()" => "LowerRc::from(v)"
//@   subst "e.into()" => "LowerRc::from(e)"
//@   ret r
//@   sig <<<
        ensures ltree(r) == vtree(*val)
        decreases *val, 0int
//@   >>>
//@   loop 1 iter it <<<
                    invariant
                        it.seq().len() == fs@.len(),
                        forall|j: int| 0 <= j < fs@.len() ==> *it.seq()[j] == fs@[j],
                        flds@.len() == it.index@,
                        fields_agree(flds@, fs@, it.index@ as int),
                        decreases_to!(*val => fs),
//@   >>>
//@   after "let v = v.clone();" <<<
                    assert(v == fs@[it.index@ as int].1 && *k == fs@[it.index@ as int].0);
//@   >>>
//@   after_loop 1 <<<
                assert(lfields(flds@) =~= vfields(fs@));
//@   >>>
//@   loop 2 iter it <<<
                    invariant
                        it.seq().len() == elems@.len(),
                        forall|j: int| 0 <= j < elems@.len() ==> *it.seq()[j] == elems@[j],
                        els@.len() == it.index@,
                        elems_agree(els@, elems@, it.index@ as int),
                        decreases_to!(*val => elems),
//@   >>>
//@   after "let e = e.clone();" <<<
                    assert(e == elems@[it.index@ as int]);
//@   >>>
//@   after_loop 2 <<<
                assert(lelems(els@) =~= velems(elems@));
//@   >>>
//@   mutant int_through_f64 "P(Int(i)) => Val::Int(*i)" => "P(Int(i)) => Val::Float(*i as f64)" expect from
//@   mutant empty_field_dropped "flds.push((k.clone(), Rc::new(v.into())));" => "if let P(Empty) = *v { } else { flds.push((k.clone(), Rc::new(v.into()))); }" expect from
// (written against the text after the `.into()` substitution above)
//@   mutant list_first_element_twice "els.push(Rc::new(LowerRc::from(e)));" => "els.push(Rc::new(LowerRc::from(elems[0].clone())));" expect from
//@   mutant constraint_becomes_null "K(cv) => Val::Constraint(cv.clone())" => "K(cv) => Val::Empty" expect from
//@   mutant field_name_from_first "flds.push((k.clone()," => "flds.push((fs[0].0.clone()," expect from
//@ end

} // verus!

fn main() {}
