// ---- prelude/stepper_iter.rs: the byte steppers under the tokenizer (inside verus!) ----
// abortable_parser::iter::StrIter (version pinned by Cargo.lock) and ucg's OffsetStrIter wrapper,
// extracted verbatim, with the step contract of C11.  Shared by units `stepper` and `lit_roundtrip`.
//
// UTF-8 is NOT axiomatised here: `str::as_bytes` is specified by vstd as `encode_utf8(s@)`
// (vstd::utf8, a proved model of RFC 3629).

// The path of the source file is only cloned and stored (R5).
//@ opaque PathBuf
//@ clone_spec PathBuf

// Every Rust object is at most isize::MAX bytes long (std::alloc::Layout / the reference, "the size of a
// value is always <= isize::MAX"); vstd does not export this for str.  Used for "line/column never overflow".
#[verifier::external_body]
pub proof fn axiom_str_len_bound(s: &str)
    ensures encode_utf8(s@).len() <= isize::MAX
{ }

//@ extract dep:abortable_parser/src/iter.rs :: struct StrIter
//@   rule R0 RV
//@ end

// ---------- oracle: what "line", "column", "byte offset" of a position k in a text mean ----------
pub open spec fn src_bytes(it: StrIter) -> Seq<u8> { encode_utf8(it.source@) }

// number of line feeds in bs
pub open spec fn count_nl(bs: Seq<u8>) -> nat
    decreases bs.len()
{
    if bs.len() == 0 { 0 } else { count_nl(bs.drop_last()) + (if bs.last() == 0x0Au8 { 1nat } else { 0nat }) }
}
// index just after the last line feed in bs (0 if there is none): the start of the current line
pub open spec fn line_start(bs: Seq<u8>) -> int
    decreases bs.len()
{
    if bs.len() == 0 { 0 } else if bs.last() == 0x0Au8 { bs.len() as int } else { line_start(bs.drop_last()) }
}
pub open spec fn true_line(src: Seq<u8>, k: int) -> int { 1 + count_nl(src.take(k)) as int }
pub open spec fn true_column(src: Seq<u8>, k: int) -> int { k - line_start(src.take(k)) + 1 }

// The iterator reports the true position of its offset.
pub open spec fn positioned(it: StrIter) -> bool {
    &&& it.offset <= src_bytes(it).len()
    &&& it.line == true_line(src_bytes(it), it.offset as int)
    &&& it.column == true_column(src_bytes(it), it.offset as int)
}

// The step contract as a function (C11): on byte b at offset k: offset' = k+1; b == LF => line' = line+1 and
// column' = 1; otherwise column' = column+1 and the line stays; at the end nothing changes.
pub open spec fn step(it: StrIter) -> StrIter {
    let bs = src_bytes(it);
    if it.offset < bs.len() {
        if bs[it.offset as int] == 0x0Au8 {
            StrIter { source: it.source, offset: (it.offset + 1) as usize, line: (it.line + 1) as usize, column: 1 }
        } else {
            StrIter { source: it.source, offset: (it.offset + 1) as usize, line: it.line, column: (it.column + 1) as usize }
        }
    } else {
        it
    }
}

pub proof fn lemma_line_start_bounds(bs: Seq<u8>)
    ensures 0 <= line_start(bs) <= bs.len(), count_nl(bs) <= bs.len()
    decreases bs.len()
{
    if bs.len() > 0 { lemma_line_start_bounds(bs.drop_last()); }
}

// one step keeps the reported position true
pub proof fn lemma_step_positioned(it: StrIter)
    requires positioned(it), it.offset < src_bytes(it).len(), src_bytes(it).len() <= isize::MAX
    ensures positioned(step(it)),
        it.line <= it.offset + 1, it.column <= it.offset + 1, 1 <= it.line, 1 <= it.column,
{
    let bs = src_bytes(it);
    let k = it.offset as int;
    lemma_line_start_bounds(bs.take(k));
    assert(bs.take(k + 1).drop_last() =~= bs.take(k));
    assert(bs.take(k + 1).last() == bs[k]);
}

// a fresh stepper: byte offset 0 is line 1, column 1
pub open spec fn spec_new<'a>(src: &'a str) -> StrIter<'a> {
    StrIter { source: src, offset: 0, line: 1, column: 1 }
}

//@ extract dep:abortable_parser/src/iter.rs :: impl * StrIter<'a> :: fn new
//@   ret r
//@   sig <<<
        ensures r == spec_new(source), positioned(r),
//@   >>>
//@   body_start <<<
        proof { assert(encode_utf8(source@).take(0) =~= Seq::<u8>::empty()); }
//@   >>>
//@ end

//@ extract dep:abortable_parser/src/iter.rs :: impl * Iterator for StrIter<'a> :: fn next
//@   impl_header impl<'a> StrIter<'a>
//@   subst "Option<Self::Item>" => "Option<&'a u8>"
//@   ret r
//@   sig <<<
        requires positioned(*old(self))
        ensures
            *final(self) == step(*old(self)),
            positioned(*final(self)),
            old(self).offset < src_bytes(*old(self)).len() ==> r == Some(&src_bytes(*old(self))[old(self).offset as int]),
            old(self).offset >= src_bytes(*old(self)).len() ==> r.is_none() && *final(self) == *old(self),
//@   >>>
//@   body_start <<<
        proof {
            axiom_str_len_bound(self.source);
            if self.offset < src_bytes(*self).len() { lemma_step_positioned(*self); }
        }
//@   >>>
//@   mutant col_not_reset "self.column = 1;" => "self.column += 1;" expect next
//@   mutant line_on_cr "*item == b'\\n'" => "*item == b'\\r'" expect next
//@   mutant offset_by_two "self.offset += 1;" => "self.offset += 2;" expect next
//@ end

//@ extract dep:abortable_parser/src/iter.rs :: impl * Clone for StrIter<'a> :: fn clone
//@   impl_header impl<'a> Clone for StrIter<'a>
//@   ret r
//@   sig <<<
        ensures r == *self
//@   >>>
//@ end

//@ extract dep:abortable_parser/src/iter.rs :: impl * Offsetable for StrIter<'a> :: fn get_offset
//@   impl_header impl<'a> StrIter<'a>
//@   ret r
//@   sig <<<
        ensures r == self.offset
//@   >>>
//@ end
//@ extract dep:abortable_parser/src/iter.rs :: impl * Positioned for StrIter<'a> :: fn line
//@   impl_header impl<'a> StrIter<'a>
//@   ret r
//@   sig <<<
        ensures r == self.line
//@   >>>
//@ end
//@ extract dep:abortable_parser/src/iter.rs :: impl * Positioned for StrIter<'a> :: fn column
//@   impl_header impl<'a> StrIter<'a>
//@   ret r
//@   sig <<<
        ensures r == self.column
//@   >>>
//@ end

// ---------- ucg's wrapper ----------
//@ extract src/iter.rs :: struct OffsetStrIter
//@   rule R0 RV
//@ end

// representation invariant: the wrapped stepper reports true positions and the added offsets cannot overflow
// (every constructor in the crate passes 0, 0; a line/column is at most len+1).
pub open spec fn wf_osi(it: OffsetStrIter) -> bool {
    &&& positioned(it.contained)
    &&& it.line_offset + src_bytes(it.contained).len() + 1 <= usize::MAX
    &&& it.col_offset + src_bytes(it.contained).len() + 1 <= usize::MAX
}

pub proof fn lemma_positioned_bounds(it: StrIter)
    requires positioned(it)
    ensures 1 <= it.line <= it.offset + 1, 1 <= it.column <= it.offset + 1
{
    lemma_line_start_bounds(src_bytes(it).take(it.offset as int));
}

//@ extract src/iter.rs :: impl * OffsetStrIter<'a> :: fn new_with_offsets
//@   ret r
//@   sig <<<
        ensures r.contained.source == input, r.contained.offset == 0, r.line_offset == line_offset, r.col_offset == col_offset,
            r.source_file is None, positioned(r.contained),
//@   >>>
//@ end
//@ extract src/iter.rs :: impl * OffsetStrIter<'a> :: fn new
//@   ret r
//@   sig <<<
        ensures r.contained.source == input, r.contained.offset == 0, r.line_offset == 0, r.col_offset == 0,
            r.source_file is None, wf_osi(r),
//@   >>>
//@   body_start <<<
        proof { axiom_str_len_bound(input); }
//@   >>>
//@ end

//@ extract src/iter.rs :: impl * Iterator for OffsetStrIter<'a> :: fn next
//@   impl_header impl<'a> OffsetStrIter<'a>
//@   subst "Option<Self::Item>" => "Option<&'a u8>"
//@   ret r
//@   sig <<<
        requires wf_osi(*old(self))
        ensures
            wf_osi(*final(self)),
            final(self).contained == step(old(self).contained),
            final(self).source_file == old(self).source_file,
            final(self).line_offset == old(self).line_offset, final(self).col_offset == old(self).col_offset,
            old(self).contained.offset < src_bytes(old(self).contained).len()
                ==> r == Some(&src_bytes(old(self).contained)[old(self).contained.offset as int]),
            old(self).contained.offset >= src_bytes(old(self).contained).len() ==> r.is_none() && *final(self) == *old(self),
//@   >>>
//@ end

//@ extract src/iter.rs :: impl * Clone for OffsetStrIter<'a> :: fn clone
//@   impl_header impl<'a> Clone for OffsetStrIter<'a>
//@   ret r
//@   sig <<<
        ensures r == *self
//@   >>>
//@ end

//@ extract src/iter.rs :: impl * Offsetable for OffsetStrIter<'a> :: fn get_offset
//@   impl_header impl<'a> OffsetStrIter<'a>
//@   ret r
//@   sig <<<
        ensures r == self.contained.offset
//@   >>>
//@ end
//@ extract src/iter.rs :: impl * Positioned for OffsetStrIter<'a> :: fn line
//@   impl_header impl<'a> OffsetStrIter<'a>
//@   ret r
//@   sig <<<
        requires wf_osi(*self)
        ensures r == self.contained.line + self.line_offset
//@   >>>
//@   body_start <<<
        proof { lemma_positioned_bounds(self.contained); }
//@   >>>
//@ end
//@ extract src/iter.rs :: impl * Positioned for OffsetStrIter<'a> :: fn column
//@   impl_header impl<'a> OffsetStrIter<'a>
//@   ret r
//@   sig <<<
        requires wf_osi(*self)
        ensures r == self.contained.column + self.col_offset
//@   >>>
//@   body_start <<<
        proof { lemma_positioned_bounds(self.contained); }
//@   >>>
//@ end
