//@ unit rewrite_paths
//@ serves C09
//@ must_verify Rewriter::visit_expression Rewriter::walk_expression Rewriter::walk_statement Rewriter::walk_fieldset Rewriter::walk_value Rewriter::walk_statement_list Rewriter::visit_import Rewriter::leave_import Rewriter::visit_include Rewriter::leave_include Rewriter::visit_fail Rewriter::leave_fail Rewriter::visit_value Rewriter::leave_value Rewriter::leave_expression Rewriter::visit_statement Rewriter::leave_statement lemma_absolute_path_is_untouched lemma_relative_import_is_joined_to_base lemma_import_in_map_callback lemma_import_in_fail_message lemma_import_in_module_out_expr lemma_import_in_function_body lemma_include_in_let_constraint
// C09 - the pre-translation rewrite of relative import/include paths: `Rewriter::visit_expression`
// (src/ast/rewrite.rs) and the AST walker that drives it, `Walker::{walk_statement_list, walk_statement,
// walk_fieldset, walk_expression, walk_value}` with the `Visitor` default methods (src/ast/walk.rs), over the AST
// types of src/ast/mod.rs - all extracted verbatim.
//
// Contract: walk_expression / walk_statement / ... ensure rw_expr / rw_stmt / ... (below): the tree after the walk is
// the tree before it with the path token of EVERY Import/Include node, at ALL syntactic positions, rewritten by
// `visited` exactly once (relative => base.join(path); absolute or std/ => the very same token), and nothing else
// changed. `PathBuf` is its text; `is_relative`, `join`, `starts_with`, `str::replace` and MAIN_SEPARATOR are
// uninterpreted (prelude/rewrite_paths_world.rs) - which texts count as relative is std's business, not proved here.
// "Exactly once" is enforced because `join` is uninterpreted: a node visited twice would carry
// join(base, join(base, p)), which the contract does not allow.
//
// Model: the generic `&mut` visitor is monomorphised to its one rewriting instance (R7): `trait Visitor` and
// `trait Walker` are extracted as whole blocks and turned into inherent `impl Rewriter` blocks (Rewriter overrides
// visit_expression only; `impl<T: Visitor> Walker for T {}` adds nothing). The type checker's use of the same
// walker (Checker: Visitor) is NOT covered.
//
// Genuine defect found with this contract on the pinned tree (fixed by /scratch/patches/walker.patch; the unit is
// written against the FIXED text, each missing descent is a seeded mutant): the walker did not descend into
//   the callback of map / filter / reduce, the message of `fail`, the out-expression (and out-constraint) of a
//   module, the constraint of a `let`, field constraints and parameter constraints,
// so a relative import/include there was never rewritten and resolved against the PROCESS WORKING DIRECTORY:
//   /p/app/d_map.ucg: `let r = map(func (x) => (import "lib/lib.ucg").v + x, [1, 2]);` built from /p/app yields
//   [2, 3] (reads /p/app/lib/lib.ucg), built from /other it yields [101, 102] (reads /other/lib/lib.ucg); same for
//   filter, reduce, `fail "boom @" % ((import "lib/lib.ucg").msg)`, `module {..} => ((import ..).v + mod.a) {..}`,
//   `let x :: ((import "lib/lib.ucg").shp) = 5;` and `include` in the same positions.
// On the unfixed tree walk_expression, walk_statement and walk_fieldset fail their postconditions.
//@ include prelude/head.rs
use std::rc::Rc;

verus! {
//@ include prelude/core.rs
//@ include prelude/rewrite_paths_world.rs
//@ opaque Position Scope Val

// ---------- the AST (src/ast/mod.rs), verbatim ----------
//@ extract src/ast/mod.rs :: enum TokenType
//@   rule R0
//@ end
//@ extract src/ast/mod.rs :: struct Token
//@   rule R0
//@ end
//@ extract src/ast/mod.rs :: type FieldList
//@   rule R0
//@ end
//@ extract src/ast/mod.rs :: struct PositionedItem
//@   rule R0
//@ end
//@ extract src/ast/mod.rs :: enum Value
//@   rule R0
//@ end
//@ extract src/ast/mod.rs :: struct CallDef
//@   rule R0
//@ end
//@ extract src/ast/mod.rs :: enum CastType
//@   rule R0
//@ end
//@ extract src/ast/mod.rs :: struct CastDef
//@   rule R0
//@ end
//@ extract src/ast/mod.rs :: struct SelectDef
//@   rule R0
//@ end
//@ extract src/ast/mod.rs :: struct FuncDef
//@   rule R0
//@ end
//@ extract src/ast/mod.rs :: enum BinaryExprType
//@   rule R0
//@ end
//@ extract src/ast/mod.rs :: struct BinaryOpDef
//@   rule R0
//@ end
//@ extract src/ast/mod.rs :: struct CopyDef
//@   rule R0
//@ end
//@ extract src/ast/mod.rs :: enum FormatArgs
//@   rule R0
//@ end
//@ extract src/ast/mod.rs :: struct FormatDef
//@   rule R0
//@ end
//@ extract src/ast/mod.rs :: struct IncludeDef
//@   rule R0
//@ end
//@ extract src/ast/mod.rs :: struct ListDef
//@   rule R0
//@ end
//@ extract src/ast/mod.rs :: enum FuncOpDef
//@   rule R0
//@ end
//@ extract src/ast/mod.rs :: struct ReduceOpDef
//@   rule R0
//@ end
//@ extract src/ast/mod.rs :: struct MapFilterOpDef
//@   rule R0
//@ end
//@ extract src/ast/mod.rs :: struct ModuleDef
//@   rule R0
//@ end
//@ extract src/ast/mod.rs :: struct RangeDef
//@   rule R0
//@ end
//@ extract src/ast/mod.rs :: struct ConstraintRangeDef
//@   rule R0
//@ end
//@ extract src/ast/mod.rs :: enum ConstraintArm
//@   rule R0
//@ end
//@ extract src/ast/mod.rs :: struct ConstraintDef
//@   rule R0
//@ end
//@ extract src/ast/mod.rs :: struct ImportDef
//@   rule R0
//@ end
//@ extract src/ast/mod.rs :: struct FailDef
//@   rule R0
//@ end
//@ extract src/ast/mod.rs :: struct NotDef
//@   rule R0
//@ end
//@ extract src/ast/mod.rs :: struct DebugDef
//@   rule R0
//@ end
//@ extract src/ast/mod.rs :: struct ConvertDef
//@   rule R0
//@ end
//@ extract src/ast/mod.rs :: enum Expression
//@   rule R0
//@ end
//@ extract src/ast/mod.rs :: struct LetDef
//@   rule R0
//@ end
//@ extract src/ast/mod.rs :: struct ConstraintBindingDef
//@   rule R0
//@ end
//@ extract src/ast/mod.rs :: enum Statement
//@   rule R0
//@ end

//@ extract src/ast/rewrite.rs :: struct Rewriter
//@   rule R0 RV
//@ end

// ---------- the contract, from the property statement ----------
// "A relative import or include path names a file relative to the directory of the file that contains the
// expression": before translation the path text of every Import/Include node is made absolute against `base`, the
// directory of the file being translated.
// What the rewriter makes of an include path (None: the token is left untouched):
pub open spec fn include_target(base: Seq<char>, frag: Seq<char>) -> Option<Seq<char>> {
    if path_is_relative(frag) { Some(path_join(base, frag)) } else { None }
}
// ... and of an import path: separators are normalised to the platform's first; `std/...` names the built-in
// library and stays as it is; any other relative path is joined to `base`; an absolute path is untouched.
pub open spec fn import_norm(frag: Seq<char>) -> Seq<char> {
    str_replace(str_replace(frag, "/"@, main_separator()), "\\"@, main_separator())
}
pub open spec fn import_target(base: Seq<char>, frag: Seq<char>) -> Option<Seq<char>> {
    let p = import_norm(frag);
    if path_starts_with(p, "std"@ + main_separator()) { None }
    else if path_is_relative(p) { Some(path_join(base, p)) }
    else { None }
}
// the path token after the rewrite: new text (type and position kept), or the very same token
pub open spec fn tok_rw(a: Token, b: Token, target: Option<Seq<char>>) -> bool {
    match target {
        Some(t) => b.typ == a.typ && b.pos == a.pos && b.fragment@ == t,
        None => b == a,
    }
}
// one node visited by the rewriter: only the path token of an Import/Include node can change
pub open spec fn visited(base: Seq<char>, a: Expression, b: Expression) -> bool {
    match a {
        Expression::Include(da) => b matches Expression::Include(db) && db.pos == da.pos && db.typ == da.typ
            && tok_rw(da.path, db.path, include_target(base, da.path.fragment@)),
        Expression::Import(da) => b matches Expression::Import(db) && db.pos == da.pos
            && tok_rw(da.path, db.path, import_target(base, da.path.fragment@)),
        _ => b == a,
    }
}

// ---------- the whole-tree contract ----------
// rw_expr(base, a, b): b is a with EVERY Import/Include node - at every syntactic position an expression can occupy -
// visited exactly once, and nothing else changed. The relation follows the AST types field by field: every field of
// type Expression (boxed, optional, in a vector, in a field list, in a statement) is related recursively, every other
// field is equal. (Vec has no extensional equality in Verus, hence a relation instead of `b == rewritten(a)`.)
// Not descended, because no expression can sit there: `CallDef.funcref` and `CopyDef.selector` (the parser only ever
// puts a Symbol there: tuple_to_call / copy_expression in src/parse/mod.rs).
pub open spec fn rw_expr(base: Seq<char>, a: Expression, b: Expression) -> bool
    decreases a
{
    match a {
        Expression::Simple(va) => b matches Expression::Simple(vb) && rw_value(base, va, vb),
        Expression::Not(da) => b matches Expression::Not(db) && db.pos == da.pos && rw_expr(base, *da.expr, *db.expr),
        Expression::Binary(da) => b matches Expression::Binary(db) && db.kind == da.kind && db.pos == da.pos
            && rw_expr(base, *da.left, *db.left) && rw_expr(base, *da.right, *db.right),
        Expression::Copy(da) => b matches Expression::Copy(db) && db.selector == da.selector && db.pos == da.pos
            && rw_fields(base, da.fields, db.fields),
        Expression::Range(da) => b matches Expression::Range(db) && db.pos == da.pos
            && rw_expr(base, *da.start, *db.start) && rw_opt_box(base, da.step, db.step) && rw_expr(base, *da.end, *db.end),
        Expression::Grouped(ea, pa) => b matches Expression::Grouped(eb, pb) && pb == pa && rw_expr(base, *ea, *eb),
        Expression::Format(da) => b matches Expression::Format(db) && db.template == da.template && db.pos == da.pos
            && rw_format_args(base, da.args, db.args),
        Expression::Include(_) => visited(base, a, b),
        Expression::Import(_) => visited(base, a, b),
        Expression::Call(da) => b matches Expression::Call(db) && db.funcref == da.funcref && db.pos == da.pos
            && rw_list(base, da.arglist, db.arglist),
        Expression::Cast(da) => b matches Expression::Cast(db) && db.cast_type == da.cast_type && db.pos == da.pos
            && rw_expr(base, *da.target, *db.target),
        // function body AND the constraints of its parameters
        Expression::Func(da) => b matches Expression::Func(db) && db.scope == da.scope && db.pos == da.pos
            && rw_argdefs(base, da.argdefs, db.argdefs) && rw_expr(base, *da.fields, *db.fields),
        Expression::Select(da) => b matches Expression::Select(db) && db.pos == da.pos
            && rw_expr(base, *da.val, *db.val) && rw_opt_box(base, da.default, db.default) && rw_fields(base, da.tuple, db.tuple),
        // map / filter / reduce: the CALLBACK as well as the operands
        Expression::FuncOp(da) => b matches Expression::FuncOp(db) && rw_funcop(base, da, db),
        // module: parameters, body statements, out-expression and its constraint
        Expression::Module(da) => b matches Expression::Module(db) && db.scope == da.scope && db.pos == da.pos
            && db.arg_tuple == da.arg_tuple && rw_fields(base, da.arg_set, db.arg_set)
            && rw_opt_box(base, da.out_expr, db.out_expr) && rw_opt_box(base, da.out_constraint, db.out_constraint)
            && rw_stmts(base, da.statements, db.statements),
        // fail: the MESSAGE
        Expression::Fail(da) => b matches Expression::Fail(db) && db.pos == da.pos && rw_expr(base, *da.message, *db.message),
        Expression::Debug(da) => b matches Expression::Debug(db) && db.pos == da.pos && rw_expr(base, *da.expr, *db.expr),
        Expression::Convert(da) => b matches Expression::Convert(db) && db.pos == da.pos && db.converter == da.converter
            && rw_expr(base, *da.target, *db.target),
        Expression::Constraint(da) => b matches Expression::Constraint(db) && db.pos == da.pos && rw_arms(base, da.arms, db.arms),
    }
}
pub open spec fn rw_opt_box(base: Seq<char>, a: Option<Box<Expression>>, b: Option<Box<Expression>>) -> bool
    decreases a
{
    match a { Some(x) => b matches Some(y) && rw_expr(base, *x, *y), None => b is None }
}
pub open spec fn rw_opt(base: Seq<char>, a: Option<Expression>, b: Option<Expression>) -> bool
    decreases a
{
    match a { Some(x) => b matches Some(y) && rw_expr(base, x, y), None => b is None }
}
pub open spec fn rw_list(base: Seq<char>, a: Vec<Expression>, b: Vec<Expression>) -> bool
    decreases a
{
    a@.len() == b@.len() && forall|k: int| 0 <= k < a@.len() ==> rw_expr(base, #[trigger] a@[k], b@[k])
}
// a field list: name kept, field CONSTRAINT and field value rewritten
pub open spec fn rw_field(base: Seq<char>, a: (Token, Option<Expression>, Expression), b: (Token, Option<Expression>, Expression)) -> bool
    decreases a
{
    b.0 == a.0 && rw_opt(base, a.1, b.1) && rw_expr(base, a.2, b.2)
}
pub open spec fn rw_fields(base: Seq<char>, a: FieldList, b: FieldList) -> bool
    decreases a
{
    a@.len() == b@.len() && forall|k: int| 0 <= k < a@.len() ==> rw_field(base, #[trigger] a@[k], b@[k])
}
pub open spec fn rw_argdef(base: Seq<char>, a: (PositionedItem<Rc<str>>, Option<Expression>), b: (PositionedItem<Rc<str>>, Option<Expression>)) -> bool
    decreases a
{
    b.0 == a.0 && rw_opt(base, a.1, b.1)
}
pub open spec fn rw_argdefs(base: Seq<char>, a: Vec<(PositionedItem<Rc<str>>, Option<Expression>)>, b: Vec<(PositionedItem<Rc<str>>, Option<Expression>)>) -> bool
    decreases a
{
    a@.len() == b@.len() && forall|k: int| 0 <= k < a@.len() ==> rw_argdef(base, #[trigger] a@[k], b@[k])
}
pub open spec fn rw_format_args(base: Seq<char>, a: FormatArgs, b: FormatArgs) -> bool
    decreases a
{
    match a {
        FormatArgs::List(va) => b matches FormatArgs::List(vb) && rw_list(base, va, vb),
        FormatArgs::Single(ea) => b matches FormatArgs::Single(eb) && rw_expr(base, *ea, *eb),
    }
}
pub open spec fn rw_funcop(base: Seq<char>, a: FuncOpDef, b: FuncOpDef) -> bool
    decreases a
{
    match a {
        FuncOpDef::Reduce(da) => b matches FuncOpDef::Reduce(db) && db.pos == da.pos && rw_expr(base, *da.func, *db.func)
            && rw_expr(base, *da.acc, *db.acc) && rw_expr(base, *da.target, *db.target),
        FuncOpDef::Map(da) => b matches FuncOpDef::Map(db) && db.pos == da.pos && rw_expr(base, *da.func, *db.func)
            && rw_expr(base, *da.target, *db.target),
        FuncOpDef::Filter(da) => b matches FuncOpDef::Filter(db) && db.pos == da.pos && rw_expr(base, *da.func, *db.func)
            && rw_expr(base, *da.target, *db.target),
    }
}
pub open spec fn rw_arm(base: Seq<char>, a: ConstraintArm, b: ConstraintArm) -> bool
    decreases a
{
    match a {
        ConstraintArm::Range(da) => b matches ConstraintArm::Range(db) && db.pos == da.pos
            && rw_opt_box(base, da.start, db.start) && rw_opt_box(base, da.end, db.end),
        ConstraintArm::Shape(ea) => b matches ConstraintArm::Shape(eb) && rw_expr(base, *ea, *eb),
    }
}
pub open spec fn rw_arms(base: Seq<char>, a: Vec<ConstraintArm>, b: Vec<ConstraintArm>) -> bool
    decreases a
{
    a@.len() == b@.len() && forall|k: int| 0 <= k < a@.len() ==> rw_arm(base, #[trigger] a@[k], b@[k])
}
pub open spec fn rw_value(base: Seq<char>, a: Value, b: Value) -> bool
    decreases a
{
    match a {
        Value::Tuple(fa) => b matches Value::Tuple(fb) && fb.pos == fa.pos && rw_fields(base, fa.val, fb.val),
        Value::List(la) => b matches Value::List(lb) && lb.pos == la.pos && rw_list(base, la.elems, lb.elems),
        _ => b == a,
    }
}
// statements: the value AND the constraint of a let
pub open spec fn rw_stmt(base: Seq<char>, a: Statement, b: Statement) -> bool
    decreases a
{
    match a {
        Statement::Expression(ea) => b matches Statement::Expression(eb) && rw_expr(base, ea, eb),
        Statement::Let(da) => b matches Statement::Let(db) && db.pos == da.pos && db.name == da.name
            && rw_opt(base, da.constraint, db.constraint) && rw_expr(base, da.value, db.value),
        Statement::Constraint(da) => b matches Statement::Constraint(db) && db.pos == da.pos && db.name == da.name
            && rw_expr(base, da.value, db.value),
        Statement::Assert(pa, ea) => b matches Statement::Assert(pb, eb) && pb == pa && rw_expr(base, ea, eb),
        Statement::Output(pa, ta, ea) => b matches Statement::Output(pb, tb, eb) && pb == pa && tb == ta && rw_expr(base, ea, eb),
    }
}
pub open spec fn rw_stmts(base: Seq<char>, a: Vec<Statement>, b: Vec<Statement>) -> bool
    decreases a
{
    a@.len() == b@.len() && forall|k: int| 0 <= k < a@.len() ==> rw_stmt(base, #[trigger] a@[k], b@[k])
}

//@ extract src/ast/rewrite.rs :: impl Visitor for Rewriter :: fn visit_expression
//@   impl_header impl Rewriter
// R2: the two format! call sites -> stubs that keep the literal pieces
//@   subst "format!(\"{}\", std::path::MAIN_SEPARATOR)" => "verif_fmt_main_separator()"
//@   subst "format!(\"std{}\", main_separator)" => "verif_fmt_std_prefix(&main_separator)"
// `str::replace` (inherent on str, no Verus spec) -> the same two calls, innermost first, through the stub
//@   subst "&def.path .fragment .replace(\"/\", &main_separator) .replace(\"\\\\\", &main_separator)" => "&verif_str_replace(&verif_str_replace(def.path.fragment.as_ref(), \"/\", &main_separator), \"\\\\\", &main_separator)"
//@   sig <<<
        ensures
            *final(self) == *old(self),
            visited(old(self).base@, *old(expr), *final(expr)),
//@   >>>
//@   body_start <<<
        proof { reveal_strlit("/"); reveal_strlit("\\"); reveal_strlit("std"); }
//@   >>>
//@   mutant absolute_include_rewritten "let path = PathBuf::from(def.path.fragment.as_ref()); if path.is_relative() {" => "let path = PathBuf::from(def.path.fragment.as_ref()); if true {" expect visit_expression
//@   mutant absolute_import_rewritten "return; } if path.is_relative() {" => "return; } if true {" expect visit_expression
//@   mutant relative_import_left_alone "return; } if path.is_relative() {" => "return; } if !path.is_relative() {" expect visit_expression
//@   mutant std_path_rewritten "if path.starts_with(format!(\"std{}\", main_separator)) { return; }" => "if path.starts_with(format!(\"std{}\", main_separator)) { }" expect visit_expression
//@   mutant import_joined_to_the_wrong_base "return; } if path.is_relative() { def.path.fragment = self.base.join(path)" => "return; } if path.is_relative() { def.path.fragment = path.clone().join(self.base.clone())" expect visit_expression
//@   mutant joined_to_the_wrong_base "self.base.join(path).to_string_lossy().to_string().into(); } } if let Expression::Import(def)" => "path.clone().join(self.base.clone()).to_string_lossy().to_string().into(); } } if let Expression::Import(def)" expect visit_expression
//@ end

// ---------- the visitor: `trait Visitor`'s default methods, monomorphised to Rewriter (R7) ----------
// `impl Visitor for Rewriter` overrides visit_expression only; every other method Rewriter gets is the trait's
// default (a no-op). The trait block is extracted whole and turned into an inherent impl; the default
// visit_expression, which Rewriter does NOT use, is renamed out of the way. Each `ensures` is insert-only.
//@ extract src/ast/walk.rs :: trait Visitor
//@   subst "pub trait Visitor {" => "impl Rewriter {"
//@   subst "fn visit_expression(&mut self, _expr: &mut Expression)" => "fn visit_expression__trait_default_overridden_by_rewriter(&mut self, _expr: &mut Expression)"
//@   subst "fn visit_import(&mut self, _i: &mut ImportDef)" => "fn visit_import(&mut self, _i: &mut ImportDef) ensures *final(self) == *old(self), *final(_i) == *old(_i)"
//@   subst "fn leave_import(&mut self)" => "fn leave_import(&mut self) ensures *final(self) == *old(self)"
//@   subst "fn visit_include(&mut self, _i: &mut IncludeDef)" => "fn visit_include(&mut self, _i: &mut IncludeDef) ensures *final(self) == *old(self), *final(_i) == *old(_i)"
//@   subst "fn leave_include(&mut self)" => "fn leave_include(&mut self) ensures *final(self) == *old(self)"
//@   subst "fn visit_fail(&mut self, _f: &mut FailDef)" => "fn visit_fail(&mut self, _f: &mut FailDef) ensures *final(self) == *old(self), *final(_f) == *old(_f)"
//@   subst "fn leave_fail(&mut self)" => "fn leave_fail(&mut self) ensures *final(self) == *old(self)"
//@   subst "fn visit_value(&mut self, _val: &mut Value)" => "fn visit_value(&mut self, _val: &mut Value) ensures *final(self) == *old(self), *final(_val) == *old(_val)"
//@   subst "fn leave_value(&mut self, _val: &Value)" => "fn leave_value(&mut self, _val: &Value) ensures *final(self) == *old(self)"
//@   subst "fn leave_expression(&mut self, _expr: &Expression)" => "fn leave_expression(&mut self, _expr: &Expression) ensures *final(self) == *old(self)"
//@   subst "fn visit_statement(&mut self, _stmt: &mut Statement)" => "fn visit_statement(&mut self, _stmt: &mut Statement) ensures *final(self) == *old(self), *final(_stmt) == *old(_stmt)"
//@   subst "fn leave_statement(&mut self, _stmt: &Statement)" => "fn leave_statement(&mut self, _stmt: &Statement) ensures *final(self) == *old(self)"
//@ end

// ---------- the walker: `trait Walker`'s methods (all of them defaults; `impl<T: Visitor> Walker for T {}`),
// monomorphised to Rewriter (R7): the trait block is extracted whole and turned into an inherent impl. All contract
// text (ensures / decreases / loop invariants / fuel) is spliced by insert-only substitutions.
// Rewrites that are not insert-only (Verus' `for` takes no `&mut` tuple pattern and no `&mut Vec` as iterator):
//   `for (a, b, c) in X.iter_mut() {`  ->  `for fld in X.iter_mut() { let (a, b, c) = fld;`      (2 loops)
//   `for e in &mut vs.elems {`         ->  `for e in vs.elems.iter_mut() {`   (what `IntoIterator for &mut Vec` does)
//@ extract src/ast/walk.rs :: trait Walker
//@   subst "pub trait Walker: Visitor {" => "#[verifier::loop_isolation(false)] impl Rewriter {"
//@   mutant map_callback_not_walked "FuncOpDef::Map(def) => { self.walk_expression(def.func.as_mut());" => "FuncOpDef::Map(def) => {" expect walk_expression
//@   mutant reduce_callback_not_walked "FuncOpDef::Reduce(def) => { self.walk_expression(def.func.as_mut());" => "FuncOpDef::Reduce(def) => {" expect walk_expression
//@   mutant fail_message_not_walked "self.walk_expression(f.message.as_mut());" => "" expect walk_expression
//@   mutant module_out_expr_not_walked "if let Some(ref mut expr) = def.out_expr { self.walk_expression(expr.as_mut()); }" => "" expect walk_expression
//@   mutant field_constraint_not_walked "if let Some(constraint) = constraint { self.walk_expression(constraint); } self.walk_expression(expr);" => "self.walk_expression(expr);" expect walk_fieldset
//@   mutant let_constraint_not_walked "if let Some(ref mut constraint) = def.constraint { self.walk_expression(constraint); }" => "" expect walk_statement
//@   mutant range_end_not_walked "self.walk_expression(def.end.as_mut());" => "" expect walk_expression
//@   mutant node_visited_twice "self.visit_expression(expr); match expr {" => "self.visit_expression(expr); self.visit_expression(expr); match expr {" expect walk_expression
//@   mutant tuple_value_not_walked "Value::Tuple(fs) => self.walk_fieldset(&mut fs.val)," => "Value::Tuple(fs) => {}" expect walk_value
//@   subst <<<
fn walk_statement_list(&mut self, stmts: Vec<&mut Statement>) {
//@ ===
fn walk_statement_list(&mut self, stmts: Vec<&mut Statement>)
        ensures
            *final(self) == *old(self),
            forall|k: int| 0 <= k < stmts@.len() ==> rw_stmt(old(self).base@, *#[trigger] stmts@[k], *final(stmts@[k])),
    {
//@ >>>
//@   subst <<<
for v in stmts {
//@ ===
for v in it: stmts
            invariant
                *self == *old(self),
                it.seq() == stmts@,
                forall|k: int| 0 <= k < it.index@ ==> rw_stmt(old(self).base@, *#[trigger] it.seq()[k], *final(it.seq()[k])),
        {
//@ >>>
//@   subst <<<
fn walk_statement(&mut self, stmt: &mut Statement) {
//@ ===
fn walk_statement(&mut self, stmt: &mut Statement)
        ensures *final(self) == *old(self), rw_stmt(old(self).base@, *old(stmt), *final(stmt)),
        decreases *old(stmt), 1int
    {
        proof { reveal_with_fuel(rw_expr, 4); reveal_with_fuel(rw_opt_box, 4); reveal_with_fuel(rw_opt, 4); reveal_with_fuel(rw_list, 4); reveal_with_fuel(rw_field, 4); reveal_with_fuel(rw_fields, 4); reveal_with_fuel(rw_argdef, 4); reveal_with_fuel(rw_argdefs, 4); reveal_with_fuel(rw_format_args, 4); reveal_with_fuel(rw_funcop, 4); reveal_with_fuel(rw_arm, 4); reveal_with_fuel(rw_arms, 4); reveal_with_fuel(rw_value, 4); reveal_with_fuel(rw_stmt, 4); reveal_with_fuel(rw_stmts, 4); }
//@ >>>
//@   subst <<<
fn walk_fieldset(&mut self, fs: &mut FieldList) {
//@ ===
fn walk_fieldset(&mut self, fs: &mut FieldList)
        ensures *final(self) == *old(self), rw_fields(old(self).base@, *old(fs), *final(fs)),
        decreases *old(fs), 1int
    {
        proof { reveal_with_fuel(rw_expr, 4); reveal_with_fuel(rw_opt_box, 4); reveal_with_fuel(rw_opt, 4); reveal_with_fuel(rw_list, 4); reveal_with_fuel(rw_field, 4); reveal_with_fuel(rw_fields, 4); reveal_with_fuel(rw_argdef, 4); reveal_with_fuel(rw_argdefs, 4); reveal_with_fuel(rw_format_args, 4); reveal_with_fuel(rw_funcop, 4); reveal_with_fuel(rw_arm, 4); reveal_with_fuel(rw_arms, 4); reveal_with_fuel(rw_value, 4); reveal_with_fuel(rw_stmt, 4); reveal_with_fuel(rw_stmts, 4); }
//@ >>>
//@   subst <<<
for (_, constraint, expr) in fs.iter_mut() {
//@ ===
for fld in it: fs.iter_mut()
            invariant
                *self == *old(self),
                true,
                it.seq().len() == (*old(fs))@.len(),
                forall|k: int| 0 <= k < it.seq().len() ==> decreases_to!(*old(fs) => *#[trigger] it.seq()[k]),
                forall|k: int| 0 <= k < it.seq().len() ==> *it.seq()[k] == (*old(fs))@[k],
                forall|k: int| 0 <= k < it.index@ ==> rw_field(old(self).base@, #[trigger] (*old(fs))@[k], *final(it.seq()[k])),
        { let (_, constraint, expr) = fld;
//@ >>>
//@   subst <<<
fn walk_expression(&mut self, expr: &mut Expression) {
//@ ===
fn walk_expression(&mut self, expr: &mut Expression)
        ensures *final(self) == *old(self), rw_expr(old(self).base@, *old(expr), *final(expr)),
        decreases *old(expr), 1int
    {
        let ghost expr0 = *old(expr);
        proof { reveal_with_fuel(rw_expr, 4); reveal_with_fuel(rw_opt_box, 4); reveal_with_fuel(rw_opt, 4); reveal_with_fuel(rw_list, 4); reveal_with_fuel(rw_field, 4); reveal_with_fuel(rw_fields, 4); reveal_with_fuel(rw_argdef, 4); reveal_with_fuel(rw_argdefs, 4); reveal_with_fuel(rw_format_args, 4); reveal_with_fuel(rw_funcop, 4); reveal_with_fuel(rw_arm, 4); reveal_with_fuel(rw_arms, 4); reveal_with_fuel(rw_value, 4); reveal_with_fuel(rw_stmt, 4); reveal_with_fuel(rw_stmts, 4); }
//@ >>>
//@   subst <<<
for expr in def.arglist.iter_mut() {
//@ ===
for expr in it: def.arglist.iter_mut()
            invariant
                *self == *old(self),
                expr0 is Call,
                it.seq().len() == expr0->Call_0.arglist@.len(),
                forall|k: int| 0 <= k < it.seq().len() ==> decreases_to!(expr0 => *#[trigger] it.seq()[k]),
                forall|k: int| 0 <= k < it.seq().len() ==> *it.seq()[k] == expr0->Call_0.arglist@[k],
                forall|k: int| 0 <= k < it.index@ ==> rw_expr(old(self).base@, #[trigger] expr0->Call_0.arglist@[k], *final(it.seq()[k])),
        {
//@ >>>
//@   subst <<<
for expr in args.iter_mut() {
//@ ===
for expr in it: args.iter_mut()
            invariant
                *self == *old(self),
                expr0 is Format && expr0->Format_0.args is List,
                it.seq().len() == expr0->Format_0.args->List_0@.len(),
                forall|k: int| 0 <= k < it.seq().len() ==> decreases_to!(expr0 => *#[trigger] it.seq()[k]),
                forall|k: int| 0 <= k < it.seq().len() ==> *it.seq()[k] == expr0->Format_0.args->List_0@[k],
                forall|k: int| 0 <= k < it.index@ ==> rw_expr(old(self).base@, #[trigger] expr0->Format_0.args->List_0@[k], *final(it.seq()[k])),
        {
//@ >>>
//@   subst <<<
for (_, constraint) in def.argdefs.iter_mut() {
//@ ===
for ad in it: def.argdefs.iter_mut()
            invariant
                *self == *old(self),
                expr0 is Func,
                it.seq().len() == expr0->Func_0.argdefs@.len(),
                forall|k: int| 0 <= k < it.seq().len() ==> decreases_to!(expr0 => *#[trigger] it.seq()[k]),
                forall|k: int| 0 <= k < it.seq().len() ==> *it.seq()[k] == expr0->Func_0.argdefs@[k],
                forall|k: int| 0 <= k < it.index@ ==> rw_argdef(old(self).base@, #[trigger] expr0->Func_0.argdefs@[k], *final(it.seq()[k])),
        { let (_, constraint) = ad;
//@ >>>
//@   subst <<<
for stmt in def.statements.iter_mut() {
//@ ===
for stmt in it: def.statements.iter_mut()
            invariant
                *self == *old(self),
                expr0 is Module,
                it.seq().len() == expr0->Module_0.statements@.len(),
                forall|k: int| 0 <= k < it.seq().len() ==> decreases_to!(expr0 => *#[trigger] it.seq()[k]),
                forall|k: int| 0 <= k < it.seq().len() ==> *it.seq()[k] == expr0->Module_0.statements@[k],
                forall|k: int| 0 <= k < it.index@ ==> rw_stmt(old(self).base@, #[trigger] expr0->Module_0.statements@[k], *final(it.seq()[k])),
        {
//@ >>>
//@   subst <<<
for arm in def.arms.iter_mut() {
//@ ===
for arm in it: def.arms.iter_mut()
            invariant
                *self == *old(self),
                expr0 is Constraint,
                it.seq().len() == expr0->Constraint_0.arms@.len(),
                forall|k: int| 0 <= k < it.seq().len() ==> decreases_to!(expr0 => *#[trigger] it.seq()[k]),
                forall|k: int| 0 <= k < it.seq().len() ==> *it.seq()[k] == expr0->Constraint_0.arms@[k],
                forall|k: int| 0 <= k < it.index@ ==> rw_arm(old(self).base@, #[trigger] expr0->Constraint_0.arms@[k], *final(it.seq()[k])),
        {
//@ >>>
//@   subst <<<
fn walk_value(&mut self, val: &mut Value) {
//@ ===
fn walk_value(&mut self, val: &mut Value)
        ensures *final(self) == *old(self), rw_value(old(self).base@, *old(val), *final(val)),
        decreases *old(val), 1int
    {
        proof { reveal_with_fuel(rw_expr, 4); reveal_with_fuel(rw_opt_box, 4); reveal_with_fuel(rw_opt, 4); reveal_with_fuel(rw_list, 4); reveal_with_fuel(rw_field, 4); reveal_with_fuel(rw_fields, 4); reveal_with_fuel(rw_argdef, 4); reveal_with_fuel(rw_argdefs, 4); reveal_with_fuel(rw_format_args, 4); reveal_with_fuel(rw_funcop, 4); reveal_with_fuel(rw_arm, 4); reveal_with_fuel(rw_arms, 4); reveal_with_fuel(rw_value, 4); reveal_with_fuel(rw_stmt, 4); reveal_with_fuel(rw_stmts, 4); }
//@ >>>
//@   subst <<<
for e in &mut vs.elems {
//@ ===
for e in it: vs.elems.iter_mut()
            invariant
                *self == *old(self),
                *old(val) is List,
                it.seq().len() == (*old(val))->List_0.elems@.len(),
                forall|k: int| 0 <= k < it.seq().len() ==> decreases_to!(*old(val) => *#[trigger] it.seq()[k]),
                forall|k: int| 0 <= k < it.seq().len() ==> *it.seq()[k] == (*old(val))->List_0.elems@[k],
                forall|k: int| 0 <= k < it.index@ ==> rw_expr(old(self).base@, #[trigger] (*old(val))->List_0.elems@[k], *final(it.seq()[k])),
        {
//@ >>>
//@ end

// ---------- the property's clauses, read off the contract ----------
// "an absolute one is untouched": the node after the visit is the node before it
pub proof fn lemma_absolute_path_is_untouched(base: Seq<char>, a: Expression, b: Expression)
    requires
        visited(base, a, b),
        a matches Expression::Import(d) ==> !path_is_relative(import_norm(d.path.fragment@)),
        a matches Expression::Include(d) ==> !path_is_relative(d.path.fragment@),
    ensures b == a
{
}
// "a relative import path gets base.join(path)" (std/ library paths excepted)
pub proof fn lemma_relative_import_is_joined_to_base(base: Seq<char>, d: ImportDef, b: Expression)
    requires
        visited(base, Expression::Import(d), b),
        path_is_relative(import_norm(d.path.fragment@)),
        !path_starts_with(import_norm(d.path.fragment@), "std"@ + main_separator()),
    ensures
        b matches Expression::Import(d2) && d2.path.fragment@ == path_join(base, import_norm(d.path.fragment@))
            && d2.pos == d.pos && d2.path.pos == d.path.pos && d2.path.typ == d.path.typ,
{
}
// "wherever in that file the expression sits": the positions the property names, each as a consequence of rw_expr.
// ... functional-op callback: map(func (..) => import "p", xs)
pub proof fn lemma_import_in_map_callback(base: Seq<char>, a: Expression, b: Expression, m: MapFilterOpDef, f: FuncDef, i: ImportDef)
    requires
        a == Expression::FuncOp(FuncOpDef::Map(m)), *m.func == Expression::Func(f), *f.fields == Expression::Import(i),
        rw_expr(base, a, b),
    ensures
        b matches Expression::FuncOp(FuncOpDef::Map(m2)) && (*m2.func matches Expression::Func(f2)
            && (*f2.fields matches Expression::Import(i2) && tok_rw(i.path, i2.path, import_target(base, i.path.fragment@)))),
{
    reveal_with_fuel(rw_expr, 4); reveal_with_fuel(rw_funcop, 4);
}
// ... fail message: fail import "p"
pub proof fn lemma_import_in_fail_message(base: Seq<char>, a: Expression, b: Expression, f: FailDef, i: ImportDef)
    requires
        a == Expression::Fail(f), *f.message == Expression::Import(i), rw_expr(base, a, b),
    ensures
        b matches Expression::Fail(f2) && (*f2.message matches Expression::Import(i2)
            && tok_rw(i.path, i2.path, import_target(base, i.path.fragment@))),
{
    reveal_with_fuel(rw_expr, 4);
}
// ... module out-expression: module {..} => (import "p") {..}
pub proof fn lemma_import_in_module_out_expr(base: Seq<char>, a: Expression, b: Expression, m: ModuleDef, o: Box<Expression>, i: ImportDef)
    requires
        a == Expression::Module(m), m.out_expr == Some(o), *o == Expression::Import(i), rw_expr(base, a, b),
    ensures
        b matches Expression::Module(m2) && (m2.out_expr matches Some(o2) && (*o2 matches Expression::Import(i2)
            && tok_rw(i.path, i2.path, import_target(base, i.path.fragment@)))),
{
    reveal_with_fuel(rw_expr, 4); reveal_with_fuel(rw_opt_box, 4);
}
// ... function body: func (..) => import "p"
pub proof fn lemma_import_in_function_body(base: Seq<char>, a: Expression, b: Expression, f: FuncDef, i: ImportDef)
    requires
        a == Expression::Func(f), *f.fields == Expression::Import(i), rw_expr(base, a, b),
    ensures
        b matches Expression::Func(f2) && (*f2.fields matches Expression::Import(i2)
            && tok_rw(i.path, i2.path, import_target(base, i.path.fragment@))),
{
    reveal_with_fuel(rw_expr, 4);
}
// ... the constraint of a let: let x :: include json "p" = ..;
pub proof fn lemma_include_in_let_constraint(base: Seq<char>, a: Statement, b: Statement, l: Box<LetDef>, i: IncludeDef)
    requires
        a == Statement::Let(l), l.constraint == Some(Expression::Include(i)), rw_stmt(base, a, b),
    ensures
        b matches Statement::Let(l2) && (l2.constraint matches Some(Expression::Include(i2))
            && tok_rw(i.path, i2.path, include_target(base, i.path.fragment@))),
{
    reveal_with_fuel(rw_stmt, 4); reveal_with_fuel(rw_opt, 4); reveal_with_fuel(rw_expr, 4);
}

} // verus!

fn main() {}
