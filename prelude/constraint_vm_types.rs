// ---- prelude/constraint_vm_types.rs: value types of the opcode VM for unit constraint_vm ----
// Same text as prelude/vm_values.rs, except that ConstraintVal is NOT opaque here: the constraint opcodes
// build and inspect it, so the real type (prelude/constraint_rt_ir.rs) must be the payload of `Value::K`.
//@ opaque Position VPathBuf Stack OpPointer Builtins Func Module ReservedWords
//@ clone_spec Position

// opcode::Error is only constructed and propagated by the extracted handlers (R5); message text dropped (R1).
#[verifier::external_body]
pub struct Error { _p: u8 }
impl Error {
    #[verifier::external_body]
    pub fn new(msg: String, pos: Position) -> Self { unimplemented!() }
}

//@ extract src/build/opcode/mod.rs :: enum Primitive
//@   rule R0
//@ end
//@ extract src/build/opcode/mod.rs :: enum Composite
//@   rule R0
//@ end
//@ extract src/build/opcode/mod.rs :: enum Value
//@   rule R0
//@ end
//@ extract src/build/opcode/mod.rs :: enum ConstraintArmType
//@   rule R0
//@ end
use Primitive::{Bool, Empty, Float, Int, Str};
use Composite::{List, Tuple};
use Value::{C, F, K, M, P, S, T};

// R0: derived Clone assumed structural; Rc::clone is pointer copy.
impl Clone for Value {
    #[verifier::external_body]
    fn clone(&self) -> (r: Self)
        ensures r == *self
    { unimplemented!() }
}
impl Clone for ConstraintVal {
    #[verifier::external_body]
    fn clone(&self) -> (r: Self)
        ensures r == *self
    { unimplemented!() }
}

// std: `[T]::reverse` reverses in place (reached from `Vec::reverse` by deref).
pub assume_specification<T> [<[T]>::reverse] (s: &mut [T])
    ensures final(s)@ == old(s)@.reverse();
