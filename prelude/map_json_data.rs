// ---- prelude/map_json_data.rs: what the three data-format mapping units (map_json, map_toml, map_yaml; C03)
// share (inside verus!) ----
// needs: `use std::rc::Rc;` before verus!, prelude/core.rs

// Val: extracted verbatim; its Constraint payload is only moved around (R5).
//@ opaque ConstraintVal
//@ extract src/build/ir.rs :: enum Val
//@   rule R0
//@ end

// ---------- std models ----------
// ASSUMPTION (std): `impl Display for Rc<T>` delegates to T and `Display for str` writes the text itself, so
// `<Rc<str> as ToString>::to_string()` yields a String with the same characters.  (vstd already states this
// for `str`; `to_string_from_display_ensures` is vstd's hook for the blanket `impl<T: Display> ToString for T`.)
pub mod map_std_axioms {
    use vstd::prelude::*;
    use std::rc::Rc;
    #[verifier::external_body]
    pub broadcast proof fn axiom_rcstr_to_string(t: &Rc<str>, s: String)
        ensures #[trigger] vstd::string::to_string_from_display_ensures::<Rc<str>>(t, s) <==> s@ == t@
    { }
}
broadcast use map_std_axioms::axiom_rcstr_to_string;

// std::io::Error / ErrorKind stay the real types; they are only constructed and propagated (R5).
#[verifier::external_type_specification]
#[verifier::external_body]
pub struct ExIoError(std::io::Error);

#[verifier::external_type_specification]
pub struct ExIoErrorKind(std::io::ErrorKind);

// `std::io::Error::new(kind, payload)`: Verus cannot state its bound (`Into<Box<dyn Error + Send + Sync>>`),
// so the call sites are redirected here.  Nothing is assumed about the error value.
#[verifier::external_body]
pub fn verif_io_error<E>(kind: std::io::ErrorKind, payload: E) -> std::io::Error
{ unimplemented!() }

// `f64::is_finite` (neither infinite nor NaN).  Uninterpreted: the contracts only need that the converter
// and the oracle ask the same question about the same float.
pub uninterp spec fn f64_is_finite(f: f64) -> bool;

// ---------- the oracle: an abstract data tree ----------
// What an independent decoder of the output is expected to see.  `Int` and `Float` are DIFFERENT nodes: an
// integer must arrive as that integer, not as the nearest double.
// Obj is a finite map: the property asks for "the same key set" and says nothing about key order.  For JSON
// and TOML this loses nothing: serde_json (built without `preserve_order`: Cargo.lock lists no indexmap
// dependency for it) and toml 0.5 keep objects/tables in a BTreeMap, so the emitted key order is a function of
// the key set.  serde_yaml keeps insertion order; map_yaml states it in addition to this tree.
pub enum D {
    Null,
    Bool(bool),
    Int(i64),
    Float(f64),
    Str(Seq<char>),
    List(Seq<D>),
    Obj(Map<Seq<char>, D>),
    // a node of a target format that no ucg value denotes (TOML datetime, YAML tagged value, YAML number that
    // is neither an i64 nor an f64); data() never yields it, so a converter that produced one is rejected
    Other,
}

pub enum Fmt { Json, Yaml, Toml }

// Folding (key, value) entries into an object, in field order.
// first-wins: a later entry with a key that is already present is IGNORED  (`entry(k).or_insert(v)`: JSON, TOML)
// last-wins:  a later entry REPLACES the value of a key that is already present (`insert(k, v)`: YAML)
pub open spec fn obj_fold(first_wins: bool, s: Seq<(Seq<char>, D)>) -> Map<Seq<char>, D>
    decreases s.len()
{
    if s.len() == 0 {
        Map::<Seq<char>, D>::empty()
    } else {
        let m = obj_fold(first_wins, s.drop_last());
        if first_wins && m.dom().contains(s.last().0) { m } else { m.insert(s.last().0, s.last().1) }
    }
}

// What the fold means, independently of how it is computed:
//  * the key set of the object is exactly the set of field names ("same key set"), and
//  * a key carries the value of the FIRST (first-wins) / LAST (last-wins) field of that name; in particular a
//    field whose name occurs once carries exactly its own value.
pub proof fn lemma_obj_fold(first_wins: bool, s: Seq<(Seq<char>, D)>)
    ensures
        forall|k: Seq<char>| #[trigger] obj_fold(first_wins, s).dom().contains(k) <==> exists|i: int| 0 <= i < s.len() && #[trigger] s[i].0 == k,
        forall|i: int| 0 <= i < s.len() && first_wins && (forall|j: int| 0 <= j < i ==> #[trigger] s[j].0 != s[i].0)
            ==> obj_fold(first_wins, s)[#[trigger] s[i].0] == s[i].1,
        forall|i: int| 0 <= i < s.len() && !first_wins && (forall|j: int| i < j < s.len() ==> #[trigger] s[j].0 != s[i].0)
            ==> obj_fold(first_wins, s)[#[trigger] s[i].0] == s[i].1,
    decreases s.len()
{
    if s.len() > 0 {
        let p = s.drop_last();
        lemma_obj_fold(first_wins, p);
        let m = obj_fold(first_wins, p);
        let r = obj_fold(first_wins, s);
        assert forall|k: Seq<char>| #[trigger] r.dom().contains(k) <==> exists|i: int| 0 <= i < s.len() && #[trigger] s[i].0 == k by {
            if r.dom().contains(k) {
                if m.dom().contains(k) {
                    let i = choose|i: int| 0 <= i < p.len() && #[trigger] p[i].0 == k;
                    assert(s[i].0 == k);
                } else {
                    assert(s[s.len() - 1].0 == k);
                }
            }
            if exists|i: int| 0 <= i < s.len() && #[trigger] s[i].0 == k {
                let i = choose|i: int| 0 <= i < s.len() && #[trigger] s[i].0 == k;
                if i < p.len() {
                    assert(p[i].0 == k);
                }
            }
        }
        assert forall|i: int| 0 <= i < s.len() && first_wins && (forall|j: int| 0 <= j < i ==> #[trigger] s[j].0 != s[i].0)
            implies r[#[trigger] s[i].0] == s[i].1 by {
            if i < p.len() {
                assert(p[i] == s[i]);
                assert forall|j: int| 0 <= j < i implies #[trigger] p[j].0 != p[i].0 by { assert(s[j].0 != s[i].0); }
                assert(m.dom().contains(p[i].0));
                if !m.dom().contains(s.last().0) {
                    assert(s.last().0 != s[i].0);
                }
            } else {
                if m.dom().contains(s.last().0) {
                    let j = choose|j: int| 0 <= j < p.len() && #[trigger] p[j].0 == s.last().0;
                    assert(s[j].0 == s[i].0);
                }
            }
        }
        assert forall|i: int| 0 <= i < s.len() && !first_wins && (forall|j: int| i < j < s.len() ==> #[trigger] s[j].0 != s[i].0)
            implies r[#[trigger] s[i].0] == s[i].1 by {
            if i < p.len() {
                assert(p[i] == s[i]);
                assert(s[s.len() - 1].0 != s[i].0);
                assert forall|j: int| i < j < p.len() implies #[trigger] p[j].0 != p[i].0 by { assert(s[j].0 != s[i].0); }
            }
        }
    }
}

// ---------- data(fmt, v): the tree the value must decode to, or None = "the conversion must report an error" ----------
// Representable scalars, per format (C03: "a value the target format cannot represent (NULL in TOML, a
// non-finite float, a constraint value) is reported as an error"):
//  * NULL: JSON `null`, YAML `null`; TOML has no null -> error.
//  * floats: JSON has no notation for infinities / NaN -> error.  TOML (v0.5 `inf`, `nan`) and YAML (`.inf`,
//    `.nan`) DO have one; there the float is passed on unchanged (observed on the real binary:
//    `x = inf`, `n = -nan` / `x: .inf`, `n: .nan`).
//  * constraint values: never representable -> error.
pub open spec fn float_ok(fmt: Fmt, f: f64) -> bool {
    fmt is Json ==> f64_is_finite(f)
}

// The float a decoder sees.  JSON, TOML: the float itself.  YAML: "YAML only has one NaN" - serde_yaml's
// `Number::from(f64)` replaces every NaN (any sign, payload) by one canonical NaN; every other float is itself.
pub uninterp spec fn f64_is_nan(f: f64) -> bool;
pub uninterp spec fn f64_canonical_nan() -> f64;
pub open spec fn float_node(fmt: Fmt, f: f64) -> f64 {
    if fmt is Yaml && f64_is_nan(f) { f64_canonical_nan() } else { f }
}

pub open spec fn null_ok(fmt: Fmt) -> bool {
    !(fmt is Toml)
}

// duplicate field names: JSON and TOML keep the first field of a name, YAML the last (see obj_fold)
pub open spec fn first_wins(fmt: Fmt) -> bool {
    !(fmt is Yaml)
}

pub open spec fn data(fmt: Fmt, v: Val) -> Option<D>
    decreases v, 0int
{
    match v {
        Val::Empty => if null_ok(fmt) { Some(D::Null) } else { None },
        Val::Boolean(b) => Some(D::Bool(b)),
        Val::Int(i) => Some(D::Int(i)),
        Val::Float(f) => if float_ok(fmt, f) { Some(D::Float(float_node(fmt, f))) } else { None },
        Val::Str(s) => Some(D::Str(s@)),
        Val::List(l) => list_data(fmt, l@),
        Val::Tuple(t) => tuple_data(fmt, t@),
        Val::Env(e) => env_data(fmt, e@),
        Val::Constraint(_) => None,
    }
}

// a list: same length, same order, element-wise; an element that cannot be represented makes the whole
// conversion an error (it is never dropped)
pub open spec fn list_data(fmt: Fmt, items: Seq<Rc<Val>>) -> Option<D>
    decreases items, 2int
{
    if forall|i: int| 0 <= i < items.len() ==> data(fmt, *(#[trigger] items[i])) is Some {
        Some(D::List(list_entries(fmt, items, items.len() as int)))
    } else {
        None
    }
}

// the trees of the first n elements
pub open spec fn list_entries(fmt: Fmt, items: Seq<Rc<Val>>, n: int) -> Seq<D>
    decreases items, 1int
{
    Seq::new(n as nat, |i: int| if 0 <= i < items.len() { data(fmt, *items[i])->Some_0 } else { D::Null })
}

// a tuple: its fields folded into an object in field order; a field that cannot be represented makes the
// whole conversion an error (it is never dropped)
pub open spec fn tuple_data(fmt: Fmt, t: Seq<(Rc<str>, Rc<Val>)>) -> Option<D>
    decreases t, 2int
{
    if forall|i: int| 0 <= i < t.len() ==> data(fmt, *(#[trigger] t[i]).1) is Some {
        Some(D::Obj(obj_fold(first_wins(fmt), tuple_entries(fmt, t, t.len() as int))))
    } else {
        None
    }
}

// the (name, tree) entries of the first n fields
pub open spec fn tuple_entries(fmt: Fmt, t: Seq<(Rc<str>, Rc<Val>)>, n: int) -> Seq<(Seq<char>, D)>
    decreases t, 1int
{
    Seq::new(n as nat, |i: int| if 0 <= i < t.len() { (t[i].0@, data(fmt, *t[i].1)->Some_0) } else { (Seq::<char>::empty(), D::Null) })
}

// the process environment: an object name -> string value
pub open spec fn env_data(fmt: Fmt, e: Seq<(Rc<str>, Rc<str>)>) -> Option<D> {
    Some(D::Obj(obj_fold(first_wins(fmt), env_entries(e, e.len() as int))))
}

pub open spec fn env_entries(e: Seq<(Rc<str>, Rc<str>)>, n: int) -> Seq<(Seq<char>, D)> {
    Seq::new(n as nat, |i: int| (e[i].0@, D::Str(e[i].1@)))
}
