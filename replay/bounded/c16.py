"""C16 bounded stand-ins: the real `ucg build`, one invocation for several files against one fresh process per file.

Oracle (property statement; reference/statements.md "Out Statements" for where an artifact goes, `ucg help build` for the shapes of an
invocation).  For a generated project directory
  (1) every file is built ALONE (`ucg build <file>` in a fresh process, all artifacts removed before): exit status, the lines the CLI
      prints for it (stdout and stderr merged in the order written, absolute paths of the temporary directory normalised, `.` / `..`
      path segments resolved) and the bytes of every file that exists afterwards and is not a source;
  (2) the same files are built in ONE invocation, in many shapes (orders, subsets, repetitions, other spellings of the paths, directory
      mode, `-r`, the same invocation twice in a row with the artifacts of the first run left in place).  The CLI prints `Building <file>`
      before each file: the lines up to the next `Building` are that file's lines.
  Demanded of every invocation:
    * the files it builds are the files it was given (directory arguments: the *.ucg files of that directory, with -r of its subtree);
    * each file's lines are exactly the lines it printed when built alone (diagnostic text, the file and line/column it points at, TRACE
      output) - so a file fails in the batch iff it fails alone, and with the same diagnostic;
    * the exit status is non-zero iff some file of the invocation fails alone;
    * the artifacts on disk afterwards are exactly the union of the artifacts the files leave when built alone, byte for byte
      (a failing file does not stop the files after it: they produce what they produce alone);
    * nothing is printed before the first `Building` that a build alone does not print.
Bounded: exactly the generated projects and invocation shapes named in `bound`.  `ucg test` batches are C13's business."""
import concurrent.futures
import itertools
import os
import random
import re
import shutil
import subprocess
import tempfile

import realcode as R

WORKERS = 8
SET_VAR, SET_VAL, UNSET_VAR = 'VERIF_C16_SET', 'value of the set variable', 'VERIF_C16_NOT_SET'
EXT = {'json': 'json', 'yaml': 'yaml', 'toml': 'toml', 'env': 'env', 'flags': 'txt'}

# ------------------------------------------------------------------------------------------------------------------------ KNOWN
# Behaviour of the real code on the pinned HEAD that breaks a clause of the statement (checked by hand).  Each entry switches ONE
# tolerance below (look for known('<id>')); deleting an entry re-arms the strict oracle for it.
KNOWN = [
]


def known(kid):
    return any(k['id'] == kid for k in KNOWN)


# ------------------------------------------------------------------------------------------------------------------------ projects
class Project(object):
    """files: ordered {relative path: source}; data: {relative path: text} of non-ucg inputs (include targets)."""

    def __init__(self, name, files, data=None):
        self.name = name
        self.files = dict(files)
        self.data = dict(data or {})
        self.order = list(files)
        # direct project imports of each file, from the generated source text (the generator's own knowledge of its sources)
        self.imports = {}
        for f, src in self.files.items():
            s = set()
            for m in re.finditer(r'import\s+"([^"]+)"', src):
                if m.group(1).startswith('std/'):
                    continue
                t = os.path.normpath(os.path.join(os.path.dirname(f), m.group(1)))
                if t in self.files:
                    s.add(t)
            self.imports[f] = s

    def closure(self, f):
        """files reachable from f through imports (f itself only when it is on a cycle, which is never generated)"""
        seen, todo = set(), list(self.imports.get(f, ()))
        while todo:
            g = todo.pop()
            if g not in seen:
                seen.add(g)
                todo.extend(self.imports.get(g, ()))
        return seen

    def write(self, root):
        for f, src in list(self.files.items()) + list(self.data.items()):
            p = os.path.join(root, f)
            os.makedirs(os.path.dirname(p), exist_ok=True)
            with open(p, 'w') as fh:
                fh.write(src)

    def describe(self):
        return {f: self.files[f] for f in self.order}


def base_env():
    env = {k: v for k, v in os.environ.items() if not k.startswith('VERIF_C16')}
    env[SET_VAR] = SET_VAL
    return env


class Sandbox(object):
    """One private copy of a project; every invocation of one Sandbox runs sequentially."""

    def __init__(self, proj):
        self.proj = proj
        self.root = os.path.realpath(tempfile.mkdtemp(prefix='verif_c16_'))
        proj.write(self.root)
        self.sources = set(proj.files) | set(proj.data)
        self.env = base_env()
        self.runs = 0

    def close(self):
        shutil.rmtree(self.root, ignore_errors=True)

    def artifacts(self):
        res = {}
        for d, _, fs in os.walk(self.root):
            for f in fs:
                rel = os.path.relpath(os.path.join(d, f), self.root)
                if rel not in self.sources:
                    with open(os.path.join(d, f), 'rb') as fh:
                        res[rel] = fh.read()
        return res

    def clean(self):
        for rel in self.artifacts():
            os.remove(os.path.join(self.root, rel))

    def norm_line(self, ln):
        def fix(m):
            rel = os.path.relpath(os.path.normpath(m.group(0)), self.root)
            return '<P>' if rel == '.' else '<P>/' + rel
        return re.sub(re.escape(self.root) + r'[A-Za-z0-9_./-]*', fix, ln)

    def rel(self, printed):
        """project-relative name of a file as the CLI prints it after `Building `"""
        return os.path.relpath(os.path.normpath(os.path.join(self.root, printed)), self.root)

    def run(self, args):
        """-> (rc, preamble lines, [(file, [lines])], raw output)"""
        self.runs += 1
        p = subprocess.run([R.ucg_binary(), 'build'] + args, cwd=self.root, env=self.env, stdout=subprocess.PIPE, stderr=subprocess.STDOUT,
                           stdin=subprocess.DEVNULL, timeout=120)
        out = p.stdout.decode('utf-8', 'replace')
        pre, segs = [], []
        for ln in out.splitlines():
            if ln.startswith('Building '):
                segs.append((self.rel(ln[len('Building '):].strip()), []))
            elif segs:
                segs[-1][1].append(self.norm_line(ln))
            else:
                pre.append(self.norm_line(ln))
        return p.returncode, pre, segs, out

    def expand(self, args):
        """the files an invocation is asked to build (set of project-relative names)"""
        rec = '-r' in args
        paths = [a for a in args if a != '-r'] or ['.']
        res = set()
        for a in paths:
            full = os.path.normpath(os.path.join(self.root, a))
            if os.path.isdir(full):
                for d, _, fs in os.walk(full):
                    if not rec and d != full:
                        continue
                    for f in fs:
                        if f.endswith('.ucg'):
                            res.add(os.path.relpath(os.path.join(d, f), self.root))
            else:
                res.add(os.path.relpath(full, self.root))
        return res


class Mismatch(Exception):
    def __init__(self, what, expected, observed):
        Exception.__init__(self, what)
        self.what, self.expected, self.observed = what, expected, observed


def build_alone(sb):
    alone = {}
    for f in sb.proj.order:
        sb.clean()
        rc, pre, segs, out = sb.run([f])
        if len(segs) != 1 or segs[0][0] != f:
            raise Mismatch('`ucg build %s` alone does not announce exactly `Building %s`' % (f, f), 'Building ' + f, out[-600:])
        alone[f] = dict(rc=rc, pre=pre, lines=segs[0][1], arts=sb.artifacts(), raw=out)
    sb.clean()
    return alone


def optional_line(proj, ln, cur, earlier):
    """KNOWN tolerances: a line of file `cur`'s alone output that may be missing in a batch after the files `earlier`."""
    return False


def check_invocation(sb, alone, args, keep_artifacts=False):
    """Run one invocation and compare with the alone builds; raises Mismatch."""
    proj = sb.proj
    if not keep_artifacts:
        sb.clean()
    want = sb.expand(args)
    rc, pre, segs, out = sb.run(args)
    cmd = 'ucg build ' + ' '.join(args)
    unknown = [f for f in want if f not in alone]
    if unknown:
        raise RuntimeError('harness: %s expands to files without an alone build: %s' % (cmd, unknown))
    built = set(f for f, _ in segs)
    if built != want:
        raise Mismatch('`%s` builds %s, it was asked to build %s' % (cmd, sorted(built), sorted(want)), sorted(want), out[-1200:])
    any_pre = alone[sorted(want)[0]]['pre'] if want else []
    if pre != any_pre:
        raise Mismatch('`%s` prints before the first file: %r (a build alone prints %r there)' % (cmd, pre[:3], any_pre[:3]), any_pre, out[-1200:])
    earlier = []
    for f, lines in segs:
        exp = alone[f]['lines']
        e2 = [ln for ln in exp if not optional_line(proj, ln, f, earlier)]
        o2 = [ln for ln in lines if not optional_line(proj, ln, f, earlier)]
        if e2 != o2:
            raise Mismatch('`%s`: %s (position %d of the invocation) prints %r, built alone it prints %r' % (cmd, f, len(earlier) + 1, lines[:4], exp[:4]),
                           dict(file=f, alone_rc=alone[f]['rc'], alone_output=exp), dict(output_of_this_file=lines, whole_output=out[-1500:]))
        earlier.append(f)
    want_fail = any(alone[f]['rc'] != 0 for f in want)
    if (rc != 0) != want_fail:
        raise Mismatch('`%s` exits with %d; alone, the files that fail are %s' % (cmd, rc, [f for f in sorted(want) if alone[f]['rc'] != 0] or 'none'),
                       'exit status %s' % ('!= 0' if want_fail else '0'), 'exit status %d\n%s' % (rc, out[-1200:]))
    exp_arts = {}
    for f in sorted(want):
        for a, b in alone[f]['arts'].items():
            exp_arts.setdefault(a, set()).add(b)
    arts = sb.artifacts()
    if set(arts) != set(exp_arts):
        raise Mismatch('`%s` leaves the artifacts %s; the builds alone leave %s' % (cmd, sorted(arts), sorted(exp_arts)), sorted(exp_arts), dict(artifacts=sorted(arts), output=out[-1200:]))
    for a in sorted(arts):
        if arts[a] not in exp_arts[a]:
            raise Mismatch('`%s`: artifact %s has other bytes than after the build alone' % (cmd, a),
                           dict(artifact=a, bytes=sorted(repr(x) for x in exp_arts[a])), dict(artifact=a, bytes=repr(arts[a]), output=out[-800:]))


def run_project(proj, configs):
    """configs: list of (args, twice).  -> (number of invocations, None | violation dict)"""
    sb = Sandbox(proj)
    try:
        cur = None
        try:
            alone = build_alone(sb)
            for args, twice in configs:
                cur = (args, 1)
                check_invocation(sb, alone, args)
                if twice:
                    cur = (args, 2)
                    check_invocation(sb, alone, args, keep_artifacts=True)
        except Mismatch as m:
            how = 'files written to an empty directory; environment: %s=%r, %s not set; ' % (SET_VAR, SET_VAL, UNSET_VAR)
            if cur is None:
                how += 'each file built alone'
            else:
                how += 'every file first built alone with `ucg build <file>` (fresh process, artifacts removed), then `ucg build %s`%s' % (
                    ' '.join(cur[0]), ' run a second time with the artifacts of its first run left in place' if cur[1] == 2 else ' on a directory without artifacts')
            return sb.runs, dict(project=proj.name, detail='project %s: %s' % (proj.name, m.what),
                                 input=dict(source=proj.describe(), data=proj.data, expected=m.expected, observed=m.observed, how=how))
        return sb.runs, None
    finally:
        sb.close()
