// ---- prelude/printer_indent_macros.rs: R2 for the printer - std's `write!` / `writeln!`, OUTSIDE verus! ----
// TRUSTED MODEL of `write!(w, FMT, args..)` / `writeln!(..)` (std: `w.write_fmt(format_args!(FMT, args..))`):
//   * every argument expression is evaluated exactly once, by reference, left to right (so a panic INSIDE an argument
//     expression - `self.make_indent()`, `Self::escape_quotes(..)` - is still an obligation of the calling function);
//   * the writer is then handed to `verif_write`: it may change arbitrarily and the result is ANY io::Result
//     (the written text is dropped: the printer_indent contract is about panics and the printer's own state).
// Assumed: the `Display` impls of the arguments (Rc<str>, String, &str, i64, f64, usize, PositionedItem<Rc<str>>,
// CastType) do not panic.
macro_rules! write {
    (&mut $w:expr, $fmt:literal $(, $arg:expr)* $(,)?) => { { $( let _ = &$arg; )* verif_write(&mut $w) } };
    ($w:expr, $fmt:literal $(, $arg:expr)* $(,)?) => { { $( let _ = &$arg; )* verif_write(&mut $w) } };
}
macro_rules! writeln {
    ($w:expr $(,)?) => { verif_write(&mut $w) };
    (&mut $w:expr, $fmt:literal $(, $arg:expr)* $(,)?) => { { $( let _ = &$arg; )* verif_write(&mut $w) } };
    ($w:expr, $fmt:literal $(, $arg:expr)* $(,)?) => { { $( let _ = &$arg; )* verif_write(&mut $w) } };
}
