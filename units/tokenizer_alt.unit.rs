//@ unit tokenizer_alt
//@ serves C11 C04
//@ must_verify StrIter::new StrIter::next StrIter::clone StrIter::get_offset StrIter::line StrIter::column OffsetStrIter::new_with_offsets OffsetStrIter::new OffsetStrIter::next OffsetStrIter::clone OffsetStrIter::get_offset OffsetStrIter::line OffsetStrIter::column Position::from Token::new Token::new_with_pos ascii_ws ascii_alpha ascii_digit eoi optional not trap complete OffsetStrIter::span commatok lbracetok rbracetok lparentok rparentok dotdottok dottok plustok dashtok startok slashtok modulustok pcttok eqeqtok notequaltok matchtok notmatchtok gttok gtequaltok ltequaltok lttok equaltok semicolontok doublecolontok colontok leftsquarebracket rightsquarebracket fatcommatok andtok ortok pipetok selecttok intok istok nottok tracetok failtok functok moduletok lettok importtok includetok asserttok outtok constrainttok converttok astok maptok filtertok reducetok is_symbol_char barewordtok digittok emptytok booleantok end_of_input escapequoted strtok token token__layout token__longest lemma_line_start_bounds lemma_step_positioned lemma_positioned_bounds lemma_boundary_step lemma_ascii_steps lemma_suffix_valid lemma_boundary_is_char_boundary lemma_ascii_on_boundary lemma_ascii_text lemma_fixed_text lemma_starts_1 lemma_starts_2 lemma_starts_first lemma_ws_dep_set lemma_ws_end_bounds lemma_ws_run_is_ascii lemma_cmt_lits lemma_cmt_end_bounds lemma_cmt_stop lemma_cmt_end_least lemma_until_span lemma_sep lemma_run_end_bounds lemma_consume_step lemma_consume_span lemma_true_false_lits lemma_bool_lits lemma_first_bytes_1 lemma_first_bytes_2 lemma_first_bytes_3 lemma_first_bytes_4 lemma_first_bytes_5 lemma_first_bytes_6 lemma_first_bytes_7 lemma_first_bytes_8 lemma_first_bytes lemma_ws_first lemma_subrange_starts
//@ include prelude/head.rs
use vstd::utf8::*;
use std::rc::Rc;
use std::ops::Index;

// C11, second part: every other recogniser of src/tokenizer/mod.rs and the ORDERED alternation `token`.
//   operators / punctuation (do_text_token_tok!)   succeed iff the input starts with their text; the token is that text
//   keywords (its WS variant)                      ... and a separator (whitespace or a comment) follows, which is consumed
//   digittok / barewordtok                         the maximal run of digits / a letter then symbol characters
//   emptytok / booleantok                          NULL / true / false as whole words
//   strtok                                         shape only (opening to closing quote); the VALUE is units/lit_roundtrip
//   token                                          every token has its exact text, extent and TRUE position and makes
//                                                  progress; whitespace, comments, end of input are recognised wherever
//                                                  they start; the longest-operator rule (== => >= <= .. :: && || %% != !~)
// Extraction as in units/tokenizer.unit.rs.

//@ include prelude/tokenizer_macros.rs
//@ extract src/tokenizer/mod.rs :: macro do_text_token_tok
//@   rule R0
//@ end

verus! {
//@ include prelude/core.rs
//@ include prelude/stepper_iter.rs
//@ include prelude/tokenizer_spec.rs

// `whitespace` and `comment`: proved in units/tokenizer.unit.rs against these very contracts (shared spec functions);
// here they are callees (of the keyword recognisers and of `token`).
//@ extract src/tokenizer/mod.rs :: make_fn whitespace
//@   opaque_body
//@   ret r
//@   sig <<<
    requires wf_osi(i)
    ensures whitespace_tok(i, r)
//@   >>>
//@ end
//@ extract src/tokenizer/mod.rs :: fn comment
//@   opaque_body
//@   ret r
//@   sig <<<
    requires wf_osi(input)
    ensures comment_tok(input, r)
//@   >>>
//@ end

// =====================================================================================================
// fixed-text recognisers: operators, punctuation (do_text_token_tok!) and keywords (its WS variant)
// =====================================================================================================
// succeeds iff the input starts with the text; the token is that text, at the true position; nothing else is consumed
pub open spec fn fixed_tok<'a>(i: OffsetStrIter<'a>, r: Result<OffsetStrIter<'a>, Token>, text: &str, typ: TokenType) -> bool {
    let bs = bytes_of(i); let o = off_of(i); let n = lit(text).len();
    if starts_with_at(bs, o, lit(text)) {
        r matches Result::Complete(rest, tok) && off_of(rest) == o + n && n > 0
        && tok.typ == typ && tok.fragment@ == text@ && token_shape(i, rest, tok)
    } else {
        r is Fail
    }
}
// a keyword must be followed by a separator: whitespace or a comment, which the recogniser consumes as well
pub open spec fn sep_at(bs: Seq<u8>, k: int) -> bool { ws_end(bs, k) != k || starts_comment(bs, k) }
pub open spec fn sep_end(bs: Seq<u8>, k: int) -> int {
    if ws_end(bs, k) != k { ws_end(bs, k) } else { cmt_next(bs, cmt_end(bs, k + 2)) }
}
pub open spec fn keyword_tok<'a>(i: OffsetStrIter<'a>, r: Result<OffsetStrIter<'a>, Token>, text: &str) -> bool {
    let bs = bytes_of(i); let o = off_of(i); let n = lit(text).len();
    if starts_with_at(bs, o, lit(text)) && sep_at(bs, o + n) {
        r matches Result::Complete(rest, tok) && off_of(rest) == sep_end(bs, o + n) && sep_end(bs, o + n) > o + n && n > 0
        && tok.typ is BAREWORD && tok.fragment@ == text@ && token_shape(i, rest, tok)
    } else {
        r is Fail
    }
}
pub proof fn lemma_sep(bs: Seq<u8>, k: int)
    requires 0 <= k <= bs.len()
    ensures sep_at(bs, k) ==> k < sep_end(bs, k) <= bs.len()
{
    lemma_ws_end_bounds(bs, k);
    if starts_comment(bs, k) { lemma_cmt_end_bounds(bs, k + 2); }
}

//@ extract src/tokenizer/mod.rs :: make_fn commatok
//@   ret r
//@   sig <<<
    requires wf_osi(i)
    ensures fixed_tok(i, r, ",", TokenType::PUNCT)
//@   >>>
//@   body_start <<<
    proof { reveal_strlit(","); lemma_fixed_text(bytes_of(i), off_of(i), ","@); }
//@   >>>
//@ end
//@ extract src/tokenizer/mod.rs :: make_fn lbracetok
//@   ret r
//@   sig <<<
    requires wf_osi(i)
    ensures fixed_tok(i, r, "{", TokenType::PUNCT)
//@   >>>
//@   body_start <<<
    proof { reveal_strlit("{"); lemma_fixed_text(bytes_of(i), off_of(i), "{"@); }
//@   >>>
//@ end
//@ extract src/tokenizer/mod.rs :: make_fn rbracetok
//@   ret r
//@   sig <<<
    requires wf_osi(i)
    ensures fixed_tok(i, r, "}", TokenType::PUNCT)
//@   >>>
//@   body_start <<<
    proof { reveal_strlit("}"); lemma_fixed_text(bytes_of(i), off_of(i), "}"@); }
//@   >>>
//@ end
//@ extract src/tokenizer/mod.rs :: make_fn lparentok
//@   ret r
//@   sig <<<
    requires wf_osi(i)
    ensures fixed_tok(i, r, "(", TokenType::PUNCT)
//@   >>>
//@   body_start <<<
    proof { reveal_strlit("("); lemma_fixed_text(bytes_of(i), off_of(i), "("@); }
//@   >>>
//@ end
//@ extract src/tokenizer/mod.rs :: make_fn rparentok
//@   ret r
//@   sig <<<
    requires wf_osi(i)
    ensures fixed_tok(i, r, ")", TokenType::PUNCT)
//@   >>>
//@   body_start <<<
    proof { reveal_strlit(")"); lemma_fixed_text(bytes_of(i), off_of(i), ")"@); }
//@   >>>
//@ end
//@ extract src/tokenizer/mod.rs :: make_fn dotdottok
//@   ret r
//@   sig <<<
    requires wf_osi(i)
    ensures fixed_tok(i, r, "..", TokenType::PUNCT)
//@   >>>
//@   body_start <<<
    proof { reveal_strlit(".."); lemma_fixed_text(bytes_of(i), off_of(i), ".."@); }
//@   >>>
//@ end
//@ extract src/tokenizer/mod.rs :: make_fn dottok
//@   ret r
//@   sig <<<
    requires wf_osi(i)
    ensures fixed_tok(i, r, ".", TokenType::PUNCT)
//@   >>>
//@   body_start <<<
    proof { reveal_strlit("."); lemma_fixed_text(bytes_of(i), off_of(i), "."@); }
//@   >>>
//@ end
//@ extract src/tokenizer/mod.rs :: make_fn plustok
//@   ret r
//@   sig <<<
    requires wf_osi(i)
    ensures fixed_tok(i, r, "+", TokenType::PUNCT)
//@   >>>
//@   body_start <<<
    proof { reveal_strlit("+"); lemma_fixed_text(bytes_of(i), off_of(i), "+"@); }
//@   >>>
//@ end
//@ extract src/tokenizer/mod.rs :: make_fn dashtok
//@   ret r
//@   sig <<<
    requires wf_osi(i)
    ensures fixed_tok(i, r, "-", TokenType::PUNCT)
//@   >>>
//@   body_start <<<
    proof { reveal_strlit("-"); lemma_fixed_text(bytes_of(i), off_of(i), "-"@); }
//@   >>>
//@ end
//@ extract src/tokenizer/mod.rs :: make_fn startok
//@   ret r
//@   sig <<<
    requires wf_osi(i)
    ensures fixed_tok(i, r, "*", TokenType::PUNCT)
//@   >>>
//@   body_start <<<
    proof { reveal_strlit("*"); lemma_fixed_text(bytes_of(i), off_of(i), "*"@); }
//@   >>>
//@ end
//@ extract src/tokenizer/mod.rs :: make_fn slashtok
//@   ret r
//@   sig <<<
    requires wf_osi(i)
    ensures fixed_tok(i, r, "/", TokenType::PUNCT)
//@   >>>
//@   body_start <<<
    proof { reveal_strlit("/"); lemma_fixed_text(bytes_of(i), off_of(i), "/"@); }
//@   >>>
//@ end
//@ extract src/tokenizer/mod.rs :: make_fn modulustok
//@   ret r
//@   sig <<<
    requires wf_osi(i)
    ensures fixed_tok(i, r, "%%", TokenType::PUNCT)
//@   >>>
//@   body_start <<<
    proof { reveal_strlit("%%"); lemma_fixed_text(bytes_of(i), off_of(i), "%%"@); }
//@   >>>
//@ end
//@ extract src/tokenizer/mod.rs :: make_fn pcttok
//@   ret r
//@   sig <<<
    requires wf_osi(i)
    ensures fixed_tok(i, r, "%", TokenType::PUNCT)
//@   >>>
//@   body_start <<<
    proof { reveal_strlit("%"); lemma_fixed_text(bytes_of(i), off_of(i), "%"@); }
//@   >>>
//@ end
//@ extract src/tokenizer/mod.rs :: make_fn eqeqtok
//@   ret r
//@   sig <<<
    requires wf_osi(i)
    ensures fixed_tok(i, r, "==", TokenType::PUNCT)
//@   >>>
//@   body_start <<<
    proof { reveal_strlit("=="); lemma_fixed_text(bytes_of(i), off_of(i), "=="@); }
//@   >>>
//@ end
//@ extract src/tokenizer/mod.rs :: make_fn notequaltok
//@   ret r
//@   sig <<<
    requires wf_osi(i)
    ensures fixed_tok(i, r, "!=", TokenType::PUNCT)
//@   >>>
//@   body_start <<<
    proof { reveal_strlit("!="); lemma_fixed_text(bytes_of(i), off_of(i), "!="@); }
//@   >>>
//@ end
//@ extract src/tokenizer/mod.rs :: make_fn matchtok
//@   ret r
//@   sig <<<
    requires wf_osi(i)
    ensures fixed_tok(i, r, "~", TokenType::PUNCT)
//@   >>>
//@   body_start <<<
    proof { reveal_strlit("~"); lemma_fixed_text(bytes_of(i), off_of(i), "~"@); }
//@   >>>
//@ end
//@ extract src/tokenizer/mod.rs :: make_fn notmatchtok
//@   ret r
//@   sig <<<
    requires wf_osi(i)
    ensures fixed_tok(i, r, "!~", TokenType::PUNCT)
//@   >>>
//@   body_start <<<
    proof { reveal_strlit("!~"); lemma_fixed_text(bytes_of(i), off_of(i), "!~"@); }
//@   >>>
//@ end
//@ extract src/tokenizer/mod.rs :: make_fn gttok
//@   ret r
//@   sig <<<
    requires wf_osi(i)
    ensures fixed_tok(i, r, ">", TokenType::PUNCT)
//@   >>>
//@   body_start <<<
    proof { reveal_strlit(">"); lemma_fixed_text(bytes_of(i), off_of(i), ">"@); }
//@   >>>
//@ end
//@ extract src/tokenizer/mod.rs :: make_fn gtequaltok
//@   ret r
//@   sig <<<
    requires wf_osi(i)
    ensures fixed_tok(i, r, ">=", TokenType::PUNCT)
//@   >>>
//@   body_start <<<
    proof { reveal_strlit(">="); lemma_fixed_text(bytes_of(i), off_of(i), ">="@); }
//@   >>>
//@ end
//@ extract src/tokenizer/mod.rs :: make_fn ltequaltok
//@   ret r
//@   sig <<<
    requires wf_osi(i)
    ensures fixed_tok(i, r, "<=", TokenType::PUNCT)
//@   >>>
//@   body_start <<<
    proof { reveal_strlit("<="); lemma_fixed_text(bytes_of(i), off_of(i), "<="@); }
//@   >>>
//@ end
//@ extract src/tokenizer/mod.rs :: make_fn lttok
//@   ret r
//@   sig <<<
    requires wf_osi(i)
    ensures fixed_tok(i, r, "<", TokenType::PUNCT)
//@   >>>
//@   body_start <<<
    proof { reveal_strlit("<"); lemma_fixed_text(bytes_of(i), off_of(i), "<"@); }
//@   >>>
//@ end
//@ extract src/tokenizer/mod.rs :: make_fn equaltok
//@   ret r
//@   sig <<<
    requires wf_osi(i)
    ensures fixed_tok(i, r, "=", TokenType::PUNCT)
//@   >>>
//@   body_start <<<
    proof { reveal_strlit("="); lemma_fixed_text(bytes_of(i), off_of(i), "="@); }
//@   >>>
//@ end
//@ extract src/tokenizer/mod.rs :: make_fn semicolontok
//@   ret r
//@   sig <<<
    requires wf_osi(i)
    ensures fixed_tok(i, r, ";", TokenType::PUNCT)
//@   >>>
//@   body_start <<<
    proof { reveal_strlit(";"); lemma_fixed_text(bytes_of(i), off_of(i), ";"@); }
//@   >>>
//@ end
//@ extract src/tokenizer/mod.rs :: make_fn doublecolontok
//@   ret r
//@   sig <<<
    requires wf_osi(i)
    ensures fixed_tok(i, r, "::", TokenType::PUNCT)
//@   >>>
//@   body_start <<<
    proof { reveal_strlit("::"); lemma_fixed_text(bytes_of(i), off_of(i), "::"@); }
//@   >>>
//@ end
//@ extract src/tokenizer/mod.rs :: make_fn colontok
//@   ret r
//@   sig <<<
    requires wf_osi(i)
    ensures fixed_tok(i, r, ":", TokenType::PUNCT)
//@   >>>
//@   body_start <<<
    proof { reveal_strlit(":"); lemma_fixed_text(bytes_of(i), off_of(i), ":"@); }
//@   >>>
//@ end
//@ extract src/tokenizer/mod.rs :: make_fn leftsquarebracket
//@   ret r
//@   sig <<<
    requires wf_osi(i)
    ensures fixed_tok(i, r, "[", TokenType::PUNCT)
//@   >>>
//@   body_start <<<
    proof { reveal_strlit("["); lemma_fixed_text(bytes_of(i), off_of(i), "["@); }
//@   >>>
//@ end
//@ extract src/tokenizer/mod.rs :: make_fn rightsquarebracket
//@   ret r
//@   sig <<<
    requires wf_osi(i)
    ensures fixed_tok(i, r, "]", TokenType::PUNCT)
//@   >>>
//@   body_start <<<
    proof { reveal_strlit("]"); lemma_fixed_text(bytes_of(i), off_of(i), "]"@); }
//@   >>>
//@ end
//@ extract src/tokenizer/mod.rs :: make_fn fatcommatok
//@   ret r
//@   sig <<<
    requires wf_osi(i)
    ensures fixed_tok(i, r, "=>", TokenType::PUNCT)
//@   >>>
//@   body_start <<<
    proof { reveal_strlit("=>"); lemma_fixed_text(bytes_of(i), off_of(i), "=>"@); }
//@   >>>
//@ end
//@ extract src/tokenizer/mod.rs :: make_fn andtok
//@   ret r
//@   sig <<<
    requires wf_osi(i)
    ensures fixed_tok(i, r, "&&", TokenType::PUNCT)
//@   >>>
//@   body_start <<<
    proof { reveal_strlit("&&"); lemma_fixed_text(bytes_of(i), off_of(i), "&&"@); }
//@   >>>
//@ end
//@ extract src/tokenizer/mod.rs :: make_fn ortok
//@   ret r
//@   sig <<<
    requires wf_osi(i)
    ensures fixed_tok(i, r, "||", TokenType::PUNCT)
//@   >>>
//@   body_start <<<
    proof { reveal_strlit("||"); lemma_fixed_text(bytes_of(i), off_of(i), "||"@); }
//@   >>>
//@ end
//@ extract src/tokenizer/mod.rs :: make_fn pipetok
//@   ret r
//@   sig <<<
    requires wf_osi(i)
    ensures fixed_tok(i, r, "|", TokenType::PUNCT)
//@   >>>
//@   body_start <<<
    proof { reveal_strlit("|"); lemma_fixed_text(bytes_of(i), off_of(i), "|"@); }
//@   >>>
//@ end
//@ extract src/tokenizer/mod.rs :: make_fn selecttok
//@   ret r
//@   sig <<<
    requires wf_osi(i)
    ensures keyword_tok(i, r, "select")
//@   >>>
//@   body_start <<<
    proof { reveal_strlit("select"); lemma_fixed_text(bytes_of(i), off_of(i), "select"@); if starts_with_at(bytes_of(i), off_of(i), lit("select")) { lemma_sep(bytes_of(i), off_of(i) + lit("select").len()); } }
//@   >>>
//@ end
//@ extract src/tokenizer/mod.rs :: make_fn intok
//@   ret r
//@   sig <<<
    requires wf_osi(i)
    ensures keyword_tok(i, r, "in")
//@   >>>
//@   body_start <<<
    proof { reveal_strlit("in"); lemma_fixed_text(bytes_of(i), off_of(i), "in"@); if starts_with_at(bytes_of(i), off_of(i), lit("in")) { lemma_sep(bytes_of(i), off_of(i) + lit("in").len()); } }
//@   >>>
//@ end
//@ extract src/tokenizer/mod.rs :: make_fn istok
//@   ret r
//@   sig <<<
    requires wf_osi(i)
    ensures keyword_tok(i, r, "is")
//@   >>>
//@   body_start <<<
    proof { reveal_strlit("is"); lemma_fixed_text(bytes_of(i), off_of(i), "is"@); if starts_with_at(bytes_of(i), off_of(i), lit("is")) { lemma_sep(bytes_of(i), off_of(i) + lit("is").len()); } }
//@   >>>
//@ end
//@ extract src/tokenizer/mod.rs :: make_fn nottok
//@   ret r
//@   sig <<<
    requires wf_osi(i)
    ensures keyword_tok(i, r, "not")
//@   >>>
//@   body_start <<<
    proof { reveal_strlit("not"); lemma_fixed_text(bytes_of(i), off_of(i), "not"@); if starts_with_at(bytes_of(i), off_of(i), lit("not")) { lemma_sep(bytes_of(i), off_of(i) + lit("not").len()); } }
//@   >>>
//@ end
//@ extract src/tokenizer/mod.rs :: make_fn tracetok
//@   ret r
//@   sig <<<
    requires wf_osi(i)
    ensures keyword_tok(i, r, "TRACE")
//@   >>>
//@   body_start <<<
    proof { reveal_strlit("TRACE"); lemma_fixed_text(bytes_of(i), off_of(i), "TRACE"@); if starts_with_at(bytes_of(i), off_of(i), lit("TRACE")) { lemma_sep(bytes_of(i), off_of(i) + lit("TRACE").len()); } }
//@   >>>
//@ end
//@ extract src/tokenizer/mod.rs :: make_fn failtok
//@   ret r
//@   sig <<<
    requires wf_osi(i)
    ensures keyword_tok(i, r, "fail")
//@   >>>
//@   body_start <<<
    proof { reveal_strlit("fail"); lemma_fixed_text(bytes_of(i), off_of(i), "fail"@); if starts_with_at(bytes_of(i), off_of(i), lit("fail")) { lemma_sep(bytes_of(i), off_of(i) + lit("fail").len()); } }
//@   >>>
//@ end
//@ extract src/tokenizer/mod.rs :: make_fn functok
//@   ret r
//@   sig <<<
    requires wf_osi(i)
    ensures keyword_tok(i, r, "func")
//@   >>>
//@   body_start <<<
    proof { reveal_strlit("func"); lemma_fixed_text(bytes_of(i), off_of(i), "func"@); if starts_with_at(bytes_of(i), off_of(i), lit("func")) { lemma_sep(bytes_of(i), off_of(i) + lit("func").len()); } }
//@   >>>
//@ end
//@ extract src/tokenizer/mod.rs :: make_fn moduletok
//@   ret r
//@   sig <<<
    requires wf_osi(i)
    ensures keyword_tok(i, r, "module")
//@   >>>
//@   body_start <<<
    proof { reveal_strlit("module"); lemma_fixed_text(bytes_of(i), off_of(i), "module"@); if starts_with_at(bytes_of(i), off_of(i), lit("module")) { lemma_sep(bytes_of(i), off_of(i) + lit("module").len()); } }
//@   >>>
//@ end
//@ extract src/tokenizer/mod.rs :: make_fn lettok
//@   ret r
//@   sig <<<
    requires wf_osi(i)
    ensures keyword_tok(i, r, "let")
//@   >>>
//@   body_start <<<
    proof { reveal_strlit("let"); lemma_fixed_text(bytes_of(i), off_of(i), "let"@); if starts_with_at(bytes_of(i), off_of(i), lit("let")) { lemma_sep(bytes_of(i), off_of(i) + lit("let").len()); } }
//@   >>>
//@ end
//@ extract src/tokenizer/mod.rs :: make_fn importtok
//@   ret r
//@   sig <<<
    requires wf_osi(i)
    ensures keyword_tok(i, r, "import")
//@   >>>
//@   body_start <<<
    proof { reveal_strlit("import"); lemma_fixed_text(bytes_of(i), off_of(i), "import"@); if starts_with_at(bytes_of(i), off_of(i), lit("import")) { lemma_sep(bytes_of(i), off_of(i) + lit("import").len()); } }
//@   >>>
//@ end
//@ extract src/tokenizer/mod.rs :: make_fn includetok
//@   ret r
//@   sig <<<
    requires wf_osi(i)
    ensures keyword_tok(i, r, "include")
//@   >>>
//@   body_start <<<
    proof { reveal_strlit("include"); lemma_fixed_text(bytes_of(i), off_of(i), "include"@); if starts_with_at(bytes_of(i), off_of(i), lit("include")) { lemma_sep(bytes_of(i), off_of(i) + lit("include").len()); } }
//@   >>>
//@ end
//@ extract src/tokenizer/mod.rs :: make_fn asserttok
//@   ret r
//@   sig <<<
    requires wf_osi(i)
    ensures keyword_tok(i, r, "assert")
//@   >>>
//@   body_start <<<
    proof { reveal_strlit("assert"); lemma_fixed_text(bytes_of(i), off_of(i), "assert"@); if starts_with_at(bytes_of(i), off_of(i), lit("assert")) { lemma_sep(bytes_of(i), off_of(i) + lit("assert").len()); } }
//@   >>>
//@ end
//@ extract src/tokenizer/mod.rs :: make_fn outtok
//@   ret r
//@   sig <<<
    requires wf_osi(i)
    ensures keyword_tok(i, r, "out")
//@   >>>
//@   body_start <<<
    proof { reveal_strlit("out"); lemma_fixed_text(bytes_of(i), off_of(i), "out"@); if starts_with_at(bytes_of(i), off_of(i), lit("out")) { lemma_sep(bytes_of(i), off_of(i) + lit("out").len()); } }
//@   >>>
//@ end
//@ extract src/tokenizer/mod.rs :: make_fn constrainttok
//@   ret r
//@   sig <<<
    requires wf_osi(i)
    ensures keyword_tok(i, r, "constraint")
//@   >>>
//@   body_start <<<
    proof { reveal_strlit("constraint"); lemma_fixed_text(bytes_of(i), off_of(i), "constraint"@); if starts_with_at(bytes_of(i), off_of(i), lit("constraint")) { lemma_sep(bytes_of(i), off_of(i) + lit("constraint").len()); } }
//@   >>>
//@ end
//@ extract src/tokenizer/mod.rs :: make_fn converttok
//@   ret r
//@   sig <<<
    requires wf_osi(i)
    ensures keyword_tok(i, r, "convert")
//@   >>>
//@   body_start <<<
    proof { reveal_strlit("convert"); lemma_fixed_text(bytes_of(i), off_of(i), "convert"@); if starts_with_at(bytes_of(i), off_of(i), lit("convert")) { lemma_sep(bytes_of(i), off_of(i) + lit("convert").len()); } }
//@   >>>
//@ end
//@ extract src/tokenizer/mod.rs :: make_fn astok
//@   ret r
//@   sig <<<
    requires wf_osi(i)
    ensures keyword_tok(i, r, "as")
//@   >>>
//@   body_start <<<
    proof { reveal_strlit("as"); lemma_fixed_text(bytes_of(i), off_of(i), "as"@); if starts_with_at(bytes_of(i), off_of(i), lit("as")) { lemma_sep(bytes_of(i), off_of(i) + lit("as").len()); } }
//@   >>>
//@ end
//@ extract src/tokenizer/mod.rs :: make_fn maptok
//@   ret r
//@   sig <<<
    requires wf_osi(i)
    ensures keyword_tok(i, r, "map")
//@   >>>
//@   body_start <<<
    proof { reveal_strlit("map"); lemma_fixed_text(bytes_of(i), off_of(i), "map"@); if starts_with_at(bytes_of(i), off_of(i), lit("map")) { lemma_sep(bytes_of(i), off_of(i) + lit("map").len()); } }
//@   >>>
//@ end
//@ extract src/tokenizer/mod.rs :: make_fn filtertok
//@   ret r
//@   sig <<<
    requires wf_osi(i)
    ensures keyword_tok(i, r, "filter")
//@   >>>
//@   body_start <<<
    proof { reveal_strlit("filter"); lemma_fixed_text(bytes_of(i), off_of(i), "filter"@); if starts_with_at(bytes_of(i), off_of(i), lit("filter")) { lemma_sep(bytes_of(i), off_of(i) + lit("filter").len()); } }
//@   >>>
//@ end
//@ extract src/tokenizer/mod.rs :: make_fn reducetok
//@   ret r
//@   sig <<<
    requires wf_osi(i)
    ensures keyword_tok(i, r, "reduce")
//@   >>>
//@   body_start <<<
    proof { reveal_strlit("reduce"); lemma_fixed_text(bytes_of(i), off_of(i), "reduce"@); if starts_with_at(bytes_of(i), off_of(i), lit("reduce")) { lemma_sep(bytes_of(i), off_of(i) + lit("reduce").len()); } }
//@   >>>
//@ end

// =====================================================================================================
// runs of a byte class: numbers and barewords (consume_all!)
// =====================================================================================================
pub enum ByteClass { Symbol, Digit }
// reference/grammar.md: "bareword: ASCII_CHAR, { DIGIT | VISIBLE_CHAR | "_" }"; the tokenizer's symbol characters are the
// ASCII letters, the digits, '-' and '_'
pub open spec fn sym_byte(b: u8) -> bool { alpha_byte(b) || digit_byte(b) || b == 0x2D || b == 0x5F }
pub open spec fn in_class(c: ByteClass, b: u8) -> bool {
    match c { ByteClass::Symbol => sym_byte(b), ByteClass::Digit => digit_byte(b) }
}
// consume_all!(rule) names the class of its rule as `rule::class()`: modules named like the two rules (type namespace)
pub mod is_symbol_char { use super::*; pub open spec fn class() -> ByteClass { ByteClass::Symbol } }
pub mod ascii_digit { use super::*; pub open spec fn class() -> ByteClass { ByteClass::Digit } }

// end of the maximal run of bytes of class c that starts at k
pub open spec fn run_end(bs: Seq<u8>, k: int, c: ByteClass) -> int
    decreases bs.len() - k
{
    if 0 <= k < bs.len() && in_class(c, bs[k]) { run_end(bs, k + 1, c) } else { k }
}
pub proof fn lemma_run_end_bounds(bs: Seq<u8>, k: int, c: ByteClass)
    requires 0 <= k <= bs.len()
    ensures k <= run_end(bs, k, c) <= bs.len()
    decreases bs.len() - k
{
    if k < bs.len() { lemma_run_end_bounds(bs, k + 1, c); }
}
pub open spec fn sym_at(bs: Seq<u8>, k: int) -> bool { 0 <= k < bs.len() && sym_byte(bs[k]) }

// clauses of the loop of consume_all!(start, rule)
pub open spec fn consume_inv(start: OffsetStrIter, cur: OffsetStrIter, c: ByteClass) -> bool {
    &&& wf_osi(start) && on_boundary(bytes_of(start), off_of(start))
    &&& moved(start, cur, off_of(cur)) && off_of(start) <= off_of(cur) <= bytes_of(start).len()
    &&& on_boundary(bytes_of(start), off_of(cur))
    &&& run_end(bytes_of(start), off_of(cur), c) == run_end(bytes_of(start), off_of(start), c)
}
pub open spec fn consume_post<'a>(start: OffsetStrIter<'a>, r: Result<OffsetStrIter<'a>, &'a str>, c: ByteClass) -> bool {
    let bs = bytes_of(start); let o = off_of(start); let e = run_end(bs, o, c);
    r matches Result::Complete(rest, sp) && (moved(start, rest, e) && encode_utf8(sp@) == bs.subrange(o, e) && on_boundary(bs, e))
}
// the rule accepted the byte at `cur`: it is ASCII, so the next offset is a boundary again, in the same run
pub proof fn lemma_consume_step(start: OffsetStrIter, cur: OffsetStrIter, c: ByteClass)
    requires consume_inv(start, cur, c), off_of(cur) < bytes_of(start).len(), in_class(c, bytes_of(start)[off_of(cur)])
    ensures on_boundary(bytes_of(start), off_of(cur) + 1),
        run_end(bytes_of(start), off_of(cur) + 1, c) == run_end(bytes_of(start), off_of(start), c)
{
    lemma_boundary_step(bytes_of(start), off_of(cur));
}
pub proof fn lemma_consume_span(start: OffsetStrIter, cur: OffsetStrIter, c: ByteClass)
    requires consume_inv(start, cur, c)
    ensures span_ok(bytes_of(start), off_of(start), off_of(cur))
{
    lemma_boundary_is_char_boundary(start.contained.source, off_of(start));
    lemma_boundary_is_char_boundary(start.contained.source, off_of(cur));
}

//@ extract src/tokenizer/mod.rs :: fn is_symbol_char
//@   ret r
//@   sig <<<
    requires wf_osi(i)
    ensures one_byte(i, r, sym_byte(cur_byte(i)))
//@   >>>
//@   mutant sym_no_dash "c == b'-' ||" => "" expect is_symbol_char
//@ end

// a token whose text is the maximal run of class c starting at the cursor
pub open spec fn run_tok<'a>(i: OffsetStrIter<'a>, r: Result<OffsetStrIter<'a>, Token>, first_ok: bool, c: ByteClass, typ: TokenType) -> bool {
    let bs = bytes_of(i); let o = off_of(i); let e = run_end(bs, o, c);
    if o < bs.len() && first_ok {
        r matches Result::Complete(rest, tok) && off_of(rest) == e && e > o
        && tok.typ == typ && encode_utf8(tok.fragment@) == bs.subrange(o, e) && on_boundary(bs, e) && token_shape(i, rest, tok)
    } else {
        r is Fail
    }
}

// BAREWORD: a letter followed by symbol characters, as many as there are
//@ extract src/tokenizer/mod.rs :: make_fn barewordtok
//@   subst "fn barewordtok(i: OffsetStrIter) -> Result<OffsetStrIter, Token>" => "fn barewordtok<'a>(i: OffsetStrIter<'a>) -> Result<OffsetStrIter<'a>, Token>"
//@   ret r
//@   sig <<<
    requires wf_osi(i)
    ensures run_tok(i, r, alpha_byte(cur_byte(i)), ByteClass::Symbol, TokenType::BAREWORD)
//@   >>>
//@   body_start <<<
    proof {
        let bs = bytes_of(i); let o = off_of(i);
        if o < bs.len() && alpha_byte(bs[o]) { lemma_ascii_on_boundary(i.contained.source, o); lemma_run_end_bounds(bs, o + 1, ByteClass::Symbol); lemma_subrange_starts(bs, o, run_end(bs, o, ByteClass::Symbol)); }
    }
//@   >>>
//@   mutant bareword_digit_start "peek!(ascii_alpha)" => "peek!(ascii_digit)" expect barewordtok
//@ end
// DIGIT: the maximal run of digits
//@ extract src/tokenizer/mod.rs :: make_fn digittok
//@   subst "fn digittok(i: OffsetStrIter) -> Result<OffsetStrIter, Token>" => "fn digittok<'a>(i: OffsetStrIter<'a>) -> Result<OffsetStrIter<'a>, Token>"
//@   ret r
//@   sig <<<
    requires wf_osi(i)
    ensures run_tok(i, r, digit_byte(cur_byte(i)), ByteClass::Digit, TokenType::DIGIT)
//@   >>>
//@   body_start <<<
    proof {
        let bs = bytes_of(i); let o = off_of(i);
        if o < bs.len() && digit_byte(bs[o]) { lemma_ascii_on_boundary(i.contained.source, o); lemma_run_end_bounds(bs, o + 1, ByteClass::Digit); lemma_subrange_starts(bs, o, run_end(bs, o, ByteClass::Digit)); }
    }
//@   >>>
//@   mutant digits_as_symbols "consume_all!(ascii_digit)" => "consume_all!(is_symbol_char)" expect digittok
//@ end

// =====================================================================================================
// whole-word literals: NULL, true, false
// =====================================================================================================
pub open spec fn word_tok<'a>(i: OffsetStrIter<'a>, r: Result<OffsetStrIter<'a>, Token>, text: &str, typ: TokenType) -> bool {
    let bs = bytes_of(i); let o = off_of(i); let n = lit(text).len();
    starts_with_at(bs, o, lit(text)) && !sym_at(bs, o + n)
    && (r matches Result::Complete(rest, tok) && off_of(rest) == o + n && n > 0
        && tok.typ == typ && tok.fragment@ == text@ && token_shape(i, rest, tok))
}
pub proof fn lemma_true_false_lits()
    ensures lit("true").len() == 4, lit("true")[0] == 0x74, lit("false").len() == 5, lit("false")[0] == 0x66,
{
    reveal_strlit("true"); lemma_ascii_text("true"@);
    reveal_strlit("false"); lemma_ascii_text("false"@);
}
pub proof fn lemma_bool_lits(bs: Seq<u8>, o: int)
    ensures
        lit("true").len() == 4, lit("false").len() == 5,
        !(starts_with_at(bs, o, lit("true")) && starts_with_at(bs, o, lit("false"))),
        (on_boundary(bs, o) && starts_with_at(bs, o, lit("true"))) ==> on_boundary(bs, o + 4),
        (on_boundary(bs, o) && starts_with_at(bs, o, lit("false"))) ==> on_boundary(bs, o + 5),
{
    lemma_true_false_lits();
    reveal_strlit("true"); lemma_fixed_text(bs, o, "true"@);
    reveal_strlit("false"); lemma_fixed_text(bs, o, "false"@);
    if starts_with_at(bs, o, lit("true")) { lemma_starts_first(bs, o, lit("true")); }
    if starts_with_at(bs, o, lit("false")) { lemma_starts_first(bs, o, lit("false")); }
}
//@ extract src/tokenizer/mod.rs :: make_fn emptytok
//@   ret r
//@   sig <<<
    requires wf_osi(i)
    ensures word_tok(i, r, "NULL", TokenType::EMPTY) || r is Fail,
        r is Fail == !(starts_with_at(bytes_of(i), off_of(i), lit("NULL")) && !sym_at(bytes_of(i), off_of(i) + 4)),
//@   >>>
//@   body_start <<<
    proof { reveal_strlit("NULL"); lemma_fixed_text(bytes_of(i), off_of(i), "NULL"@); }
//@   >>>
//@   mutant null_prefix_of_word "_ => not!(is_symbol_char)," => "" expect emptytok
//@ end
//@ extract src/tokenizer/mod.rs :: make_fn booleantok
//@   ret r
//@   sig <<<
    requires wf_osi(i)
    ensures word_tok(i, r, "true", TokenType::BOOLEAN) || word_tok(i, r, "false", TokenType::BOOLEAN) || r is Fail,
        r is Fail == !((starts_with_at(bytes_of(i), off_of(i), lit("true")) && !sym_at(bytes_of(i), off_of(i) + 4))
                    || (starts_with_at(bytes_of(i), off_of(i), lit("false")) && !sym_at(bytes_of(i), off_of(i) + 5))),
//@   >>>
//@   body_start <<<
    proof {
        lemma_bool_lits(bytes_of(i), off_of(i));
    }
//@   >>>
//@ end

// =====================================================================================================
// end of input, strings
// =====================================================================================================
//@ extract src/tokenizer/mod.rs :: make_fn end_of_input
//@   ret r
//@   sig <<<
    requires wf_osi(i)
    ensures
        off_of(i) >= bytes_of(i).len() ==> (r matches Result::Complete(rest, tok) && rest == i
            && tok.typ is END && tok.fragment@ =~= Seq::<char>::empty() && token_shape(i, rest, tok)),
        off_of(i) < bytes_of(i).len() ==> r is Fail,
//@   >>>
//@   body_start <<<
    proof { reveal_strlit(""); }
//@   >>>
//@ end

// The string body scanner: its VALUE contract (escapes decoded, every other byte preserved) is units/lit_roundtrip.
// Here only its shape, which `token`/`tokenize` need: it stops right after an unescaped closing quote.
//@ extract src/tokenizer/mod.rs :: fn escapequoted
//@   subst "while let Some(&c) = _input.next() {" => "while let Some(c__r) = _input.next() { let c = *c__r;"
//@   ret r
//@   sig <<<
    requires wf_osi(input)
    ensures
        r matches Result::Complete(rest, frag) ==> moved(input, rest, off_of(rest)) && off_of(input) < off_of(rest) <= bytes_of(input).len()
            && bytes_of(input)[off_of(rest) - 1] == 0x22,
        r matches Result::Incomplete(rest) ==> moved(input, rest, bytes_of(input).len() as int),
        !(r is Abort),
//@   >>>
//@   loop 1 <<<
        invariant
            wf_osi(_input), same_frame(_input, input),
            off_of(input) <= off_of(_input) <= bytes_of(input).len(),
        ensures
            wf_osi(_input), same_frame(_input, input), off_of(_input) == bytes_of(input).len(),
        decreases bytes_of(input).len() - off_of(_input)
//@   >>>
//@ end

pub open spec fn str_tok<'a>(i: OffsetStrIter<'a>, r: Result<OffsetStrIter<'a>, Token>) -> bool {
    let bs = bytes_of(i); let o = off_of(i);
    &&& !(0 <= o < bs.len() && bs[o] == 0x22) ==> r is Fail
    &&& r matches Result::Complete(rest, tok) ==> tok.typ is QUOTED && on_boundary(bs, off_of(rest)) && token_shape(i, rest, tok)
    &&& !(r is Abort)
}
//@ extract src/tokenizer/mod.rs :: make_fn strtok
//@   ret r
//@   sig <<<
    requires wf_osi(i)
    ensures str_tok(i, r)
//@   >>>
//@   body_start <<<
    proof {
        reveal_strlit("\""); lemma_ascii_text("\""@); assert(lit("\"") =~= seq![0x22u8]); lemma_starts_1(bytes_of(i), off_of(i), 0x22);
        // the closing quote is ASCII: what follows it starts a character
        assert forall|k: int| 0 < k <= bytes_of(i).len() && bytes_of(i)[k - 1] == 0x22 implies on_boundary(bytes_of(i), k) by {
            lemma_ascii_on_boundary(i.contained.source, k - 1);
            lemma_boundary_step(bytes_of(i), k - 1);
        }
    }
//@   >>>
//@ end


// =====================================================================================================
// token: the ORDERED alternation
// =====================================================================================================
// every fixed text `token` looks for, in bytes: the one- and two-byte operators exactly, the words by their first byte
pub proof fn lemma_first_bytes_1(bs: Seq<u8>, o: int)
    ensures
        starts_with_at(bs, o, lit(",")) == (0 <= o < bs.len() && bs[o] == 0x2C),
        starts_with_at(bs, o, lit("{")) == (0 <= o < bs.len() && bs[o] == 0x7B),
        starts_with_at(bs, o, lit("}")) == (0 <= o < bs.len() && bs[o] == 0x7D),
        starts_with_at(bs, o, lit("(")) == (0 <= o < bs.len() && bs[o] == 0x28),
        starts_with_at(bs, o, lit(")")) == (0 <= o < bs.len() && bs[o] == 0x29),
        lit("..").len() == 2 && starts_with_at(bs, o, lit("..")) == (0 <= o && o + 2 <= bs.len() && bs[o] == 0x2E && bs[o + 1] == 0x2E),
        starts_with_at(bs, o, lit(".")) == (0 <= o < bs.len() && bs[o] == 0x2E),
{
    reveal_strlit(","); lemma_ascii_text(","@); assert(lit(",") =~= seq![0x2Cu8]); lemma_starts_1(bs, o, 0x2C);
    reveal_strlit("{"); lemma_ascii_text("{"@); assert(lit("{") =~= seq![0x7Bu8]); lemma_starts_1(bs, o, 0x7B);
    reveal_strlit("}"); lemma_ascii_text("}"@); assert(lit("}") =~= seq![0x7Du8]); lemma_starts_1(bs, o, 0x7D);
    reveal_strlit("("); lemma_ascii_text("("@); assert(lit("(") =~= seq![0x28u8]); lemma_starts_1(bs, o, 0x28);
    reveal_strlit(")"); lemma_ascii_text(")"@); assert(lit(")") =~= seq![0x29u8]); lemma_starts_1(bs, o, 0x29);
    reveal_strlit(".."); lemma_ascii_text(".."@); assert(lit("..") =~= seq![0x2Eu8, 0x2Eu8]); lemma_starts_2(bs, o, 0x2E, 0x2E);
    reveal_strlit("."); lemma_ascii_text("."@); assert(lit(".") =~= seq![0x2Eu8]); lemma_starts_1(bs, o, 0x2E);
}
pub proof fn lemma_first_bytes_2(bs: Seq<u8>, o: int)
    ensures
        starts_with_at(bs, o, lit("+")) == (0 <= o < bs.len() && bs[o] == 0x2B),
        starts_with_at(bs, o, lit("-")) == (0 <= o < bs.len() && bs[o] == 0x2D),
        starts_with_at(bs, o, lit("*")) == (0 <= o < bs.len() && bs[o] == 0x2A),
        starts_with_at(bs, o, lit("/")) == (0 <= o < bs.len() && bs[o] == 0x2F),
        lit("%%").len() == 2 && starts_with_at(bs, o, lit("%%")) == (0 <= o && o + 2 <= bs.len() && bs[o] == 0x25 && bs[o + 1] == 0x25),
        starts_with_at(bs, o, lit("%")) == (0 <= o < bs.len() && bs[o] == 0x25),
        lit("==").len() == 2 && starts_with_at(bs, o, lit("==")) == (0 <= o && o + 2 <= bs.len() && bs[o] == 0x3D && bs[o + 1] == 0x3D),
{
    reveal_strlit("+"); lemma_ascii_text("+"@); assert(lit("+") =~= seq![0x2Bu8]); lemma_starts_1(bs, o, 0x2B);
    reveal_strlit("-"); lemma_ascii_text("-"@); assert(lit("-") =~= seq![0x2Du8]); lemma_starts_1(bs, o, 0x2D);
    reveal_strlit("*"); lemma_ascii_text("*"@); assert(lit("*") =~= seq![0x2Au8]); lemma_starts_1(bs, o, 0x2A);
    reveal_strlit("/"); lemma_ascii_text("/"@); assert(lit("/") =~= seq![0x2Fu8]); lemma_starts_1(bs, o, 0x2F);
    reveal_strlit("%%"); lemma_ascii_text("%%"@); assert(lit("%%") =~= seq![0x25u8, 0x25u8]); lemma_starts_2(bs, o, 0x25, 0x25);
    reveal_strlit("%"); lemma_ascii_text("%"@); assert(lit("%") =~= seq![0x25u8]); lemma_starts_1(bs, o, 0x25);
    reveal_strlit("=="); lemma_ascii_text("=="@); assert(lit("==") =~= seq![0x3Du8, 0x3Du8]); lemma_starts_2(bs, o, 0x3D, 0x3D);
}
pub proof fn lemma_first_bytes_3(bs: Seq<u8>, o: int)
    ensures
        lit("!=").len() == 2 && starts_with_at(bs, o, lit("!=")) == (0 <= o && o + 2 <= bs.len() && bs[o] == 0x21 && bs[o + 1] == 0x3D),
        starts_with_at(bs, o, lit("~")) == (0 <= o < bs.len() && bs[o] == 0x7E),
        lit("!~").len() == 2 && starts_with_at(bs, o, lit("!~")) == (0 <= o && o + 2 <= bs.len() && bs[o] == 0x21 && bs[o + 1] == 0x7E),
        starts_with_at(bs, o, lit(">")) == (0 <= o < bs.len() && bs[o] == 0x3E),
        lit(">=").len() == 2 && starts_with_at(bs, o, lit(">=")) == (0 <= o && o + 2 <= bs.len() && bs[o] == 0x3E && bs[o + 1] == 0x3D),
        lit("<=").len() == 2 && starts_with_at(bs, o, lit("<=")) == (0 <= o && o + 2 <= bs.len() && bs[o] == 0x3C && bs[o + 1] == 0x3D),
        starts_with_at(bs, o, lit("<")) == (0 <= o < bs.len() && bs[o] == 0x3C),
{
    reveal_strlit("!="); lemma_ascii_text("!="@); assert(lit("!=") =~= seq![0x21u8, 0x3Du8]); lemma_starts_2(bs, o, 0x21, 0x3D);
    reveal_strlit("~"); lemma_ascii_text("~"@); assert(lit("~") =~= seq![0x7Eu8]); lemma_starts_1(bs, o, 0x7E);
    reveal_strlit("!~"); lemma_ascii_text("!~"@); assert(lit("!~") =~= seq![0x21u8, 0x7Eu8]); lemma_starts_2(bs, o, 0x21, 0x7E);
    reveal_strlit(">"); lemma_ascii_text(">"@); assert(lit(">") =~= seq![0x3Eu8]); lemma_starts_1(bs, o, 0x3E);
    reveal_strlit(">="); lemma_ascii_text(">="@); assert(lit(">=") =~= seq![0x3Eu8, 0x3Du8]); lemma_starts_2(bs, o, 0x3E, 0x3D);
    reveal_strlit("<="); lemma_ascii_text("<="@); assert(lit("<=") =~= seq![0x3Cu8, 0x3Du8]); lemma_starts_2(bs, o, 0x3C, 0x3D);
    reveal_strlit("<"); lemma_ascii_text("<"@); assert(lit("<") =~= seq![0x3Cu8]); lemma_starts_1(bs, o, 0x3C);
}
pub proof fn lemma_first_bytes_4(bs: Seq<u8>, o: int)
    ensures
        starts_with_at(bs, o, lit("=")) == (0 <= o < bs.len() && bs[o] == 0x3D),
        starts_with_at(bs, o, lit(";")) == (0 <= o < bs.len() && bs[o] == 0x3B),
        lit("::").len() == 2 && starts_with_at(bs, o, lit("::")) == (0 <= o && o + 2 <= bs.len() && bs[o] == 0x3A && bs[o + 1] == 0x3A),
        starts_with_at(bs, o, lit(":")) == (0 <= o < bs.len() && bs[o] == 0x3A),
        starts_with_at(bs, o, lit("[")) == (0 <= o < bs.len() && bs[o] == 0x5B),
        starts_with_at(bs, o, lit("]")) == (0 <= o < bs.len() && bs[o] == 0x5D),
        lit("=>").len() == 2 && starts_with_at(bs, o, lit("=>")) == (0 <= o && o + 2 <= bs.len() && bs[o] == 0x3D && bs[o + 1] == 0x3E),
{
    reveal_strlit("="); lemma_ascii_text("="@); assert(lit("=") =~= seq![0x3Du8]); lemma_starts_1(bs, o, 0x3D);
    reveal_strlit(";"); lemma_ascii_text(";"@); assert(lit(";") =~= seq![0x3Bu8]); lemma_starts_1(bs, o, 0x3B);
    reveal_strlit("::"); lemma_ascii_text("::"@); assert(lit("::") =~= seq![0x3Au8, 0x3Au8]); lemma_starts_2(bs, o, 0x3A, 0x3A);
    reveal_strlit(":"); lemma_ascii_text(":"@); assert(lit(":") =~= seq![0x3Au8]); lemma_starts_1(bs, o, 0x3A);
    reveal_strlit("["); lemma_ascii_text("["@); assert(lit("[") =~= seq![0x5Bu8]); lemma_starts_1(bs, o, 0x5B);
    reveal_strlit("]"); lemma_ascii_text("]"@); assert(lit("]") =~= seq![0x5Du8]); lemma_starts_1(bs, o, 0x5D);
    reveal_strlit("=>"); lemma_ascii_text("=>"@); assert(lit("=>") =~= seq![0x3Du8, 0x3Eu8]); lemma_starts_2(bs, o, 0x3D, 0x3E);
}
pub proof fn lemma_first_bytes_5(bs: Seq<u8>, o: int)
    ensures
        lit("&&").len() == 2 && starts_with_at(bs, o, lit("&&")) == (0 <= o && o + 2 <= bs.len() && bs[o] == 0x26 && bs[o + 1] == 0x26),
        lit("||").len() == 2 && starts_with_at(bs, o, lit("||")) == (0 <= o && o + 2 <= bs.len() && bs[o] == 0x7C && bs[o + 1] == 0x7C),
        starts_with_at(bs, o, lit("|")) == (0 <= o < bs.len() && bs[o] == 0x7C),
        starts_with_at(bs, o, lit("select")) ==> 0 <= o < bs.len() && bs[o] == 0x73,
        lit("in").len() == 2 && starts_with_at(bs, o, lit("in")) == (0 <= o && o + 2 <= bs.len() && bs[o] == 0x69 && bs[o + 1] == 0x6E),
        lit("is").len() == 2 && starts_with_at(bs, o, lit("is")) == (0 <= o && o + 2 <= bs.len() && bs[o] == 0x69 && bs[o + 1] == 0x73),
        starts_with_at(bs, o, lit("not")) ==> 0 <= o < bs.len() && bs[o] == 0x6E,
{
    reveal_strlit("&&"); lemma_ascii_text("&&"@); assert(lit("&&") =~= seq![0x26u8, 0x26u8]); lemma_starts_2(bs, o, 0x26, 0x26);
    reveal_strlit("||"); lemma_ascii_text("||"@); assert(lit("||") =~= seq![0x7Cu8, 0x7Cu8]); lemma_starts_2(bs, o, 0x7C, 0x7C);
    reveal_strlit("|"); lemma_ascii_text("|"@); assert(lit("|") =~= seq![0x7Cu8]); lemma_starts_1(bs, o, 0x7C);
    reveal_strlit("select"); lemma_ascii_text("select"@); if starts_with_at(bs, o, lit("select")) { lemma_starts_first(bs, o, lit("select")); }
    reveal_strlit("in"); lemma_ascii_text("in"@); assert(lit("in") =~= seq![0x69u8, 0x6Eu8]); lemma_starts_2(bs, o, 0x69, 0x6E);
    reveal_strlit("is"); lemma_ascii_text("is"@); assert(lit("is") =~= seq![0x69u8, 0x73u8]); lemma_starts_2(bs, o, 0x69, 0x73);
    reveal_strlit("not"); lemma_ascii_text("not"@); if starts_with_at(bs, o, lit("not")) { lemma_starts_first(bs, o, lit("not")); }
}
pub proof fn lemma_first_bytes_6(bs: Seq<u8>, o: int)
    ensures
        starts_with_at(bs, o, lit("TRACE")) ==> 0 <= o < bs.len() && bs[o] == 0x54,
        starts_with_at(bs, o, lit("fail")) ==> 0 <= o < bs.len() && bs[o] == 0x66,
        starts_with_at(bs, o, lit("func")) ==> 0 <= o < bs.len() && bs[o] == 0x66,
        starts_with_at(bs, o, lit("module")) ==> 0 <= o < bs.len() && bs[o] == 0x6D,
        starts_with_at(bs, o, lit("let")) ==> 0 <= o < bs.len() && bs[o] == 0x6C,
        starts_with_at(bs, o, lit("import")) ==> 0 <= o < bs.len() && bs[o] == 0x69,
        starts_with_at(bs, o, lit("include")) ==> 0 <= o < bs.len() && bs[o] == 0x69,
{
    reveal_strlit("TRACE"); lemma_ascii_text("TRACE"@); if starts_with_at(bs, o, lit("TRACE")) { lemma_starts_first(bs, o, lit("TRACE")); }
    reveal_strlit("fail"); lemma_ascii_text("fail"@); if starts_with_at(bs, o, lit("fail")) { lemma_starts_first(bs, o, lit("fail")); }
    reveal_strlit("func"); lemma_ascii_text("func"@); if starts_with_at(bs, o, lit("func")) { lemma_starts_first(bs, o, lit("func")); }
    reveal_strlit("module"); lemma_ascii_text("module"@); if starts_with_at(bs, o, lit("module")) { lemma_starts_first(bs, o, lit("module")); }
    reveal_strlit("let"); lemma_ascii_text("let"@); if starts_with_at(bs, o, lit("let")) { lemma_starts_first(bs, o, lit("let")); }
    reveal_strlit("import"); lemma_ascii_text("import"@); if starts_with_at(bs, o, lit("import")) { lemma_starts_first(bs, o, lit("import")); }
    reveal_strlit("include"); lemma_ascii_text("include"@); if starts_with_at(bs, o, lit("include")) { lemma_starts_first(bs, o, lit("include")); }
}
pub proof fn lemma_first_bytes_7(bs: Seq<u8>, o: int)
    ensures
        starts_with_at(bs, o, lit("assert")) ==> 0 <= o < bs.len() && bs[o] == 0x61,
        starts_with_at(bs, o, lit("out")) ==> 0 <= o < bs.len() && bs[o] == 0x6F,
        starts_with_at(bs, o, lit("constraint")) ==> 0 <= o < bs.len() && bs[o] == 0x63,
        starts_with_at(bs, o, lit("convert")) ==> 0 <= o < bs.len() && bs[o] == 0x63,
        lit("as").len() == 2 && starts_with_at(bs, o, lit("as")) == (0 <= o && o + 2 <= bs.len() && bs[o] == 0x61 && bs[o + 1] == 0x73),
        starts_with_at(bs, o, lit("map")) ==> 0 <= o < bs.len() && bs[o] == 0x6D,
        starts_with_at(bs, o, lit("filter")) ==> 0 <= o < bs.len() && bs[o] == 0x66,
{
    reveal_strlit("assert"); lemma_ascii_text("assert"@); if starts_with_at(bs, o, lit("assert")) { lemma_starts_first(bs, o, lit("assert")); }
    reveal_strlit("out"); lemma_ascii_text("out"@); if starts_with_at(bs, o, lit("out")) { lemma_starts_first(bs, o, lit("out")); }
    reveal_strlit("constraint"); lemma_ascii_text("constraint"@); if starts_with_at(bs, o, lit("constraint")) { lemma_starts_first(bs, o, lit("constraint")); }
    reveal_strlit("convert"); lemma_ascii_text("convert"@); if starts_with_at(bs, o, lit("convert")) { lemma_starts_first(bs, o, lit("convert")); }
    reveal_strlit("as"); lemma_ascii_text("as"@); assert(lit("as") =~= seq![0x61u8, 0x73u8]); lemma_starts_2(bs, o, 0x61, 0x73);
    reveal_strlit("map"); lemma_ascii_text("map"@); if starts_with_at(bs, o, lit("map")) { lemma_starts_first(bs, o, lit("map")); }
    reveal_strlit("filter"); lemma_ascii_text("filter"@); if starts_with_at(bs, o, lit("filter")) { lemma_starts_first(bs, o, lit("filter")); }
}
pub proof fn lemma_first_bytes_8(bs: Seq<u8>, o: int)
    ensures
        starts_with_at(bs, o, lit("reduce")) ==> 0 <= o < bs.len() && bs[o] == 0x72,
        starts_with_at(bs, o, lit("NULL")) ==> 0 <= o < bs.len() && bs[o] == 0x4E,
        starts_with_at(bs, o, lit("true")) ==> 0 <= o < bs.len() && bs[o] == 0x74,
        starts_with_at(bs, o, lit("false")) ==> 0 <= o < bs.len() && bs[o] == 0x66,
{
    reveal_strlit("reduce"); lemma_ascii_text("reduce"@); if starts_with_at(bs, o, lit("reduce")) { lemma_starts_first(bs, o, lit("reduce")); }
    reveal_strlit("NULL"); lemma_ascii_text("NULL"@); if starts_with_at(bs, o, lit("NULL")) { lemma_starts_first(bs, o, lit("NULL")); }
    reveal_strlit("true"); lemma_ascii_text("true"@); if starts_with_at(bs, o, lit("true")) { lemma_starts_first(bs, o, lit("true")); }
    reveal_strlit("false"); lemma_ascii_text("false"@); if starts_with_at(bs, o, lit("false")) { lemma_starts_first(bs, o, lit("false")); }
}
pub proof fn lemma_first_bytes(bs: Seq<u8>, o: int)
    ensures
        starts_with_at(bs, o, lit(",")) == (0 <= o < bs.len() && bs[o] == 0x2C),
        starts_with_at(bs, o, lit("{")) == (0 <= o < bs.len() && bs[o] == 0x7B),
        starts_with_at(bs, o, lit("}")) == (0 <= o < bs.len() && bs[o] == 0x7D),
        starts_with_at(bs, o, lit("(")) == (0 <= o < bs.len() && bs[o] == 0x28),
        starts_with_at(bs, o, lit(")")) == (0 <= o < bs.len() && bs[o] == 0x29),
        lit("..").len() == 2 && starts_with_at(bs, o, lit("..")) == (0 <= o && o + 2 <= bs.len() && bs[o] == 0x2E && bs[o + 1] == 0x2E),
        starts_with_at(bs, o, lit(".")) == (0 <= o < bs.len() && bs[o] == 0x2E),
        starts_with_at(bs, o, lit("+")) == (0 <= o < bs.len() && bs[o] == 0x2B),
        starts_with_at(bs, o, lit("-")) == (0 <= o < bs.len() && bs[o] == 0x2D),
        starts_with_at(bs, o, lit("*")) == (0 <= o < bs.len() && bs[o] == 0x2A),
        starts_with_at(bs, o, lit("/")) == (0 <= o < bs.len() && bs[o] == 0x2F),
        lit("%%").len() == 2 && starts_with_at(bs, o, lit("%%")) == (0 <= o && o + 2 <= bs.len() && bs[o] == 0x25 && bs[o + 1] == 0x25),
        starts_with_at(bs, o, lit("%")) == (0 <= o < bs.len() && bs[o] == 0x25),
        lit("==").len() == 2 && starts_with_at(bs, o, lit("==")) == (0 <= o && o + 2 <= bs.len() && bs[o] == 0x3D && bs[o + 1] == 0x3D),
        lit("!=").len() == 2 && starts_with_at(bs, o, lit("!=")) == (0 <= o && o + 2 <= bs.len() && bs[o] == 0x21 && bs[o + 1] == 0x3D),
        starts_with_at(bs, o, lit("~")) == (0 <= o < bs.len() && bs[o] == 0x7E),
        lit("!~").len() == 2 && starts_with_at(bs, o, lit("!~")) == (0 <= o && o + 2 <= bs.len() && bs[o] == 0x21 && bs[o + 1] == 0x7E),
        starts_with_at(bs, o, lit(">")) == (0 <= o < bs.len() && bs[o] == 0x3E),
        lit(">=").len() == 2 && starts_with_at(bs, o, lit(">=")) == (0 <= o && o + 2 <= bs.len() && bs[o] == 0x3E && bs[o + 1] == 0x3D),
        lit("<=").len() == 2 && starts_with_at(bs, o, lit("<=")) == (0 <= o && o + 2 <= bs.len() && bs[o] == 0x3C && bs[o + 1] == 0x3D),
        starts_with_at(bs, o, lit("<")) == (0 <= o < bs.len() && bs[o] == 0x3C),
        starts_with_at(bs, o, lit("=")) == (0 <= o < bs.len() && bs[o] == 0x3D),
        starts_with_at(bs, o, lit(";")) == (0 <= o < bs.len() && bs[o] == 0x3B),
        lit("::").len() == 2 && starts_with_at(bs, o, lit("::")) == (0 <= o && o + 2 <= bs.len() && bs[o] == 0x3A && bs[o + 1] == 0x3A),
        starts_with_at(bs, o, lit(":")) == (0 <= o < bs.len() && bs[o] == 0x3A),
        starts_with_at(bs, o, lit("[")) == (0 <= o < bs.len() && bs[o] == 0x5B),
        starts_with_at(bs, o, lit("]")) == (0 <= o < bs.len() && bs[o] == 0x5D),
        lit("=>").len() == 2 && starts_with_at(bs, o, lit("=>")) == (0 <= o && o + 2 <= bs.len() && bs[o] == 0x3D && bs[o + 1] == 0x3E),
        lit("&&").len() == 2 && starts_with_at(bs, o, lit("&&")) == (0 <= o && o + 2 <= bs.len() && bs[o] == 0x26 && bs[o + 1] == 0x26),
        lit("||").len() == 2 && starts_with_at(bs, o, lit("||")) == (0 <= o && o + 2 <= bs.len() && bs[o] == 0x7C && bs[o + 1] == 0x7C),
        starts_with_at(bs, o, lit("|")) == (0 <= o < bs.len() && bs[o] == 0x7C),
        starts_with_at(bs, o, lit("select")) ==> 0 <= o < bs.len() && bs[o] == 0x73,
        lit("in").len() == 2 && starts_with_at(bs, o, lit("in")) == (0 <= o && o + 2 <= bs.len() && bs[o] == 0x69 && bs[o + 1] == 0x6E),
        lit("is").len() == 2 && starts_with_at(bs, o, lit("is")) == (0 <= o && o + 2 <= bs.len() && bs[o] == 0x69 && bs[o + 1] == 0x73),
        starts_with_at(bs, o, lit("not")) ==> 0 <= o < bs.len() && bs[o] == 0x6E,
        starts_with_at(bs, o, lit("TRACE")) ==> 0 <= o < bs.len() && bs[o] == 0x54,
        starts_with_at(bs, o, lit("fail")) ==> 0 <= o < bs.len() && bs[o] == 0x66,
        starts_with_at(bs, o, lit("func")) ==> 0 <= o < bs.len() && bs[o] == 0x66,
        starts_with_at(bs, o, lit("module")) ==> 0 <= o < bs.len() && bs[o] == 0x6D,
        starts_with_at(bs, o, lit("let")) ==> 0 <= o < bs.len() && bs[o] == 0x6C,
        starts_with_at(bs, o, lit("import")) ==> 0 <= o < bs.len() && bs[o] == 0x69,
        starts_with_at(bs, o, lit("include")) ==> 0 <= o < bs.len() && bs[o] == 0x69,
        starts_with_at(bs, o, lit("assert")) ==> 0 <= o < bs.len() && bs[o] == 0x61,
        starts_with_at(bs, o, lit("out")) ==> 0 <= o < bs.len() && bs[o] == 0x6F,
        starts_with_at(bs, o, lit("constraint")) ==> 0 <= o < bs.len() && bs[o] == 0x63,
        starts_with_at(bs, o, lit("convert")) ==> 0 <= o < bs.len() && bs[o] == 0x63,
        lit("as").len() == 2 && starts_with_at(bs, o, lit("as")) == (0 <= o && o + 2 <= bs.len() && bs[o] == 0x61 && bs[o + 1] == 0x73),
        starts_with_at(bs, o, lit("map")) ==> 0 <= o < bs.len() && bs[o] == 0x6D,
        starts_with_at(bs, o, lit("filter")) ==> 0 <= o < bs.len() && bs[o] == 0x66,
        starts_with_at(bs, o, lit("reduce")) ==> 0 <= o < bs.len() && bs[o] == 0x72,
        starts_with_at(bs, o, lit("NULL")) ==> 0 <= o < bs.len() && bs[o] == 0x4E,
        starts_with_at(bs, o, lit("true")) ==> 0 <= o < bs.len() && bs[o] == 0x74,
        starts_with_at(bs, o, lit("false")) ==> 0 <= o < bs.len() && bs[o] == 0x66,
{
    lemma_first_bytes_1(bs, o);
    lemma_first_bytes_2(bs, o);
    lemma_first_bytes_3(bs, o);
    lemma_first_bytes_4(bs, o);
    lemma_first_bytes_5(bs, o);
    lemma_first_bytes_6(bs, o);
    lemma_first_bytes_7(bs, o);
    lemma_first_bytes_8(bs, o);
}
// layout: whitespace, comments and the end of the input are recognised wherever they start
pub open spec fn token_layout<'a>(i: OffsetStrIter<'a>, r: Result<OffsetStrIter<'a>, Token>) -> bool {
    let bs = bytes_of(i); let o = off_of(i);
    &&& ws_end(bs, o) != o ==> (r matches Result::Complete(rest, tok) && tok.typ is WS)
    &&& starts_comment(bs, o) ==> (r matches Result::Complete(rest, tok) && tok.typ is COMMENT)
    &&& o >= bs.len() ==> (r matches Result::Complete(rest, tok) && tok.typ is END)
}
pub proof fn lemma_ws_first(bs: Seq<u8>, o: int)
    ensures ws_end(bs, o) != o ==> 0 <= o < bs.len() && (ws_ascii(bs[o]) || bs[o] == 0x85 || bs[o] == 0xA0),
        o >= bs.len() ==> ws_end(bs, o) == o,
{
    if 0 <= o < bs.len() { lemma_ws_dep_set(bs[o]); }
}
// "Adjacent characters always form the longest operator": wherever the input starts with the two-character operator
// `op`, the token IS `op` (not its one-character prefix), whatever follows
pub open spec fn longest_op<'a>(i: OffsetStrIter<'a>, r: Result<OffsetStrIter<'a>, Token>, op: &str) -> bool {
    starts_with_at(bytes_of(i), off_of(i), lit(op)) ==>
        (r matches Result::Complete(rest, tok) && tok.typ is PUNCT && tok.fragment@ == op@ && off_of(rest) == off_of(i) + 2)
}
pub proof fn lemma_subrange_starts(bs: Seq<u8>, o: int, e: int)
    requires 0 <= o <= e <= bs.len()
    ensures starts_with_at(bs, o, bs.subrange(o, e)), bs.subrange(o, e).len() == e - o
{
}

// `token` is one expression: an either! over 57 recognisers.  Its three groups of obligations are discharged on three
// extractions of the SAME function text (the second and third only renamed), so that each SMT query stays small:
//   token           every token has the shape demanded of a token (text, extent, position, progress); never Abort
//   token__layout   whitespace, comments and the end of input are recognised wherever they start
//   token__longest  the longest-operator rule
// In all three the recogniser contracts are used as they stand; `hide` only keeps Z3 from unfolding definitions that the
// step does not need.
//@ extract src/tokenizer/mod.rs :: fn token
//@   ret r
//@   sig <<<
    requires wf_osi(input)
    ensures
        !(r is Abort),
        r matches Result::Complete(rest, tok) ==> token_shape(input, rest, tok),
//@   >>>
//@   body_start <<<
    // every recogniser establishes token_shape itself: here it is only passed on
    hide(token_shape); hide(ws_end); hide(cmt_end); hide(run_end); hide(sep_at); hide(sep_end); hide(cmt_next); hide(sym_at); hide(ws_ascii_end);
//@   >>>
//@ end

//@ extract src/tokenizer/mod.rs :: fn token
//@   subst "fn token<'a>" => "fn token__layout<'a>"
//@   ret r
//@   sig <<<
    requires wf_osi(input)
    ensures token_layout(input, r)
//@   >>>
//@   body_start <<<
    hide(token_shape); hide(ws_end); hide(cmt_end); hide(run_end); hide(sep_at); hide(sep_end); hide(cmt_next); hide(sym_at); hide(ws_ascii_end);
//@   >>>
//@   before "either!(" <<<
    proof {
        let bs = bytes_of(input); let o = off_of(input);
        lemma_first_bytes(bs, o);
        lemma_ws_first(bs, o);
    }
//@   >>>
//@   mutant slash_before_comment "comment, slashtok," => "slashtok, comment," expect token__layout
//@   mutant whitespace_not_a_token "barewordtok, whitespace, end_of_input" => "barewordtok, end_of_input" expect token__layout
//@ end

//@ extract src/tokenizer/mod.rs :: fn token
//@   subst "fn token<'a>" => "fn token__longest<'a>"
//@   ret r
//@   sig <<<
    requires wf_osi(input)
    ensures
        longest_op(input, r, "=="), longest_op(input, r, "=>"), longest_op(input, r, ">="), longest_op(input, r, "<="),
        longest_op(input, r, ".."), longest_op(input, r, "::"), longest_op(input, r, "&&"), longest_op(input, r, "||"),
        longest_op(input, r, "%%"), longest_op(input, r, "!="), longest_op(input, r, "!~"),
//@   >>>
//@   body_start <<<
    hide(token_shape); hide(ws_end); hide(cmt_end); hide(run_end); hide(sep_at); hide(sep_end); hide(cmt_next); hide(sym_at); hide(ws_ascii_end);
//@   >>>
//@   before "either!(" <<<
    proof { lemma_first_bytes(bytes_of(input), off_of(input)); }
//@   >>>
//@   mutant eq_before_eqeq "eqeqtok, notequaltok," => "equaltok, eqeqtok, notequaltok," expect token__longest
//@   mutant dot_before_dotdot "dotdottok, dottok," => "dottok, dotdottok," expect token__longest
//@   mutant pipe_before_or "ortok, pipetok," => "pipetok, ortok," expect token__longest
//@   mutant gt_before_ge "complete!(\"Not >=\".to_string(), gtequaltok)," => "gttok, complete!(\"Not >=\".to_string(), gtequaltok)," expect token__longest
//@   mutant colon_before_dcolon "doublecolontok, colontok," => "colontok, doublecolontok," expect token__longest
//@ end

} // verus!

fn main() {}
