//@ unit link_ops
//@ serves C09 C16 C13
//@ must_verify FileBuilder::link_ops FileBuilder::build Environment::reset_out_locks Environment::reset_out_lock_for_path Error::with_pos lemma_reachable_closed lemma_import_is_reachable lemma_pending_push lemma_pending_pop lemma_logged_push lemma_found_one_more lemma_linked_set_is_the_reachable_set
//@ include prelude/head.rs
use std::rc::Rc;

// C09 / C16 - the first steps of building one file: `FileBuilder::build` and `FileBuilder::link_ops` (build/mod.rs),
// `Environment::{reset_out_locks, reset_out_lock_for_path}` (opcode/environment.rs), `Error::with_pos`
// (opcode/error.rs) - all verbatim.  `Environment::get_ops_for_path` (PROVED in unit env_caches) and
// `FileBuilder::eval_ops` (link_ops + the VM) are ASSUMED-contract stubs on their real signatures.
//
// Model (prelude/env_caches_world.rs + prelude/link_ops_world.rs, trusted): R11 `&RefCell<Environment>` -> `&mut
// Environment` (`link_ops(&self)` therefore becomes `&mut self`); paths are their text, `crate::path::normalize` and
// `Path::parent` are UNINTERPRETED functions of it; what loading a path yields is a function of the path for the whole
// run (`spec_file_ops`, `spec_load_error`); `OpsMap.links` is the vector of its entries in iteration order; ghost
// history `lookups` (every path get_ops_for_path was called with) and `evals` (every evaluation eval_ops started, with
// the output locks held at that moment).
//
// Contract of link_ops (link_post), with `reachable(root)` the LEAST set of normalised paths that contains the
// normalised imports of the file and, with every loadable path, the normalised imports of its file:
//   * terminates - UNDER THE HYPOTHESIS `reachable(root).finite()` (the requires clause): normalisation maps what is
//     transitively linked into finitely many paths.  (Without normalisation this fails for an import cycle through
//     `..`: the defect fixed by 3b19e40; with a symlink cycle it fails in reality too, until the OS refuses the name.)
//   * every path looked up is in reachable(root): it was NORMALISED before get_ops_for_path saw it, and it is
//     transitively linked; no path is looked up twice (so the `found` test is made on the normalised path);
//   * an error of get_ops_for_path stops the linking (it is the LAST lookup) and is returned with its position replaced
//     by the position of an import expression that names the failing path;
//   * Ok: every lookup succeeded and EVERY path of reachable(root) was looked up (whole view: the lookups of the
//     call are an enumeration without repetition of exactly reachable(root) - lemma_linked_set_is_the_reachable_set);
//   * frame: output locks, evaluation history untouched.
// Contract of build (build_post): working_dir := parent of the file; EVERY output lock is released BEFORE the file is
// loaded / evaluated (observable: the evaluation starts with no lock held - EvalRec.locks_at_start - and the lock set
// is empty even when loading fails); the file itself is loaded under the path given; Ok iff loading and evaluation
// succeed; an evaluation error comes back wrapped (SimpleError).
// Precondition of build: the path has a parent (`file.parent().unwrap()`; main.rs hands in cwd-joined paths).
verus! {
//@ include prelude/core.rs
//@ opaque Position Op Shape Val FileBuilderRest
//@ clone_spec Position

//@ include prelude/env_caches_world.rs

// ---------- opcode/error.rs ----------
//@ extract src/build/opcode/error.rs :: struct Error
//@   rule R0 RV
//@ end
pub open spec fn positioned(e: Error, pos: Position) -> Error { Error { pos: Some(pos), ..e } }
//@ extract src/build/opcode/error.rs :: impl Error :: fn with_pos
//@   rule R4
//@   ret r
//@   sig <<<
        ensures r == positioned(self, pos)
//@   >>>
//@   mutant with_pos_drops_pos "self.pos = Some(pos);" => "self.pos = None;" expect with_pos
//@ end

// ---------- opcode/translate.rs, opcode/pointer.rs: a compiled file and the handle to it ----------
//@ extract src/build/opcode/translate.rs :: struct OpsMap
//@   rule R0
// R5: the BTreeMap of imports as the vector of its entries, in the order `for (link, pos) in &links` visits them
//@   subst "links: BTreeMap<Rc<str>, Position>" => "links: Vec<(Rc<str>, Position)>"
//@ end
//@ extract src/build/opcode/pointer.rs :: struct OpPointer
//@   rule R0
//@ end

//@ include prelude/link_ops_world.rs

// ---------- opcode/environment.rs ----------
//@ extract src/build/opcode/environment.rs :: impl * Environment<Stdout, Stderr> :: fn reset_out_locks
//@   impl_header impl Environment
//@   rule R0
//@   sig <<<
        ensures
            final(self).out_lock@ == Set::<Seq<char>>::empty(),
            final(self).rest == old(self).rest, final(self).lookups == old(self).lookups, final(self).evals == old(self).evals,
//@   >>>
//@   mutant reset_keeps_locks "self.out_lock.clear();" => "" expect reset_out_locks
//@ end
//@ extract src/build/opcode/environment.rs :: impl * Environment<Stdout, Stderr> :: fn reset_out_lock_for_path
//@   impl_header impl Environment
//@   subst "<P: AsRef<Path>>" => "<P: VAsRefPath>"
//@   sig <<<
        ensures
            final(self).out_lock@ == old(self).out_lock@.remove(path.pview()),
            final(self).rest == old(self).rest, final(self).lookups == old(self).lookups, final(self).evals == old(self).evals,
//@   >>>
//@ end
// Environment::get_ops_for_path (R8; read + parse + type check + translate behind the op cache - PROVED in unit
// env_caches: `ops_post`, lemma L0 "a lookup equals a fresh computation for the same key").  ASSUMED here: the outcome
// is the function `spec_file_ops` / `spec_load_error` of the path; the call is logged; locks and evaluations untouched.
//@ extract src/build/opcode/environment.rs :: impl * Environment<Stdout, Stderr> :: fn get_ops_for_path
//@   impl_header impl Environment
//@   subst "P: Into<PathBuf> + Clone," => "P: vinto::VIntoPathBuf + Clone,"
//@   opaque_body
//@   ret r
//@   sig <<<
        ensures
            final(self).lookups@ == old(self).lookups@.push(path.pview()),
            final(self).out_lock == old(self).out_lock, final(self).evals == old(self).evals,
            match spec_file_ops(path.pview()) {
                Some(o) => r matches Ok(p) && *p.pos_map == o,
                None => r matches Err(e) && e == spec_load_error(path.pview()),
            },
//@   >>>
//@ end

// ---------- FileBuilder (build/mod.rs) ----------
// R11 stand-in: `environment: &RefCell<Environment>` becomes `&mut Environment`; the fields build/link_ops do not look
// at (std, import_path) are folded into `rest`.
pub struct FileBuilder<'a> {
    pub environment: &'a mut Environment,
    pub working_dir: PathBuf,
    pub strict: bool,
    pub last: Option<Rc<Val>>,
    pub out: Option<Rc<Val>>,
    pub validate_mode: bool,
    pub rest: FileBuilderRest,
}
//@ extract src/build/mod.rs :: type BuildResult
//@   rule R0
//@   subst "Box<dyn Error>>" => "VBoxErr>"
//@ end

pub open spec fn root_of(ops: &OpPointer) -> OpsMap { *ops.pos_map }
// THE CONTRACT of linking the compiled file `root`.
pub open spec fn link_post(root: OpsMap, e0: Environment, e1: Environment, r: BuildResult) -> bool {
    let n0 = e0.lookups@.len() as int;
    let n1 = e1.lookups@.len() as int;
    &&& extends(e0.lookups@, e1.lookups@)
    &&& e1.out_lock == e0.out_lock && e1.evals == e0.evals
    // only NORMALISED, transitively linked paths are looked up ...
    &&& forall|j: int| n0 <= j < n1 ==> reachable(root).contains(#[trigger] e1.lookups@[j])
    // ... each at most once ...
    &&& forall|i: int, j: int| n0 <= i < j < n1 ==> #[trigger] e1.lookups@[i] != #[trigger] e1.lookups@[j]
    // ... and every lookup but the last one succeeded
    &&& forall|j: int| n0 <= j < n1 - 1 ==> spec_file_ops(#[trigger] e1.lookups@[j]) is Some
    &&& match r {
        Ok(_) => {
            // the last one too, and EVERY transitively linked path was looked up
            &&& n1 > n0 ==> spec_file_ops(e1.lookups@[n1 - 1]) is Some
            &&& forall|p: Seq<char>| #[trigger] reachable(root).contains(p) ==> logged(e1.lookups@, n0, p)
        },
        Err(b) => {
            // the last lookup failed and stopped the linking; its error comes back positioned at an import
            // expression (of the file or of a transitively linked file) that names the failing path
            &&& n1 > n0 && spec_file_ops(e1.lookups@[n1 - 1]) is None
            &&& exists|l: Seq<char>, pos: Position| #[trigger] is_import(root, l, pos) && spec_normalize(l) == e1.lookups@[n1 - 1]
                    && b == VBoxErr::Op(positioned(spec_load_error(e1.lookups@[n1 - 1]), pos))
        },
    }
}
// the link-closure invariant with the entries from index `idx` on of the file `px` exempted (they are being pushed)
pub open spec fn closed_except(root: OpsMap, found: ISet<Seq<char>>, ls: Seq<(Rc<str>, Position)>, px: Seq<char>, idx: int) -> bool {
    &&& forall|k: int| 0 <= k < root.links@.len() ==> {
            let q = spec_normalize((#[trigger] root.links@[k]).0@);
            found.contains(q) || pending(ls, q)
        }
    &&& forall|p: Seq<char>, k: int| #![trigger spec_file_ops(p)->Some_0.links@[k]]
            found.contains(p) && spec_file_ops(p) is Some && 0 <= k < spec_file_ops(p)->Some_0.links@.len()
            && !(p == px && k >= idx) ==> {
            let q = spec_normalize(spec_file_ops(p)->Some_0.links@[k].0@);
            found.contains(q) || pending(ls, q)
        }
}
impl<'a> FileBuilder<'a> {
    // FileBuilder::eval_ops (R8: link_ops - under contract below - then the VM).  ASSUMED: it is ONE evaluation, logged
    // with what is evaluated, the path label, the working directory, the output locks held when it starts and whether
    // it succeeded; it may look up further files (imports) and change locks, caches, `out`; it keeps the builder's
    // configuration.
    #[verifier::external_body]
    pub fn eval_ops(&mut self, ops: OpPointer, path: Option<PathBuf>) -> (r: BuildResult)
        ensures
            final(self).environment.evals@ == old(self).environment.evals@.push(EvalRec {
                ops: *ops.pos_map,
                path: match path { Some(p) => Some(p@), None => None },
                working_dir: old(self).working_dir@,
                locks_at_start: old(self).environment.out_lock@,
                ok: r is Ok,
            }),
            extends(old(self).environment.lookups@, final(self).environment.lookups@),
            *final(final(self).environment) == *final(old(self).environment),
            final(self).working_dir == old(self).working_dir, final(self).strict == old(self).strict,
            final(self).validate_mode == old(self).validate_mode, final(self).last == old(self).last,
    { unimplemented!() }
}

//@ extract src/build/mod.rs :: impl * FileBuilder<'a, Stdout, Stderr> * :: fn link_ops
//@   impl_header impl<'a> FileBuilder<'a>
// R11: the RefCell's interior mutability becomes an exclusive borrow of the builder
//@   subst "fn link_ops(&self," => "fn link_ops(&mut self,"
//@   subst? ".to_string_lossy() .into()" => ".verif_to_rcstr()"
//@   subst? "Box::new" => "vbox"
//@   mutant normalisation_dropped "crate::path::normalize(PathBuf::from(link.as_ref()))" => "PathBuf::from(link.as_ref())" expect link_ops
//@   mutant found_checked_before_normalising "let link: Rc<str> = crate::path::normalize(PathBuf::from(link.as_ref())) .to_string_lossy() .into(); if found.contains(&link) { continue; }" => "if found.contains(&link) { continue; } let link: Rc<str> = crate::path::normalize(PathBuf::from(link.as_ref())) .to_string_lossy() .into();" expect link_ops
//@   mutant error_position_dropped "Box::new(e.with_pos(path_pos))" => "Box::new(e)" expect link_ops
//@   mutant error_does_not_stop_linking "Err(e) => return Err(Box::new(e.with_pos(path_pos)))," => "Err(e) => { continue; }" expect link_ops
//@   mutant found_never_filled "found.insert(link);" => "" expect link_ops
//@   mutant imports_of_imports_not_linked "found.insert(link); for (link, pos) in &ops.pos_map.links { links.push((link.clone(), pos.clone())); }" => "found.insert(link); for (link, pos) in &ops.pos_map.links { let _ = (link, pos); }" expect link_ops
//@   mutant error_positioned_at_first_import "let mut found = BTreeSet::new();" => "let mut found = BTreeSet::new(); let first_pos = links[0].1.clone();" expect link_ops
//@   ret r
//@   sig <<<
        requires
            // HYPOTHESIS of termination: normalisation maps what is transitively linked into finitely many paths
            reachable(*ops.pos_map).finite(),
        ensures
            link_post(*ops.pos_map, *old(self).environment, *final(self).environment, r),
            final(self).working_dir == old(self).working_dir, final(self).strict == old(self).strict,
            final(self).validate_mode == old(self).validate_mode, final(self).last == old(self).last,
            final(self).out == old(self).out, final(self).rest == old(self).rest,
//@   >>>
//@   body_start <<<
        let ghost root = root_of(ops);
        let ghost n0 = old(self).environment.lookups@.len() as int;
        proof { lemma_reachable_closed(root); }
//@   >>>
//@   loop 1 iter it1 <<<
            invariant
                root == *ops.pos_map,
                links@.len() == it1.index@,
                it1.seq().len() == root.links@.len(),
                forall|i: int| #![trigger links@[i]] #![trigger root.links@[i]] 0 <= i < links@.len() ==> links@[i] == root.links@[i],
//@   >>>
//@   loop 2 <<<
            invariant
                root == *ops.pos_map,
                n0 == old(self).environment.lookups@.len(),
                reachable(root).finite(),
                link_closed(root, reachable(root)),
                // frame
                extends(old(self).environment.lookups@, self.environment.lookups@),
                self.environment.out_lock == old(self).environment.out_lock, self.environment.evals == old(self).environment.evals,
                self.working_dir == old(self).working_dir, self.strict == old(self).strict,
                self.validate_mode == old(self).validate_mode, self.last == old(self).last,
                self.out == old(self).out, self.rest == old(self).rest,
                // the worklist holds import expressions of the file or of transitively linked files
                forall|i: int| 0 <= i < links@.len() ==> is_import(root, (#[trigger] links@[i]).0@, links@[i].1),
                // `found` is exactly what was looked up so far; all of it is reachable and loaded, nothing twice
                forall|j: int| n0 <= j < self.environment.lookups@.len() ==> found@.contains(#[trigger] self.environment.lookups@[j]),
                forall|p: Seq<char>| #[trigger] found@.contains(p) ==> logged(self.environment.lookups@, n0, p) && reachable(root).contains(p),
                forall|j: int| n0 <= j < self.environment.lookups@.len() ==> spec_file_ops(#[trigger] self.environment.lookups@[j]) is Some,
                forall|i: int, j: int| n0 <= i < j < self.environment.lookups@.len()
                    ==> #[trigger] self.environment.lookups@[i] != #[trigger] self.environment.lookups@[j],
                // what is found is link-closed up to what is still on the worklist
                closed_up_to(root, found@, links@),
            ensures
                links@.len() == 0,
            decreases reachable(root).difference(found@).len(), links@.len()
//@   >>>
//@   after_loop 2 <<<
        proof {
            // the worklist is empty: what was found is link-closed, hence contains the LEAST link-closed set
            assert(link_closed(root, found@));
            assert forall|p: Seq<char>| #[trigger] reachable(root).contains(p) implies found@.contains(p) by { }
        }
//@   >>>
//@   loop 3 iter it3 <<<
                invariant
                    it3.seq().len() == ops.pos_map.links@.len(),
                    n0 == old(self).environment.lookups@.len(),
                    n0 < self.environment.lookups@.len(),
                    spec_file_ops(self.environment.lookups@.last()) is Some,
                    spec_file_ops(self.environment.lookups@.last())->Some_0 == *ops.pos_map,
                    found@.contains(self.environment.lookups@.last()),
                    reachable(root).contains(self.environment.lookups@.last()),
                    link_closed(root, reachable(root)),
                    forall|i: int| 0 <= i < links@.len() ==> is_import(root, (#[trigger] links@[i]).0@, links@[i].1),
                    closed_except(root, found@, links@, self.environment.lookups@.last(), it3.index@ as int),
//@   >>>
//@ end

// THE CONTRACT of building one file.
pub open spec fn build_post(b0: FileBuilder, b1: FileBuilder, file: Seq<char>, r: BuildResult) -> bool {
    let e0 = *b0.environment;
    let e1 = *b1.environment;
    let n0 = e0.lookups@.len() as int;
    // the builder works in the file's directory; its configuration is kept
    &&& Some(b1.working_dir@) == spec_parent(file)
    &&& b1.strict == b0.strict && b1.validate_mode == b0.validate_mode
    // the file is loaded under the path given, first
    &&& extends(e0.lookups@, e1.lookups@) && e1.lookups@.len() > n0 && e1.lookups@[n0] == file
    &&& extends(e0.evals@, e1.evals@)
    &&& match spec_file_ops(file) {
        // it cannot be loaded: an error; nothing is evaluated; and no output lock is held any more
        // (WHICH error is not claimed: Verus has no specification for the `From` conversion the `?` operator applies)
        None => {
            &&& r is Err
            &&& e1.evals@ == e0.evals@ && e1.lookups@ == e0.lookups@.push(file)
            &&& e1.out_lock@ == Set::<Seq<char>>::empty()
        },
        // it is evaluated, once: labelled with its path, in its directory, STARTING WITH NO OUTPUT LOCK HELD -
        // whatever the files built before it left locked
        Some(o) => {
            &&& e1.evals@.len() == e0.evals@.len() + 1
            &&& e1.evals@.last().ops == o
            &&& e1.evals@.last().path == Some(file)
            &&& Some(e1.evals@.last().working_dir) == spec_parent(file)
            &&& e1.evals@.last().locks_at_start == Set::<Seq<char>>::empty()
            // THE RESULT: Ok exactly when the evaluation succeeded; then `last` is the file's value
            &&& r is Ok == e1.evals@.last().ok
            &&& r is Ok ==> b1.last == b1.out
            &&& r matches Err(b) ==> b is Simple
        },
    }
}

//@ extract src/build/mod.rs :: impl * FileBuilder<'a, Stdout, Stderr> * :: fn build
//@   impl_header impl<'a> FileBuilder<'a>
//@   rule R0 R1
//@   subst "<P: Into<PathBuf>>" => "<P: vinto::VIntoPathBuf>"
//@   subst? "Box::new" => "vbox"
//@   mutant locks_reset_after_the_build "self.environment.borrow_mut().reset_out_locks(); let ptr = self.environment.borrow_mut().get_ops_for_path(&file)?; let eval_result = self.eval_ops(ptr, Some(file.clone()));" => "let ptr = self.environment.borrow_mut().get_ops_for_path(&file)?; let eval_result = self.eval_ops(ptr, Some(file.clone())); self.environment.borrow_mut().reset_out_locks();" expect build
//@   mutant only_this_files_lock_reset "self.environment.borrow_mut().reset_out_locks();" => "self.environment.borrow_mut().reset_out_lock_for_path(&file);" expect build
//@   mutant locks_reset_after_loading "self.environment.borrow_mut().reset_out_locks(); let ptr = self.environment.borrow_mut().get_ops_for_path(&file)?;" => "let ptr = self.environment.borrow_mut().get_ops_for_path(&file)?; self.environment.borrow_mut().reset_out_locks();" expect build
//@   mutant working_dir_not_set "self.working_dir = file.parent().unwrap().to_path_buf();" => "let _ = file.parent().unwrap().to_path_buf();" expect build
//@   mutant eval_error_swallowed "Err(Box::new(err))" => "{ let _ = err; Ok(()) }" expect build
//@   mutant unlabelled_evaluation "self.eval_ops(ptr, Some(file.clone()))" => "self.eval_ops(ptr, None)" expect build
//@   ret r
//@   sig <<<
        requires
            // `file.parent().unwrap()`: main.rs hands in a path joined to the working directory
            spec_parent(file.pview()) is Some,
        ensures
            build_post(*old(self), *final(self), file.pview(), r),
//@   >>>
//@   body_start <<<
        // std: cloning an Rc is a pointer copy (`self.out.clone()`)
        broadcast use clax::group_clone_axioms;
//@   >>>
//@ end

// ---------- the property's clause, read off the contract ----------
// "on Ok every transitively linked normalized path is in `found`", whole view: after a successful link_ops the set of
// paths looked up during the call IS reachable(root), every one of them loaded, none looked up twice.
pub proof fn lemma_linked_set_is_the_reachable_set(root: OpsMap, e0: Environment, e1: Environment)
    requires link_post(root, e0, e1, Ok(())),
    ensures
        forall|p: Seq<char>| reachable(root).contains(p) <==> logged(e1.lookups@, e0.lookups@.len() as int, p),
        forall|p: Seq<char>| #[trigger] reachable(root).contains(p) ==> spec_file_ops(p) is Some,
{
    let n0 = e0.lookups@.len() as int;
    let n1 = e1.lookups@.len() as int;
    assert forall|p: Seq<char>| #[trigger] reachable(root).contains(p) implies spec_file_ops(p) is Some by {
        let j = choose|j: int| n0 <= j < e1.lookups@.len() && #[trigger] e1.lookups@[j] == p;
        if j < n1 - 1 { } else { assert(j == n1 - 1); }
    }
}

} // verus!

fn main() {}
