//@ unit out_hook
//@ serves C14 C03
//@ must_verify Builtins::out Builtins::convert Environment::get_out_lock_for_path Environment::set_out_lock_for_path Environment::stdout ConverterRegistry::get_converter JsonConverter::file_ext EnvConverter::file_ext FlagConverter::file_ext ExecConverter::file_ext YamlConverter::file_ext MultiYamlConverter::file_ext TomlConverter::file_ext XmlConverter::file_ext VDynConverter::file_ext lemma_artifact_has_the_bytes_of_convert lemma_failed_conversion_leaves_fs lemma_second_out_is_an_error
// C14 — `out` writes one artifact: right name, same bytes as `convert`, all or nothing (DESIGN §5, §6).
//
// Verified text: Builtins::out, Builtins::convert (opcode/runtime.rs), Environment::{get,set}_out_lock_for_path,
// Environment::stdout (opcode/environment.rs), ConverterRegistry::get_converter (convert/mod.rs), every
// converter's file_ext — all extracted.  Model (prelude/out_hook_world.rs + below, all trusted):
//   * R12: the file system / stdout are the ghost state of an extra parameter `world: &mut World`
//     (fs: Map<path text, bytes>); File::create(p) = fs.insert(p, []), write_all = append; an I/O error of
//     create/write sets world.io_err and leaves fs unconstrained (outside the property).
//   * R11: `&RefCell<Environment>` -> `&mut Environment` (`out`) / `&Environment` (`convert` only borrows).
//   * `dyn Converter` -> closed sum VDynConverter; Converter::convert is ASSUMED to be a function
//     conv_bytes(converter, value) -> Some(bytes) | None whose only effect is on the writer it is given, and
//     which on failure may already have written anything (worst case).
// Genuine defect found by clause (3) (conversion fails => fs' == fs): on the pinned tree File::create precedes
// the conversion; `out toml {a = NULL};` next to an existing h.toml leaves h.toml truncated to 0 bytes (and
// creates an empty h.toml when there was none).  Fixed by /scratch/patches/out_hook.patch (convert into a
// Vec<u8>, then create + write_all).  This unit is written against the FIXED text; the seeded mutant
// `create_before_convert` is the pinned tree's order and is rejected at exactly the exit "conversion failed".
// On the unfixed tree the unit is UNDECIDED (the anchor `writer.write_all(&buf)` does not exist there).
//@ include prelude/head.rs
use std::rc::Rc;
use std::fmt::Debug;
use vstd::std_specs::convert::*;

verus! {
//@ include prelude/core.rs
//@ include prelude/vm_types.rs
//@ include prelude/out_hook_world.rs

// ---------- neighbours of the hook that it only passes around (R5) ----------
//@ opaque Val Shape ImporterRegistry AssertCollector VConvError
pub mod cache {
    use super::*;
    #[verifier::external_body]
    pub struct Ops { _p: u8 }
}

// `impl From<Rc<Value>> for Val` (opcode/convert.rs) is outside the unit: the lowering of a VM value to the
// IR value handed to converters is an uninterpreted function of the value.
pub uninterp spec fn lower(v: Value) -> Val;
impl From<Rc<Value>> for Val {
    #[verifier::external_body]
    fn from(v: Rc<Value>) -> (r: Val) ensures r == lower(*v) { unimplemented!() }
}
impl FromSpecImpl<Rc<Value>> for Val {
    open spec fn obeys_from_spec() -> bool { true }
    open spec fn from_spec(v: Rc<Value>) -> Val { lower(*v) }
}
// `impl From<std::io::Error> for Error` (opcode/error.rs): used by `?` on I/O results.
impl From<IoError> for Error {
    #[verifier::external_body]
    fn from(e: IoError) -> (r: Error) { unimplemented!() }
}

// ---------- the converters: structs and `file_ext` verbatim ----------
//@ extract src/convert/json.rs :: struct JsonConverter
//@   rule R0
//@ end
//@ extract src/convert/env.rs :: struct EnvConverter
//@   rule R0
//@ end
//@ extract src/convert/flags.rs :: struct FlagConverter
//@   rule R0 RV
//@ end
//@ extract src/convert/exec.rs :: struct ExecConverter
//@   rule R0
//@ end
//@ extract src/convert/yaml.rs :: struct YamlConverter
//@   rule R0
//@ end
//@ extract src/convert/yamlmulti.rs :: struct MultiYamlConverter
//@   rule R0
//@ end
//@ extract src/convert/toml.rs :: struct TomlConverter
//@   rule R0
//@ end
//@ extract src/convert/xml.rs :: struct XmlConverter
//@   rule R0
//@ end

//@ extract src/convert/json.rs :: impl Converter for JsonConverter :: fn file_ext
//@   impl_header impl JsonConverter
//@   subst "String::from" => "verif_string_from"
//@   ret r
//@   sig <<<
        ensures r@ == "json"@
//@   >>>
//@ end
//@ extract src/convert/env.rs :: impl Converter for EnvConverter :: fn file_ext
//@   impl_header impl EnvConverter
//@   subst "String::from" => "verif_string_from"
//@   ret r
//@   sig <<<
        ensures r@ == "env"@
//@   >>>
//@ end
//@ extract src/convert/flags.rs :: impl Converter for FlagConverter :: fn file_ext
//@   impl_header impl FlagConverter
//@   subst "String::from" => "verif_string_from"
//@   ret r
//@   sig <<<
        ensures r@ == "txt"@
//@   >>>
//@ end
//@ extract src/convert/exec.rs :: impl Converter for ExecConverter :: fn file_ext
//@   impl_header impl ExecConverter
//@   subst "String::from" => "verif_string_from"
//@   ret r
//@   sig <<<
        ensures r@ == "sh"@
//@   >>>
//@ end
//@ extract src/convert/yaml.rs :: impl Converter for YamlConverter :: fn file_ext
//@   impl_header impl YamlConverter
//@   subst "String::from" => "verif_string_from"
//@   ret r
//@   sig <<<
        ensures r@ == "yaml"@
//@   >>>
//@ end
//@ extract src/convert/yamlmulti.rs :: impl Converter for MultiYamlConverter :: fn file_ext
//@   impl_header impl MultiYamlConverter
//@   ret r
//@   sig <<<
        ensures r@ == "yaml"@
//@   >>>
//@ end
//@ extract src/convert/toml.rs :: impl Converter for TomlConverter :: fn file_ext
//@   impl_header impl TomlConverter
//@   subst "String::from" => "verif_string_from"
//@   ret r
//@   sig <<<
        ensures r@ == "toml"@
//@   >>>
//@ end
//@ extract src/convert/xml.rs :: impl Converter for XmlConverter :: fn file_ext
//@   impl_header impl XmlConverter
//@   subst "String::from" => "verif_string_from"
//@   ret r
//@   sig <<<
        ensures r@ == "xml"@
//@   >>>
//@ end

// `dyn traits::Converter`: the closed sum of its implementors (all that `make_registry` registers)
// instead of a vtable; the two methods the hooks call dispatch on the variant.
pub enum VDynConverter {
    Json(JsonConverter), Env(EnvConverter), Flags(FlagConverter), Exec(ExecConverter),
    Yaml(YamlConverter), YamlMulti(MultiYamlConverter), Toml(TomlConverter), Xml(XmlConverter),
}

// The extension each format is documented to produce (reference/converters.md, `ucg converters`).
pub open spec fn format_ext(c: VDynConverter) -> Seq<char> {
    match c {
        VDynConverter::Json(_) => "json"@,
        VDynConverter::Env(_) => "env"@,
        VDynConverter::Flags(_) => "txt"@,
        VDynConverter::Exec(_) => "sh"@,
        VDynConverter::Yaml(_) => "yaml"@,
        VDynConverter::YamlMulti(_) => "yaml"@,
        VDynConverter::Toml(_) => "toml"@,
        VDynConverter::Xml(_) => "xml"@,
    }
}

// ASSUMED (DESIGN §4.4): `Converter::convert` is a deterministic FUNCTION of (converter, value): it either
// yields the bytes `Some(b)` or fails (`None`). Its only effect is on the writer it was given: on success
// exactly `b` is appended, on failure ANY bytes may have been appended before the error (worst case).
pub uninterp spec fn conv_bytes(c: VDynConverter, v: Val) -> Option<Seq<u8>>;

impl VDynConverter {
    pub fn file_ext(&self) -> (r: String)
        ensures r@ == format_ext(*self)
    {
        match self {
            VDynConverter::Json(c) => c.file_ext(),
            VDynConverter::Env(c) => c.file_ext(),
            VDynConverter::Flags(c) => c.file_ext(),
            VDynConverter::Exec(c) => c.file_ext(),
            VDynConverter::Yaml(c) => c.file_ext(),
            VDynConverter::YamlMulti(c) => c.file_ext(),
            VDynConverter::Toml(c) => c.file_ext(),
            VDynConverter::Xml(c) => c.file_ext(),
        }
    }

    // `convert(vs, &mut buf)` with a byte buffer as the writer
    #[verifier::external_body]
    pub fn convert(&self, vs: Rc<Val>, w: &mut Vec<u8>) -> (r: Result<(), VConvError>)
        ensures
            match conv_bytes(*self, *vs) {
                Some(b) => r is Ok && final(w)@ == old(w)@ + b,
                None => r is Err && old(w)@.is_prefix_of(final(w)@),
            },
    { unimplemented!() }

    // `convert(vs, &mut writer)` with a boxed file/stdout writer (only used by the seeded mutant that
    // restores the create-then-convert order)
    #[verifier::external_body]
    pub fn convert_to_writer(&self, vs: Rc<Val>, w: &mut VBoxDynWrite, world: &mut World) -> (r: Result<(), VConvError>)
        ensures
            *final(w) == *old(w),
            final(world).io_err@ == old(world).io_err@,
            match conv_bytes(*self, *vs) {
                Some(b) => r is Ok && world_appended(*old(w), *old(world), *final(world), b),
                None => r is Err && exists|junk: Seq<u8>| world_appended(*old(w), *old(world), *final(world), junk),
            },
    { unimplemented!() }
}

// HashMap<String, Box<dyn Converter>>: a finite map from format names to converters.
#[verifier::external_body]
#[verifier::accept_recursive_types(K)]
#[verifier::accept_recursive_types(V)]
pub struct HashMap<K, V> { _k: core::marker::PhantomData<(K, V)> }
impl View for HashMap<String, Box<VDynConverter>> {
    type V = Map<Seq<char>, VDynConverter>;
    uninterp spec fn view(&self) -> Map<Seq<char>, VDynConverter>;
}
impl HashMap<String, Box<VDynConverter>> {
    #[verifier::external_body]
    pub fn get(&self, k: &str) -> (r: Option<&Box<VDynConverter>>)
        ensures match r {
            Some(b) => self@.contains_key(k@) && **b == self@[k@],
            None => !self@.contains_key(k@),
        }
    { unimplemented!() }
}

//@ extract src/convert/mod.rs :: struct ConverterRegistry
//@   rule R0 RV
//@   subst "dyn traits::Converter" => "VDynConverter"
//@ end

pub open spec fn lookup(reg: ConverterRegistry, name: Seq<char>) -> Option<VDynConverter> {
    if reg.converters@.contains_key(name) { Some(reg.converters@[name]) } else { None }
}

//@ extract src/convert/mod.rs :: impl ConverterRegistry :: fn get_converter
//@   subst "dyn traits::Converter" => "VDynConverter"
//@   subst "|c| c.as_ref()" => "|c: &Box<VDynConverter>| -> (r: &VDynConverter) ensures r == &**c { c.as_ref() }"
//@   ret r
//@   sig <<<
        ensures
            match r { Some(c) => lookup(*self, typ@) == Some(*c), None => lookup(*self, typ@) is None },
//@   >>>
//@ end

// ---------- the shared environment ----------
//@ extract src/build/opcode/environment.rs :: struct Environment
//@   rule R0
//@   subst "Environment<Stdout, Stderr> where Stdout: Write + Clone, Stderr: Write + Clone," => "Environment"
//@ end

// everything but the output lock
pub open spec fn env_frame(a: Environment, b: Environment) -> bool {
    a.val_cache == b.val_cache && a.shape_cache == b.shape_cache && a.op_cache == b.op_cache
    && a.converter_registry == b.converter_registry && a.importer_registry == b.importer_registry
    && a.assert_results == b.assert_results && a.stdout == b.stdout && a.stderr == b.stderr
    && a.env_vars == b.env_vars
}

//@ extract src/build/opcode/environment.rs :: impl * Environment<Stdout, Stderr> :: fn get_out_lock_for_path
//@   impl_header impl Environment
//@   subst "<P: AsRef<Path>>" => "<P: VAsRefPath>"
//@   ret r
//@   sig <<<
        ensures r == self.out_lock@.contains(path.pview())
//@   >>>
//@ end
//@ extract src/build/opcode/environment.rs :: impl * Environment<Stdout, Stderr> :: fn set_out_lock_for_path
//@   impl_header impl Environment
//@   subst "<P: Into<PathBuf>>" => "<P: vinto::VIntoPathBuf>"
//@   sig <<<
        ensures final(self).out_lock@ == old(self).out_lock@.insert(path.pview()), env_frame(*old(self), *final(self)),
//@   >>>
//@   mutant lock_insert_dropped "self.out_lock.insert(path.into());" => "let _ = path.into();" expect set_out_lock_for_path
//@ end
//@ extract src/build/opcode/environment.rs :: impl * Environment<Stdout, Stderr> :: fn stdout
//@   impl_header impl Environment
//@   ret r
//@   sig <<<
        ensures r == self.stdout
//@   >>>
//@ end

// ---------- the contract of the two hooks, from the property statement ----------
// The operands as the translator leaves them: value on top, format name below.
pub open spec fn top_val(s: Seq<(Rc<Value>, Position)>) -> Value { *s[s.len() - 1].0 }
pub open spec fn top_fmt(s: Seq<(Rc<Value>, Position)>) -> Value { *s[s.len() - 2].0 }

// conv(fmt, val): what converting `val` with the converter registered under the name `fmt` yields:
// Some(bytes), or None when the format is unknown / not a string / the value cannot be converted.
pub open spec fn conv(reg: ConverterRegistry, fmt: Value, val: Value) -> Option<Seq<u8>> {
    match fmt {
        P(Str(name)) => match lookup(reg, name@) {
            Some(c) => conv_bytes(c, lower(val)),
            None => None,
        },
        _ => None,
    }
}
// the artifact's name: the source path with the extension of the format's converter
pub open spec fn artifact_path(reg: ConverterRegistry, fmt: Value, src: Seq<char>) -> Seq<char> {
    spec_with_extension(src, format_ext(lookup(reg, fmt->P_0->Str_0@)->Some_0))
}
// the key of the output lock: the source path, or /dev/stdout when evaluating without a file
pub open spec fn lock_key(path: Option<Seq<char>>) -> Seq<char> {
    match path { Some(p) => p, None => "/dev/stdout"@ }
}
pub open spec fn same_world(a: World, b: World) -> bool {
    a.fs@ =~= b.fs@ && a.stdout@ =~= b.stdout@ && a.io_err@ == b.io_err@
}

pub open spec fn out_post(
    path: Option<Seq<char>>,
    stack0: Seq<(Rc<Value>, Position)>, stack1: Seq<(Rc<Value>, Position)>,
    env0: Environment, env1: Environment,
    w0: World, w1: World,
    r: Result<(), Error>,
) -> bool {
    let n = stack0.len() as int;
    let locked = env0.out_lock@.contains(lock_key(path));
    let reg = env0.converter_registry;
    // the lock is taken by every out statement that is reached, nothing else in the environment changes
    &&& env1.out_lock@ =~= env0.out_lock@.insert(lock_key(path))
    &&& env_frame(env0, env1)
    &&& if locked {
        // (1) a second `out` for the same source: an error, nothing written, operands untouched
        r is Err && same_world(w0, w1) && stack1 =~= stack0
    } else {
        &&& stack1 =~= stack0.take(n - 2)
        &&& match conv(reg, top_fmt(stack0), top_val(stack0)) {
            // (3) the value cannot be converted, (4) unknown format: an error and NOTHING on disk changes —
            // no new, empty or truncated artifact
            None => r is Err && same_world(w0, w1),
            // (2) exactly one artifact, right name, exactly the converter's bytes, nothing else touched
            Some(bytes) => match path {
                Some(src) => w1.stdout@ =~= w0.stdout@ && if w1.io_err@ {
                    r is Err   // create/write reported an I/O error: outside the property
                } else {
                    r is Ok && w1.fs@ =~= w0.fs@.insert(artifact_path(reg, top_fmt(stack0), src), bytes)
                },
                None => w1.fs@ =~= w0.fs@ && if w1.io_err@ {
                    r is Err
                } else {
                    r is Ok && w1.stdout@ =~= w0.stdout@ + bytes
                },
            },
        }
    }
}

pub open spec fn convert_post(
    stack0: Seq<(Rc<Value>, Position)>, stack1: Seq<(Rc<Value>, Position)>,
    env: Environment, pos: Position,
    r: Result<(), Error>,
) -> bool {
    let n = stack0.len() as int;
    if n < 2 { r is Err } else {
        match conv(env.converter_registry, top_fmt(stack0), top_val(stack0)) {
            // the string bound by `convert fmt val` is the (lossily decoded) bytes of conv(fmt, val)
            Some(bytes) => r is Ok && stack1.len() == n - 1 && stack1.take(n - 2) =~= stack0.take(n - 2)
                && stack1[n - 2].1 == pos
                && (*stack1[n - 2].0 matches P(Str(s)) && s@ == utf8_lossy(bytes)),
            None => r is Err && stack1 =~= stack0.take(n - 2),
        }
    }
}

// Seeded mutants of `out`: (1) create_before_convert = today's order, the file is created/truncated before the
// value is converted (written against the rewritten text; `convert_to_writer` is the converter streaming into the
// boxed writer); (2) lock_not_set: the hook forgets to take the lock; (3) lock_checked_after_write: the lock is
// consulted only after the artifact has been written; (4) wrong_extension_source: the extension is taken from the
// format NAME instead of the converter's file_ext().
//@ extract src/build/opcode/runtime.rs :: impl Builtins :: fn out
//@   rule R1 R3
//@   subst "out<P, O, E>" => "out<P>"
//@   subst "env: &RefCell<Environment<O, E>>," => "env: &mut Environment, world: &mut World,"
//@   subst "O: std::io::Write + Clone, E: std::io::Write + Clone, P: AsRef<Path> + Debug," => "P: VAsRefPath + Debug,"
//@   subst all "env.borrow()" => "env"
//@   subst all "env.borrow_mut()" => "env"
//@   subst "Box<dyn std::io::Write>" => "VBoxDynWrite"
//@   subst all "Box::new" => "VBoxDynWrite::new"
//@   subst "File::create(&p)" => "File::create(&p, world)"
//@   subst "writer.write_all(&buf)" => "writer.write_all(&buf, world)"
//@   mutant create_before_convert "let mut buf: Vec<u8> = Vec::new(); if let Err(e) = c.convert(Rc::new(val), &mut buf) { return Err(Error::new(verif_msg(), pos.clone())); } let mut writer: VBoxDynWrite = match write_path { Some(p) => { let p = p.with_extension(c.file_ext()); VBoxDynWrite::new(File::create(&p, world)?) } None => VBoxDynWrite::new(stdout), }; writer.write_all(&buf, world)?;" => "let mut writer: VBoxDynWrite = match write_path { Some(p) => { let p = p.with_extension(c.file_ext()); VBoxDynWrite::new(File::create(&p, world)?) } None => VBoxDynWrite::new(stdout), }; if let Err(e) = c.convert_to_writer(Rc::new(val), &mut writer, world) { return Err(Error::new(verif_msg(), pos.clone())); }" expect out
//@   mutant lock_not_set "env.borrow_mut().set_out_lock_for_path(path.as_ref());" => "" expect out
//@   mutant lock_checked_after_write "let write_path : Option < PathBuf > = if let Some ( path ) = path { let write_path = path . as_ref ( ) . to_path_buf ( ) ; if env . borrow ( ) . get_out_lock_for_path ( & path ) { return Err ( Error :: new ( \"You can only have one output per file\" . into ( ) , pos , ) ) ; } env . borrow_mut ( ) . set_out_lock_for_path ( path . as_ref ( ) ) ; Some ( write_path ) } else { if env . borrow ( ) . get_out_lock_for_path ( \"/dev/stdout\" ) { return Err ( Error :: new ( \"You can only have one output per file\" . into ( ) , pos , ) ) ; } env . borrow_mut ( ) . set_out_lock_for_path ( \"/dev/stdout\" ) ; None } ; let val = stack . pop ( ) ; if let Some ( ( val , val_pos ) ) = val { let val = val . into ( ) ; let c_type = stack . pop ( ) ; if let Some ( ( c_type_val , c_type_pos ) ) = c_type { if let & Value :: P ( Primitive :: Str ( ref c_type ) ) = c_type_val . as_ref ( ) { let stdout = env . borrow ( ) . stdout ( ) ; match env . borrow ( ) . converter_registry . get_converter ( c_type ) { Some ( c ) => { let mut buf : Vec < u8 > = Vec :: new ( ) ; if let Err ( e ) = c . convert ( Rc :: new ( val ) , & mut buf ) { return Err ( Error :: new ( format ! ( \"{}\" , e ) . into ( ) , pos . clone ( ) ) ) ; } let mut writer : Box < dyn std :: io :: Write > = match write_path { Some ( p ) => { let p = p . with_extension ( c . file_ext ( ) ) ; Box :: new ( File :: create ( & p ) ? ) } None => Box :: new ( stdout ) , } ; writer . write_all ( & buf ) ? ; return Ok ( ( ) ) ;" => "let mut was_locked = false ; let write_path : Option < PathBuf > = if let Some ( path ) = path { let write_path = path . as_ref ( ) . to_path_buf ( ) ; was_locked = env . borrow ( ) . get_out_lock_for_path ( & path ) ; env . borrow_mut ( ) . set_out_lock_for_path ( path . as_ref ( ) ) ; Some ( write_path ) } else { if env . borrow ( ) . get_out_lock_for_path ( \"/dev/stdout\" ) { return Err ( Error :: new ( \"You can only have one output per file\" . into ( ) , pos , ) ) ; } env . borrow_mut ( ) . set_out_lock_for_path ( \"/dev/stdout\" ) ; None } ; let val = stack . pop ( ) ; if let Some ( ( val , val_pos ) ) = val { let val = val . into ( ) ; let c_type = stack . pop ( ) ; if let Some ( ( c_type_val , c_type_pos ) ) = c_type { if let & Value :: P ( Primitive :: Str ( ref c_type ) ) = c_type_val . as_ref ( ) { let stdout = env . borrow ( ) . stdout ( ) ; match env . borrow ( ) . converter_registry . get_converter ( c_type ) { Some ( c ) => { let mut buf : Vec < u8 > = Vec :: new ( ) ; if let Err ( e ) = c . convert ( Rc :: new ( val ) , & mut buf ) { return Err ( Error :: new ( format ! ( \"{}\" , e ) . into ( ) , pos . clone ( ) ) ) ; } let mut writer : Box < dyn std :: io :: Write > = match write_path { Some ( p ) => { let p = p . with_extension ( c . file_ext ( ) ) ; Box :: new ( File :: create ( & p ) ? ) } None => Box :: new ( stdout ) , } ; writer . write_all ( & buf ) ? ; if was_locked { return Err ( Error :: new ( \"You can only have one output per file\" . into ( ) , pos . clone ( ) ) ) ; } return Ok ( ( ) ) ;" expect out
//@   mutant wrong_extension_source "p.with_extension(c.file_ext())" => "p.with_extension(verif_string_from(c_type))" expect out
//@   ret r
//@   sig <<<
        requires
            // the translator pushes the format name and the value before Hook::Out
            old(stack)@.len() >= 2,
            !old(world).io_err@,
        ensures
            out_post(match path { Some(p) => Some(p.pview()), None => None }, old(stack)@, final(stack)@,
                     *old(env), *final(env), *old(world), *final(world), r),
//@   >>>
//@ end

// Seeded mutant convert_other_lookup: `convert` resolves the converter differently from `out`.
//@ extract src/build/opcode/runtime.rs :: impl Builtins :: fn convert
//@   rule R1 R3
//@   subst "convert<O, E>" => "convert"
//@   subst "env: &RefCell<Environment<O, E>>," => "env: &Environment,"
//@   subst "where O: std::io::Write + Clone, E: std::io::Write + Clone," => ""
//@   subst all "env.borrow()" => "env"
//@   subst "String::from_utf8_lossy(buf.as_slice()).into()" => "verif_utf8_lossy_rcstr(buf.as_slice())"
//@   mutant convert_other_lookup "get_converter(c_type)" => "get_converter(\"json\")" expect convert
//@   ret r
//@   sig <<<
        requires
            old(stack)@.len() >= 1,
        ensures
            convert_post(old(stack)@, final(stack)@, *env, pos, r),
//@   >>>
//@ end

// ---------- the property, read off the two contracts ----------
// "creates exactly one artifact, named like the source file with the format's extension, whose content is
// byte-for-byte the string `convert <format> <value>` evaluates to"
pub proof fn lemma_artifact_has_the_bytes_of_convert(
    src: Seq<char>, stack0: Seq<(Rc<Value>, Position)>,
    so: Seq<(Rc<Value>, Position)>, sc: Seq<(Rc<Value>, Position)>,
    env0: Environment, env1: Environment, w0: World, w1: World, pos: Position,
    ro: Result<(), Error>, rc: Result<(), Error>,
)
    requires
        stack0.len() >= 2,
        out_post(Some(src), stack0, so, env0, env1, w0, w1, ro),
        convert_post(stack0, sc, env0, pos, rc),
        ro is Ok,
    ensures
        rc is Ok,
        ({
            let art = artifact_path(env0.converter_registry, top_fmt(stack0), src);
            &&& w1.fs@.dom() == w0.fs@.dom().insert(art)
            &&& (forall|p: Seq<char>| p != art && w0.fs@.contains_key(p) ==> w1.fs@[p] == w0.fs@[p])
            &&& (*sc[sc.len() - 1].0 matches P(Str(s)) && s@ == utf8_lossy(w1.fs@[art]))
        }),
{
}

// "If the value cannot be converted the build fails and no new, empty or truncated artifact is left behind"
pub proof fn lemma_failed_conversion_leaves_fs(
    path: Option<Seq<char>>, stack0: Seq<(Rc<Value>, Position)>, so: Seq<(Rc<Value>, Position)>,
    env0: Environment, env1: Environment, w0: World, w1: World, ro: Result<(), Error>,
)
    requires
        stack0.len() >= 2,
        out_post(path, stack0, so, env0, env1, w0, w1, ro),
        conv(env0.converter_registry, top_fmt(stack0), top_val(stack0)) is None,
    ensures
        ro is Err, w1.fs@ == w0.fs@,
{
}

// "A second out statement in the same file is an error"
pub proof fn lemma_second_out_is_an_error(
    path: Option<Seq<char>>,
    s0: Seq<(Rc<Value>, Position)>, s1: Seq<(Rc<Value>, Position)>, s2: Seq<(Rc<Value>, Position)>, s3: Seq<(Rc<Value>, Position)>,
    env0: Environment, env1: Environment, env2: Environment, env3: Environment, w0: World, w1: World, w2: World, w3: World,
    r1: Result<(), Error>, r2: Result<(), Error>,
)
    requires
        out_post(path, s0, s1, env0, env1, w0, w1, r1),
        // whatever happens in between does not release the lock
        env1.out_lock@.subset_of(env2.out_lock@),
        out_post(path, s2, s3, env2, env3, w2, w3, r2),
    ensures
        r2 is Err, w3.fs@ == w2.fs@,
{
}

} // verus!

fn main() {}
