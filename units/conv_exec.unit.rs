//@ unit conv_exec
//@ serves C08
//@ must_verify ExecConverter::write FlagConverter::convert shell_escape_single_quoted shell_escape_double_quoted verif_replace_char lemma_exec_env_line_one_word lemma_exec_arg_one_word
//@ include prelude/head.rs
use std::rc::Rc;

verus! {
//@ include prelude/core.rs
//@ include prelude/sh_escape_models.rs
//@ include prelude/sh_escape_posix.rs
//@ include prelude/sh_escape_fns.rs
//@ include prelude/conv_env_types.rs
//@ include prelude/conv_env_words.rs
//@ include prelude/conv_flags_spec.rs
use Val::Tuple;

// ---------- errors of the exec DSL: only constructed and propagated (R5/R8) ----------
//@ extract src/error.rs :: enum ErrorType
//@   rule R0
//@ end
#[verifier::external_body]
pub struct BuildError { _p: u8 }
impl BuildError {
    #[verifier::external_body]
    pub fn new(msg: &str, t: ErrorType) -> Self { unimplemented!() }
    // Box<BuildError> coerces to Box<dyn Error>
    #[verifier::external_body]
    pub fn to_boxed(self) -> VError { unimplemented!() }
}
// Box::new(<BuildError>) coerced to Box<dyn Error>
#[verifier::external_body]
pub fn verif_box_err(e: BuildError) -> VError { unimplemented!() }

// ---------- R2: the in-memory script buffer and one stub per write!/writeln! call site of exec.rs ----------
// Cursor::new(vec![])
#[verifier::external_body]
fn vw_new() -> (w: VWriter)
    ensures w.out@ =~= Seq::<char>::empty(), !w.failed@
{ unimplemented!() }
// writeln!(script, "<text without placeholders>")
#[verifier::external_body]
fn vw_exec_ln_lit(w: &mut VWriter, s: &str) -> (r: ConvertResult)
    ensures vw_wrote(*old(w), *final(w), s@ + nl(), r)
{ unimplemented!() }
// writeln!(script)
#[verifier::external_body]
fn vw_exec_ln(w: &mut VWriter) -> (r: ConvertResult)
    ensures vw_wrote(*old(w), *final(w), nl(), r)
{ unimplemented!() }
// writeln!(script, "{}=\"{}\"", name, <String>)
#[verifier::external_body]
fn vw_exec_env_line(w: &mut VWriter, name: &Rc<str>, val: String) -> (r: ConvertResult)
    ensures vw_wrote(*old(w), *final(w), name@ + seq!['='] + (seq!['"'] + val@ + seq!['"']) + nl(), r)
{ unimplemented!() }
// write!(script, "exec '{}' ", <String>)
#[verifier::external_body]
fn vw_exec_cmd(w: &mut VWriter, cmd: String) -> (r: ConvertResult)
    ensures vw_wrote(*old(w), *final(w), "exec "@ + (seq!['\''] + cmd@ + seq!['\'']) + sp(), r)
{ unimplemented!() }
// write!(script, "'{}' ", <String>)
#[verifier::external_body]
fn vw_exec_arg(w: &mut VWriter, a: String) -> (r: ConvertResult)
    ensures vw_wrote(*old(w), *final(w), seq!['\''] + a@ + seq!['\''] + sp(), r)
{ unimplemented!() }
// script.set_position(0); std::io::copy(&mut script, w)   -- the whole buffer goes to w
#[verifier::external_body]
fn vw_copy_all(src: &VWriter, w: &mut VWriter) -> (r: ConvertResult)
    ensures vw_wrote(*old(w), *final(w), src.out@, r)
{ unimplemented!() }

// ---------- FlagConverter as used for tuple arguments ----------
//@ extract src/convert/flags.rs :: struct FlagConverter
//@   rule R0 RV
//@ end
//@ extract src/convert/flags.rs :: impl FlagConverter :: fn new
//@ end
// Contract proved in units/conv_flags.unit.rs (same text); assumed here (R8 cross-reference).
//@ extract src/convert/flags.rs :: impl FlagConverter :: fn write
//@   subst "&mut dyn Write" => "&mut VWriter"
//@   opaque_body
//@   ret r
//@   sig <<<
        ensures vw_wrote(*old(w), *final(w), flag_fields(pfx@, flds@), r)
//@   >>>
//@ end
// `mut w: &mut dyn Write` + `&mut w` (a reborrow of the same writer) -> `w`
//@ extract src/convert/flags.rs :: impl * Converter for FlagConverter :: fn convert
//@   impl_header impl FlagConverter
//@   subst "mut w: &mut dyn Write" => "w: &mut VWriter"
//@   subst "&mut w" => "w"
//@   subst "Box::new(" => "verif_box_err("
//@   ret r
//@   sig <<<
        ensures
            *v matches Val::Tuple(flds) ==> vw_wrote(*old(w), *final(w), flag_fields(Seq::<char>::empty(), flds@), r),
            !(*v is Tuple) ==> r is Err && *final(w) == *old(w),
//@   >>>
//@   body_start <<<
        proof { reveal_strlit(""); assert(""@ =~= Seq::<char>::empty()); }
//@   >>>
//@ end

// ---------- the property's contract ----------
pub open spec fn exec_header() -> Seq<char> {
    "#!/usr/bin/env bash"@ + nl() + ("# Turn on unofficial Bash-Strict-Mode"@ + nl()) + ("set -euo pipefail"@ + nl())
}

// one assignment line per env entry, in order: NAME="<value in the double-quoted form the POSIX oracle reads
// back as exactly the value>"
pub open spec fn exec_env_line(name: Seq<char>, s: Seq<char>) -> Seq<char> {
    name + seq!['='] + sh_dquote(s) + nl()
}
pub open spec fn exec_env_lines(entries: Seq<(Rc<str>, Rc<Val>)>) -> Seq<char>
    decreases entries.len()
{
    if entries.len() == 0 {
        Seq::<char>::empty()
    } else {
        exec_env_lines(entries.drop_last())
            + (match *entries.last().1 { Val::Str(s) => exec_env_line(entries.last().0@, s@), _ => Seq::<char>::empty() })
    }
}

// one word per string argument (single-quoted form), a tuple argument gives what the flags converter gives
pub open spec fn exec_arg(v: Val) -> Seq<char> {
    match v {
        Val::Str(s) => sh_squote(s@) + sp(),
        Val::Tuple(flds) => flag_fields(Seq::<char>::empty(), flds@),
        _ => Seq::<char>::empty(),
    }
}
pub open spec fn exec_args(items: Seq<Rc<Val>>) -> Seq<char>
    decreases items.len()
{
    if items.len() == 0 { Seq::<char>::empty() } else { exec_args(items.drop_last()) + exec_arg(*items.last()) }
}

pub open spec fn exec_env_of(fields: Seq<(Rc<str>, Rc<Val>)>, ei: int) -> Seq<(Rc<str>, Rc<Val>)> {
    if ei >= 0 { (*fields[ei].1)->Tuple_0@ } else { Seq::empty() }
}
pub open spec fn exec_cmd_of(fields: Seq<(Rc<str>, Rc<Val>)>, ci: int) -> Seq<char> { (*fields[ci].1)->Str_0@ }
pub open spec fn exec_args_of(fields: Seq<(Rc<str>, Rc<Val>)>, ai: int) -> Seq<Rc<Val>> {
    if ai >= 0 { (*fields[ai].1)->List_0@ } else { Seq::empty() }
}

// the exec tuple is well formed with its command / env / args fields at ci / ei / ai (-1: absent)
pub open spec fn exec_valid(fields: Seq<(Rc<str>, Rc<Val>)>, ci: int, ei: int, ai: int) -> bool {
    &&& fields.len() <= 3
    &&& 0 <= ci < fields.len() && fields[ci].0@ == "command"@ && *fields[ci].1 is Str
    &&& forall|k: int| 0 <= k < fields.len() && fields[k].0@ == "command"@ ==> k == ci
    &&& -1 <= ei < fields.len() && (ei >= 0 ==> fields[ei].0@ == "env"@ && *fields[ei].1 is Tuple)
    &&& forall|k: int| 0 <= k < fields.len() && fields[k].0@ == "env"@ ==> k == ei
    &&& forall|j: int| 0 <= j < exec_env_of(fields, ei).len() ==> *(#[trigger] exec_env_of(fields, ei)[j]).1 is Str
    &&& -1 <= ai < fields.len() && (ai >= 0 ==> fields[ai].0@ == "args"@ && *fields[ai].1 is List)
    &&& forall|k: int| 0 <= k < fields.len() && fields[k].0@ == "args"@ ==> k == ai
    &&& forall|j: int| 0 <= j < exec_args_of(fields, ai).len() ==>
            (*(#[trigger] exec_args_of(fields, ai)[j]) is Str || *exec_args_of(fields, ai)[j] is Tuple)
}

// the script: header, the env assignments, an empty line, then `exec`, the command word and the argument words
pub open spec fn exec_script(fields: Seq<(Rc<str>, Rc<Val>)>, ci: int, ei: int, ai: int) -> Seq<char> {
    exec_header()
        + exec_env_lines(exec_env_of(fields, ei))
        + nl()
        + ("exec "@ + sh_squote(exec_cmd_of(fields, ci)) + sp())
        + exec_args(exec_args_of(fields, ai))
}

// ---------- composition with the POSIX oracle ----------
// For ALL names of ordinary characters, ALL values s, ANY following text: the shell reads the env line as the single
// assignment word name=s (value unaltered, nothing expanded) and stops at the line's own newline.
pub proof fn lemma_exec_env_line_one_word(name: Seq<char>, s: Seq<char>, following: Seq<char>)
    requires sh_all_plain(name)
    ensures sh_yields(sh_word(exec_env_line(name, s) + following), name + seq!['='] + s, nl() + following)
{
    let p = name + seq!['='];
    let suf = nl() + following;
    assert(sh_plain('='));
    assert(sh_all_plain(p));
    assert(suf[0] == '\n');
    lemma_dquote_one_word(s, suf);
    lemma_plain_prefix(p, sh_dquote(s) + suf);
    assert(exec_env_line(name, s) + following =~= p + (sh_dquote(s) + suf));
}
// the command word and every string argument: exactly one word equal to the value, reading stops at the blank
pub proof fn lemma_exec_arg_one_word(s: Seq<char>, following: Seq<char>)
    ensures sh_yields(sh_word(sh_squote(s) + sp() + following), s, sp() + following)
{
    assert((sp() + following)[0] == ' ');
    lemma_squote_one_word(s, sp() + following);
    assert(sh_squote(s) + (sp() + following) =~= sh_squote(s) + sp() + following);
}

//@ extract src/convert/exec.rs :: struct ExecConverter
//@   rule R0
//@ end

// The two `for (a, b) in X.iter() {` loops that contain `continue` are rewritten to the equivalent indexed
// `while` (same elements, same order): Verus' `for` does not support `continue`.
//@ extract src/convert/exec.rs :: impl ExecConverter :: fn write
//@   rule R0 R3
//@   subst "&mut dyn Write" => "&mut VWriter"
//@   subst "for (name, val) in fields.iter() {" => "let mut i1__: usize = 0; while i1__ < fields.len() { let (name, val) = (&fields[i1__].0, &fields[i1__].1); i1__ += 1;"
//@   subst "for (name, v) in env_list.iter() {" => "let mut i2__: usize = 0; while i2__ < env_list.len() { let (name, v) = (&env_list[i2__].0, &env_list[i2__].1); i2__ += 1;"
//@   subst "Cursor::new(vec![])" => "vw_new()"
//@   subst "writeln!(script, \"#!/usr/bin/env bash\")" => "vw_exec_ln_lit(&mut script, \"#!/usr/bin/env bash\")"
//@   subst "writeln!(script, \"# Turn on unofficial Bash-Strict-Mode\")" => "vw_exec_ln_lit(&mut script, \"# Turn on unofficial Bash-Strict-Mode\")"
//@   subst "writeln!(script, \"set -euo pipefail\")" => "vw_exec_ln_lit(&mut script, \"set -euo pipefail\")"
//@   subst "writeln!(script, \"{}=\\\"{}\\\"\", name, convert::shell_escape_double_quoted(s))" => "vw_exec_env_line(&mut script, name, shell_escape_double_quoted(s))"
//@   subst "writeln!(script)" => "vw_exec_ln(&mut script)"
//@   subst "convert::flags::FlagConverter::new()" => "FlagConverter::new()"
//@   subst "write!(script, \"exec '{}' \", convert::shell_escape_single_quoted(command.unwrap()))" => "vw_exec_cmd(&mut script, shell_escape_single_quoted(command.unwrap()))"
//@   subst "write!(script, \"'{}' \", convert::shell_escape_single_quoted(s))" => "vw_exec_arg(&mut script, shell_escape_single_quoted(s))"
//@   subst "script.set_position(0); std::io::copy(&mut script, w)?;" => "vw_copy_all(&script, w)?;"
//@   ret r
//@   sig <<<
        ensures
            // Ok: v is a well-formed exec tuple and exactly its script was appended to w
            r is Ok ==> (*v matches Val::Tuple(fields) && exists|ci: int, ei: int, ai: int|
                #[trigger] exec_valid(fields@, ci, ei, ai)
                && final(w).out@ =~= old(w).out@ + exec_script(fields@, ci, ei, ai)
                && final(w).failed@ == old(w).failed@),
            // Err: nothing was written at all (a malformed tuple never produces partial output), or the final copy failed
            r is Err ==> *final(w) == *old(w) || final(w).failed@,
//@   >>>
//@   before "let mut env:" <<<
            let ghost mut ci: int = -1;
            let ghost mut ei: int = -1;
            let ghost mut ai: int = -1;
            proof {
                reveal_strlit("command"); reveal_strlit("env"); reveal_strlit("args");
                assert("command"@.len() == 7 && "env"@.len() == 3 && "args"@.len() == 4);
            }
//@   >>>
//@   loop 1 <<<
                invariant
                    0 <= i1__ <= fields@.len(), fields@.len() <= 3,
                    *w == *old(w),
                    "command"@.len() == 7 && "env"@.len() == 3 && "args"@.len() == 4,
                    -1 <= ci < i1__, -1 <= ei < i1__, -1 <= ai < i1__,
                    forall|k: int| 0 <= k < i1__ && fields@[k].0@ == "command"@ ==> k == ci,
                    forall|k: int| 0 <= k < i1__ && fields@[k].0@ == "env"@ ==> k == ei,
                    forall|k: int| 0 <= k < i1__ && fields@[k].0@ == "args"@ ==> k == ai,
                    (ci >= 0) == command.is_some(),
                    ci >= 0 ==> fields@[ci].0@ == "command"@ && *fields@[ci].1 is Str
                                && command.unwrap()@ == (*fields@[ci].1)->Str_0@,
                    (ei >= 0) == env.is_some(),
                    ei >= 0 ==> fields@[ei].0@ == "env"@ && *fields@[ei].1 is Tuple
                                && env.unwrap()@ == (*fields@[ei].1)->Tuple_0@,
                    (ai >= 0) == args.is_some(),
                    ai >= 0 ==> fields@[ai].0@ == "args"@ && *fields@[ai].1 is List
                                && args.unwrap()@ == (*fields@[ai].1)->List_0@,
                decreases fields@.len() - i1__
//@   >>>
//@   after "command = Some(s);" <<<
                        proof { ci = i1__ - 1; }
//@   >>>
//@   after "env = Some(l);" <<<
                        proof { ei = i1__ - 1; }
//@   >>>
//@   after "args = Some(l);" <<<
                        proof { ai = i1__ - 1; }
//@   >>>
//@   loop 2 <<<
                    invariant
                        0 <= i2__ <= env_list@.len(),
                        *w == *old(w),
                        script.out@ =~= exec_header() + exec_env_lines(env_list@.take(i2__ as int)),
                        forall|j: int| 0 <= j < i2__ ==> *(#[trigger] env_list@[j]).1 is Str,
                        i2__ == env_list@.len() ==> env_list@.take(i2__ as int) =~= env_list@,
                    decreases env_list@.len() - i2__
//@   >>>
//@   after "i2__ += 1;" <<<
                    proof {
                        assert(env_list@.take(i2__ as int).drop_last() =~= env_list@.take(i2__ - 1));
                        assert(env_list@.take(i2__ as int).last() == env_list@[i2__ - 1]);
                    }
//@   >>>
//@   before "let flag_converter" <<<
            let ghost env_seq = exec_env_of(fields@, ei);
            assert(script.out@ =~= exec_header() + exec_env_lines(env_seq) + nl());
//@   >>>
//@   before "if let Some(arg_list) = args" <<<
            let ghost pre_args = exec_header() + exec_env_lines(env_seq) + nl() + ("exec "@ + sh_squote(exec_cmd_of(fields@, ci)) + sp());
            assert(script.out@ =~= pre_args);
//@   >>>
//@   loop 3 iter it <<<
                    invariant
                        it.seq().len() == arg_list@.len(),
                        forall|k: int| 0 <= k < arg_list@.len() ==> *it.seq()[k] == arg_list@[k],
                        *w == *old(w),
                        script.out@ =~= pre_args + exec_args(arg_list@.take(it.index@)),
                        forall|j: int| 0 <= j < it.index@ ==> (*(#[trigger] arg_list@[j]) is Str || *arg_list@[j] is Tuple),
                        it.index@ == arg_list@.len() ==> arg_list@.take(it.index@) =~= arg_list@,
//@   >>>
//@   before "match v.as_ref()" <<<
                    proof {
                        assert(arg_list@.take(it.index@ + 1).drop_last() =~= arg_list@.take(it.index@));
                        assert(arg_list@.take(it.index@ + 1).last() == arg_list@[it.index@]);
                    }
//@   >>>
//@   before "vw_copy_all(&script, w)?;" <<<
            proof {
                assert(script.out@ =~= exec_script(fields@, ci, ei, ai));
                assert(exec_valid(fields@, ci, ei, ai));
            }
//@   >>>
// (the first two mutants are matched against the rewritten call sites)
//@   mutant env_value_single_escaper "name, shell_escape_double_quoted(s)" => "name, shell_escape_single_quoted(s)" expect write
//@   mutant second_command_wins "if command.is_some()" => "if false" expect write
//@   mutant arg_not_escaped "vw_exec_arg(&mut script, shell_escape_single_quoted(s))" => "vw_exec_arg(&mut script, verif_rcstr_to_string(s))" expect write
//@   mutant nonstring_env_skipped "if let Val::Str(s) = v.as_ref() { writeln!(script, \"{}=\\\"{}\\\"\", name, convert::shell_escape_double_quoted(s))?; continue; }" => "if let Val::Str(s) = v.as_ref() { writeln!(script, \"{}=\\\"{}\\\"\", name, convert::shell_escape_double_quoted(s))?; } continue;" expect write
//@ end

// used by a seeded mutant only (the value written without escaping)
#[verifier::external_body]
fn verif_rcstr_to_string(s: &Rc<str>) -> (r: String)
    ensures r@ == s@
{ unimplemented!() }

} // verus!

fn main() {}
