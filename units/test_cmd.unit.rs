//@ unit test_cmd
//@ serves C13
//@ must_verify visit_ucg_files test_command lemma_appended
//@ include prelude/head.rs

// C13, above the single file: `visit_ucg_files` and `test_command` (main.rs) verbatim, directory iteration,
// clap and process::exit stubbed.  do_validate/do_compile are stubs here ("one verdict per call"); what the
// verdict MEANS is proved in unit verdict.
// Contract: visit_ucg_files returns Ok(b) with b == AND of all verdicts given during the call at any depth
// (a subdirectory that cannot be listed counts as a failure); test_command exits non-zero only if some verdict
// was a failure (or a listing failed), and exits 0 only if all verdicts passed -- provided no listing failed.
// History: the tree before `fix: a failing test in a subdirectory fails ucg test -r` fails the loop invariant
// `result == AND of verdicts` (the recursive call's Ok(false) was ignored; replay: dir/sub/a_test.ucg failing,
// `ucg test -r dir` exits 0).
// NOT covered: if listing the top-level directory fails midway (`entry?`), visit_ucg_files returns Err, which
// test_command ignores (`if let Ok(false) = ..`): verdicts given before the error are lost and the exit status
// is 0.  No input reproducing an I/O error mid-listing was found, so this is excluded by `no_list_error_from`
// rather than claimed as a defect.
verus! {
//@ include prelude/core.rs

// ---------- what `ucg test` does above the single file: walk directories, AND the verdicts, exit status ----------
// `Box<dyn Error>` (R5): opaque.
#[verifier::external_body]
pub struct VBoxErr { _p: u8 }

// R11 stand-in for `&RefCell<Environment<..>>`: here the environment is only handed down to
// do_validate/do_compile.  `events` is a ghost HISTORY variable of the whole run: one `Verdict(file, passed)` per
// call of do_validate (or do_compile), one `ListError` per failed directory listing.
#[verifier::external_body]
pub struct VEnvRest { _p: u8 }
pub enum Ev {
    Verdict(Seq<char>, bool),
    ListError,
}
pub struct VEnv { pub rest: VEnvRest, pub events: Ghost<Seq<Ev>> }

pub open spec fn ev_ok(e: Ev) -> bool { e matches Ev::Verdict(_, ok) && ok }
// every event from history index n on is a passing verdict
pub open spec fn all_pass_from(ev: Seq<Ev>, n: int) -> bool {
    forall|k: int| n <= k < ev.len() ==> ev_ok(#[trigger] ev[k])
}
pub open spec fn no_list_error_from(ev: Seq<Ev>, n: int) -> bool {
    forall|k: int| n <= k < ev.len() ==> !((#[trigger] ev[k]) is ListError)
}
pub open spec fn extends(a: Seq<Ev>, b: Seq<Ev>) -> bool {
    a.len() <= b.len() && forall|k: int| #![trigger a[k]] #![trigger b[k]] 0 <= k < a.len() ==> b[k] == a[k]
}

// `after` is `before` with the one event `e` appended.  (The second and third conjunct follow from the first --
// lemma_appended -- and are spelled out so that contracts using it need no proof hints.)
pub open spec fn appended(before: Seq<Ev>, after: Seq<Ev>, e: Ev) -> bool {
    after == before.push(e) && after.last() == e && extends(before, after)
}
pub proof fn lemma_appended(before: Seq<Ev>, e: Ev)
    ensures appended(before, before.push(e), e)
{ }

// ASSUMED here, PROVED in unit verdict as far as the meaning of the result goes: do_validate gives exactly one
// verdict for the named file and returns it.  (do_compile likewise for `ucg build`.)
#[verifier::external_body]
fn do_validate(file: &str, strict: bool, import_paths: &Vec<PathBuf>, env: &mut VEnv) -> (r: bool)
    ensures appended(old(env).events@, final(env).events@, Ev::Verdict(file@, r))
{ unimplemented!() }
#[verifier::external_body]
fn do_compile(file: &str, strict: bool, import_paths: &Vec<PathBuf>, env: &mut VEnv) -> (r: bool)
    ensures appended(old(env).events@, final(env).events@, Ev::Verdict(file@, r))
{ unimplemented!() }

// ---------- file system stand-ins (R8): directory iteration is stubbed ----------
// ASSUMPTION: the directory tree is well-founded (`height`; no symlink cycles) and a directory has finitely many
// entries (`remaining`).  Which entries exist, in which order, which are directories, and whether listing fails
// is left completely open.
pub struct PathBuf { pub height: Ghost<nat> }
pub type Path = PathBuf;
impl PathBuf {
    #[verifier::external_body]
    pub fn from(s: &str) -> (r: PathBuf) { unimplemented!() }
    #[verifier::external_body]
    pub fn as_path(&self) -> (r: &Path) ensures *r == *self { unimplemented!() }
    #[verifier::external_body]
    pub fn is_dir(&self) -> (r: bool) { unimplemented!() }
    // `String::from(p.to_string_lossy())`
    #[verifier::external_body]
    pub fn verif_to_string(&self) -> (r: String) { unimplemented!() }
}
pub struct VDirEntry { pub height: Ghost<nat> }
impl VDirEntry {
    #[verifier::external_body]
    pub fn path(&self) -> (r: PathBuf) ensures r.height@ == self.height@ { unimplemented!() }
}
pub struct VDirIter { pub dir_height: Ghost<nat>, pub remaining: Ghost<nat> }
impl VDirIter {
    #[verifier::external_body]
    pub fn next(&mut self) -> (r: Option<Result<VDirEntry, VBoxErr>>)
        ensures
            final(self).dir_height == old(self).dir_height,
            r is Some ==> final(self).remaining@ < old(self).remaining@,
            r matches Some(Ok(e)) ==> e.height@ < old(self).dir_height@,
    { unimplemented!() }
}
// `std::fs::read_dir(path)?.peekable()`; a failed listing is logged in the history
#[verifier::external_body]
pub fn verif_read_dir(path: &Path, env: &mut VEnv) -> (r: Result<VDirIter, VBoxErr>)
    ensures
        final(env).rest == old(env).rest,
        r matches Ok(it) ==> it.dir_height@ == path.height@ && final(env).events@ == old(env).events@,
        r is Err ==> appended(old(env).events@, final(env).events@, Ev::ListError),
{ unimplemented!() }
// the `?` on one directory entry; a failed entry is logged in the history
#[verifier::external_body]
pub fn verif_entry(entry: Result<VDirEntry, VBoxErr>, env: &mut VEnv) -> (r: Result<VDirEntry, VBoxErr>)
    ensures
        final(env).rest == old(env).rest,
        entry matches Ok(e) ==> r == Ok::<VDirEntry, VBoxErr>(e) && final(env).events@ == old(env).events@,
        entry is Err ==> r is Err && appended(old(env).events@, final(env).events@, Ev::ListError),
{ unimplemented!() }
// str::ends_with (no vstd model): result left open
pub trait VStrExt { fn verif_ends_with(&self, suffix: &str) -> bool; }
impl VStrExt for String {
    #[verifier::external_body]
    fn verif_ends_with(&self, suffix: &str) -> (r: bool) { self.as_str().ends_with(suffix) }
}

//@ extract src/main.rs :: fn visit_ucg_files
//@   subst "env: &RefCell<Environment<StdoutWrapper, StderrWrapper>>," => "env: &mut VEnv,"
//@   subst "Result<bool, Box<dyn Error>>" => "Result<bool, VBoxErr>"
//@   subst "String::from(path.to_string_lossy())" => "path.verif_to_string()"
//@   subst "String::from(next_path.to_string_lossy())" => "next_path.verif_to_string()"
//@   subst "std::fs::read_dir(path)?.peekable()" => "verif_read_dir(path, env)?"
//@   subst "entry?" => "verif_entry(entry, env)?"
//@   subst all "ends_with" => "verif_ends_with"
//@   rule R1
//@   ret r
//@   sig <<<
    ensures
        extends(old(env).events@, final(env).events@),
        // the result is the AND of every verdict given during this call, at any depth
        // (a subdirectory that could not be listed counts as a failure)
        r matches Ok(b) ==> b == all_pass_from(final(env).events@, old(env).events@.len() as int),
        // an Err is always a logged listing error
        r is Err ==> !no_list_error_from(final(env).events@, old(env).events@.len() as int),
    decreases path.height@
//@   >>>
//@   loop 1 <<<
            invariant
                dir_iter.dir_height@ == path.height@,
                extends(old(env).events@, env.events@),
                result == all_pass_from(env.events@, old(env).events@.len() as int),
            decreases dir_iter.remaining@
//@   >>>
//@   mutant subdir_failure_ignored "Ok(false) => { result = false; }" => "Ok(false) => {}" expect visit_ucg_files
//@   mutant file_failure_ignored "if !do_validate(&path_as_string, strict, import_paths, env) { result = false;" => "if !do_validate(&path_as_string, strict, import_paths, env) {" expect visit_ucg_files
//@   mutant single_file_failure_ignored "if !do_validate(&our_path, strict, import_paths, env) { result = false;" => "if !do_validate(&our_path, strict, import_paths, env) {" expect visit_ucg_files
//@   mutant result_reset "result = false; summary.push_str(format!(\"{} - FAIL\\n\", our_path).as_str());" => "result = true; summary.push_str(format!(\"{} - FAIL\\n\", our_path).as_str());" expect visit_ucg_files
//@ end

// ---------- the command ----------
// clap (R8): the parsed command line.  `values_of` yields the INPUT arguments (the real one returns an iterator
// over them; here: the vector of them), `is_present` a flag.  Nothing is assumed about their values.
pub mod clap {
    use super::*;
    #[verifier::external_body]
    pub struct ArgMatches { _p: u8 }
    impl ArgMatches {
        #[verifier::external_body]
        pub fn values_of<'a>(&'a self, name: &str) -> (r: Option<Vec<&'a str>>) { unimplemented!() }
        #[verifier::external_body]
        pub fn is_present(&self, name: &str) -> (r: bool) { unimplemented!() }
    }
}

// `std::env::current_dir().unwrap()`.  ASSUMPTION: the current directory exists (otherwise: panic, C04).
#[verifier::external_body]
pub fn verif_current_dir_unwrap() -> (r: PathBuf) { unimplemented!() }

// `process::exit(code)` (R12): never returns.  Its PRECONDITION is the property: with `n0` the length of the
// history when the command started,
//   * a non-zero status is given only if some file failed (or some directory could not be listed),
//   * status 0 is given only if every verdict of the run was a pass -- provided no directory listing failed
//     (an I/O error while listing the top-level directory makes visit_ucg_files return Err, which the command
//     ignores; that case is excluded here, see the unit report).
#[verifier::external_body]
pub fn verif_exit(code: i32, env: &VEnv, Ghost(n0): Ghost<int>)
    requires
        code != 0 ==> !all_pass_from(env.events@, n0),
        code == 0 && no_list_error_from(env.events@, n0) ==> all_pass_from(env.events@, n0),
    ensures false
{ std::process::exit(code) }

//@ extract src/main.rs :: fn test_command
//@   subst "env: &RefCell<Environment<StdoutWrapper, StderrWrapper>>," => "env: &mut VEnv,"
//@   subst all "process::exit(1)" => "verif_exit(1, &*env, Ghost(old(env).events@.len() as int))"
//@   subst "process::exit(0)" => "verif_exit(0, &*env, Ghost(old(env).events@.len() as int))"
//@   subst "std::env::current_dir().unwrap()" => "verif_current_dir_unwrap()"
//@   mutant failure_forgotten "ok = false;" => "ok = true;" expect test_command
//@   mutant exit_condition_negated "if !ok { process::exit(1) }" => "if ok { process::exit(1) }" expect test_command
//@   mutant cwd_failure_ignored "if let Ok(false) = ok { process::exit(1) }" => "if let Ok(true) = ok { process::exit(1) }" expect test_command
//@   mutant always_nonzero "verif_exit(0, &*env" => "verif_exit(1, &*env" expect test_command
//@   sig <<<
    ensures false   // every path ends in process::exit
//@   >>>
//@   loop 1 <<<
            invariant
                extends(old(env).events@, env.events@),
                !ok ==> !all_pass_from(env.events@, old(env).events@.len() as int),
                ok && no_list_error_from(env.events@, old(env).events@.len() as int)
                    ==> all_pass_from(env.events@, old(env).events@.len() as int),
//@   >>>
//@ end

} // verus!

fn main() {}
