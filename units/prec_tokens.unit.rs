//@ unit prec_tokens
//@ serves C02
//@ must_verify dot_op_type
//@ include prelude/head.rs
use std::rc::Rc;
use vstd::std_specs::cmp::{PartialEqSpec, PartialEqSpecImpl};

// The ucg macros `use` these paths; in the one-file crate they name the items extracted below.
mod tokenizer { pub use crate::token_clone; }
mod abortable_parser { pub use crate::{Error, Result}; }

//@ extract dep:abortable_parser/src/combinators.rs :: macro run
//@ end
//@ extract dep:abortable_parser/src/combinators.rs :: macro either
//@ end
//@ extract dep:abortable_parser/src/combinators.rs :: macro do_each
//@ end
//@ extract src/tokenizer/mod.rs :: macro match_token
//@   rule R1
//@ end
//@ extract src/tokenizer/mod.rs :: macro punct
//@ end
//@ extract src/tokenizer/mod.rs :: macro word
//@ end

verus! {
//@ include prelude/core.rs
//@ include prelude/ap_slice.rs

//@ opaque Expression Position

// Error<C> stays opaque (prelude/ap_slice.rs, R5); the second constructor the ucg macros use.
impl<C> Error<C> {
    #[verifier::external_body]
    pub fn caused_by<D>(msg: D, cause: Box<Self>, ctx: Box<C>) -> Self { unimplemented!() }
}

// std: `Rc<str>::from(&str)` (the `$f.into()` of match_token!) copies the characters.
pub assume_specification<'a, 'b> [<Rc<str> as From<&'a str>>::from] (s: &'b str) -> (r: Rc<str>)
    ensures r@ == s@;

//@ extract src/ast/mod.rs :: enum BinaryExprType
//@   rule R0
//@ end
//@ extract src/parse/precedence.rs :: enum Element
//@   rule R0
//@ end
//@ extract src/ast/mod.rs :: enum TokenType
//@   rule R0
//@ end
//@ extract src/ast/mod.rs :: struct Token
//@   rule R0
//@ end
//@ clone_spec Token
// R0: `#[derive(PartialEq)]` on TokenType (a field-less enum) is assumed structural.
impl PartialEqSpecImpl for TokenType {
    open spec fn obeys_eq_spec() -> bool { true }
    open spec fn eq_spec(&self, other: &TokenType) -> bool { *self == *other }
}
impl PartialEq for TokenType {
    #[verifier::external_body]
    fn eq(&self, other: &TokenType) -> bool { unimplemented!() }
}

//@ extract src/tokenizer/mod.rs :: fn token_clone
//@   ret r
//@   sig <<<
    ensures r == std::result::Result::<Token, Error<SliceIter<'a, Token>>>::Ok(*t)
//@   >>>
//@ end

//@ extract src/parse/precedence.rs :: make_fn dot_op_type
//@   ret r
//@ end

} // verus!

fn main() {}
