//@ unit tokenizer
//@ serves C11 C04
//@ must_verify comment eoi optional OffsetStrIter::span Token::new Token::new_with_pos lemma_lits lemma_cmt_stop lemma_cmt_end_least lemma_suffix_valid lemma_boundary_is_char_boundary lemma_ascii_on_boundary lemma_until_span ascii_ws whitespace Position::from lemma_ws_dep_set lemma_boundary_step lemma_ws_run_is_ascii lemma_ws_end_bounds
//@ include prelude/head.rs
use vstd::utf8::*;
use std::rc::Rc;
use std::ops::Index;

verus! {
//@ include prelude/core.rs
//@ include prelude/stepper_iter.rs
//@ include prelude/lit_roundtrip_ap.rs

//@ extract src/ast/mod.rs :: struct Position
//@   rule R0
//@ end
//@ extract src/ast/mod.rs :: enum TokenType
//@   rule R0
//@ end
//@ extract src/ast/mod.rs :: struct Token
//@   rule R0
//@ end

//@ extract src/iter.rs :: impl * From<&'a OffsetStrIter<'a>> for Position :: fn from
//@   impl_header impl<'a> Position
//@   ret r
//@   sig <<<
        requires wf_osi(*s)
        ensures
            r.file == s.source_file,
            r.offset == s.contained.offset,
            r.line == true_line(src_bytes(s.contained), s.contained.offset as int) + s.line_offset,
            r.column == true_column(src_bytes(s.contained), s.contained.offset as int) + s.col_offset,
//@   >>>
//@ end

// `&str -> Rc<str>` (`"".into()`, `frag.into()`): std `impl From<&str> for Rc<str>`, content preserved.
pub assume_specification<'a, 'b> [<Rc<str> as From<&'a str>>::from] (s: &'b str) -> (r: Rc<str>)
    ensures r@ == s@;

// ---------- vocabulary ----------
pub open spec fn bytes_of(i: OffsetStrIter) -> Seq<u8> { src_bytes(i.contained) }
pub open spec fn off_of(i: OffsetStrIter) -> int { i.contained.offset as int }
pub open spec fn same_frame(a: OffsetStrIter, b: OffsetStrIter) -> bool {
    a.contained.source == b.contained.source && a.source_file == b.source_file
    && a.line_offset == b.line_offset && a.col_offset == b.col_offset
}
// r is i's stepper moved to byte offset k, still reporting the true line/column of k
pub open spec fn moved(i: OffsetStrIter, r: OffsetStrIter, k: int) -> bool {
    same_frame(r, i) && wf_osi(r) && off_of(r) == k
}

// the position a token starting where `i` stands must report
pub open spec fn pos_is(p: Position, i: OffsetStrIter) -> bool {
    &&& p.file == i.source_file
    &&& p.offset == off_of(i)
    &&& p.line == true_line(bytes_of(i), off_of(i)) + i.line_offset
    &&& p.column == true_column(bytes_of(i), off_of(i)) + i.col_offset
}

// char::is_whitespace is specified by vstd (std_specs/char.rs `is_white_space`: the Unicode White_Space set; for code
// points below 256 that is U+0009..U+000D, U+0020, U+0085, U+00A0 - proved below as lemma_ws_dep_set).
// what abortable_parser's `ascii_ws` accepts: the byte, read as a Latin-1 code point, is White_Space
pub open spec fn ws_dep(b: u8) -> bool { vstd::std_specs::char::is_white_space(b as char) }
// the oracle: ASCII whitespace = u8::is_ascii_whitespace (space, \t, \n, form feed, \r) plus vertical tab
pub open spec fn ws_ascii(b: u8) -> bool { b == 0x20 || b == 0x09 || b == 0x0A || b == 0x0B || b == 0x0C || b == 0x0D }

//@ extract dep:abortable_parser/src/combinators.rs :: fn ascii_ws
//@   subst "ascii_ws<'a, I: InputIter<Item = &'a u8>>(mut i: I) -> Result<I, u8>" => "ascii_ws<'a>(mut i: OffsetStrIter<'a>) -> Result<OffsetStrIter<'a>, u8>"
//@   rule R4
//@   subst all "\"Not whitespace\".to_string()" => "verif_msg()"
//@   subst "\"Unexpected End Of Input\".to_string()" => "verif_msg()"
// seeded change A: only space, tab, CR, LF count as whitespace (form feed / vertical tab no longer do)
//@   mutant ws_four_only "(*b as char).is_whitespace()" => "(*b == b' ' || *b == b'\\t' || *b == b'\\r' || *b == b'\\n')" expect ascii_ws
//@   mutant ws_no_vt "(*b as char).is_whitespace()" => "(*b == b' ' || (*b >= 9 && *b <= 13 && *b != 11))" expect ascii_ws
//@   ret r
//@   sig <<<
    requires wf_osi(i__in)
    ensures ({
        let bs = bytes_of(i__in); let o = off_of(i__in);
        if o < bs.len() && ws_dep(bs[o]) {
            r matches Result::Complete(rest, b) && moved(i__in, rest, o + 1) && b == bs[o]
        } else {
            r is Fail
        }
    })
//@   >>>
//@ end


// ---------- text_token!: "the input starts with this text" ----------
pub open spec fn lit(s: &str) -> Seq<u8> { encode_utf8(s@) }
pub open spec fn prefix_matches(bs: Seq<u8>, o: int, e: Seq<u8>, k: int) -> bool {
    forall|j: int| 0 <= j < k ==> bs[o + j] == #[trigger] e[j]
}
pub open spec fn starts_with_at(bs: Seq<u8>, o: int, e: Seq<u8>) -> bool {
    0 <= o && o + e.len() <= bs.len() && prefix_matches(bs, o, e, e.len() as int)
}
// clauses of the loop of text_token!(start, e): k bytes of e have been compared, `count` of them were equal
pub open spec fn text_token_inv(start: OffsetStrIter, cur: OffsetStrIter, it: Seq<u8>, e: &str, k: int, count: int) -> bool {
    &&& it == lit(e) && 0 <= k <= it.len() && 0 <= count <= k
    &&& moved(start, cur, off_of(start) + k)
    &&& (count == k) == prefix_matches(bytes_of(start), off_of(start), it, k)
}
pub open spec fn text_token_done(start: OffsetStrIter, cur: OffsetStrIter, e: &str, count: int) -> bool {
    &&& wf_osi(cur) && same_frame(cur, start) && 0 <= count <= lit(e).len()
    &&& (count == lit(e).len()) == starts_with_at(bytes_of(start), off_of(start), lit(e))
    &&& count == lit(e).len() ==> off_of(cur) == off_of(start) + lit(e).len()
}

// the byte values of the literals the recognisers below look for (vstd::utf8::encode_utf8 of ASCII text)
pub proof fn lemma_ascii1(a: char)
    requires (a as u32) < 0x80
    ensures encode_utf8(seq![a]) =~= seq![a as u8]
{
    reveal_with_fuel(encode_utf8, 2);
    assert(seq![a].drop_first() =~= Seq::<char>::empty());
    let x = a as u32;
    assert(x < 0x80 ==> (x & 0x7f) as u8 == x as u8) by (bit_vector);
}
pub proof fn lemma_ascii2(a: char, b: char)
    requires (a as u32) < 0x80, (b as u32) < 0x80
    ensures encode_utf8(seq![a, b]) =~= seq![a as u8, b as u8]
{
    lemma_ascii1(a); lemma_ascii1(b);
    encode_utf8_concat(seq![a], seq![b]);
    assert(seq![a] + seq![b] =~= seq![a, b]);
}
pub proof fn lemma_lits()
    ensures lit("//") =~= seq![0x2Fu8, 0x2Fu8], lit("\r\n") =~= seq![0x0Du8, 0x0Au8], lit("\n") =~= seq![0x0Au8],
{
    reveal_strlit("//"); reveal_strlit("\r\n"); reveal_strlit("\n");
    assert("//"@ =~= seq!['/', '/']); assert("\r\n"@ =~= seq!['\r', '\n']); assert("\n"@ =~= seq!['\n']);
    lemma_ascii2('/', '/'); lemma_ascii2('\r', '\n'); lemma_ascii1('\n');
}

// ---------- comment ----------
pub open spec fn is_lf(bs: Seq<u8>, j: int) -> bool { 0 <= j < bs.len() && bs[j] == 0x0A }
pub open spec fn is_crlf(bs: Seq<u8>, j: int) -> bool { 0 <= j && j + 1 < bs.len() && bs[j] == 0x0D && bs[j + 1] == 0x0A }
// the comment text ends at j: end of input, LF, or CR LF.  A CR that is not followed by LF is comment text.
pub open spec fn cmt_ends_at(bs: Seq<u8>, j: int) -> bool { j >= bs.len() || is_lf(bs, j) || is_crlf(bs, j) }
// the first such position at or after s
pub open spec fn cmt_end(bs: Seq<u8>, s: int) -> int
    decreases bs.len() - s
{
    if s >= bs.len() || cmt_ends_at(bs, s) { s } else { cmt_end(bs, s + 1) }
}
// where the next token starts: after the line terminator, which belongs to the comment token but not to its text
pub open spec fn cmt_next(bs: Seq<u8>, e: int) -> int { if is_crlf(bs, e) { e + 2 } else if is_lf(bs, e) { e + 1 } else { e } }

// the rule until! is used with, as the combinators see it: either!(eoi, text_token!("\r\n"), text_token!("\n"))
pub open spec fn cmt_stop(bs: Seq<u8>, j: int) -> bool {
    j >= bs.len() || starts_with_at(bs, j, lit("\r\n")) || starts_with_at(bs, j, lit("\n"))
}
pub proof fn lemma_cmt_stop(bs: Seq<u8>, j: int)
    requires 0 <= j
    ensures cmt_stop(bs, j) == cmt_ends_at(bs, j),
        starts_with_at(bs, j, lit("\r\n")) == is_crlf(bs, j), starts_with_at(bs, j, lit("\n")) == is_lf(bs, j),
{
    lemma_lits();
    let a = lit("\r\n"); let b = lit("\n");
    if is_crlf(bs, j) { assert(prefix_matches(bs, j, a, 2)); }
    if starts_with_at(bs, j, a) { assert(bs[j + 0] == a[0]); assert(bs[j + 1] == a[1]); }
    if is_lf(bs, j) { assert(prefix_matches(bs, j, b, 1)); }
    if starts_with_at(bs, j, b) { assert(bs[j + 0] == b[0]); }
}
pub proof fn lemma_cmt_end_least(bs: Seq<u8>, s: int, e: int)
    requires 0 <= s <= e <= bs.len(), cmt_ends_at(bs, e), forall|j: int| s <= j < e ==> !cmt_ends_at(bs, j)
    ensures cmt_end(bs, s) == e
    decreases e - s
{
    if s < e { lemma_cmt_end_least(bs, s + 1, e); }
}

// clauses of the loop of until!(start, <the rule above>): no terminator between `start` and `cur`
pub open spec fn until_inv(start: OffsetStrIter, cur: OffsetStrIter) -> bool {
    &&& wf_osi(start) && on_boundary(bytes_of(start), off_of(start))
    &&& moved(start, cur, off_of(cur)) && off_of(start) <= off_of(cur) <= bytes_of(start).len()
    &&& forall|j: int| off_of(start) <= j < off_of(cur) ==> !cmt_stop(bytes_of(start), j)
}
pub open spec fn until_post<'a>(start: OffsetStrIter<'a>, r: Result<OffsetStrIter<'a>, &'a str>) -> bool {
    r matches Result::Complete(rest, sp) && (until_inv(start, rest) && cmt_stop(bytes_of(start), off_of(rest))
    && encode_utf8(sp@) == bytes_of(start).subrange(off_of(start), off_of(rest)))
}

// an ASCII byte of well-formed UTF-8 starts a character
pub proof fn lemma_suffix_valid(bs: Seq<u8>, k: int)
    requires valid_utf8(bs), 0 <= k < bs.len(), !is_continuation_byte(bs[k])
    ensures valid_utf8(bs.skip(k))
    decreases bs.len()
{
    if k == 0 {
        assert(bs.skip(0) =~= bs);
    } else {
        let w = length_of_first_scalar(bs);
        assert(valid_first_scalar(bs));
        assert(pop_first_scalar(bs) =~= bs.skip(w));
        assert(forall|j: int| 1 <= j < w ==> is_continuation_byte(#[trigger] bs[j]));
        assert(w <= k);
        lemma_suffix_valid(pop_first_scalar(bs), k - w);
        assert(bs.skip(w).skip(k - w) =~= bs.skip(k));
    }
}
// on_boundary is str::is_char_boundary (vstd's model of it) on the bytes of a &str
pub proof fn lemma_boundary_is_char_boundary(s: &str, k: int)
    requires on_boundary(encode_utf8(s@), k)
    ensures is_char_boundary(encode_utf8(s@), k)
{
    let bs = encode_utf8(s@);
    encode_utf8_valid_utf8(s@);
    if k < bs.len() {
        lemma_boundary_step(bs, k);
        is_char_boundary_iff_not_is_continuation_byte(bs, k);
    } else {
        is_char_boundary_start_end_of_seq(bs);
    }
}
pub proof fn lemma_ascii_on_boundary(s: &str, k: int)
    requires 0 <= k <= encode_utf8(s@).len(), k < encode_utf8(s@).len() ==> encode_utf8(s@)[k] < 0x80
    ensures on_boundary(encode_utf8(s@), k)
{
    let bs = encode_utf8(s@);
    encode_utf8_valid_utf8(s@);
    if k < bs.len() {
        let b = bs[k];
        assert(b < 0x80 ==> b & 0xC0 != 0x80) by (bit_vector);
        lemma_suffix_valid(bs, k);
    } else {
        assert(bs.skip(k) =~= Seq::<u8>::empty());
    }
}
// the span until! cuts out lies on character boundaries
pub proof fn lemma_until_span(start: OffsetStrIter, cur: OffsetStrIter)
    requires until_inv(start, cur), cmt_stop(bytes_of(start), off_of(cur))
    ensures span_ok(bytes_of(start), off_of(start), off_of(cur))
{
    let bs = bytes_of(start);
    lemma_boundary_is_char_boundary(start.contained.source, off_of(start));
    lemma_cmt_stop(bs, off_of(cur));
    lemma_ascii_on_boundary(start.contained.source, off_of(cur));
    lemma_boundary_is_char_boundary(start.contained.source, off_of(cur));
}

//@ extract dep:abortable_parser/src/combinators.rs :: fn eoi
//@   subst "eoi<I: InputIter>(i: I) -> Result<I, ()>" => "eoi<'a>(i: OffsetStrIter<'a>) -> Result<OffsetStrIter<'a>, ()>"
//@   subst "\"Expected End Of Input\".to_string()" => "verif_msg()"
//@   ret r
//@   sig <<<
    requires wf_osi(i)
    ensures
        off_of(i) >= bytes_of(i).len() ==> (r matches Result::Complete(rest, _u) && rest == i),
        off_of(i) < bytes_of(i).len() ==> r is Fail,
//@   >>>
//@ end

// `$crate::combinators::optional` of optional!: the function lives in a module of that name
pub mod combinators {
    use super::*;
//@ extract dep:abortable_parser/src/combinators.rs :: fn optional
//@   subst "where I: InputIter," => ""
//@   ret r
//@   sig <<<
    ensures
        result matches Result::Complete(i, o) ==> r == Result::<I, Option<O>>::Complete(i, Some(o)),
        result is Fail ==> r == Result::<I, Option<O>>::Complete(iter, None),
        result is Incomplete ==> r is Incomplete,
        result is Abort ==> r is Abort,
//@   >>>
//@ end
}

// ---------- spans: the text between two byte offsets ----------
//@ extract dep:abortable_parser/src/lib.rs :: enum SpanRange
//@   rule R0
//@ end

pub open spec fn span_ok(bs: Seq<u8>, a: int, b: int) -> bool {
    0 <= a <= b <= bs.len() && is_char_boundary(bs, a) && is_char_boundary(bs, b)
}

// TRUSTED (opaque_body): StrIter::span is `self.source.index(r)` for each of the four range forms, i.e.
// `<str as Index<Range<usize>>>::index` for the only form the tokenizer uses (Verus cannot take the generic
// `impl<I: SliceIndex<str>> Index<I> for str`).  std: "Returns a slice of the given string from the byte range
// [begin, end). Panics if begin or end does not point to the starting byte offset of a character (as defined by
// is_char_boundary), if begin > end, or if end > len".  vstd::utf8::is_char_boundary is vstd's model of
// str::is_char_boundary.  The `requires` is the no-panic condition.
//@ extract dep:abortable_parser/src/iter.rs :: impl * Span<&'a str> for StrIter<'a> :: fn span
//@   impl_header impl<'a> StrIter<'a>
//@   opaque_body
//@   ret r
//@   sig <<<
        requires idx matches SpanRange::Range(rg) && span_ok(src_bytes(*self), rg.start as int, rg.end as int)
        ensures idx matches SpanRange::Range(rg) && encode_utf8(r@) == src_bytes(*self).subrange(rg.start as int, rg.end as int)
//@   >>>
//@ end
//@ extract src/iter.rs :: impl * Span<&'a str> for OffsetStrIter<'a> :: fn span
//@   impl_header impl<'a> OffsetStrIter<'a>
//@   ret r
//@   sig <<<
        requires idx matches SpanRange::Range(rg) && span_ok(bytes_of(*self), rg.start as int, rg.end as int)
        ensures idx matches SpanRange::Range(rg) && encode_utf8(r@) == bytes_of(*self).subrange(rg.start as int, rg.end as int)
//@   >>>
//@ end

// ---------- Token construction ----------
// `String -> Rc<str>` (`f.into()`): std `impl From<String> for Rc<str>`, content preserved.
pub assume_specification [<Rc<str> as From<String>>::from] (s: String) -> (r: Rc<str>)
    ensures r@ == s@;

// R7: `Token::new<S: Into<Rc<str>>, P: Into<Position>>` is used by the comment recogniser at S = String,
// P = &OffsetStrIter; `p.into()` is then `<Position as From<&OffsetStrIter>>::from(p)` (src/iter.rs, extracted above).
//@ extract src/ast/mod.rs :: impl Token :: fn new
//@   subst "new<S: Into<Rc<str>>, P: Into<Position>>(f: S, typ: TokenType, p: P)" => "new<'a>(f: String, typ: TokenType, p: &'a OffsetStrIter<'a>)"
//@   subst "p.into()" => "Position::from(p)"
//@   ret r
//@   sig <<<
        requires wf_osi(*p)
        ensures r.fragment@ == f@, r.typ == typ, pos_is(r.pos, *p)
//@   >>>
//@ end
//@ extract src/ast/mod.rs :: impl Token :: fn new_with_pos
//@   subst "new_with_pos<S: Into<Rc<str>>>(f: S," => "new_with_pos(f: String,"
//@   ret r
//@   sig <<<
        ensures r.fragment@ == f@, r.typ == typ, r.pos == pos
//@   >>>
//@ end
//@ extract src/ast/mod.rs :: macro make_tok
//@   rule R0
//@ end

} // verus!

//@ extract dep:abortable_parser/src/combinators.rs :: macro run
//@ end
//@ extract dep:abortable_parser/src/combinators.rs :: macro do_each
//@ end
//@ extract dep:abortable_parser/src/combinators.rs :: macro input
//@ end
//@ extract dep:abortable_parser/src/combinators.rs :: macro peek
//@ end
//@ extract dep:abortable_parser/src/combinators.rs :: macro either
//@ end
//@ extract dep:abortable_parser/src/combinators.rs :: macro discard
//@ end
//@ extract dep:abortable_parser/src/combinators.rs :: macro optional
//@ end
// text_token!: verbatim except for the `for` loop head (R13 by hand: Verus has no model of `str::bytes()`; std documents
// `Bytes` as the iterator over `as_bytes()`, so the loop walks `as_bytes()` by index in the same order) and R1 (message
// text).  The other substs only INSERT the verus_exec_expr! wrapper, the loop clauses and one proof hint.
//@ extract dep:abortable_parser/src/combinators.rs :: macro text_token
//@   rule R1
//@   subst "{{ use $crate::Error;" => "{ verus_exec_expr!{ { use $crate::Error;"
//@   subst "let mut _i = $i.clone(); let mut count = 0;" => "let mut _i = $i.clone(); let ghost i0__ = _i; let mut count = 0;"
//@   subst "Box::new($i.clone()), )) } }};" => "Box::new($i.clone()), )) } } } };"
//@   subst "for expected in $e.bytes() {" => "let it__1 = $e.as_bytes(); let mut i__1: usize = 0; while i__1 < it__1.len() invariant_except_break text_token_inv(i0__, _i, it__1@, $e, i__1 as int, count as int), ensures text_token_done(i0__, _i, $e, count as int), decreases it__1.len() - i__1 { let expected = it__1[i__1]; i__1 += 1;"
//@   subst "if count == $e.len() {" => "proof { axiom_str_len_bound($e); } if count == $e.len() {"
//@ end
// until!: the closure `|| { loop { .. return .. } }` captures `_i` by mutable reference, which Verus does not support
// ("closures capturing a mutable reference"); the closure takes `_i` by value instead and is called with it (`_i` is not
// used after the call, so moving it in is the same computation).  `use $crate::{.., Offsetable, Span, ..}` loses the two
// trait imports (their methods are inherent methods in this one-file crate).  Everything else: inserted clauses.
//@ extract dep:abortable_parser/src/combinators.rs :: macro until
//@   subst "{{ use $crate::{Result, Offsetable, Span, SpanRange};" => "{ verus_exec_expr!{ { use $crate::{Result, SpanRange};"
//@   subst "let pfn = || {" => "let ghost i0__ = _i; let pfn = |mut _i: OffsetStrIter<'a>| -> (r__: Result<OffsetStrIter<'a>, &'a str>) requires until_inv(i0__, _i) ensures until_post(i0__, r__) {"
//@   subst "loop {" => "loop invariant until_inv(i0__, _i), start_offset == off_of(i0__), i0__ == $i, decreases repeat_left(_i) {"
//@   subst "return Result::Complete(_i, $i.span(range));" => "proof { lemma_until_span(i0__, _i); } return Result::Complete(_i, $i.span(range));"
//@   subst "pfn() }};" => "pfn(_i) } } };"
//@ end
// repeat!: verbatim; the three substs only INSERT the verus_exec_expr! wrapper (Verus clause syntax inside a
// macro_rules body) and the loop clauses. `repeat_inv`/`repeat_done`/`repeat_left` are defined below for the one use
// the tokenizer makes of it: repeat!(ascii_ws) over an OffsetStrIter.
//@ extract dep:abortable_parser/src/combinators.rs :: macro repeat
//@   subst "{{ let mut _i = $i.clone(); let mut seq = Vec::new();" => "{ verus_exec_expr!{ { let mut _i = $i.clone(); let ghost i0__ = _i; let mut seq = Vec::new();"
//@   subst "None => $crate::Result::Complete(_i, seq), } }};" => "None => $crate::Result::Complete(_i, seq), } } } };"
//@   subst "loop {" => "loop invariant opt_error is None, repeat_inv(i0__, _i), ensures opt_error is None, repeat_done(i0__, _i), decreases repeat_left(_i) {"
//@ end

verus! {

// ---------- comment ----------
//@ extract src/tokenizer/mod.rs :: fn comment
// names the elided lifetime (the closure signature inside until! has to mention it)
//@   subst "fn comment(input: OffsetStrIter) -> Result<OffsetStrIter, Token>" => "fn comment<'a>(input: OffsetStrIter<'a>) -> Result<OffsetStrIter<'a>, Token>"
//@   subst all "\"Unparsable comment\".to_string()" => "verif_msg()"
//@   ret r
//@   sig <<<
    requires wf_osi(input), on_boundary(bytes_of(input), off_of(input))
    ensures ({
        let bs = bytes_of(input); let o = off_of(input);
        if !(o + 2 <= bs.len() && bs[o] == 0x2F && bs[o + 1] == 0x2F) {
            // does not start with `//`: not a comment
            r is Fail
        } else {
            let s = o + 2; let e = cmt_end(bs, s);
            // one COMMENT token: its text is exactly the bytes between `//` and the terminator, its position is the
            // true position of the first `/`; the next token starts after the terminator, on a character boundary
            r matches Result::Complete(rest, tok) && moved(input, rest, cmt_next(bs, e))
            && tok.typ is COMMENT && encode_utf8(tok.fragment@) == bs.subrange(s, e) && pos_is(tok.pos, input)
            && on_boundary(bs, cmt_next(bs, e))
        }
    })
//@   >>>
//@   body_start <<<
    proof {
        lemma_lits();
        let bs = bytes_of(input); let o = off_of(input);
        if starts_with_at(bs, o, lit("//")) { assert(bs[o + 0] == lit("//")[0]); assert(bs[o + 1] == lit("//")[1]); }
        if o + 2 <= bs.len() && bs[o] == 0x2F && bs[o + 1] == 0x2F {
            assert(prefix_matches(bs, o, lit("//"), 2));
            lemma_boundary_step(bs, o); lemma_boundary_step(bs, o + 1);
        }
    }
//@   >>>
//@   before "let rest = match optional" <<<
                    proof {
                        let bs = bytes_of(input); let s = off_of(input) + 2; let e = off_of(rest);
                        assert forall|j: int| s <= j < e implies !cmt_ends_at(bs, j) by { lemma_cmt_stop(bs, j); }
                        lemma_cmt_stop(bs, e);
                        lemma_cmt_end_least(bs, s, e);
                        lemma_ascii_on_boundary(input.contained.source, e);
                        if e < bs.len() { lemma_boundary_step(bs, e); }
                        if is_crlf(bs, e) { lemma_boundary_step(bs, e + 1); }
                    }
//@   >>>
// seeded change B: a lone CR ends the comment
//@   mutant cmt_cr_terminates "discard!(text_token!(\"\\r\\n\"))," => "discard!(text_token!(\"\\r\"))," expect comment
//@   mutant cmt_single_slash "text_token!(input, \"//\")" => "text_token!(input, \"/\")" expect comment
// the CR of a CRLF terminator becomes part of the comment text
//@   mutant cmt_text_keeps_cr "either!( eoi, discard!(text_token!(\"\\r\\n\")), discard!(text_token!(\"\\n\")) )" => "either!( eoi, discard!(text_token!(\"\\n\")) )" expect comment
//@   mutant cmt_newline_not_eaten "Result::Complete(next_rest, _) => next_rest," => "Result::Complete(next_rest, _) => rest.clone()," expect comment
//@   mutant cmt_needs_newline "either!( eoi, discard!" => "either!( discard!" expect comment
//@ end

// ---------- whitespace ----------
// end of the maximal run of bytes satisfying `ws_dep` that starts at k
pub open spec fn ws_end(bs: Seq<u8>, k: int) -> int
    decreases bs.len() - k
{
    if 0 <= k < bs.len() && ws_dep(bs[k]) { ws_end(bs, k + 1) } else { k }
}
// ... and of the maximal run of ASCII whitespace (the oracle)
pub open spec fn ws_ascii_end(bs: Seq<u8>, k: int) -> int
    decreases bs.len() - k
{
    if 0 <= k < bs.len() && ws_ascii(bs[k]) { ws_ascii_end(bs, k + 1) } else { k }
}

pub proof fn lemma_ws_end_bounds(bs: Seq<u8>, k: int)
    requires 0 <= k <= bs.len()
    ensures k <= ws_end(bs, k) <= bs.len(), k <= ws_ascii_end(bs, k) <= bs.len(),
    decreases bs.len() - k
{
    if k < bs.len() { lemma_ws_end_bounds(bs, k + 1); }
}

// The set `ascii_ws` accepts, byte by byte: ASCII whitespace plus 0x85 (NEL) and 0xA0 (NBSP) read as Latin-1.
pub proof fn lemma_ws_dep_set(b: u8)
    ensures ws_dep(b) == (ws_ascii(b) || b == 0x85 || b == 0xA0)
{
}

// ---------- UTF-8: "the stepper stands on a character boundary" ----------
// on_boundary(bs, k): the rest of the text from k on is well-formed UTF-8 (vstd::utf8::valid_utf8).  For the bytes of a
// &str this is the same as `str::is_char_boundary(k)` (lemma_boundary_is_char_boundary).
pub open spec fn on_boundary(bs: Seq<u8>, k: int) -> bool { 0 <= k <= bs.len() && valid_utf8(bs.skip(k)) }

// a byte on a boundary is not a continuation byte (10xxxxxx); an ASCII byte is a whole character
pub proof fn lemma_boundary_step(bs: Seq<u8>, k: int)
    requires on_boundary(bs, k), k < bs.len()
    ensures !is_continuation_byte(bs[k]), bs[k] != 0x85, bs[k] != 0xA0, bs[k] < 0x80 ==> on_boundary(bs, k + 1),
{
    reveal_with_fuel(valid_utf8, 2);
    assert(bs.skip(k)[0] == bs[k]);
    assert(bs.skip(k).skip(1) =~= bs.skip(k + 1));
    assert(0x85u8 & 0xC0 == 0x80 && 0xA0u8 & 0xC0 == 0x80) by (bit_vector);
}

// On a character boundary of well-formed UTF-8 the two extra bytes never occur: the run `ascii_ws` consumes is the run
// of ASCII whitespace, and it ends on a character boundary again.
pub proof fn lemma_ws_run_is_ascii(bs: Seq<u8>, k: int)
    requires on_boundary(bs, k)
    ensures ws_end(bs, k) == ws_ascii_end(bs, k), on_boundary(bs, ws_end(bs, k)),
    decreases bs.len() - k
{
    if k < bs.len() {
        lemma_boundary_step(bs, k);
        lemma_ws_dep_set(bs[k]);
        if ws_dep(bs[k]) { lemma_ws_run_is_ascii(bs, k + 1); }
    }
}

// clauses of the loop in repeat!(ascii_ws): `cur` is `start` moved forward inside the run that begins at `start`
pub open spec fn repeat_inv(start: OffsetStrIter, cur: OffsetStrIter) -> bool {
    &&& wf_osi(start) && moved(start, cur, off_of(cur))
    &&& off_of(start) <= off_of(cur) <= bytes_of(start).len()
    &&& ws_end(bytes_of(start), off_of(cur)) == ws_end(bytes_of(start), off_of(start))
}
pub open spec fn repeat_done(start: OffsetStrIter, cur: OffsetStrIter) -> bool {
    &&& wf_osi(start) && moved(start, cur, off_of(cur))
    &&& off_of(cur) == ws_end(bytes_of(start), off_of(start))
}
pub open spec fn repeat_left(cur: OffsetStrIter) -> int { bytes_of(cur).len() - off_of(cur) }

//@ extract src/tokenizer/mod.rs :: make_fn whitespace
//@   ret r
//@   sig <<<
    requires wf_osi(i)
    ensures ({
        let bs = bytes_of(i); let o = off_of(i);
        if ws_end(bs, o) == o {
            // empty run: no token
            r is Fail
        } else {
            // exactly the maximal run is consumed; one WS token with empty text at the true start position
            r matches Result::Complete(rest, tok) && moved(i, rest, ws_end(bs, o))
            && tok.typ is WS && tok.fragment@ =~= Seq::<char>::empty() && pos_is(tok.pos, i)
        }
    }),
        // the run is the run of ASCII whitespace (space, \t, \n, VT, FF, \r) whenever the stepper stands on a character
        // boundary (it always does: the source is a &str and every recogniser ends on a boundary)
        on_boundary(bytes_of(i), off_of(i)) ==> ws_end(bytes_of(i), off_of(i)) == ws_ascii_end(bytes_of(i), off_of(i))
            && on_boundary(bytes_of(i), ws_end(bytes_of(i), off_of(i))),
//@   >>>
//@   body_start <<<
    proof {
        reveal_strlit("");
        lemma_ws_end_bounds(bytes_of(i), off_of(i));
        if off_of(i) < bytes_of(i).len() { lemma_ws_end_bounds(bytes_of(i), off_of(i) + 1); }
        if on_boundary(bytes_of(i), off_of(i)) { lemma_ws_run_is_ascii(bytes_of(i), off_of(i)); }
    }
//@   >>>
//@   mutant ws_empty_run "_ => peek!(ascii_ws)," => "" expect whitespace
//@   mutant ws_single_byte "_ => repeat!(ascii_ws)," => "_ => ascii_ws," expect whitespace
//@   mutant ws_pos_at_end "span => input!(), _ => peek!(ascii_ws), _ => repeat!(ascii_ws)," => "_ => peek!(ascii_ws), _ => repeat!(ascii_ws), span => input!()," expect whitespace
//@ end

} // verus!

fn main() {}
