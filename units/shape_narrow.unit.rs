//@ unit shape_narrow
//@ serves C06 C04
//@ must_verify Shape::narrow Shape::narrow_cached Shape::narrow_tuple_shapes_cached Shape::narrow_list_shapes_cached Shape::pos Shape::with_pos Shape::type_name NarrowedShape::new_with_pos NarrowedShape::with_pos PositionedItem::new PositionedItem::new_with_pos PositionedItem::with_pos is_list_subset_cached is_tuple_subset_cached compat lemma_compat_lists lemma_compat_tuples lemma_compat_sym lemma_compat_sym_imp lemma_np_tuple_no_field_lost VIter::next verif_slice_iter verif_find
//@ include prelude/head.rs
use std::rc::Rc;
use std::collections::BTreeMap;

// C06, static half: shape compatibility ("narrowing") of the type checker, src/ast/mod.rs Shape::narrow ... is_list_subset_cached.
// Oracle (prelude/shape_narrow_spec.rs, from the property statement and reference/typechecking.md, not from the code):
// the recursive predicate compat(a, b) over the real Shape enum. Proved for ALL shapes without a ConstraintRef inside
// (`cref_free`; units shape_narrow_cref / shape_narrow_term cover named constraints):
//   narrow / narrow_cached(a, b) returns a TypeErr  <=>  !compat(a, b);
//   otherwise it returns a or b, and the more specific one where that is defined (np_side, np_tuple, np_list);
//   the memo cache `seen` is untouched and the symbol table keeps exactly its names (only entries of type holes are refined);
//   termination (measure: combined number of Shape nodes) and no panic (C04).
// lemma_compat_sym: the oracle does not depend on which side is the exemplar ("either direction").
// Under contract: Shape::narrow, narrow_cached (all arms except the two below), narrow_tuple_shapes_cached,
// narrow_list_shapes_cached, is_tuple_subset_cached, is_list_subset_cached; no-panic/termination only: Shape::pos, with_pos,
// type_name, NarrowedShape::{new_with_pos, with_pos}, PositionedItem::{new, new_with_pos, with_pos}.
// STUBBED: the Func/Func and Module/Module arms of narrow_cached (see below); the ConstraintRef arm is unreachable here.
verus! {
//@ include prelude/core.rs
//@ include prelude/constraint_rt_models.rs
//@ include prelude/shape_narrow_models.rs

//@ include prelude/shape_narrow_spec.rs

// The Func/Func and Module/Module arms are NOT verified (function and module shapes are outside the property statement;
// the recursion through BTreeMap values has no structural measure). They are cut off by an always-taken early return to
// these stubs: ASSUMED contract = result is a type error iff the uninterpreted func_compat / module_compat says so, else a
// clone of self; the frame holds if no named constraint occurs inside (uninterpreted func_cref_free / module_cref_free).
#[verifier::external_body]
fn verif_skip_arm() -> (r: bool) ensures r { true }
#[verifier::external_body]
fn verif_narrow_func_arm(slf: &Shape, l: &FuncShapeDef, r: &FuncShapeDef, symbol_table: &mut BTreeMap<Rc<str>, Shape>, seen: &mut Vec<(Rc<str>, Shape, Shape)>) -> (res: Shape)
    ensures (res is TypeErr) == !func_compat(*l, *r), !(res is TypeErr) ==> res == *slf,
        func_cref_free(*l) && func_cref_free(*r) ==> frame(old(symbol_table)@, final(symbol_table)@, old(seen)@, final(seen)@),
{ unimplemented!() }
#[verifier::external_body]
fn verif_narrow_module_arm(slf: &Shape, l: &ModuleShape, r: &ModuleShape, symbol_table: &mut BTreeMap<Rc<str>, Shape>, seen: &mut Vec<(Rc<str>, Shape, Shape)>) -> (res: Shape)
    ensures (res is TypeErr) == !module_compat(*l, *r), !(res is TypeErr) ==> res == *slf,
        module_cref_free(*l) && module_cref_free(*r) ==> frame(old(symbol_table)@, final(symbol_table)@, old(seen)@, final(seen)@),
{ unimplemented!() }

//@ extract src/ast/mod.rs :: impl Shape :: fn pos
//@   ret r
//@   sig <<<
        decreases *self
//@   >>>
//@ end

//@ extract src/ast/mod.rs :: impl<T> PositionedItem<T> :: fn new
//@ end
//@ extract src/ast/mod.rs :: impl<T> PositionedItem<T> :: fn new_with_pos
//@ end
//@ extract src/ast/mod.rs :: impl<T> PositionedItem<T> :: fn with_pos
//@   rule R4
//@ end
//@ extract src/ast/mod.rs :: impl NarrowedShape :: fn new_with_pos
//@ end
//@ extract src/ast/mod.rs :: impl NarrowedShape :: fn with_pos
//@   rule R4
//@ end
//@ extract src/ast/mod.rs :: impl Shape :: fn with_pos
//@ end
//@ extract src/ast/mod.rs :: impl Shape :: fn type_name
//@ end

//@ extract src/ast/mod.rs :: impl Shape :: fn narrow_cached
//@   rule R1
//@   subst all <<<
                let compatible: Vec<Shape> = types
                    .iter()
                    .filter(|t| {
//@ ===
                let mut compatible__v: Vec<Shape> = Vec::new(); let it__c = types.as_slice(); let mut i__c: usize = 0; while i__c < it__c.len() { let t = &it__c[i__c]; i__c += 1; let keep__ = {
//@   >>>
//@   subst all <<<
                    })
                    .cloned()
                    .collect();
//@ ===
                    }; if keep__ { compatible__v.push(t.clone()); } } let compatible: Vec<Shape> = compatible__v;
//@   >>>
// `.iter().find(closure)` -> the verified model verif_find; the closure keeps its body, Verus needs its parameter type and an `ensures`
//@   subst "seen.iter().find(|(name, shape, _)| {" => "verif_find(seen.as_slice(), |e__: &(Rc<str>, Shape, Shape)| -> (b: bool) ensures b == (e__.0@ == cref.val@ && shape_same(e__.1, *other)) { let (name, shape, _) = e__;"
//@   subst "(Shape::Func(left_opshape), Shape::Func(right_opshape)) => {" => "(Shape::Func(left_opshape), Shape::Func(right_opshape)) => { if verif_skip_arm() { return verif_narrow_func_arm(self, left_opshape, right_opshape, symbol_table, seen); }"
//@   subst "(Shape::Module(left_opshape), Shape::Module(right_opshape)) => {" => "(Shape::Module(left_opshape), Shape::Module(right_opshape)) => { if verif_skip_arm() { return verif_narrow_module_arm(self, left_opshape, right_opshape, symbol_table, seen); }"
//@   ret r
//@   sig <<<
        requires cref_free(*self), cref_free(*right)
        ensures
            np_err(*self, *right, r), np_side(*self, *right, r), np_tuple(*self, *right, r), np_list(*self, *right, r),
            frame(old(symbol_table)@, final(symbol_table)@, old(seen)@, final(seen)@),
        decreases sz(*self) + sz(*right), 1nat
//@   >>>
//@   body_start <<<
        broadcast use axiom_rc_str_btree_key;
        proof { lemma_cands(*self); lemma_cands(*right); }
//@   >>>
//@   loop 1 <<<
                    invariant
                        i__c <= it__c@.len(), it__c@ == cands(*self), other == right,
                        forall|j: int| 0 <= j < cands(*self).len() ==> sz(#[trigger] cands(*self)[j]) < sz(*self),
                        forall|j: int| 0 <= j < cands(*self).len() ==> cref_free(#[trigger] cands(*self)[j]),
                        cref_free(*right),
                        // some candidate tried so far admits the other side
                        (compatible__v@.len() > 0) == (exists|j: int| 0 <= j < i__c && compat(#[trigger] cands(*self)[j], *right)),
                        frame(old(symbol_table)@, symbol_table@, old(seen)@, seen@),
                    decreases it__c@.len() - i__c
//@   >>>
// the loops of the two cut-off arms (unreachable after the early return)
//@   loop 3 <<<
                    invariant false
//@   >>>
//@   loop 4 <<<
                    invariant false
//@   >>>
//@   loop 5 <<<
                    invariant false
//@   >>>
//@   loop 2 <<<
                    invariant
                        i__c <= it__c@.len(), it__c@ == cands(*right), other == self,
                        forall|j: int| 0 <= j < cands(*right).len() ==> sz(#[trigger] cands(*right)[j]) < sz(*right),
                        forall|j: int| 0 <= j < cands(*right).len() ==> cref_free(#[trigger] cands(*right)[j]),
                        cref_free(*self),
                        (compatible__v@.len() > 0) == (exists|j: int| 0 <= j < i__c && compat(*self, #[trigger] cands(*right)[j])),
                        frame(old(symbol_table)@, symbol_table@, old(seen)@, seen@),
                    decreases it__c@.len() - i__c
//@   >>>
//@   mutant int_float_conflated "| (Shape::Int(_), Shape::Int(_))" => "| (Shape::Int(_), Shape::Float(_))" expect narrow_cached
//@   mutant first_candidate_only "while i__c < it__c.len() { let t = &it__c[i__c]; i__c += 1; let keep__ = { let result = t.narrow_cached(other" => "while i__c < it__c.len() && i__c < 1 { let t = &it__c[i__c]; i__c += 1; let keep__ = { let result = t.narrow_cached(other" expect narrow_cached
//@   mutant candidate_filter_inverted "let result = other.narrow_cached(t, symbol_table, seen); !matches!(result, Shape::TypeErr(_, _))" => "let result = other.narrow_cached(t, symbol_table, seen); matches!(result, Shape::TypeErr(_, _))" expect narrow_cached
//@   mutant type_error_not_propagated "(_, Shape::TypeErr(_, _)) => right.clone()," => "(_, Shape::TypeErr(_, _)) => self.clone()," expect narrow_cached
//@   mutant mismatch_accepted "_ => Shape::TypeErr( right.pos().clone(), verif_msg(), )," => "_ => self.clone()," expect narrow_cached
//@ end

//@ extract src/ast/mod.rs :: impl Shape :: fn narrow
//@   ret r
//@   sig <<<
        requires cref_free(*self), cref_free(*right)
        ensures
            // a type error exactly for shapes that are not compatible; otherwise one of the two shapes
            np_err(*self, *right, r), np_side(*self, *right, r), np_tuple(*self, *right, r), np_list(*self, *right, r),
            // the symbol table keeps exactly its names
            final(symbol_table)@.dom() =~= old(symbol_table)@.dom(),
//@   >>>
//@ end

//@ extract src/ast/mod.rs :: impl Shape :: fn narrow_tuple_shapes_cached
//@   mutant tuple_one_direction_only "} else if is_tuple_subset_cached(left_iter, right_slist, symbol_table, seen) {" => "} else if false {" expect narrow_tuple_shapes_cached
// the defect fixed in ucg ("tuple narrowing keeps the tuple that has all the fields"): the tuple with FEWER fields was returned
//@   mutant tuple_result_forgets_fields "if is_tuple_subset_cached(right_iter, left_slist, symbol_table, seen) { self.clone() } else if is_tuple_subset_cached(left_iter, right_slist, symbol_table, seen) { right.clone() }" => "if is_tuple_subset_cached(left_iter, right_slist, symbol_table, seen) { self.clone() } else if is_tuple_subset_cached(right_iter, left_slist, symbol_table, seen) { right.clone() }" expect narrow_tuple_shapes_cached
// a tuple that has all the fields of the other side (in particular: equal field sets) is refused
//@   mutant tuple_containing_side_rejected "if is_tuple_subset_cached(right_iter, left_slist, symbol_table, seen) { self.clone() }" => "if is_tuple_subset_cached(right_iter, left_slist, symbol_table, seen) { Shape::TypeErr(right.pos().clone(), \"Incompatible Tuple Shapes\".to_owned()) }" expect narrow_tuple_shapes_cached
//@   subst "left_slist.val.iter()" => "verif_slice_iter(&left_slist.val)"
//@   subst "right_slist.val.iter()" => "verif_slice_iter(&right_slist.val)"
//@   ret r
//@   sig <<<
        requires
            *self == Shape::Tuple(*left_slist), *right == Shape::Tuple(*right_slist),
            cref_free(*self), cref_free(*right),
        ensures
            np_err(*self, *right, r), np_side(*self, *right, r), np_tuple(*self, *right, r), np_list(*self, *right, r),
            frame(old(symbol_table)@, final(symbol_table)@, old(seen)@, final(seen)@),
        decreases sz(*self) + sz(*right), 0nat
//@   >>>
//@   body_start <<<
        proof {
            lemma_sz_tuple_seq(left_slist.val); lemma_sz_tuple_seq(right_slist.val);
            lemma_cref_free_parts(*self); lemma_cref_free_parts(*right);
            lemma_compat_tuples(*self, *right);
        }
//@   >>>
//@ end

//@ extract src/ast/mod.rs :: impl Shape :: fn narrow_list_shapes_cached
//@   mutant list_one_direction_only "} else if is_list_subset_cached(right_iter, left_slist, symbol_table, seen) {" => "} else if false {" expect narrow_list_shapes_cached
//@   mutant list_unknown_elem_rejects "| (NarrowingShape::Any, NarrowingShape::Any) => self.clone()," => "| (NarrowingShape::Any, NarrowingShape::Any) => Shape::TypeErr(right.pos().clone(), \"Incompatible List Shapes\".to_owned())," expect narrow_list_shapes_cached
//@   subst "left_types.iter()" => "verif_slice_iter(left_types)"
//@   subst "right_types.iter()" => "verif_slice_iter(right_types)"
//@   ret r
//@   sig <<<
        requires
            *self == Shape::List(*left_slist), *right == Shape::List(*right_slist),
            cref_free(*self), cref_free(*right),
        ensures
            np_err(*self, *right, r), np_side(*self, *right, r), np_tuple(*self, *right, r), np_list(*self, *right, r),
            frame(old(symbol_table)@, final(symbol_table)@, old(seen)@, final(seen)@),
        decreases sz(*self) + sz(*right), 0nat
//@   >>>
//@   body_start <<<
        proof {
            lemma_sz_ns_seq(*left_slist); lemma_sz_ns_seq(*right_slist);
            lemma_cref_free_parts(*self); lemma_cref_free_parts(*right);
            lemma_compat_lists(*self, *right);
        }
//@   >>>
//@ end

//@ extract src/ast/mod.rs :: fn is_list_subset_cached
//@   rule R4
// the body shadows the parameter `left_slist`, so loop invariants cannot name it; without loop isolation the facts
// about it are simply inherited by the loops
//@   subst "fn is_list_subset_cached" => "#[verifier::loop_isolation(false)] #[verifier::allow_complex_invariants] fn is_list_subset_cached"
// R9': std::slice::Iter -> the verified index walker VIter
//@   subst "std::slice::Iter<Shape>" => "VIter<Shape>"
// Verus has no `break VALUE`: the loop's value goes through the local r__
//@   subst "let right_subset = loop" => "let mut r__: bool = true; loop"
//@   subst "break true" => "{ r__ = true; break; }"
//@   subst "break matches" => "{ r__ = matches; break; }"
//@   after_loop 1 <<<
    let right_subset = r__;
//@   >>>
//@   ret r
//@   sig <<<
    requires
        right_iter__in.wf(),
        forall|k: int| right_iter__in.i <= k < right_iter__in.s@.len() ==> cref_free(#[trigger] right_iter__in.s@[k]),
        cref_free_ns(*left_slist),
    ensures
        // every remaining element type of the iterated side is admitted by some element type of the other side
        // (a list of unknown element type admits everything)
        r == (elems(*left_slist) matches Some(ys) ==> list_sub_from(right_iter__in.s@, right_iter__in.i as int, ys)),
        frame(old(symbol_table)@, final(symbol_table)@, old(seen)@, final(seen)@),
    decreases 1 + seq_sz(right_iter__in.s@) + sz_ns(*left_slist), 0nat
//@   >>>
//@   body_start <<<
    let ghost ns0 = *left_slist;
    proof {
        assert forall|k: int| 0 <= k < right_iter__in.s@.len() implies sz(#[trigger] right_iter__in.s@[k]) <= seq_sz(right_iter__in.s@) by {
            lemma_seq_sz_elem(right_iter__in.s@, k);
        }
        if ns0.types is Narrowed {
            let v = ns0.types->Narrowed_0;
            assert forall|j: int| 0 <= j < v@.len() implies sz(#[trigger] v@[j]) <= sz_ns(ns0) by { lemma_sz_list_elem(v, v@.len(), j); }
        }
    }
//@   >>>
//@   loop 1 <<<
        invariant_except_break
            forall|k: int| right_iter__in.i <= k < right_iter.i ==> admitted_by_some(#[trigger] right_iter.s@[k], left_slist@),
        invariant
            right_iter.wf(), right_iter.s == right_iter__in.s, right_iter__in.i <= right_iter.i,
            forall|j: int| 0 <= j < left_slist@.len() ==> cref_free(#[trigger] left_slist@[j]),
            forall|j: int| 0 <= j < left_slist@.len() ==> sz(#[trigger] left_slist@[j]) <= sz_ns(ns0),
            forall|k: int| right_iter__in.i <= k < right_iter__in.s@.len() ==> cref_free(#[trigger] right_iter__in.s@[k]),
            forall|k: int| 0 <= k < right_iter__in.s@.len() ==> sz(#[trigger] right_iter__in.s@[k]) <= seq_sz(right_iter__in.s@),
            frame(old(symbol_table)@, symbol_table@, old(seen)@, seen@),
        ensures
            r__ == list_sub_from(right_iter__in.s@, right_iter__in.i as int, left_slist@),
            frame(old(symbol_table)@, symbol_table@, old(seen)@, seen@),
        decreases right_iter.s@.len() - right_iter.i
//@   >>>
//@   loop 2 indexed <<<
            invariant
                i__2 <= it__2@.len(), it__2@ == left_slist@,
                forall|j: int| 0 <= j < left_slist@.len() ==> cref_free(#[trigger] left_slist@[j]),
                forall|j: int| 0 <= j < left_slist@.len() ==> sz(#[trigger] left_slist@[j]) <= sz_ns(ns0),
                cref_free(*ls),
                sz(*ls) <= seq_sz(right_iter__in.s@),
                // the flag says: some element type seen so far admits this one (it starts false for EVERY element)
                matches == (exists|j: int| 0 <= j < i__2 && compat(*ls, #[trigger] left_slist@[j])),
                frame(old(symbol_table)@, symbol_table@, old(seen)@, seen@),
            decreases it__2@.len() - i__2
//@   >>>
//@   mutant list_flag_not_reset "let right_subset = loop { let mut matches = false;" => "let mut matches = false; let right_subset = loop {" expect is_list_subset_cached
//@   mutant empty_list_side_rejects "{ r__ = true; break; }" => "{ r__ = false; break; }" expect is_list_subset_cached
//@   mutant list_any_side_rejects "NarrowingShape::Any => return true" => "NarrowingShape::Any => return false" expect is_list_subset_cached
//@ end

//@ extract src/ast/mod.rs :: fn is_tuple_subset_cached
//@   rule R4
//@   subst "std::slice::Iter<(PositionedItem<Rc<str>>, Shape)>" => "VIter<(PositionedItem<Rc<str>>, Shape)>"
//@   subst "break false" => "{ r__ = false; break; }"
//@   subst "break true" => "{ r__ = true; break; }"
//@   after_loop 1 <<<
    r__
//@   >>>
//@   ret r
//@   sig <<<
    requires
        left_iter__in.wf(),
        forall|k: int| left_iter__in.i <= k < left_iter__in.s@.len() ==> cref_free((#[trigger] left_iter__in.s@[k]).1),
        forall|j: int| 0 <= j < right_slist.val@.len() ==> cref_free((#[trigger] right_slist.val@[j]).1),
    ensures
        // every remaining field of the iterated side has a field of the same name on the other side that admits its type
        r == tuple_sub_from(left_iter__in.s@, left_iter__in.i as int, right_slist.val@),
        frame(old(symbol_table)@, final(symbol_table)@, old(seen)@, final(seen)@),
    decreases 1 + fields_sz(left_iter__in.s@) + sz_fields(right_slist.val, right_slist.val@.len() as nat), 0nat
//@   >>>
//@   body_start <<<
    let mut r__: bool = true;
    let ghost rf = right_slist.val@;
    proof {
        assert forall|k: int| 0 <= k < left_iter__in.s@.len() implies sz((#[trigger] left_iter__in.s@[k]).1) <= fields_sz(left_iter__in.s@) by {
            lemma_fields_sz_elem(left_iter__in.s@, k);
        }
        assert forall|j: int| 0 <= j < rf.len() implies sz((#[trigger] rf[j]).1) <= sz_fields(right_slist.val, rf.len()) by {
            lemma_sz_fields_elem(right_slist.val, rf.len(), j);
        }
    }
//@   >>>
//@   loop 1 <<<
        invariant_except_break
            forall|k: int| left_iter__in.i <= k < left_iter.i ==> field_admitted(#[trigger] left_iter.s@[k], rf),
        invariant
            left_iter.wf(), left_iter.s == left_iter__in.s, left_iter__in.i <= left_iter.i,
            rf == right_slist.val@,
            forall|k: int| left_iter__in.i <= k < left_iter__in.s@.len() ==> cref_free((#[trigger] left_iter__in.s@[k]).1),
            forall|j: int| 0 <= j < rf.len() ==> cref_free((#[trigger] rf[j]).1),
            forall|k: int| 0 <= k < left_iter__in.s@.len() ==> sz((#[trigger] left_iter__in.s@[k]).1) <= fields_sz(left_iter__in.s@),
            forall|j: int| 0 <= j < rf.len() ==> sz((#[trigger] rf[j]).1) <= sz_fields(right_slist.val, rf.len()),
            frame(old(symbol_table)@, symbol_table@, old(seen)@, seen@),
        ensures
            r__ == tuple_sub_from(left_iter__in.s@, left_iter__in.i as int, rf),
            frame(old(symbol_table)@, symbol_table@, old(seen)@, seen@),
        decreases left_iter.s@.len() - left_iter.i
//@   >>>
//@   loop 2 indexed <<<
                invariant
                    i__2 <= it__2@.len(), it__2@ == rf, rf == right_slist.val@,
                    forall|j: int| 0 <= j < rf.len() ==> cref_free((#[trigger] rf[j]).1),
                    forall|j: int| 0 <= j < rf.len() ==> sz((#[trigger] rf[j]).1) <= sz_fields(right_slist.val, rf.len()),
                    cref_free(*ls),
                    sz(*ls) <= fields_sz(left_iter__in.s@),
                    // the flag says: a field of the same name seen so far admits this field's type
                    matched == (exists|j: int| 0 <= j < i__2 && rf[j].0.val@ == lt.val@ && compat(*ls, (#[trigger] rf[j]).1)),
                    frame(old(symbol_table)@, symbol_table@, old(seen)@, seen@),
                decreases it__2@.len() - i__2
//@   >>>
//@   mutant tuple_field_types_not_compared "if let Shape::TypeErr(_, _) = ls.narrow_cached(rs, symbol_table, seen) { } else { matched = true; continue; }" => "{ matched = true; continue; }" expect is_tuple_subset_cached
//@   mutant tuple_names_not_compared "if rt.val == lt.val {" => "if true {" expect is_tuple_subset_cached
//@   mutant tuple_missing_field_ok "let mut matched = false;" => "let mut matched = true;" expect is_tuple_subset_cached
// only the first field is compared
//@   mutant tuple_first_field_only "} else { continue; }" => "} else { { r__ = true; break; } }" expect is_tuple_subset_cached
//@ end

} // verus!

fn main() {}
