//@ unit shape_narrow_cref
//@ serves C06 C04
//@ must_verify Shape::narrow Shape::narrow_cached Shape::narrow_tuple_shapes_cached Shape::narrow_list_shapes_cached is_list_subset_cached is_tuple_subset_cached verif_find VIter::next
//@ include prelude/head.rs
use std::rc::Rc;
use std::collections::BTreeMap;

// Shape narrowing on ALL shapes, named constraints (ConstraintRef) and the memo cache included: SAFETY only.
//   * no panic (in particular `seen[idx]` after the recursive call is in bounds), no arithmetic overflow;
//   * the memo cache `seen` is only read and extended (entries that existed at entry are never changed), the symbol
//     table keeps exactly its names;
//   * a (constraint, shape) pair found in the cache - finished or IN PROGRESS - is answered from the cache without
//     expanding the constraint again; the in-progress marker is a type error (fix 22a0f13: a pair in progress counts as
//     a mismatch); an unknown constraint name is a type error; the same name on both sides is compatible.
// NOT proved here: termination on shapes with named constraints (the argument needs the finite universe of
// (constraint, sub-shape) pairs; `exec_allows_no_decreases_clause` below switches the termination check off for this unit),
// and correctness of the answer against the oracle (unit shape_narrow proves both for shapes without ConstraintRef).
verus! {
//@ include prelude/core.rs
//@ include prelude/constraint_rt_models.rs
//@ include prelude/shape_narrow_models.rs
//@ include prelude/shape_narrow_spec.rs

pub open spec fn seen_extends(s0: Seen, s1: Seen) -> bool {
    s0.len() <= s1.len() && forall|i: int| 0 <= i < s0.len() ==> #[trigger] s1[i] == s0[i]
}
pub open spec fn frame2(st0: SymMap, st1: SymMap, seen0: Seen, seen1: Seen) -> bool {
    st1.dom() =~= st0.dom() && seen_extends(seen0, seen1)
}
// the memo key of a call: (constraint name, the other shape), if the call goes through the ConstraintRef arm
pub open spec fn cref_key(a: Shape, b: Shape) -> Option<(Seq<char>, Shape)> {
    if a is TypeErr || b is TypeErr { None }
    else if a is ConstraintRef && b is ConstraintRef && a->ConstraintRef_0.val@ == b->ConstraintRef_0.val@ { None }
    else if a is ConstraintRef { Some((a->ConstraintRef_0.val@, b)) }
    else if b is ConstraintRef { Some((b->ConstraintRef_0.val@, a)) }
    else { None }
}
pub open spec fn entry_matches(e: (Rc<str>, Shape, Shape), n: Seq<char>, o: Shape) -> bool {
    e.0@ == n && shape_same(e.1, o)
}
// k is the first cache entry for the pair
pub open spec fn hit_at(seen: Seen, n: Seq<char>, o: Shape, k: int) -> bool {
    0 <= k < seen.len() && entry_matches(seen[k], n, o) && forall|m: int| 0 <= m < k ==> !entry_matches(#[trigger] seen[m], n, o)
}
pub open spec fn no_hit(seen: Seen, n: Seq<char>, o: Shape) -> bool {
    forall|m: int| 0 <= m < seen.len() ==> !entry_matches(#[trigger] seen[m], n, o)
}

// The Func/Func and Module/Module arms are cut off as in unit shape_narrow; ASSUMED: they keep the frame.
#[verifier::external_body]
fn verif_skip_arm() -> (r: bool) ensures r { true }
#[verifier::external_body]
fn verif_narrow_func_arm(slf: &Shape, l: &FuncShapeDef, r: &FuncShapeDef, symbol_table: &mut BTreeMap<Rc<str>, Shape>, seen: &mut Vec<(Rc<str>, Shape, Shape)>) -> (res: Shape)
    ensures frame2(old(symbol_table)@, final(symbol_table)@, old(seen)@, final(seen)@),
{ unimplemented!() }
#[verifier::external_body]
fn verif_narrow_module_arm(slf: &Shape, l: &ModuleShape, r: &ModuleShape, symbol_table: &mut BTreeMap<Rc<str>, Shape>, seen: &mut Vec<(Rc<str>, Shape, Shape)>) -> (res: Shape)
    ensures frame2(old(symbol_table)@, final(symbol_table)@, old(seen)@, final(seen)@),
{ unimplemented!() }

//@ extract src/ast/mod.rs :: impl Shape :: fn pos
//@   ret r
//@   sig <<<
        decreases *self
//@   >>>
//@ end

//@ extract src/ast/mod.rs :: impl<T> PositionedItem<T> :: fn new
//@ end
//@ extract src/ast/mod.rs :: impl<T> PositionedItem<T> :: fn new_with_pos
//@ end
//@ extract src/ast/mod.rs :: impl<T> PositionedItem<T> :: fn with_pos
//@   rule R4
//@ end
//@ extract src/ast/mod.rs :: impl NarrowedShape :: fn new_with_pos
//@ end
//@ extract src/ast/mod.rs :: impl NarrowedShape :: fn with_pos
//@   rule R4
//@ end
//@ extract src/ast/mod.rs :: impl Shape :: fn with_pos
//@ end
//@ extract src/ast/mod.rs :: impl Shape :: fn type_name
//@ end


//@ extract src/ast/mod.rs :: impl Shape :: fn narrow_cached
//@   rule R1
//@   subst "fn narrow_cached" => "#[verifier::exec_allows_no_decreases_clause] fn narrow_cached"
//@   subst all <<<
                let compatible: Vec<Shape> = types
                    .iter()
                    .filter(|t| {
//@ ===
                let mut compatible__v: Vec<Shape> = Vec::new(); let it__c = types.as_slice(); let mut i__c: usize = 0; while i__c < it__c.len() { let t = &it__c[i__c]; i__c += 1; let keep__ = {
//@   >>>
//@   subst all <<<
                    })
                    .cloned()
                    .collect();
//@ ===
                    }; if keep__ { compatible__v.push(t.clone()); } } let compatible: Vec<Shape> = compatible__v;
//@   >>>
//@   subst "seen.iter().find(|(name, shape, _)| {" => "verif_find(seen.as_slice(), |e__: &(Rc<str>, Shape, Shape)| -> (b: bool) ensures b == entry_matches(*e__, cref.val@, *other) { let (name, shape, _) = e__;"
//@   subst "(Shape::Func(left_opshape), Shape::Func(right_opshape)) => {" => "(Shape::Func(left_opshape), Shape::Func(right_opshape)) => { if verif_skip_arm() { return verif_narrow_func_arm(self, left_opshape, right_opshape, symbol_table, seen); }"
//@   subst "(Shape::Module(left_opshape), Shape::Module(right_opshape)) => {" => "(Shape::Module(left_opshape), Shape::Module(right_opshape)) => { if verif_skip_arm() { return verif_narrow_module_arm(self, left_opshape, right_opshape, symbol_table, seen); }"
//@   ret r
//@   sig <<<
        ensures
            frame2(old(symbol_table)@, final(symbol_table)@, old(seen)@, final(seen)@),
            // type errors propagate
            *self is TypeErr ==> r == *self,
            !(*self is TypeErr) && *right is TypeErr ==> r == *right,
            // the same constraint name on both sides is compatible
            !(*self is TypeErr) && !(*right is TypeErr) && *self is ConstraintRef && *right is ConstraintRef
                && self->ConstraintRef_0.val@ == right->ConstraintRef_0.val@ ==> r == *self,
            // a pair that is in the cache (finished or in progress) is answered from the cache, nothing is expanded
            forall|k: int| cref_key(*self, *right) matches Some((n, o)) && hit_at(old(seen)@, n, o, k) ==>
                r == old(seen)@[k].2 && final(seen)@ == old(seen)@ && final(symbol_table)@ == old(symbol_table)@,
            // an unknown constraint is a type error
            cref_key(*self, *right) matches Some((n, o)) && no_hit(old(seen)@, n, o)
                && !(exists|key: Rc<str>| old(symbol_table)@.contains_key(key) && key@ == n) ==> r is TypeErr && final(seen)@ == old(seen)@,
            // a pair that was expanded is recorded in the cache with the result of the expansion (not left "in progress")
            cref_key(*self, *right) is Some && no_hit(old(seen)@, cref_key(*self, *right)->Some_0.0, cref_key(*self, *right)->Some_0.1)
                && final(seen)@.len() > old(seen)@.len() ==> ({
                    let e = final(seen)@[old(seen)@.len() as int];
                    e.0@ == cref_key(*self, *right)->Some_0.0 && e.1 == cref_key(*self, *right)->Some_0.1 && e.2 == r
                }),
//@   >>>
//@   body_start <<<
        broadcast use axiom_rc_str_btree_key;
//@   >>>
// the in-progress marker: recorded BEFORE the expansion, as a type error, for exactly this pair
//@   before "let result = other.narrow_cached(&expanded" <<<
                    assert(seen@.len() == idx + 1 && seen@[idx as int].2 is TypeErr && seen@[idx as int].0@ == cref.val@ && seen@[idx as int].1 == *other);
//@   >>>
//@   loop 1 <<<
                    invariant i__c <= it__c@.len(), frame2(old(symbol_table)@, symbol_table@, old(seen)@, seen@),
                    decreases it__c@.len() - i__c
//@   >>>
//@   loop 2 <<<
                    invariant i__c <= it__c@.len(), frame2(old(symbol_table)@, symbol_table@, old(seen)@, seen@),
                    decreases it__c@.len() - i__c
//@   >>>
//@   loop 3 <<<
                    invariant false
//@   >>>
//@   loop 4 <<<
                    invariant false
//@   >>>
//@   loop 5 <<<
                    invariant false
//@   >>>
//@   mutant marker_index_off_by_one "let idx = seen.len();" => "let idx = seen.len() + 1;" expect narrow_cached
//@   mutant marker_not_a_mismatch "other.clone(), Shape::TypeErr( cref.pos.clone(), format!(\"Constraint '{}' refers to itself\", cref.val), ), ));" => "other.clone(), other.clone(), ));" expect narrow_cached
//@   mutant result_not_recorded "seen[idx].2 = result.clone();" => "" expect narrow_cached
//@   mutant cache_ignores_name "*name == cref.val && shape == other" => "shape == other" expect narrow_cached
//@   mutant cached_result_dropped "return cached.2.clone();" => "return cached.1.clone();" expect narrow_cached
//@   mutant unknown_constraint_accepted "} else { Shape::TypeErr( cref.pos.clone(), verif_msg(), ) }" => "} else { other.clone() }" expect narrow_cached
//@ end

//@ extract src/ast/mod.rs :: impl Shape :: fn narrow
//@   subst "pub fn narrow" => "#[verifier::exec_allows_no_decreases_clause] pub fn narrow"
//@   ret r
//@   sig <<<
        ensures final(symbol_table)@.dom() =~= old(symbol_table)@.dom(),
//@   >>>
//@ end

//@ extract src/ast/mod.rs :: impl Shape :: fn narrow_tuple_shapes_cached
//@   subst "fn narrow_tuple_shapes_cached" => "#[verifier::exec_allows_no_decreases_clause] fn narrow_tuple_shapes_cached"
//@   subst "left_slist.val.iter()" => "verif_slice_iter(&left_slist.val)"
//@   subst "right_slist.val.iter()" => "verif_slice_iter(&right_slist.val)"
//@   ret r
//@   sig <<<
        ensures frame2(old(symbol_table)@, final(symbol_table)@, old(seen)@, final(seen)@),
//@   >>>
//@ end

//@ extract src/ast/mod.rs :: impl Shape :: fn narrow_list_shapes_cached
//@   subst "fn narrow_list_shapes_cached" => "#[verifier::exec_allows_no_decreases_clause] fn narrow_list_shapes_cached"
//@   subst "left_types.iter()" => "verif_slice_iter(left_types)"
//@   subst "right_types.iter()" => "verif_slice_iter(right_types)"
//@   ret r
//@   sig <<<
        ensures frame2(old(symbol_table)@, final(symbol_table)@, old(seen)@, final(seen)@),
//@   >>>
//@ end

//@ extract src/ast/mod.rs :: fn is_list_subset_cached
//@   rule R4
//@   subst "fn is_list_subset_cached" => "#[verifier::exec_allows_no_decreases_clause] fn is_list_subset_cached"
//@   subst "std::slice::Iter<Shape>" => "VIter<Shape>"
//@   subst "let right_subset = loop" => "let mut r__: bool = true; loop"
//@   subst "break true" => "{ r__ = true; break; }"
//@   subst "break matches" => "{ r__ = matches; break; }"
//@   after_loop 1 <<<
    let right_subset = r__;
//@   >>>
//@   ret r
//@   sig <<<
    requires right_iter__in.wf(),
    ensures frame2(old(symbol_table)@, final(symbol_table)@, old(seen)@, final(seen)@),
//@   >>>
//@   loop 1 <<<
        invariant right_iter.wf(), frame2(old(symbol_table)@, symbol_table@, old(seen)@, seen@),
        decreases right_iter.s@.len() - right_iter.i
//@   >>>
//@   loop 2 indexed <<<
            invariant i__2 <= it__2@.len(), frame2(old(symbol_table)@, symbol_table@, old(seen)@, seen@),
            decreases it__2@.len() - i__2
//@   >>>
//@ end

//@ extract src/ast/mod.rs :: fn is_tuple_subset_cached
//@   rule R4
//@   subst "fn is_tuple_subset_cached" => "#[verifier::exec_allows_no_decreases_clause] fn is_tuple_subset_cached"
//@   subst "std::slice::Iter<(PositionedItem<Rc<str>>, Shape)>" => "VIter<(PositionedItem<Rc<str>>, Shape)>"
//@   subst "break false" => "{ r__ = false; break; }"
//@   subst "break true" => "{ r__ = true; break; }"
//@   after_loop 1 <<<
    r__
//@   >>>
//@   ret r
//@   sig <<<
    requires left_iter__in.wf(),
    ensures frame2(old(symbol_table)@, final(symbol_table)@, old(seen)@, final(seen)@),
//@   >>>
//@   body_start <<<
    let mut r__: bool = true;
//@   >>>
//@   loop 1 <<<
        invariant left_iter.wf(), frame2(old(symbol_table)@, symbol_table@, old(seen)@, seen@),
        decreases left_iter.s@.len() - left_iter.i
//@   >>>
//@   loop 2 indexed <<<
                invariant i__2 <= it__2@.len(), frame2(old(symbol_table)@, symbol_table@, old(seen)@, seen@),
                decreases it__2@.len() - i__2
//@   >>>
//@ end

} // verus!

fn main() {}
