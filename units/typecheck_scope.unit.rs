//@ unit typecheck_scope
//@ serves C10 C06
//@ must_verify value_symbol_arm Checker::visit_let_arm lemma_let_frame lemma_let_keeps_value_shape FuncDef::derive_shape lemma_func_no_leak lemma_closed_repos_nph lemma_param_hides_outer lemma_outer_after_unconstrained close_param_holes lemma_closes_nph lemma_closes_nph_types lemma_closes_nph_fields verif_vec_map Shape::with_pos PositionedItem::new PositionedItem::new_with_pos PositionedItem::with_pos NarrowedShape::new_with_pos NarrowedShape::with_pos
//@ include prelude/head.rs
use std::rc::Rc;
use std::collections::BTreeMap;

// C10 / C06, static half: the SCOPING KERNEL of the type checker, src/ast/typecheck/mod.rs.
// Oracles (prelude/typecheck_scope_{spec,func,let}.rs, from the property statements):
//  * closes(s, r, ps): r is s with every type hole named after one of ps replaced by the unconstrained shape and NOTHING
//    else changed; nph(r, ps): no such hole anywhere in r; lemma_closes_nph: closes ==> nph.
//  * body_scope(argdefs, t): the table a function body is typed in = the bindings that existed where the function is defined
//    plus its parameters, A PARAMETER HIDING an outer binding of the same name (Map::union_prefer_right, the std semantics
//    of BTreeMap::append).
//  * let_outcome / let_post: what a `let` does to the checker: Bound(table, shape) or Refused(table, diagnostic).
// Under contract (real text, extracted):
//  * close_param_holes: `closes(shape, result, params)`, terminates (structural measure, also through the BTreeMap of a
//    function shape).
//  * FuncDef::derive_shape: func_scope_post - the CALLER's table is what typing the parameters' constraint expressions
//    (outer-scope expressions) left and nothing else (exactly the old table for a function without parameter constraints:
//    lemma_func_no_leak); the body is typed in body_scope; the result is Shape::Func with arg_order = the parameters in
//    declaration order, one shape per parameter name = the entry the body left in ITS OWN table with parameter holes closed,
//    ret = the body's shape in body_scope with parameter holes closed (re-positioned). lemma_func_no_leak: no hole named
//    after a parameter in args or ret.
//  * Checker::visit_statement, `let` arm: let_post (whole state: table gains exactly name |-> shape / exactly one diagnostic
//    and nothing bound; the recorded shape is the VALUE's unless that is a hole / candidate set; accepted <=> compat(value
//    shape, constraint shape) for shapes without named constraints).
//  * Value::derive_shape, symbol arm: table entry / `env` unconstrained / unknown name = hole; table only read.
//  * Shape::with_pos (only the top position changes), PositionedItem::{new, new_with_pos, with_pos},
//    NarrowedShape::{new_with_pos, with_pos}.
// ASSUMED (R8, opaque): Expression::derive_shape (a function of expression and table; never removes a name),
// Shape::narrow (what units shape_narrow / shape_narrow_cref prove), Checker::resolve_import (touches no table / stack),
// BuildError::with_pos (stores its arguments); std: BTreeMap::append, slice::contains, BTreeMap into_iter/map/collect
// (verif_btree_map_entries), reflexive / boxing `into()`, structural derived Clone.
verus! {
//@ include prelude/core.rs
//@ include prelude/constraint_rt_models.rs
//@ include prelude/shape_narrow_models.rs
//@ include prelude/shape_narrow_spec.rs
//@ include prelude/typecheck_scope_models.rs
//@ include prelude/typecheck_scope_spec.rs


//@ extract src/ast/mod.rs :: impl<T> PositionedItem<T> :: fn new_with_pos
//@   ret r
//@   sig <<<
        ensures r.val == v, r.pos == pos
//@   >>>
//@ end
//@ extract src/ast/mod.rs :: impl<T> PositionedItem<T> :: fn new
//@   ret r
//@   sig <<<
        requires call_requires(<P as Into<Position>>::into, (p,))
        ensures r.val == v, call_ensures(<P as Into<Position>>::into, (p,), r.pos)
//@   >>>
//@ end
//@ extract src/ast/mod.rs :: impl<T> PositionedItem<T> :: fn with_pos
//@   rule R4
//@   ret r
//@   sig <<<
        ensures r.val == self.val, r.pos == pos
//@   >>>
//@ end
//@ extract src/ast/mod.rs :: impl NarrowedShape :: fn new_with_pos
//@   ret r
//@   sig <<<
        ensures r.pos == pos, r.types == NarrowingShape::Narrowed(types)
//@   >>>
//@ end
//@ extract src/ast/mod.rs :: impl NarrowedShape :: fn with_pos
//@   rule R4
//@   ret r
//@   sig <<<
        ensures r.pos == pos, r.types == self.types
//@   >>>
//@ end
//@ extract src/ast/mod.rs :: impl Shape :: fn with_pos
//@   ret r
//@   sig <<<
        ensures same_but_top_pos(self, r)
//@   >>>
//@ end

//@ extract src/ast/typecheck/mod.rs :: fn close_param_holes
//@   rule R0
//@   ret r
//@   sig <<<
    ensures closes(shape, r, params@)
    decreases shape
//@   >>>
//@   body_start <<<
    let s0: Ghost<Shape> = Ghost(shape);
    broadcast use axiom_rc_str_btree_key, group_typecheck_scope_models;
//@   >>>
// Verus wants closure parameter types, result names and contracts: the three local closures get them (insert-only); each
// may only be applied to a part of `shape` (termination) and yields the closed part.
//@   subst "|s: Shape| close_param_holes(s, params)" => "|s: Shape| -> (o: Shape) requires decreases_to!(s0@ => s) ensures closes(s, o, params@) { close_param_holes(s, params) }"
//@   subst "|types: NarrowingShape| match types {" => "|types: NarrowingShape| -> (o: NarrowingShape) requires decreases_to!(s0@ => types) ensures closes_types(types, o, params@) { match types {"
//@   subst "NarrowingShape::Any => NarrowingShape::Any, };" => "NarrowingShape::Any => NarrowingShape::Any, } };"
//@   subst "|fields: TupleShape| -> TupleShape {" => "|fields: TupleShape| -> (o: TupleShape) requires decreases_to!(s0@ => fields) ensures closes_fields(fields, o, params@) {"
// R9': `x.into_iter().map(f).collect()` -> the models verif_vec_map (verified) / verif_btree_map_entries (assumed); the
// inner closure keeps its body, its tuple pattern becomes a `let` (Verus: closure parameters must be variables)
//@   subst "list.into_iter().map(close).collect()" => "verif_vec_map(list, close)"
//@   subst "fields.into_iter().map(|(n, s)| (n, close(s))).collect()" => "verif_vec_map(fields, |e__: (PositionedItem<Rc<str>>, Shape)| -> (o: (PositionedItem<Rc<str>>, Shape)) requires decreases_to!(s0@ => e__) ensures o.0 == e__.0, closes(e__.1, o.1, params@) { let (n, s) = e__; (n, close(s)) })"
//@   subst "def.args.into_iter().map(|(n, s)| (n, close(s))).collect()" => "verif_btree_map_entries(def.args, |e__: (Rc<str>, Shape)| -> (o: (Rc<str>, Shape)) requires decreases_to!(s0@ => e__.1) ensures o.0 == e__.0, closes(e__.1, o.1, params@) { let (n, s) = e__; (n, close(s)) })"
// a parameter hole inside a list type (`func (p) => [p]`) stays open
//@   mutant close_skips_list_arm "Shape::List(NarrowedShape { pos, types }) => Shape::List(NarrowedShape { pos, types: close_types(types), })," => "Shape::List(ns) => Shape::List(ns)," expect close_param_holes
// a parameter hole in the result of a function shape (`func (p) => func () => p`) stays open
//@   mutant close_skips_func_ret "arg_order: def.arg_order, ret: Box::new(close(*def.ret))," => "arg_order: def.arg_order, ret: def.ret," expect close_param_holes
// the hole of a parameter is kept as it is
//@   mutant close_keeps_param_hole "Shape::Hole(pi) if params.contains(&pi.val) =>" => "Shape::Hole(pi) if !params.contains(&pi.val) =>" expect close_param_holes
// EVERY hole is closed, also those of outer (not yet typed) names: inference for them is lost
//@   mutant close_closes_foreign_holes "Shape::Hole(pi) if params.contains(&pi.val) =>" => "Shape::Hole(pi) =>" expect close_param_holes
// the fields of a tuple shape are not visited
//@   mutant close_skips_tuple_fields "PositionedItem::new(close_fields(pi.val), pi.pos)" => "PositionedItem::new(pi.val, pi.pos)" expect close_param_holes
//@ end

// ================= FuncDef::derive_shape =================
// Expressions and lexical-scope records are only handed on (R5).
//@ opaque Expression Scope
// R0: derived Clone is structural (Rc::clone is a pointer copy)
impl<T: Clone> Clone for PositionedItem<T> {
    #[verifier::external_body]
    fn clone(&self) -> (r: Self) ensures r == *self { unimplemented!() }
}

//@ extract src/ast/mod.rs :: struct FuncDef
//@   rule R0
//@ end

// R8: typing an expression (`impl DeriveShape for Expression`, ~160 lines + callees) is OUTSIDE this unit. ASSUMED:
//  * its result shape and the table it leaves are FUNCTIONS of the expression and the table it is given (ds_shape, ds_tab:
//    uninterpreted - nothing is assumed about which functions);
//  * it never removes a name from the table (the type checker has no `remove`/`clear` on a symbol table: it only inserts
//    and refines).
// The trait method is reached here as an inherent method (static dispatch either way).
pub uninterp spec fn ds_shape(e: Expression, t: SymMap) -> Shape;
pub uninterp spec fn ds_tab(e: Expression, t: SymMap) -> SymMap;
impl Expression {
    #[verifier::external_body]
    pub fn derive_shape(&self, symbol_table: &mut BTreeMap<Rc<str>, Shape>) -> (r: Shape)
        ensures
            r == ds_shape(*self, old(symbol_table)@),
            final(symbol_table)@ == ds_tab(*self, old(symbol_table)@),
            forall|k: Rc<str>| old(symbol_table)@.contains_key(k) ==> #[trigger] final(symbol_table)@.contains_key(k),
    { unimplemented!() }
}

//@ include prelude/typecheck_scope_func.rs

//@ extract src/ast/typecheck/mod.rs :: impl DeriveShape for FuncDef :: fn derive_shape
//@   impl_header impl FuncDef
// R9': `xs.iter().map(|PAT| BODY).collect::<BTreeMap<_, _>>()` -> an indexed loop over the same slice that inserts BODY's
// pair, in order (std: collecting into a BTreeMap keeps the LAST pair of a repeated key, as successive inserts do);
// `.collect::<Vec<_>>()` -> the same loop with push. The closure bodies stay verbatim. (The first closure writes through the
// captured `&mut` table, which Verus' closures cannot.)
//@   subst "self .argdefs .iter() .map(|(sym, constraint)| {" => "{ let mut m__: BTreeMap<Rc<str>, Shape> = BTreeMap::new(); let it__1 = self.argdefs.as_slice(); let mut i__1: usize = 0; while i__1 < it__1.len() { let (sym, constraint) = &it__1[i__1]; i__1 += 1; let e__ = {"
//@   subst "self .argdefs .iter() .map(|(sym, _constraint)| {" => "{ let mut m__: BTreeMap<Rc<str>, Shape> = BTreeMap::new(); let it__3 = self.argdefs.as_slice(); let mut i__3: usize = 0; while i__3 < it__3.len() { let (sym, _constraint) = &it__3[i__3]; i__3 += 1; let e__ = {"
//@   subst all "}) .collect::<BTreeMap<Rc<str>, Shape>>();" => "}; m__.insert(e__.0, e__.1); } m__ };"
//@   subst "self .argdefs .iter() .map(|(sym, _)| sym.val.clone()) .collect();" => "{ let mut v__: Vec<Rc<str>> = Vec::new(); let it__2 = self.argdefs.as_slice(); let mut i__2: usize = 0; while i__2 < it__2.len() { let (sym, _) = &it__2[i__2]; i__2 += 1; v__.push(sym.val.clone()); } v__ };"
// the defect fixed by 7bf24ef: the outer bindings were appended OVER the parameters, so an outer binding of the same name won
//@   mutant params_lose_on_clash "let mut sym_table = symbol_table.clone(); sym_table.append(&mut args);" => "let mut outer__ = symbol_table.clone(); let mut sym_table = args; sym_table.append(&mut outer__);" expect derive_shape
// the defects fixed by 4cf3f2f: parameter holes left in the exported result shape / parameter shapes
//@   mutant ret_holes_not_closed "let ret = close_param_holes(shape, &arg_order).with_pos(self.pos.clone());" => "let ret = shape.with_pos(self.pos.clone());" expect derive_shape
//@   mutant arg_holes_not_closed "close_param_holes(sym_table.get(&sym.val).unwrap().clone(), &arg_order) .with_pos(sym.pos.clone())," => "sym_table.get(&sym.val).unwrap().clone().with_pos(sym.pos.clone())," expect derive_shape
// the body is typed in the caller's table (no local scope): parameters and body inference leak
//@   mutant body_typed_in_callers_table "let shape = self.fields.derive_shape(&mut sym_table);" => "let shape = self.fields.derive_shape(symbol_table);" expect derive_shape
// the local table is copied back to the caller after the body was typed
//@   mutant local_scope_written_back "let shape = self.fields.derive_shape(&mut sym_table);" => "let shape = self.fields.derive_shape(&mut sym_table); *symbol_table = sym_table.clone();" expect derive_shape
// the parameters are not put into the body's scope at all
//@   mutant params_not_in_scope "sym_table.append(&mut args);" => "" expect derive_shape
//@   ret r
//@   sig <<<
        ensures
            func_scope_post(*self, old(symbol_table)@, final(symbol_table)@, r),
//@   >>>
//@   body_start <<<
        broadcast use axiom_rc_str_btree_key, group_typecheck_scope_models;
        let ghost a = self.argdefs@;
        let ghost t0 = symbol_table@;
//@   >>>
//@   loop 1 <<<
            invariant
                vstd::std_specs::btree::key_obeys_cmp_spec::<Rc<str>>(),
                i__1 <= it__1@.len(), it__1@ == a, a == self.argdefs@,
                symbol_table@ == outer_after(a, t0, i__1 as nat),
                m__@ =~= params_map(a, t0, i__1 as nat),
                forall|j: int| 0 <= j < i__1 ==> m__@.contains_key((#[trigger] a[j]).0.val),
            decreases it__1@.len() - i__1
//@   >>>
//@   loop 2 <<<
            invariant
                i__2 <= it__2@.len(), it__2@ == a, a == self.argdefs@,
                v__@ =~= param_names(a).take(i__2 as int),
            decreases it__2@.len() - i__2
//@   >>>
//@   loop 3 <<<
            invariant
                vstd::std_specs::btree::key_obeys_cmp_spec::<Rc<str>>(),
                i__3 <= it__3@.len(), it__3@ == a, a == self.argdefs@,
                arg_order@ == param_names(a),
                sym_table@ == body_tab(*self, t0),
                forall|j: int| 0 <= j < a.len() ==> sym_table@.contains_key((#[trigger] a[j]).0.val),
                m__@.dom() =~= params_map(a, t0, i__3 as nat).dom(),
                forall|k: Rc<str>| m__@.contains_key(k) ==> closed_repos(sym_table@[k], #[trigger] m__@[k], param_names(a)),
            decreases it__3@.len() - i__3
//@   >>>
//@ end

// ================= Checker::visit_statement, the `let` arm =================
//@ opaque PathBuf VShapeCache BuildError
//@ extract src/error.rs :: enum ErrorType
//@   rule R0
//@ end
impl BuildError {
    // error::BuildError::with_pos only stores its arguments (R5)
    #[verifier::external_body]
    pub fn with_pos(msg: String, t: ErrorType, pos: Position) -> (r: Self)
        ensures be_type(r) == t, be_pos(r) == Some(pos), be_msg(r) == msg
    { unimplemented!() }
}
//@ extract src/ast/mod.rs :: enum TokenType
//@   rule R0
//@ end
//@ extract src/ast/mod.rs :: struct Token
//@   rule R0
//@ end
//@ extract src/ast/mod.rs :: struct LetDef
//@   rule R0
//@ end
//@ extract src/ast/typecheck/mod.rs :: struct Checker
//@   rule R0 RV
// the shared import cache is only handed on (R5/R11)
//@   subst "Rc<RefCell<BTreeMap<PathBuf, Shape>>>" => "VShapeCache"
//@ end

//@ include prelude/typecheck_scope_let.rs

//@ extract src/ast/typecheck/mod.rs :: impl Checker :: fn resolve_import
//@   rule R0
//@   opaque_body
//@   ret r
//@   sig <<<
        ensures
            r == import_result(old(self).working_dir, old(self).shape_cache, old(self).import_stack@, old(self).strict, path@, *pos),
            final(self).symbol_table == old(self).symbol_table, final(self).err_stack == old(self).err_stack,
            final(self).shape_stack == old(self).shape_stack, final(self).nested_depth == old(self).nested_depth,
            final(self).strict == old(self).strict, final(self).working_dir == old(self).working_dir,
            final(self).import_stack == old(self).import_stack,
//@   >>>
//@ end

//@ extract src/ast/mod.rs :: impl Shape :: fn narrow
//@   rule R0
//@   opaque_body
//@   ret r
//@   sig <<<
        ensures
            r == nr_shape(*self, *right, old(symbol_table)@),
            final(symbol_table)@ == nr_tab(*self, *right, old(symbol_table)@),
            // PROVED in units shape_narrow / shape_narrow_cref:
            final(symbol_table)@.dom() =~= old(symbol_table)@.dom(),
            cref_free(*self) && cref_free(*right) ==> narrow_post(*self, *right, r),
//@   >>>
//@ end

//@ extract src/ast/typecheck/mod.rs :: impl Visitor for Checker :: fn visit_statement :: arm "Statement::Let(def) =>"
//@   impl_header impl Checker
//@   wrap <<<
fn visit_let_arm(&mut self, def: &mut Box<LetDef>)
$BODY
//@   >>>
// R3 by hand: `Some(ref x) = place` binds by reference; so does `Some(x) = &place`
//@   subst "Some(ref constraint_expr) = def.constraint" => "Some(constraint_expr) = &def.constraint"
//@   sig <<<
        ensures
            let_post(*old(self), **old(def), *final(self)),
            *final(def) == *old(def),
//@   >>>
//@   body_start <<<
        broadcast use axiom_rc_str_btree_key;
//@   >>>
// before d557b5a: the binding was recorded with the shape narrowing returned
//@   mutant let_records_narrowed_shape "if let Shape::Hole(_) | Shape::Narrowed(_) = &shape { shape = narrowed; }" => "shape = narrowed;" expect visit_let_arm
// seeded change C06_4 (on today's code): the binding is recorded with the shape of the CONSTRAINT
//@   mutant let_records_constraint_shape "if let Shape::Hole(_) | Shape::Narrowed(_) = &shape { shape = narrowed; }" => "shape = constraint_shape;" expect visit_let_arm
//@   mutant let_unknown_value_records_constraint_shape "if let Shape::Hole(_) | Shape::Narrowed(_) = &shape { shape = narrowed; }" => "if let Shape::Hole(_) | Shape::Narrowed(_) = &shape { shape = constraint_shape; }" expect visit_let_arm
// a value that does not conform is reported AND bound
//@   mutant let_binds_despite_type_error "pos.clone(), )); return; }" => "pos.clone(), )); }" expect visit_let_arm
// the constraint is not consulted
//@   mutant let_constraint_not_checked "shape.narrow(&constraint_shape, &mut self.symbol_table)" => "shape.narrow(&shape, &mut self.symbol_table)" expect visit_let_arm
// a type error of the value expression is bound like a shape
//@   mutant let_binds_type_error_value "pos.clone(), )); } else { self.symbol_table.insert(name.clone(), shape.clone()); self.shape_stack.push(shape); }" => "pos.clone(), )); } { self.symbol_table.insert(name.clone(), shape.clone()); self.shape_stack.push(shape); }" expect visit_let_arm
//@ end

// ================= Value::derive_shape, the symbol arm =================
// C10 at the use site: a name has the shape ITS SCOPE's table records; a name the table does not know is a type hole
// named after it; `env` (the process environment, never in a table: reserved word) is unconstrained - its fields are only
// known at run time (fix f4d3844: it was a hole, and uses of `env.X` narrowed it to a closed tuple). The table is only read.
//@ extract src/ast/typecheck/mod.rs :: impl DeriveShape for Value :: fn derive_shape :: arm "Value::Symbol(p) =>"
//@   wrap <<<
fn value_symbol_arm(p: &PositionedItem<Rc<str>>, symbol_table: &mut BTreeMap<Rc<str>, Shape>) -> Shape
$BODY
//@   >>>
//@   ret r
//@   sig <<<
        ensures
            *final(symbol_table) == *old(symbol_table),
            old(symbol_table)@.contains_key(p.val) ==> r == old(symbol_table)@[p.val],
            !old(symbol_table)@.contains_key(p.val) && p.val@ == "env"@ ==>
                r == Shape::Narrowed(NarrowedShape { pos: p.pos, types: NarrowingShape::Any }) && unconstrained(r) && !(r is Hole),
            !old(symbol_table)@.contains_key(p.val) && p.val@ != "env"@ ==> r == Shape::Hole(*p),
//@   >>>
//@   body_start <<<
        broadcast use axiom_rc_str_btree_key;
        proof { reveal_strlit("env"); }
//@   >>>
//@   mutant env_is_a_hole "else if p.val.as_ref() == \"env\" {" => "else if false {" expect value_symbol_arm
//@   mutant unknown_symbol_is_unconstrained "Shape::Hole(p.clone())" => "Shape::Narrowed(NarrowedShape { pos: p.pos.clone(), types: NarrowingShape::Any })" expect value_symbol_arm
//@   mutant env_shadows_binding "if let Some(s) = symbol_table.get(&p.val) { s.clone() } else if p.val.as_ref() == \"env\" {" => "if p.val.as_ref() != \"env\" && symbol_table.contains_key(&p.val) { symbol_table.get(&p.val).unwrap().clone() } else if p.val.as_ref() == \"env\" {" expect value_symbol_arm
//@ end

} // verus!

fn main() {}
