//@ unit prec_tokens
//@ serves C02
//@ must_verify dot_op_type math_op_type bool_op_type compare_op_type parse_operand_list token_clone lemma_op_spellings lemma_classes_cover
//@ include prelude/head.rs
use std::rc::Rc;
use vstd::std_specs::cmp::{PartialEqSpec, PartialEqSpecImpl};

// What units/prec.unit.rs assumes and this unit discharges:
//   (1) parse_operand_list returns an alternating list  Expr (Op Expr)*   (`wf`, same text as in prec.unit.rs),
//   (2) every Op of that list is the BinaryExprType the language reference gives for the operator TOKEN that stood
//       between the two operands.
// Everything executable below is extracted: the four make_fn! recognisers (R10: one macro layer), the
// abortable_parser macros either!/do_each!/run! and the ucg macros punct!/word!/match_token! VERBATIM, token_clone,
// parse_operand_list. Hand-written: the oracle (operator spelling -> variant, from the reference), the layout
// predicate, the stub of non_op_expression.

// The ucg macros `use crate::tokenizer::token_clone`, `use abortable_parser::Result`: in the one-file crate these
// paths name the items extracted below (no token of the macros is changed for it).
mod tokenizer { pub use crate::token_clone; }
mod abortable_parser { pub use crate::{Error, Result}; }

//@ extract dep:abortable_parser/src/combinators.rs :: macro run
//@ end
//@ extract dep:abortable_parser/src/combinators.rs :: macro either
//@ end
//@ extract dep:abortable_parser/src/combinators.rs :: macro do_each
//@ end
//@ extract src/tokenizer/mod.rs :: macro match_token
//@   rule R1
//@ end
//@ extract src/tokenizer/mod.rs :: macro punct
//@ end
//@ extract src/tokenizer/mod.rs :: macro word
//@ end

verus! {
//@ include prelude/core.rs
//@ include prelude/ap_slice.rs

// operands and positions are only moved around here (R5)
//@ opaque Expression Position

// Error<C> stays opaque (prelude/ap_slice.rs, R5); the second constructor the ucg macros use.
impl<C> Error<C> {
    #[verifier::external_body]
    pub fn caused_by<D>(msg: D, cause: Box<Self>, ctx: Box<C>) -> Self { unimplemented!() }
}

// std: `Rc<str>::from(&str)` (the `$f.into()` of match_token!) copies the characters.
pub assume_specification<'a, 'b> [<Rc<str> as From<&'a str>>::from] (s: &'b str) -> (r: Rc<str>)
    ensures r@ == s@;

//@ extract src/ast/mod.rs :: enum BinaryExprType
//@   rule R0
//@ end
//@ extract src/parse/precedence.rs :: enum Element
//@   rule R0
//@ end
// Token, TokenType; the oracle tok_op (operator spelling -> operator, from the language reference); operand_at,
// operand_fails, elem_at, layout - shared with units/prec.unit.rs
//@ include prelude/prec_tokens_spec.rs
//@ extract src/parse/mod.rs :: type ParseResult
//@ end
//@ clone_spec Token
// R0: `#[derive(PartialEq)]` on TokenType (a field-less enum) is assumed structural.
impl PartialEqSpecImpl for TokenType {
    open spec fn obeys_eq_spec() -> bool { true }
    open spec fn eq_spec(&self, other: &TokenType) -> bool { *self == *other }
}
impl PartialEq for TokenType {
    #[verifier::external_body]
    fn eq(&self, other: &TokenType) -> bool { unimplemented!() }
}

//@ extract src/tokenizer/mod.rs :: fn token_clone
//@   ret r
//@   sig <<<
    ensures r == std::result::Result::<Token, Error<SliceIter<'a, Token>>>::Ok(*t)
//@   >>>
//@ end

// operator classes: the same predicates as in units/prec.unit.rs (is_compare_op is written out here)
pub open spec fn is_bool_op(o: BinaryExprType) -> bool { o is AND || o is OR }
pub open spec fn is_dot_op(o: BinaryExprType) -> bool { o is DOT }
pub open spec fn is_math_op(o: BinaryExprType) -> bool { o is Add || o is Sub || o is Mul || o is Div || o is Mod }
pub open spec fn is_compare_op(o: BinaryExprType) -> bool {
    o is Equal || o is NotEqual || o is REMatch || o is NotREMatch || o is LTEqual || o is GTEqual || o is LT || o is GT
    || o is IN || o is IS
}
proof fn lemma_classes_cover(o: BinaryExprType)
    ensures is_dot_op(o) || is_math_op(o) || is_compare_op(o) || is_bool_op(o),
        is_compare_op(o) == (!is_bool_op(o) && !is_dot_op(o) && !is_math_op(o)),
{ }

// the 18 spellings, character by character (so that they are pairwise different strings)
pub open spec fn is1(s: Seq<char>, a: char) -> bool { s.len() == 1 && s[0] == a }
pub open spec fn is2(s: Seq<char>, a: char, b: char) -> bool { s.len() == 2 && s[0] == a && s[1] == b }
pub proof fn lemma_op_spellings()
    ensures
        is1("."@, '.'), is1("+"@, '+'), is1("-"@, '-'), is1("*"@, '*'), is1("/"@, '/'),
        is2("%%"@, '%', '%'), is2("&&"@, '&', '&'), is2("||"@, '|', '|'),
        is2("=="@, '=', '='), is2("!="@, '!', '='), is1("~"@, '~'), is2("!~"@, '!', '~'),
        is2("<="@, '<', '='), is2(">="@, '>', '='), is1("<"@, '<'), is1(">"@, '>'),
        is2("in"@, 'i', 'n'), is2("is"@, 'i', 's'),
{
    reveal_strlit("."); reveal_strlit("+"); reveal_strlit("-"); reveal_strlit("*"); reveal_strlit("/");
    reveal_strlit("%%"); reveal_strlit("&&"); reveal_strlit("||");
    reveal_strlit("=="); reveal_strlit("!="); reveal_strlit("~"); reveal_strlit("!~");
    reveal_strlit("<="); reveal_strlit(">="); reveal_strlit("<"); reveal_strlit(">");
    reveal_strlit("in"); reveal_strlit("is");
}

pub open spec fn takes_tok<'a>(i: SliceIter<'a, Token>, r: Result<SliceIter<'a, Token>, Element>, o: BinaryExprType) -> bool {
    r matches Result::Complete(rest, el) && rest.source == i.source && rest.offset == i.offset + 1 && el == Element::Op(o)
}

// make_fn!(X_op_type<SliceIter<Token>, Element>, either!(do_each!(_ => punct!(..), (Element::Op(..))), ..)) (R10)
//@ extract src/parse/precedence.rs :: make_fn dot_op_type
//@   ret r
//@   sig <<<
    ensures
        (cur_tok_op(i) matches Some(o) && is_dot_op(o)) ==> takes_tok(i, r, cur_tok_op(i)->Some_0),
        !(cur_tok_op(i) matches Some(o) && is_dot_op(o)) ==> r is Fail,
//@   >>>
//@   body_start <<<
    proof { lemma_op_spellings(); }
//@   >>>
//@ end

//@ extract src/parse/precedence.rs :: make_fn math_op_type
//@   ret r
//@   sig <<<
    ensures
        (cur_tok_op(i) matches Some(o) && is_math_op(o)) ==> takes_tok(i, r, cur_tok_op(i)->Some_0),
        !(cur_tok_op(i) matches Some(o) && is_math_op(o)) ==> r is Fail,
//@   >>>
//@   body_start <<<
    proof { lemma_op_spellings(); }
//@   >>>
//@   mutant mod_as_mul "punct!(\"%%\"), (Element::Op(BinaryExprType::Mod))" => "punct!(\"%%\"), (Element::Op(BinaryExprType::Mul))" expect math_op_type
//@   mutant math_drop_sub "do_each!( _ => punct!(\"-\"), (Element::Op(BinaryExprType::Sub)))," => "" expect math_op_type
//@ end

//@ extract src/parse/precedence.rs :: make_fn bool_op_type
//@   ret r
//@   sig <<<
    ensures
        (cur_tok_op(i) matches Some(o) && is_bool_op(o)) ==> takes_tok(i, r, cur_tok_op(i)->Some_0),
        !(cur_tok_op(i) matches Some(o) && is_bool_op(o)) ==> r is Fail,
//@   >>>
//@   body_start <<<
    proof { lemma_op_spellings(); }
//@   >>>
//@ end

//@ extract src/parse/precedence.rs :: make_fn compare_op_type
//@   ret r
//@   sig <<<
    ensures
        (cur_tok_op(i) matches Some(o) && is_compare_op(o)) ==> takes_tok(i, r, cur_tok_op(i)->Some_0),
        !(cur_tok_op(i) matches Some(o) && is_compare_op(o)) ==> r is Fail,
//@   >>>
//@   body_start <<<
    proof { lemma_op_spellings(); }
//@   >>>
//@   mutant lt_gt_swapped "punct!(\"<\"), (Element::Op(BinaryExprType::LT))), do_each!(_ => punct!(\">\"), (Element::Op(BinaryExprType::GT)))" => "punct!(\">\"), (Element::Op(BinaryExprType::LT))), do_each!(_ => punct!(\"<\"), (Element::Op(BinaryExprType::GT)))" expect compare_op_type
//@   mutant in_is_swapped "word!(\"in\"), (Element::Op(BinaryExprType::IN))), do_each!(_ => word!(\"is\"), (Element::Op(BinaryExprType::IS)))" => "word!(\"is\"), (Element::Op(BinaryExprType::IN))), do_each!(_ => word!(\"in\"), (Element::Op(BinaryExprType::IS)))" expect compare_op_type
//@   mutant cmp_drop_notrematch "do_each!(_ => punct!(\"!~\"), (Element::Op(BinaryExprType::NotREMatch)))," => "" expect compare_op_type
//@   mutant in_as_punct "word!(\"in\")" => "punct!(\"in\")" expect compare_op_type
//@ end

// ---------- the operand list ----------
// same text as in units/prec.unit.rs
pub open spec fn wf(s: Seq<Element>) -> bool {
    s.len() % 2 == 1
    && (forall|k: int| 0 <= k < s.len() && k % 2 == 0 ==> s[k] is Expr)
    && (forall|k: int| 0 <= k < s.len() && k % 2 == 1 ==> s[k] is Op)
}

// non_op_expression (src/parse/mod.rs: the whole expression grammar below the operator level) is OUTSIDE this unit
// (R8). ASSUMED only: a Complete result is over the same token slice and consumed at least one token.
// operand_at / operand_fails (prelude/prec_tokens_spec.rs) are uninterpreted NAMES for "may return e for the tokens
// from..to" / "may fail at from": nothing is assumed about which expression comes back, nor determinism.
#[verifier::external_body]
fn non_op_expression<'a>(i: SliceIter<'a, Token>) -> (r: Result<SliceIter<'a, Token>, Expression>)
    ensures
        r matches Result::Complete(rest, e) ==> rest.source == i.source && i.offset < rest.offset <= i.source@.len()
            && operand_at(i.source@, i.offset as int, rest.offset as int, e),
        r is Fail ==> operand_fails(i.source@, i.offset as int),
{ unimplemented!() }

//@ extract src/parse/precedence.rs :: fn parse_operand_list
//   type annotation only (the invariants mention `list@` before rustc has inferred the element type)
//@   subst "let mut list = Vec::new();" => "let mut list: Vec<Element> = Vec::new();"
//@   ret r
//@   sig <<<
    ensures
        r matches Result::Complete(rest, list) ==> ({
            let src = i.source@;
            &&& wf(list@)
            &&& rest.source == i.source && i.offset < rest.offset <= src.len()
            &&& exists|st: Seq<int>| layout(src, list@, st, i.offset as int, rest.offset as int)
            // the list is not cut short: what follows the last operand is not an operator
            &&& cur_tok_op(rest) is None
        }),
        // Fail only if the very FIRST operand fails; a missing operand after an operator is an Abort
        r is Fail ==> operand_fails(i.source@, i.offset as int),
//@   >>>
//@   body_start <<<
    let ghost src = i.source@;
    let ghost mut st: Seq<int> = seq![i.offset as int];   // st[k]: first token of list[k]; st.last(): of the next operand
//@   >>>
//@   loop 1 <<<
        invariant_except_break
            firstrun == (list@.len() == 0),
            list@.len() % 2 == 0,
            layout(src, list@, st, i.offset as int, _i.offset as int),
        invariant
            _i.source == i.source, src == i.source@,
            i.offset <= _i.offset,
            _i.offset <= src.len() || _i.offset == i.offset,
        ensures
            _i.source == i.source,
            i.offset < _i.offset <= src.len(),
            list@.len() % 2 == 1,
            layout(src, list@, st.push(_i.offset as int), i.offset as int, _i.offset as int),
            cur_tok_op(_i) is None,
        decreases src.len() - _i.offset
//@   >>>
//@   loop_body_end 1 <<<
        proof { st = st.push(_i.offset as int - 1).push(_i.offset as int); }
//@   >>>
//@   mutant list_order_swapped "list.push(el);" => "let prev = list.pop().unwrap(); list.push(el); list.push(prev);" expect parse_operand_list
//@   mutant missing_operand_break "let err = Error::new(\"Missing operand for binary expression\", Box::new(_i)); return Result::Abort(err);" => "break;" expect parse_operand_list
//@   mutant missing_operand_fail "return Result::Abort(err);" => "return Result::Fail(err);" expect parse_operand_list
//@   mutant bool_ops_not_tried "compare_op_type, bool_op_type" => "compare_op_type" expect parse_operand_list
//@   mutant operator_not_consumed "list.push(el); _i = rest.clone();" => "list.push(el);" expect parse_operand_list
//@ end

} // verus!

fn main() {}
