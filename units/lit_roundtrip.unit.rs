//@ unit lit_roundtrip
//@ serves C05 C11 C04
//@ must_verify escapequoted escape_quotes is_bareword StrIter::next StrIter::clone OffsetStrIter::next OffsetStrIter::clone verif_chars_nth0 lemma_scan_is_unesc lemma_scan_chars lemma_unesc_valid lemma_roundtrip_step lemma_roundtrip_tail lemma_roundtrip lemma_roundtrip_chars lemma_bareword_shape lemma_ascii_single lemma_nonascii_high
//@ include prelude/head.rs
use vstd::utf8::*;

verus! {
//@ include prelude/core.rs
//@ include prelude/stepper_iter.rs
//@ include prelude/lit_roundtrip_ap.rs

// =====================================================================================================
// UTF-8 facts used below.  Nothing is axiomatised: encode_utf8/decode_utf8/valid_utf8 are vstd::utf8's
// definitions and these three facts are PROVED from them (the monoid-morphism fact is vstd's
// encode_utf8_concat).
// =====================================================================================================
pub open spec fn is_ascii_char(c: char) -> bool { (c as u32) < 0x80 }

// an ASCII char is the single byte < 0x80 with its code
pub proof fn lemma_ascii_single(c: char)
    requires is_ascii_char(c)
    ensures encode_utf8(seq![c]) == seq![c as u8], (c as u8) < 0x80, (c as u8) as u32 == c as u32,
{
    reveal_with_fuel(encode_utf8, 2);
    assert(seq![c].drop_first() =~= Seq::<char>::empty());
    let x = c as u32;
    assert(x < 0x80 ==> (x & 0x7f) as u8 == x as u8) by (bit_vector);
    assert(encode_utf8(seq![c]) =~= seq![c as u8]);
}

proof fn lemma_hi_bytes(x: u32)
    ensures
        leading_byte_width_2(x) >= 0x80, leading_byte_width_3(x) >= 0x80, leading_byte_width_4(x) >= 0x80,
        last_continuation_byte(x) >= 0x80, second_last_continuation_byte(x) >= 0x80, third_last_continuation_byte(x) >= 0x80,
{
    assert(0xC0u8 | (((x >> 6) & 0x1F) as u8) >= 0x80) by (bit_vector);
    assert(0xE0u8 | (((x >> 12) & 0x0F) as u8) >= 0x80) by (bit_vector);
    assert(0xF0u8 | (((x >> 18) & 0x07) as u8) >= 0x80) by (bit_vector);
    assert(0x80u8 | ((x & 0x3F) as u8) >= 0x80) by (bit_vector);
    assert(0x80u8 | (((x >> 6) & 0x3F) as u8) >= 0x80) by (bit_vector);
    assert(0x80u8 | (((x >> 12) & 0x3F) as u8) >= 0x80) by (bit_vector);
}

pub open spec fn all_high(e: Seq<u8>) -> bool { forall|i: int| 0 <= i < e.len() ==> #[trigger] e[i] >= 0x80 }

// every byte of the encoding of a non-ASCII char is >= 0x80 (and there is at least one)
pub proof fn lemma_nonascii_high(c: char)
    requires !is_ascii_char(c)
    ensures all_high(encode_utf8(seq![c])), encode_utf8(seq![c]).len() >= 1,
{
    reveal_with_fuel(encode_utf8, 2);
    assert(seq![c].drop_first() =~= Seq::<char>::empty());
    assert(encode_utf8(seq![c]) =~= encode_scalar(c as u32));
    char_is_scalar(c);
    lemma_hi_bytes(c as u32);
}

pub proof fn lemma_encode_cons(c: char, t: Seq<char>)
    ensures encode_utf8(seq![c] + t) == encode_utf8(seq![c]) + encode_utf8(t)
{
    encode_utf8_concat(seq![c], t);
}

pub proof fn lemma_split_first<T>(t: Seq<T>)
    requires t.len() > 0
    ensures t == seq![t[0]] + t.drop_first()
{
    assert(t =~= seq![t[0]] + t.drop_first());
}

// =====================================================================================================
// Oracle: the reference's string syntax (docsite reference/grammar.md, reference/types.md)
//   str: quot, { escaped | UTF8_CHAR }, quot ;   escaped: "\", VISIBLE_CHAR ;
//   "Character Escapes": \n new line, \r carriage return, \t tab;  "\" escapes any other character to itself.
// =====================================================================================================
pub open spec fn unesc_byte(b: u8) -> u8 {
    if b == b'n' { 0x0Au8 } else if b == b'r' { 0x0Du8 } else if b == b't' { 0x09u8 } else { b }
}

// out: the value bytes decoded so far; close: index of the closing (first unescaped) quote, if any
pub struct Scan { pub out: Seq<u8>, pub close: Option<int> }

pub open spec fn shift(c: Option<int>, n: int) -> Option<int> {
    match c { Some(j) => Some(j + n), None => None }
}
pub open spec fn prepend(pre: Seq<u8>, n: int, r: Scan) -> Scan {
    Scan { out: pre + r.out, close: shift(r.close, n) }
}
pub open spec fn no_close() -> Scan { Scan { out: Seq::<u8>::empty(), close: None } }

// unesc(bs): bs is the text AFTER the opening quote.  Grammar-directed: a quote closes; a backslash takes the
// next byte through the escape table; EVERY other byte (including bytes >= 0x80) is preserved.
pub open spec fn unesc(bs: Seq<u8>) -> Scan
    decreases bs.len()
{
    if bs.len() == 0 {
        no_close()
    } else if bs[0] == b'"' {
        Scan { out: Seq::<u8>::empty(), close: Some(0) }
    } else if bs[0] == b'\\' {
        if bs.len() == 1 { no_close() } else { prepend(seq![unesc_byte(bs[1])], 2, unesc(bs.skip(2))) }
    } else {
        prepend(seq![bs[0]], 1, unesc(bs.skip(1)))
    }
}

// The same scanner with the "previous byte was an unconsumed backslash" flag made explicit (loop-shaped).
pub open spec fn scan(bs: Seq<u8>, esc: bool) -> Scan
    decreases bs.len()
{
    if bs.len() == 0 {
        no_close()
    } else if esc {
        prepend(seq![unesc_byte(bs[0])], 1, scan(bs.skip(1), false))
    } else if bs[0] == b'\\' {
        prepend(Seq::<u8>::empty(), 1, scan(bs.skip(1), true))
    } else if bs[0] == b'"' {
        Scan { out: Seq::<u8>::empty(), close: Some(0) }
    } else {
        prepend(seq![bs[0]], 1, scan(bs.skip(1), false))
    }
}

pub open spec fn scan_eq(a: Scan, b: Scan) -> bool { a.out =~= b.out && a.close == b.close }

pub proof fn lemma_scan_is_unesc(bs: Seq<u8>)
    ensures scan_eq(scan(bs, false), unesc(bs))
    decreases bs.len()
{
    reveal_with_fuel(scan, 2);
    if bs.len() == 0 {
    } else if bs[0] == b'\\' {
        if bs.len() > 1 {
            assert(bs.skip(1).skip(1) =~= bs.skip(2));
            assert(bs.skip(1)[0] == bs[1]);
            lemma_scan_is_unesc(bs.skip(2));
        } else {
            assert(bs.skip(1).len() == 0);
        }
    } else if bs[0] == b'"' {
    } else {
        lemma_scan_is_unesc(bs.skip(1));
    }
}

// ---- scanning a concatenation ----
pub proof fn lemma_scan_one(b: u8, x: Seq<u8>, esc: bool)
    ensures
        esc ==> scan_eq(scan(seq![b] + x, esc), prepend(seq![unesc_byte(b)], 1, scan(x, false))),
        !esc && b == b'\\' ==> scan_eq(scan(seq![b] + x, esc), prepend(Seq::<u8>::empty(), 1, scan(x, true))),
        !esc && b != b'\\' && b != b'"' ==> scan_eq(scan(seq![b] + x, esc), prepend(seq![b], 1, scan(x, false))),
{
    assert((seq![b] + x).skip(1) =~= x);
}

// bytes >= 0x80 are never special: they pass through unchanged whatever the escape flag is
pub proof fn lemma_scan_high(e: Seq<u8>, x: Seq<u8>, esc: bool)
    requires all_high(e), e.len() >= 1
    ensures scan_eq(scan(e + x, esc), prepend(e, e.len() as int, scan(x, false)))
    decreases e.len()
{
    let b = e[0];
    let e1 = e.drop_first();
    assert(e + x =~= seq![b] + (e1 + x));
    lemma_scan_one(b, e1 + x, esc);
    if e1.len() == 0 {
        assert(e1 + x =~= x);
        assert(e =~= seq![b]);
    } else {
        assert(all_high(e1)) by { assert forall|i: int| 0 <= i < e1.len() implies #[trigger] e1[i] >= 0x80 by { assert(e1[i] == e[i + 1]); } }
        lemma_scan_high(e1, x, false);
        assert(seq![b] + e1 =~= e);
    }
}

// =====================================================================================================
// Character-level reading of the same table, and: scanning the UTF-8 of a text byte by byte IS scanning it
// char by char.  This is what makes the decoded bytes valid UTF-8 again.
// =====================================================================================================
pub open spec fn unesc_char(c: char) -> char {
    if c == 'n' { '\n' } else if c == 'r' { '\r' } else if c == 't' { '\t' } else { c }
}
pub open spec fn scan_c(t: Seq<char>, esc: bool) -> Seq<char>
    decreases t.len()
{
    if t.len() == 0 {
        Seq::<char>::empty()
    } else if esc {
        seq![unesc_char(t[0])] + scan_c(t.drop_first(), false)
    } else if t[0] == '\\' {
        scan_c(t.drop_first(), true)
    } else if t[0] == '"' {
        Seq::<char>::empty()
    } else {
        seq![t[0]] + scan_c(t.drop_first(), false)
    }
}

pub proof fn lemma_scan_chars(t: Seq<char>, esc: bool)
    ensures scan(encode_utf8(t), esc).out =~= encode_utf8(scan_c(t, esc))
    decreases t.len()
{
    if t.len() == 0 {
        assert(encode_utf8(t) =~= Seq::<u8>::empty());
    } else {
        let c = t[0];
        let t1 = t.drop_first();
        lemma_split_first(t);
        lemma_encode_cons(c, t1);
        let x = encode_utf8(t1);
        lemma_scan_chars(t1, false);
        lemma_scan_chars(t1, true);
        if is_ascii_char(c) {
            lemma_ascii_single(c);
            lemma_scan_one(c as u8, x, esc);
            if esc {
                let d = unesc_char(c);
                lemma_ascii_single(d);
                lemma_encode_cons(d, scan_c(t1, false));
                assert(d as u8 == unesc_byte(c as u8));
            } else if c == '\\' {
            } else if c == '"' {
                assert(encode_utf8(Seq::<char>::empty()) =~= Seq::<u8>::empty());
            } else {
                lemma_encode_cons(c, scan_c(t1, false));
            }
        } else {
            lemma_nonascii_high(c);
            lemma_scan_high(encode_utf8(seq![c]), x, esc);
            lemma_encode_cons(c, scan_c(t1, false));
            assert(unesc_char(c) == c);
        }
    }
}

// Decoding the escapes of valid UTF-8 text gives valid UTF-8 text (only ASCII bytes are dropped or replaced),
// namely the text obtained by decoding the escapes char by char.
pub proof fn lemma_unesc_valid(rem: Seq<u8>)
    requires valid_utf8(rem)
    ensures
        valid_utf8(scan(rem, false).out),
        decode_utf8(scan(rem, false).out) == scan_c(decode_utf8(rem), false),
        encode_utf8(decode_utf8(scan(rem, false).out)) == scan(rem, false).out,
{
    let t = decode_utf8(rem);
    decode_utf8_encode_utf8(rem);
    lemma_scan_chars(t, false);
    let u = scan_c(t, false);
    encode_utf8_valid_utf8(u);
    encode_utf8_decode_utf8(u);
    assert(scan(rem, false).out == encode_utf8(u));
}

// the accumulated fragment as bytes, whatever container the code uses for it
pub trait FragBytes {
    spec fn fbytes(&self) -> Seq<u8>;
}
impl FragBytes for String {
    open spec fn fbytes(&self) -> Seq<u8> { encode_utf8(self@) }
}
impl FragBytes for Vec<u8> {
    open spec fn fbytes(&self) -> Seq<u8> { self@ }
}

pub open spec fn same_frame(a: OffsetStrIter, b: OffsetStrIter) -> bool {
    a.contained.source == b.contained.source && a.source_file == b.source_file
    && a.line_offset == b.line_offset && a.col_offset == b.col_offset
}

// C11: "A string literal's value is its source text with the documented escapes decoded and everything else --
// including non-ASCII characters -- preserved byte for byte."
//@ extract src/tokenizer/mod.rs :: fn escapequoted
//@   subst "while let Some(&c) = _input.next() {" => "while let Some(c__r) = _input.next() { let c = *c__r;"
//@   ret r
//@   sig <<<
    requires
        wf_osi(input),
        // the iterator stands on a character boundary of its &str (it has just consumed the opening quote)
        valid_utf8(src_bytes(input.contained).skip(input.contained.offset as int)),
    ensures ({
        let bs = src_bytes(input.contained);
        let k = input.contained.offset as int;
        let sc = unesc(bs.skip(k));
        match sc.close {
            // there is an unescaped closing quote at k + j
            Some(j) => r matches Result::Complete(rest, frag)
                // the value: the UTF-8 bytes of the fragment are exactly the decoded source bytes
                && encode_utf8(frag@) == sc.out
                // ... i.e. the fragment is the source text with the escapes decoded char by char
                && frag@ == scan_c(decode_utf8(bs.skip(k)), false)
                // the rest starts right after the closing quote, still reporting its true line/column
                && rest.contained.offset == k + j + 1 && same_frame(rest, input) && wf_osi(rest),
            // no unescaped closing quote: Incomplete, at the end of the input
            None => r matches Result::Incomplete(rest)
                && rest.contained.offset == bs.len() && same_frame(rest, input) && wf_osi(rest),
        }
    })
//@   >>>
//@   before "while let" <<<
    let ghost bs = src_bytes(input.contained);
    let ghost k0 = input.contained.offset as int;
    proof { lemma_scan_is_unesc(bs.skip(k0)); }
//@   >>>
//@   loop 1 <<<
        invariant
            wf_osi(_input), same_frame(_input, input),
            bs == src_bytes(input.contained), k0 == input.contained.offset,
            k0 <= _input.contained.offset <= bs.len(),
            valid_utf8(bs.skip(k0)),
            scan(bs.skip(k0), false).out =~= frag.fbytes() + scan(bs.skip(_input.contained.offset as int), escape).out,
            scan(bs.skip(k0), false).close == shift(scan(bs.skip(_input.contained.offset as int), escape).close, _input.contained.offset - k0),
        ensures
            wf_osi(_input), same_frame(_input, input),
            _input.contained.offset == bs.len(),
            scan(bs.skip(k0), false).close is None,
        decreases bs.len() - _input.contained.offset
//@   >>>
//@   after "let c = *c__r;" <<<
        let ghost p = _input.contained.offset as int - 1;
        proof {
            assert(bs.skip(p)[0] == bs[p]);
            assert(bs.skip(p).skip(1) =~= bs.skip(p + 1));
        }
//@   >>>
//@   before "return" <<<
            proof {
                lemma_unesc_valid(bs.skip(k0));
                lemma_scan_is_unesc(bs.skip(k0));
                assert(scan(bs.skip(p), false).out =~= Seq::<u8>::empty());
                assert(frag.fbytes() =~= scan(bs.skip(k0), false).out);
            }
//@   >>>
//@   mutant tab_is_n "frag.push(b'\\t');" => "frag.push(b'n');" expect escapequoted
//@   mutant quote_ignores_escape "c == b'\"' && !escape" => "c == b'\"'" expect escapequoted
//@   mutant escape_not_reset "frag.push(c); escape = false;" => "frag.push(c);" expect escapequoted
//@   mutant cr_letter "'r' =>" => "'R' =>" expect escapequoted
//@ end

// =====================================================================================================
// Printer side
// =====================================================================================================
pub open spec fn esc_char(c: char) -> Seq<char> {
    if c == '"' { seq!['\\', '"'] } else if c == '\\' { seq!['\\', '\\'] } else { seq![c] }
}
// esc(s): `"` -> `\"`, `\` -> `\\`, everything else unchanged
pub open spec fn esc(s: Seq<char>) -> Seq<char>
    decreases s.len()
{
    if s.len() == 0 { Seq::<char>::empty() } else { esc_char(s[0]) + esc(s.drop_first()) }
}

pub proof fn lemma_esc_push(s: Seq<char>, c: char)
    ensures esc(s.push(c)) =~= esc(s) + esc_char(c)
    decreases s.len()
{
    reveal_with_fuel(esc, 2);
    if s.len() == 0 {
        assert(s.push(c).drop_first() =~= Seq::<char>::empty());
    } else {
        lemma_esc_push(s.drop_first(), c);
        assert(s.push(c).drop_first() =~= s.drop_first().push(c));
    }
}

//@ opaque AstPrinter

//@ extract src/ast/printer/mod.rs :: impl * AstPrinter<'a, W> * :: fn escape_quotes
//@   impl_header impl AstPrinter
//@   ret r
//@   sig <<<
        ensures r@ == esc(s@)
//@   >>>
//@   loop 1 iter it <<<
            invariant
                it.seq() == s@,
                escaped@ == esc(s@.take(it.index as int)),
//@   >>>
//@   before "if c == '\"'" <<<
            proof {
                reveal_strlit("\\\"");
                reveal_strlit("\\\\");
                lemma_esc_push(s@.take(it.index as int), c);
                assert(s@.take(it.index as int).push(c) =~= s@.take(it.index as int + 1));
                assert("\\\""@ =~= seq!['\\', '"']);
                assert("\\\\"@ =~= seq!['\\', '\\']);
            }
//@   >>>
//@   after "escaped.push(c); } }" <<<
        proof { assert(s@.take(s@.len() as int) =~= s@); }
//@   >>>
//@   mutant backslash_single "escaped.push_str(\"\\\\\\\\\");" => "escaped.push_str(\"\\\\\");" expect escape_quotes
//@   mutant quote_unescaped "escaped.push_str(\"\\\\\\\"\");" => "escaped.push_str(\"\\\"\");" expect escape_quotes
//@ end

// ---- print -> tokenize round trip of a string literal / quoted field name, for ALL texts s ----
// Scanning  utf8(esc(s)) ++ tail  decodes exactly utf8(s), consumes exactly utf8(esc(s)), and goes on with tail.
// one printed character: scanning utf8(esc_char(c)) ++ x decodes utf8([c]) and goes on with x
pub proof fn lemma_roundtrip_step(c: char, x: Seq<u8>)
    ensures scan_eq(scan(encode_utf8(esc_char(c)) + x, false),
                    prepend(encode_utf8(seq![c]), encode_utf8(esc_char(c)).len() as int, scan(x, false)))
{
    let h = encode_utf8(esc_char(c));
    if c == '"' || c == '\\' {
        lemma_ascii_single(c);
        lemma_ascii_single('\\');
        lemma_encode_cons('\\', seq![c]);
        assert(esc_char(c) =~= seq!['\\'] + seq![c]);
        let b = c as u8;
        assert(h =~= seq![b'\\', b]);
        assert(h + x =~= seq![b'\\'] + (seq![b] + x));
        lemma_scan_one(b'\\', seq![b] + x, false);
        lemma_scan_one(b, x, true);
    } else if is_ascii_char(c) {
        lemma_ascii_single(c);
        lemma_scan_one(c as u8, x, false);
    } else {
        lemma_nonascii_high(c);
        lemma_scan_high(h, x, false);
    }
}

pub proof fn lemma_prepend_prepend(a: Seq<u8>, n: int, b: Seq<u8>, m: int, r: Scan)
    ensures scan_eq(prepend(a, n, prepend(b, m, r)), prepend(a + b, n + m, r))
{
}

pub proof fn lemma_roundtrip_tail(s: Seq<char>, tail: Seq<u8>)
    ensures scan_eq(scan(encode_utf8(esc(s)) + tail, false),
                    prepend(encode_utf8(s), encode_utf8(esc(s)).len() as int, scan(tail, false)))
    decreases s.len()
{
    if s.len() == 0 {
        assert(encode_utf8(esc(s)) =~= Seq::<u8>::empty());
        assert(encode_utf8(s) =~= Seq::<u8>::empty());
        assert(encode_utf8(esc(s)) + tail =~= tail);
    } else {
        let c = s[0];
        let s1 = s.drop_first();
        lemma_split_first(s);
        lemma_encode_cons(c, s1);
        encode_utf8_concat(esc_char(c), esc(s1));
        lemma_roundtrip_tail(s1, tail);
        let h = encode_utf8(esc_char(c));
        let e1 = encode_utf8(esc(s1));
        let x = e1 + tail;
        assert(encode_utf8(esc(s)) + tail =~= h + x);
        lemma_roundtrip_step(c, x);
        lemma_prepend_prepend(encode_utf8(seq![c]), h.len() as int, encode_utf8(s1), e1.len() as int, scan(tail, false));
    }
}

// C05 (literal layer): what `escape_quotes` writes between quotes is read back by the tokenizer as the same text:
// the decoded bytes are utf8(s), the closing quote found is the one the printer wrote (everything consumed).
pub proof fn lemma_roundtrip(s: Seq<char>)
    ensures
        unesc(encode_utf8(esc(s)) + seq![b'"']).out == encode_utf8(s),
        unesc(encode_utf8(esc(s)) + seq![b'"']).close == Some(encode_utf8(esc(s)).len() as int),
{
    let tail = seq![b'"'];
    lemma_roundtrip_tail(s, tail);
    lemma_scan_is_unesc(encode_utf8(esc(s)) + tail);
    assert(scan(tail, false).out =~= Seq::<u8>::empty());
    assert(encode_utf8(s) + Seq::<u8>::empty() =~= encode_utf8(s));
}

// ... and as text: the fragment `escapequoted` returns for the printed literal is s itself.
pub proof fn lemma_roundtrip_chars(s: Seq<char>)
    ensures scan_c(decode_utf8(encode_utf8(esc(s) + seq!['"'])), false) == s
{
    let printed = esc(s) + seq!['"'];
    encode_utf8_decode_utf8(printed);
    encode_utf8_concat(esc(s), seq!['"']);
    lemma_ascii_single('"');
    lemma_roundtrip(s);
    lemma_scan_is_unesc(encode_utf8(printed));
    lemma_scan_chars(printed, false);
    // encode_utf8 is injective (decode is its left inverse)
    encode_utf8_decode_utf8(scan_c(printed, false));
    encode_utf8_decode_utf8(s);
}

// ---- field names printed bare ----
// reference/grammar.md:  bareword: ASCII_CHAR, { DIGIT | VISIBLE_CHAR | "_" } ;  the tokenizer's BAREWORD is a letter
// followed by symbol characters (letters, digits, '-', '_').
pub open spec fn symbol_char(c: char) -> bool { ascii_alpha(c) || ('0' <= c && c <= '9') || c == '-' || c == '_' }
pub open spec fn bareword_shape(s: Seq<char>) -> bool {
    s.len() > 0 && ascii_alpha(s[0]) && forall|i: int| 0 <= i < s.len() ==> symbol_char(#[trigger] s[i])
}
// what the printer decides to write without quotes
pub open spec fn printed_bare(s: Seq<char>) -> bool {
    s.len() > 0 && ascii_alpha(s[0]) && (forall|i: int| 0 <= i < s.len() ==> (ascii_alpha(#[trigger] s[i]) || s[i] == '_'))
    // NULL has bareword shape but is the EMPTY token for the tokenizer: it must stay quoted
    && s != "NULL"@
}
pub proof fn lemma_bareword_shape(s: Seq<char>)
    requires printed_bare(s)
    ensures bareword_shape(s), forall|i: int| 0 <= i < s.len() ==> is_ascii_char(#[trigger] s[i])
{
}

//@ extract src/ast/printer/mod.rs :: impl * AstPrinter<'a, W> * :: fn is_bareword
//@   impl_header impl AstPrinter
//@   subst "s.chars().nth(0)" => "verif_chars_nth0(s)"
//@   ret r
//@   sig <<<
        ensures r == printed_bare(s@), r ==> bareword_shape(s@)
//@   >>>
//@   loop 1 iter it <<<
            invariant
                it.seq() == s@,
                forall|i: int| 0 <= i < it.index@ ==> (ascii_alpha(#[trigger] s@[i]) || s@[i] == '_'),
//@   >>>
//@   mutant dash_in_bareword "c == '_'" => "c == '-'" expect is_bareword
//@ end

} // verus!

fn main() {}
