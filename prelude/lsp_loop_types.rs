// ---- prelude/lsp_loop_types.rs: serde / serde_json / lsp_types as far as the LSP message loop touches them ----
// (outside verus!; every module opens its own verus! block)
//
// serde: the two derive traits.  `Serialize::json` is WHAT a value serialises to (`#[derive(Serialize)]` makes it a
// function of the value); `DeserializeOwned` is a marker (which JSON documents decode, and to what, is the
// uninterpreted pair `serde_json::readable` / `serde_json::decoded`).
pub mod serde {
    use vstd::prelude::*;
    verus! {
    // serde/src/ser/mod.rs `pub trait Serialize { fn serialize<S: Serializer>(&self, s: S) -> .. }`
    pub trait Serialize {
        spec fn json(&self) -> crate::serde_json::Value;
    }
    impl Serialize for () {
        uninterp spec fn json(&self) -> crate::serde_json::Value;
    }
    impl<T: Serialize> Serialize for Option<T> {
        uninterp spec fn json(&self) -> crate::serde_json::Value;
    }
    impl<T: Serialize> Serialize for Vec<T> {
        uninterp spec fn json(&self) -> crate::serde_json::Value;
    }
    pub mod de {
        // serde/src/de/mod.rs `pub trait DeserializeOwned: for<'de> Deserialize<'de> {}`: every lsp_types parameter
        // struct derives Deserialize
        pub trait DeserializeOwned {}
        impl<T> DeserializeOwned for T {}
    }
    }
}

// serde_json (version pinned by Cargo.lock): `Value` is a JSON document, opaque here.  ASSUMED:
//  * `from_value::<T>(v)` is a deterministic function of the document: Ok(decoded(v)) when the document has T's
//    shape (`readable`), Err otherwise -- it does not panic, whatever the document;
//  * `to_value(t)` does not fail for the lsp_types structs the server sends (derive(Serialize) structs of strings,
//    numbers, vectors and options: no map with non-string keys, the only failure serde_json::to_value has).
pub mod serde_json {
    use vstd::prelude::*;
    verus! {
    // serde_json/src/value/mod.rs `pub enum Value { Null, Bool, Number, String, Array, Object }`
    #[verifier::external_body]
    pub struct Value { _p: u8 }
    // serde_json/src/error.rs `pub struct Error { err: Box<ErrorImpl> }`
    #[verifier::external_body]
    #[derive(Debug)]
    pub struct Error { _p: u8 }
    pub uninterp spec fn readable<T>(v: Value) -> bool;
    pub uninterp spec fn decoded<T>(v: Value) -> T;
    #[verifier::external_body]
    pub fn from_value<T: crate::serde::de::DeserializeOwned>(value: Value) -> (r: Result<T, Error>)
        ensures
            readable::<T>(value) ==> r == Ok::<T, Error>(decoded::<T>(value)),
            !readable::<T>(value) ==> r is Err,
    { unimplemented!() }
    #[verifier::external_body]
    pub fn to_value<T: crate::serde::Serialize>(value: T) -> (r: Result<Value, Error>)
        ensures r == Ok::<Value, Error>(value.json())
    { unimplemented!() }
    }
}

// lsp_types (version pinned by Cargo.lock).  The parameter / result structs are the REAL definitions, extracted
// (R0: attributes, derives and doc comments dropped); the types they only carry along are opaque.
pub mod lsp_types {
    use vstd::prelude::*;
    use crate::serde::Serialize;
    use crate::serde_json::Value;
    verus! {
    // url::Url (url/src/lib.rs `pub struct Url { serialization: String, .. }`): opaque; two Urls are equal iff they are
    // the same value.  lsp_types re-exports it (`pub use url::Url`).
    #[verifier::external_body]
    #[derive(PartialEq, Eq, Hash)]
    pub struct Url { _p: u8 }
    impl Clone for Url {
        #[verifier::external_body]
        fn clone(&self) -> (r: Self) ensures r == *self { unimplemented!() }
    }
    impl Url {
        // url::Url::parse (url/src/lib.rs): some url or an error, a function of the text
        #[verifier::external_body]
        pub fn parse(input: &str) -> (r: Result<Url, ()>) { unimplemented!() }
    }
    // `Hash` and `Eq` of Url both go through the serialisation string (url/src/lib.rs `impl Hash for Url`,
    // `impl PartialEq for Url`), so a HashMap keyed by Url behaves as a map (vstd's key model).  ASSUMED.
    #[verifier::external_body]
    pub broadcast proof fn axiom_url_key_model()
        ensures #[trigger] vstd::std_specs::hash::obeys_key_model::<Url>()
    { }
    // carried along, never looked at by the message loop (lsp-types/src/lib.rs, progress.rs, completion.rs,
    // hover.rs, workspace_symbols.rs, semantic_tokens.rs)
    #[verifier::external_body] pub struct WorkDoneProgressParams { _p: u8 }
    #[verifier::external_body] pub struct PartialResultParams { _p: u8 }
    #[verifier::external_body] pub struct CompletionContext { _p: u8 }
    #[verifier::external_body] pub struct CompletionItem { _p: u8 }
    #[verifier::external_body] pub struct Hover { _p: u8 }
    #[verifier::external_body] pub struct LocationLink { _p: u8 }
    #[verifier::external_body] pub struct SymbolInformation { _p: u8 }
    #[verifier::external_body] pub struct WorkspaceSymbolResponse { _p: u8 }
    #[verifier::external_body] pub struct SemanticTokensResult { _p: u8 }
    #[verifier::external_body] pub struct SemanticToken { _p: u8 }
    #[verifier::external_body] pub struct Diagnostic { _p: u8 }
    // `#[derive(Clone)]` on Diagnostic: structural
    impl Clone for Diagnostic {
        #[verifier::external_body]
        fn clone(&self) -> (r: Self) ensures r == *self { unimplemented!() }
    }

//@ extract dep:lsp-types/src/lib.rs :: struct Position
//@   rule R0
//@ end
//@ extract dep:lsp-types/src/lib.rs :: struct Range
//@   rule R0
//@ end
//@ extract dep:lsp-types/src/lib.rs :: struct Location
//@   rule R0
//@ end
//@ extract dep:lsp-types/src/lib.rs :: struct TextDocumentIdentifier
//@   rule R0
//@ end
//@ extract dep:lsp-types/src/lib.rs :: struct TextDocumentItem
//@   rule R0
//@ end
//@ extract dep:lsp-types/src/lib.rs :: struct VersionedTextDocumentIdentifier
//@   rule R0
//@ end
//@ extract dep:lsp-types/src/lib.rs :: struct TextDocumentPositionParams
//@   rule R0
//@ end
//@ extract dep:lsp-types/src/lib.rs :: struct TextDocumentContentChangeEvent
//@   rule R0
//@ end
//@ extract dep:lsp-types/src/lib.rs :: struct DidOpenTextDocumentParams
//@   rule R0
//@ end
//@ extract dep:lsp-types/src/lib.rs :: struct DidChangeTextDocumentParams
//@   rule R0
//@ end
//@ extract dep:lsp-types/src/lib.rs :: struct DidCloseTextDocumentParams
//@   rule R0
//@ end
//@ extract dep:lsp-types/src/lib.rs :: struct PublishDiagnosticsParams
//@   rule R0
//@ end
//@ extract dep:lsp-types/src/lib.rs :: struct GotoDefinitionParams
//@   rule R0
//@ end
//@ extract dep:lsp-types/src/lib.rs :: enum GotoDefinitionResponse
//@   rule R0
//@ end
//@ extract dep:lsp-types/src/hover.rs :: struct HoverParams
//@   rule R0
//@ end
//@ extract dep:lsp-types/src/completion.rs :: struct CompletionParams
//@   rule R0
//@ end
//@ extract dep:lsp-types/src/completion.rs :: struct CompletionList
//@   rule R0
//@ end
//@ extract dep:lsp-types/src/completion.rs :: enum CompletionResponse
//@   rule R0
//@ end
//@ extract dep:lsp-types/src/workspace_symbols.rs :: struct WorkspaceSymbolParams
//@   rule R0
//@ end
//@ extract dep:lsp-types/src/semantic_tokens.rs :: struct SemanticTokensParams
//@   rule R0
//@ end
//@ extract dep:lsp-types/src/semantic_tokens.rs :: struct SemanticTokens
//@   rule R0
//@ end

    // `#[derive(Serialize)]` of what the server sends.  The published diagnostics are the one payload the contract
    // looks into: it depends on the Vec only through its elements.
    pub uninterp spec fn json_publish(uri: Url, diagnostics: Seq<Diagnostic>, version: Option<i32>) -> Value;
    impl Serialize for PublishDiagnosticsParams {
        open spec fn json(&self) -> Value { json_publish(self.uri, self.diagnostics@, self.version) }
    }
    impl Serialize for Hover { uninterp spec fn json(&self) -> Value; }
    impl Serialize for GotoDefinitionResponse { uninterp spec fn json(&self) -> Value; }
    impl Serialize for CompletionResponse { uninterp spec fn json(&self) -> Value; }
    impl Serialize for SymbolInformation { uninterp spec fn json(&self) -> Value; }
    impl Serialize for SemanticTokens { uninterp spec fn json(&self) -> Value; }
    }

    // lsp-types/src/request.rs: `pub trait Request { type Params: ..; type Result: ..; const METHOD: &'static str; }`
    // (bounds dropped).  The marker types are empty enums in the crate (`pub enum HoverRequest {}`); Verus rejects
    // uninhabited datatypes, so they are unit structs here -- they are never instantiated, only name the impl.
    // The impls (and with them the METHOD strings) are the REAL text.
    pub mod request {
        use vstd::prelude::*;
        use super::*;
        verus! {
        pub trait Request { type Params; type Result; const METHOD: &'static str; }
        pub struct HoverRequest;
        pub struct GotoDefinition;
        pub struct Completion;
        pub struct WorkspaceSymbolRequest;
        pub struct SemanticTokensFullRequest;
//@ extract dep:lsp-types/src/request.rs :: impl Request for HoverRequest
//@ end
//@ extract dep:lsp-types/src/request.rs :: impl Request for GotoDefinition
//@ end
//@ extract dep:lsp-types/src/request.rs :: impl Request for Completion
//@ end
//@ extract dep:lsp-types/src/request.rs :: impl Request for WorkspaceSymbolRequest
//@ end
//@ extract dep:lsp-types/src/request.rs :: impl Request for SemanticTokensFullRequest
//@ end
        // PROVED from the impls above (Verus hides a constant's value outside its module; this exports it): the
        // crate's METHOD constants are the LSP method names the contracts are written in.
        pub broadcast proof fn lemma_request_methods()
            ensures
                #[trigger] HoverRequest::METHOD@ == "textDocument/hover"@,
                GotoDefinition::METHOD@ == "textDocument/definition"@,
                Completion::METHOD@ == "textDocument/completion"@,
                WorkspaceSymbolRequest::METHOD@ == "workspace/symbol"@,
                SemanticTokensFullRequest::METHOD@ == "textDocument/semanticTokens/full"@,
        { }
        }
    }
    // lsp-types/src/notification.rs: `pub trait Notification { type Params: ..; const METHOD: &'static str; }`
    pub mod notification {
        use vstd::prelude::*;
        use super::*;
        verus! {
        pub trait Notification { type Params; const METHOD: &'static str; }
        pub struct Exit;
        pub struct DidOpenTextDocument;
        pub struct DidChangeTextDocument;
        pub struct DidCloseTextDocument;
        pub struct PublishDiagnostics;
//@ extract dep:lsp-types/src/notification.rs :: impl Notification for Exit
//@ end
//@ extract dep:lsp-types/src/notification.rs :: impl Notification for DidOpenTextDocument
//@ end
//@ extract dep:lsp-types/src/notification.rs :: impl Notification for DidChangeTextDocument
//@ end
//@ extract dep:lsp-types/src/notification.rs :: impl Notification for DidCloseTextDocument
//@ end
//@ extract dep:lsp-types/src/notification.rs :: impl Notification for PublishDiagnostics
//@ end
        // PROVED from the impls above (see request::lemma_request_methods)
        pub broadcast proof fn lemma_notification_methods()
            ensures
                #[trigger] Exit::METHOD@ == "exit"@,
                DidOpenTextDocument::METHOD@ == "textDocument/didOpen"@,
                DidChangeTextDocument::METHOD@ == "textDocument/didChange"@,
                DidCloseTextDocument::METHOD@ == "textDocument/didClose"@,
                PublishDiagnostics::METHOD@ == "textDocument/publishDiagnostics"@,
        { }
        }
    }
}
