//@ unit shape_narrow_term
//@ serves C04 C06
//@ must_verify Shape::narrow Shape::narrow_cached Shape::narrow_tuple_shapes_cached Shape::narrow_list_shapes_cached is_list_subset_cached is_tuple_subset_cached lemma_todo_mono lemma_todo_strict bc_todo_mono lemma_pairs_mono lemma_pairs_contains lemma_table_subs lemma_subs_parts verif_find VIter::next
//@ include prelude/head.rs
use std::rc::Rc;
use std::collections::BTreeMap;

// TERMINATION of shape narrowing on all shapes, named (also self-referential) constraints included (C04; fix 22a0f13).
// Measure (prelude/shape_narrow_term.rs): lexicographically
//   1. the number of (constraint name, shape) pairs of the finite universe - sub-shapes of the two arguments and of the
//      symbol-table entries - that are not yet in the memo cache `seen`: strictly smaller at every expansion of a named
//      constraint, because the pair is recorded IN PROGRESS before the expansion and a recorded pair is never expanded again;
//   2. the combined size of the two shapes: strictly smaller at every other recursive call.
// Preconditions / assumptions: no type hole of the universe is bound in the symbol table (then the table is not written;
// bound holes = parameters under inference are outside this unit); `==` on shapes is reflexive (axiom_shape_same_refl);
// the Func/Func and Module/Module arms are cut off (stubs keep the frame). Also proved: the cache is only extended and the
// symbol table is unchanged.
verus! {
//@ include prelude/core.rs
//@ include prelude/constraint_rt_models.rs
//@ include prelude/shape_narrow_models.rs
//@ include prelude/shape_narrow_spec.rs
//@ include prelude/shape_narrow_term.rs

pub open spec fn frame3(st0: SymMap, st1: SymMap, seen0: Seen, seen1: Seen) -> bool {
    st1 == st0 && seen_extends(seen0, seen1)
}

#[verifier::external_body]
fn verif_skip_arm() -> (r: bool) ensures r { true }
#[verifier::external_body]
fn verif_narrow_func_arm(slf: &Shape, l: &FuncShapeDef, r: &FuncShapeDef, symbol_table: &mut BTreeMap<Rc<str>, Shape>, seen: &mut Vec<(Rc<str>, Shape, Shape)>) -> (res: Shape)
    ensures frame3(old(symbol_table)@, final(symbol_table)@, old(seen)@, final(seen)@),
{ unimplemented!() }
#[verifier::external_body]
fn verif_narrow_module_arm(slf: &Shape, l: &ModuleShape, r: &ModuleShape, symbol_table: &mut BTreeMap<Rc<str>, Shape>, seen: &mut Vec<(Rc<str>, Shape, Shape)>) -> (res: Shape)
    ensures frame3(old(symbol_table)@, final(symbol_table)@, old(seen)@, final(seen)@),
{ unimplemented!() }

//@ extract src/ast/mod.rs :: impl Shape :: fn pos
//@   ret r
//@   sig <<<
        decreases *self
//@   >>>
//@ end

//@ extract src/ast/mod.rs :: impl<T> PositionedItem<T> :: fn new
//@ end
//@ extract src/ast/mod.rs :: impl<T> PositionedItem<T> :: fn new_with_pos
//@ end
//@ extract src/ast/mod.rs :: impl<T> PositionedItem<T> :: fn with_pos
//@   rule R4
//@ end
//@ extract src/ast/mod.rs :: impl NarrowedShape :: fn new_with_pos
//@ end
//@ extract src/ast/mod.rs :: impl NarrowedShape :: fn with_pos
//@   rule R4
//@ end
//@ extract src/ast/mod.rs :: impl Shape :: fn with_pos
//@ end
//@ extract src/ast/mod.rs :: impl Shape :: fn type_name
//@ end


//@ extract src/ast/mod.rs :: impl Shape :: fn narrow_cached
//@   rule R1
//@   subst "fn narrow_cached" => "#[verifier::loop_isolation(false)] fn narrow_cached"
//@   subst all <<<
                let compatible: Vec<Shape> = types
                    .iter()
                    .filter(|t| {
//@ ===
                let mut compatible__v: Vec<Shape> = Vec::new(); let it__c = types.as_slice(); let mut i__c: usize = 0; while i__c < it__c.len() { let t = &it__c[i__c]; i__c += 1; let keep__ = {
//@   >>>
//@   subst all <<<
                    })
                    .cloned()
                    .collect();
//@ ===
                    }; if keep__ { compatible__v.push(t.clone()); } } let compatible: Vec<Shape> = compatible__v;
//@   >>>
//@   subst "seen.iter().find(|(name, shape, _)| {" => "verif_find(seen.as_slice(), |e__: &(Rc<str>, Shape, Shape)| -> (b: bool) ensures b == entry_matches(*e__, cref.val@, *other) { let (name, shape, _) = e__;"
//@   subst "(Shape::Func(left_opshape), Shape::Func(right_opshape)) => {" => "(Shape::Func(left_opshape), Shape::Func(right_opshape)) => { if verif_skip_arm() { return verif_narrow_func_arm(self, left_opshape, right_opshape, symbol_table, seen); }"
//@   subst "(Shape::Module(left_opshape), Shape::Module(right_opshape)) => {" => "(Shape::Module(left_opshape), Shape::Module(right_opshape)) => { if verif_skip_arm() { return verif_narrow_module_arm(self, left_opshape, right_opshape, symbol_table, seen); }"
//@   ret r
//@   sig <<<
        requires holes_unbound(old(symbol_table)@, roots2(*self, *right))
        ensures frame3(old(symbol_table)@, final(symbol_table)@, old(seen)@, final(seen)@),
        decreases todo(old(seen)@, old(symbol_table)@, roots2(*self, *right)), sz(*self) + sz(*right), 1nat
//@   >>>
//@   body_start <<<
        broadcast use axiom_rc_str_btree_key, bc_todo_mono, bc_holes_mono;
        proof {
            lemma_cands(*self); lemma_cands(*right); lemma_subs_parts(*self); lemma_subs_parts(*right);
            // both arguments belong to the universe (a hole among them is therefore not bound)
            assert(univ(old(symbol_table)@, roots2(*self, *right)).contains(*self));
            assert(univ(old(symbol_table)@, roots2(*self, *right)).contains(*right));
        }
//@   >>>
// the expansion: the pair has just been recorded (in progress), so one pair fewer is left to expand
//@   before "let result = other.narrow_cached(&expanded" <<<
                    proof {
                        axiom_shape_same_refl(*other);
                        lemma_table_subs(old(symbol_table)@, cref.val);
                        lemma_pairs_contains(old(symbol_table)@, roots2(*self, *right), cref.val, *other);
                        lemma_subs_parts(expanded);
                        assert(entry_matches(seen@[idx as int], cref.val@, *other));
                        lemma_todo_strict(old(seen)@, seen@, old(symbol_table)@, roots2(*self, *right), roots2(*other, expanded), (cref.val@, *other));
                    }
//@   >>>
//@   loop 1 <<<
                    invariant
                        i__c <= it__c@.len(), it__c@ == cands(*self), other == right,
                        forall|j: int| 0 <= j < cands(*self).len() ==> sz(#[trigger] cands(*self)[j]) < sz(*self),
                        forall|j: int| 0 <= j < cands(*self).len() ==> subs(#[trigger] cands(*self)[j]).subset_of(subs(*self)),
                        holes_unbound(symbol_table@, roots2(*self, *right)),
                        frame3(old(symbol_table)@, symbol_table@, old(seen)@, seen@),
                    decreases it__c@.len() - i__c
//@   >>>
//@   loop 2 <<<
                    invariant
                        i__c <= it__c@.len(), it__c@ == cands(*right), other == self,
                        forall|j: int| 0 <= j < cands(*right).len() ==> sz(#[trigger] cands(*right)[j]) < sz(*right),
                        forall|j: int| 0 <= j < cands(*right).len() ==> subs(#[trigger] cands(*right)[j]).subset_of(subs(*right)),
                        holes_unbound(symbol_table@, roots2(*self, *right)),
                        frame3(old(symbol_table)@, symbol_table@, old(seen)@, seen@),
                    decreases it__c@.len() - i__c
//@   >>>
//@   loop 3 <<<
                    invariant false
//@   >>>
//@   loop 4 <<<
                    invariant false
//@   >>>
//@   loop 5 <<<
                    invariant false
//@   >>>
// fix 22a0f13 reverted: the pair is recorded only after the expansion
//@   mutant marker_after_expansion "let result = other.narrow_cached(&expanded, symbol_table, seen); seen[idx].2 = result.clone();" => "seen.pop(); let result = other.narrow_cached(&expanded, symbol_table, seen); seen.push((cref.val.clone(), other.clone(), result.clone()));" expect narrow_cached
//@   mutant cache_not_consulted "return cached.2.clone();" => "" expect narrow_cached
//@   mutant marker_for_wrong_shape "seen.push(( cref.val.clone(), other.clone(), Shape::TypeErr(" => "seen.push(( cref.val.clone(), expanded.clone(), Shape::TypeErr(" expect narrow_cached
//@   mutant candidate_loop_renarrows_self "let result = t.narrow_cached(other, symbol_table, seen);" => "let result = self.narrow_cached(other, symbol_table, seen);" expect narrow_cached
//@ end

//@ extract src/ast/mod.rs :: impl Shape :: fn narrow
//@   ret r
//@   sig <<<
        requires holes_unbound(old(symbol_table)@, roots2(*self, *right))
        ensures final(symbol_table)@ == old(symbol_table)@,
//@   >>>
//@ end

//@ extract src/ast/mod.rs :: impl Shape :: fn narrow_tuple_shapes_cached
//@   subst "left_slist.val.iter()" => "verif_slice_iter(&left_slist.val)"
//@   subst "right_slist.val.iter()" => "verif_slice_iter(&right_slist.val)"
//@   ret r
//@   sig <<<
        requires
            *self == Shape::Tuple(*left_slist), *right == Shape::Tuple(*right_slist),
            holes_unbound(old(symbol_table)@, roots2(*self, *right)),
        ensures frame3(old(symbol_table)@, final(symbol_table)@, old(seen)@, final(seen)@),
        decreases todo(old(seen)@, old(symbol_table)@, roots2(*self, *right)), sz(*self) + sz(*right), 0nat
//@   >>>
//@   body_start <<<
        broadcast use bc_todo_mono, bc_holes_mono;
        proof {
            lemma_sz_tuple_seq(left_slist.val); lemma_sz_tuple_seq(right_slist.val);
            lemma_subs_parts(*self); lemma_subs_parts(*right);
        }
//@   >>>
//@ end

//@ extract src/ast/mod.rs :: impl Shape :: fn narrow_list_shapes_cached
//@   subst "left_types.iter()" => "verif_slice_iter(left_types)"
//@   subst "right_types.iter()" => "verif_slice_iter(right_types)"
//@   ret r
//@   sig <<<
        requires
            *self == Shape::List(*left_slist), *right == Shape::List(*right_slist),
            holes_unbound(old(symbol_table)@, roots2(*self, *right)),
        ensures frame3(old(symbol_table)@, final(symbol_table)@, old(seen)@, final(seen)@),
        decreases todo(old(seen)@, old(symbol_table)@, roots2(*self, *right)), sz(*self) + sz(*right), 0nat
//@   >>>
//@   body_start <<<
        broadcast use bc_todo_mono, bc_holes_mono;
        proof {
            lemma_sz_ns_seq(*left_slist); lemma_sz_ns_seq(*right_slist);
            lemma_subs_parts(*self); lemma_subs_parts(*right);
        }
//@   >>>
//@ end

//@ extract src/ast/mod.rs :: fn is_list_subset_cached
//@   rule R4
//@   subst "fn is_list_subset_cached" => "#[verifier::loop_isolation(false)] #[verifier::allow_complex_invariants] fn is_list_subset_cached"
//@   subst "std::slice::Iter<Shape>" => "VIter<Shape>"
//@   subst "let right_subset = loop" => "let mut r__: bool = true; loop"
//@   subst "break true" => "{ r__ = true; break; }"
//@   subst "break matches" => "{ r__ = matches; break; }"
//@   after_loop 1 <<<
    let right_subset = r__;
//@   >>>
//@   ret r
//@   sig <<<
    requires
        right_iter__in.wf(),
        holes_unbound(old(symbol_table)@, seq_subs(right_iter__in.s@).union(subs_ns(*left_slist))),
    ensures frame3(old(symbol_table)@, final(symbol_table)@, old(seen)@, final(seen)@),
    decreases todo(old(seen)@, old(symbol_table)@, seq_subs(right_iter__in.s@).union(subs_ns(*left_slist))),
        1 + seq_sz(right_iter__in.s@) + sz_ns(*left_slist), 0nat
//@   >>>
//@   body_start <<<
    broadcast use bc_todo_mono, bc_holes_mono;
    let ghost ns0 = *left_slist;
    let ghost roots = seq_subs(right_iter__in.s@).union(subs_ns(ns0));
    proof {
        assert forall|k: int| 0 <= k < right_iter__in.s@.len() implies sz(#[trigger] right_iter__in.s@[k]) <= seq_sz(right_iter__in.s@)
            && subs(right_iter__in.s@[k]).subset_of(roots) by {
            lemma_seq_sz_elem(right_iter__in.s@, k); lemma_seq_subs_elem(right_iter__in.s@, k);
        }
        if ns0.types is Narrowed {
            let v = ns0.types->Narrowed_0;
            assert forall|j: int| 0 <= j < v@.len() implies sz(#[trigger] v@[j]) <= sz_ns(ns0) && subs(v@[j]).subset_of(roots) by {
                lemma_sz_list_elem(v, v@.len(), j); lemma_subs_list_elem(v, v@.len(), j);
            }
        }
    }
//@   >>>
//@   loop 1 <<<
        invariant
            right_iter.wf(), right_iter.s == right_iter__in.s,
            forall|j: int| 0 <= j < left_slist@.len() ==> sz(#[trigger] left_slist@[j]) <= sz_ns(ns0) && subs(left_slist@[j]).subset_of(roots),
            forall|k: int| 0 <= k < right_iter__in.s@.len() ==> sz(#[trigger] right_iter__in.s@[k]) <= seq_sz(right_iter__in.s@)
                && subs(right_iter__in.s@[k]).subset_of(roots),
            holes_unbound(symbol_table@, roots),
            frame3(old(symbol_table)@, symbol_table@, old(seen)@, seen@),
        decreases right_iter.s@.len() - right_iter.i
//@   >>>
//@   loop 2 indexed <<<
            invariant
                i__2 <= it__2@.len(), it__2@ == left_slist@,
                forall|j: int| 0 <= j < left_slist@.len() ==> sz(#[trigger] left_slist@[j]) <= sz_ns(ns0) && subs(left_slist@[j]).subset_of(roots),
                sz(*ls) <= seq_sz(right_iter__in.s@), subs(*ls).subset_of(roots),
                holes_unbound(symbol_table@, roots),
                frame3(old(symbol_table)@, symbol_table@, old(seen)@, seen@),
            decreases it__2@.len() - i__2
//@   >>>
//@ end

//@ extract src/ast/mod.rs :: fn is_tuple_subset_cached
//@   rule R4
//@   subst "fn is_tuple_subset_cached" => "#[verifier::loop_isolation(false)] #[verifier::allow_complex_invariants] fn is_tuple_subset_cached"
//@   subst "std::slice::Iter<(PositionedItem<Rc<str>>, Shape)>" => "VIter<(PositionedItem<Rc<str>>, Shape)>"
//@   subst "break false" => "{ r__ = false; break; }"
//@   subst "break true" => "{ r__ = true; break; }"
//@   after_loop 1 <<<
    r__
//@   >>>
//@   ret r
//@   sig <<<
    requires
        left_iter__in.wf(),
        holes_unbound(old(symbol_table)@, fields_subs(left_iter__in.s@).union(subs_fields(right_slist.val, right_slist.val@.len() as nat))),
    ensures frame3(old(symbol_table)@, final(symbol_table)@, old(seen)@, final(seen)@),
    decreases todo(old(seen)@, old(symbol_table)@, fields_subs(left_iter__in.s@).union(subs_fields(right_slist.val, right_slist.val@.len() as nat))),
        1 + fields_sz(left_iter__in.s@) + sz_fields(right_slist.val, right_slist.val@.len() as nat), 0nat
//@   >>>
//@   body_start <<<
    broadcast use bc_todo_mono, bc_holes_mono;
    let mut r__: bool = true;
    let ghost rf = right_slist.val@;
    let ghost roots = fields_subs(left_iter__in.s@).union(subs_fields(right_slist.val, rf.len()));
    proof {
        assert forall|k: int| 0 <= k < left_iter__in.s@.len() implies sz((#[trigger] left_iter__in.s@[k]).1) <= fields_sz(left_iter__in.s@)
            && subs(left_iter__in.s@[k].1).subset_of(roots) by {
            lemma_fields_sz_elem(left_iter__in.s@, k); lemma_fields_subs_elem(left_iter__in.s@, k);
        }
        assert forall|j: int| 0 <= j < rf.len() implies sz((#[trigger] rf[j]).1) <= sz_fields(right_slist.val, rf.len())
            && subs(rf[j].1).subset_of(roots) by {
            lemma_sz_fields_elem(right_slist.val, rf.len(), j); lemma_subs_fields_elem(right_slist.val, rf.len(), j);
        }
    }
//@   >>>
//@   loop 1 <<<
        invariant
            left_iter.wf(), left_iter.s == left_iter__in.s,
            rf == right_slist.val@, roots == fields_subs(left_iter__in.s@).union(subs_fields(right_slist.val, rf.len())),
            forall|k: int| 0 <= k < left_iter__in.s@.len() ==> sz((#[trigger] left_iter__in.s@[k]).1) <= fields_sz(left_iter__in.s@)
                && subs(left_iter__in.s@[k].1).subset_of(roots),
            forall|j: int| 0 <= j < rf.len() ==> sz((#[trigger] rf[j]).1) <= sz_fields(right_slist.val, rf.len())
                && subs(rf[j].1).subset_of(roots),
            holes_unbound(symbol_table@, roots),
            frame3(old(symbol_table)@, symbol_table@, old(seen)@, seen@),
        decreases left_iter.s@.len() - left_iter.i
//@   >>>
//@   loop 2 indexed <<<
                invariant
                    i__2 <= it__2@.len(), it__2@ == rf, rf == right_slist.val@,
                    roots == fields_subs(left_iter__in.s@).union(subs_fields(right_slist.val, rf.len())),
                    forall|j: int| 0 <= j < rf.len() ==> sz((#[trigger] rf[j]).1) <= sz_fields(right_slist.val, rf.len())
                        && subs(rf[j].1).subset_of(roots),
                    sz(*ls) <= fields_sz(left_iter__in.s@), subs(*ls).subset_of(roots),
                    holes_unbound(symbol_table@, roots),
                    frame3(old(symbol_table)@, symbol_table@, old(seen)@, seen@),
                decreases it__2@.len() - i__2
//@   >>>
//@ end

} // verus!

fn main() {}
