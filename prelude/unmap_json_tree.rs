// ---- prelude/unmap_json_tree.rs: the abstract data tree `D` of C15 and the tree a ucg `Val` denotes (inside verus!) ----
// needs: `enum Val` (src/build/ir.rs, extracted) and `use std::rc::Rc;` before it.

// ---------- the oracle: the abstract data tree a document denotes (what an independent decoder reads) ----------
// Integers are MATHEMATICAL integers (a decoder such as python's json reads 18446744073709551615 as that
// integer); lists keep order and length; an object is the sequence of its (key, value) members in the order
// the format value presents them.  `NotData` is the image of the two Val variants no document denotes.
pub enum D {
    Null,
    Bool(bool),
    Int(int),
    Float(f64),
    Str(Seq<char>),
    List(Seq<D>),
    Obj(Seq<(Seq<char>, D)>),
    NotData,
}

// data(val): the data tree a ucg value denotes. Whole-view: nothing of the value is left out, so
// `data(r) == view(input)` pins every node of the result.
pub open spec fn data(v: Val) -> D
    decreases v
{
    match v {
        Val::Empty => D::Null,
        Val::Boolean(b) => D::Bool(b),
        Val::Int(i) => D::Int(i as int),
        Val::Float(f) => D::Float(f),
        Val::Str(s) => D::Str(s@),
        Val::List(l) => D::List(Seq::new(l@.len(), |k: int| if 0 <= k < l@.len() { data(*l@[k]) } else { D::NotData })),
        Val::Tuple(fs) => D::Obj(Seq::new(fs@.len(), |k: int| if 0 <= k < fs@.len() { (fs@[k].0@, data(*fs@[k].1)) } else { (Seq::<char>::empty(), D::NotData) })),
        Val::Env(_) => D::NotData,
        Val::Constraint(_) => D::NotData,
    }
}

// ucg's Int is an i64: a tree can be bound to a ucg value iff every integer in it fits.
pub open spec fn fits_i64(x: int) -> bool { i64::MIN <= x <= i64::MAX }
pub open spec fn representable(d: D) -> bool
    decreases d
{
    match d {
        D::Int(x) => fits_i64(x),
        D::List(l) => forall|k: int| 0 <= k < l.len() ==> representable(#[trigger] l[k]),
        D::Obj(m) => forall|k: int| 0 <= k < m.len() ==> representable((#[trigger] m[k]).1),
        D::NotData => false,
        _ => true,
    }
}

